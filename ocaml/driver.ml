(* Correspondence driver: reads the Go harness's case lines on stdin, runs the
   extracted Coq model (Model) on the same inputs, compares with the
   implementation's observation, evaluates the extracted boolean spec
   predicates on the implementation's observation, prints one verdict per line:
     V <engine> <id> <ok|diff|specfail> <tag> [| detail]
   Hand-written glue (trusted): hex/decimal conversion, md5 canonicalisation. *)
open Model

let rec pos_of_int n = if n = 1 then XH else if n land 1 = 1 then XI (pos_of_int (n lsr 1)) else XO (pos_of_int (n lsr 1))
let z_of_int n = if n = 0 then Z0 else if n > 0 then Zpos (pos_of_int n) else Zneg (pos_of_int (-n))
let rec int_of_pos = function XH -> 1 | XO p -> 2 * int_of_pos p | XI p -> 2 * int_of_pos p + 1
let int_of_z = function Z0 -> 0 | Zpos p -> int_of_pos p | Zneg p -> - (int_of_pos p)

let bytes_tab = Array.init 256 z_of_int

let hexval c = match c with
  | '0'..'9' -> Char.code c - 48 | 'a'..'f' -> Char.code c - 87 | 'A'..'F' -> Char.code c - 55
  | _ -> failwith "hex"

(* "hex", "-", or "hex*count:seed" *)
let bytes_of_token (s : string) : z list =
  let pre, fill =
    match String.index_opt s '*' with
    | None -> s, None
    | Some i -> String.sub s 0 i, Some (String.sub s (i+1) (String.length s - i - 1)) in
  let pre = if pre = "-" then "" else pre in
  let n = String.length pre / 2 in
  let tail = match fill with
    | None -> []
    | Some f ->
      let j = String.index f ':' in
      let cnt = int_of_string (String.sub f 0 j) and seed = int_of_string (String.sub f (j+1) (String.length f - j - 1)) in
      List.init cnt (fun i -> bytes_tab.((seed + i*31) land 0xff)) in
  let rec go i acc = if i < 0 then acc else go (i-1) (bytes_tab.(hexval pre.[2*i] * 16 + hexval pre.[2*i+1]) :: acc) in
  go (n-1) tail

let string_of_bytes (l : z list) : string =
  let b = Buffer.create 64 in
  List.iter (fun z -> Buffer.add_char b (Char.chr ((int_of_z z) land 0xff))) l; Buffer.contents b

let hex_of_string s =
  let b = Buffer.create (2 * String.length s) in
  String.iter (fun c -> Buffer.add_string b (Printf.sprintf "%02x" (Char.code c))) s; Buffer.contents b

(* same canonicalisation as the harness's hxo *)
let enc_out (l : z list) : string =
  let s = string_of_bytes l in
  if String.length s = 0 then "-"
  else if String.length s > 2048 then Printf.sprintf "#%d:%s" (String.length s) (Digest.to_hex (Digest.string s))
  else hex_of_string s

let verdict eng id v tag detail =
  if detail = "" then Printf.printf "V %s %s %s %s\n" eng id v tag
  else Printf.printf "V %s %s %s %s | %s\n" eng id v tag detail

let res_str f = function Ok a -> f a | Err e -> "err" ^ string_of_int (int_of_z e) | Panic -> "PANIC" | OutOfFuel -> "OUTOFFUEL"

let split_arrow toks =
  let rec go acc = function [] -> (List.rev acc, []) | "=>" :: r -> (List.rev acc, r) | x :: r -> go (x :: acc) r in
  go [] toks

(* ---- engine reply ----
   reply <id> <proto> <qhex> <kind> <upspec> => <nreplies> <replyenc> <closed> <upsaw> *)
let full_bytes tok = if String.length tok > 0 && tok.[0] = '#' then None else Some (bytes_of_token tok)

let do_reply id ins outs =
  match ins, outs with
  | [proto; qh; kind; upspec; adv], [nrep; rep; closed; saw; replen; head] ->
    let q = bytes_of_token qh in
    let up = bytes_of_token upspec in
    let o = (match kind with "up" -> Up up | "empty" -> UpEmpty | _ -> UpErr) in
    let pr = if proto = "udp" then UDP else TCP in
    let model = serve pr q o in
    let pq = parse q in
    let tag = Printf.sprintf "%s/%s%s" proto kind
        (match pq with Ok (_, true) -> "" | Ok (_, false) -> "/perr" | _ -> "/abn") in
    let tag = if List.length q <= 14 then tag ^ "/small" else tag in
    let problems = ref [] in
    let specs = ref [] in
    let advn = int_of_string adv and n = int_of_string replen in
    (match model with
     | Ok (Reply b) ->
       let mrep = enc_out b in
       if nrep <> "1" then problems := ("replies=" ^ nrep) :: !problems;
       if rep <> mrep then problems := Printf.sprintf "reply impl=%s model=%s" rep mrep :: !problems;
       let msaw = res_str enc_out (upstream_payload q) in
       if saw <> msaw then problems := Printf.sprintf "upsaw impl=%s model=%s" saw msaw :: !problems;
       (* extracted boolean specs on the implementation's own observation *)
       if nrep <> "1" then begin
         (* a datagram >14 bytes / a framed message must be answered: C02; for a query the
            generator built well-formed (adv >= -1) also C01 *)
         specs := "C02" :: !specs; if advn >= -1 then specs := "C01" :: !specs
       end else begin
         (match full_bytes rep with
          | Some rb -> if advn >= -1 && not (c01_ok pr q o rb) then specs := "C01" :: !specs
          | None -> ());
         let hd = bytes_of_token head in
         let r = List.length up in
         if kind = "up" && advn >= -1 && r >= 15 then begin
           let m = if advn < 0 then 512 else advn in
           if proto = "udp" then begin
             if not (c05_udp_ok (z_of_int m) (z_of_int r) (z_of_int n) (tc_bit hd) (tc_bit up)) then specs := "C05" :: !specs
           end else begin
             let pre = (match hd with a :: b :: _ -> int_of_z a * 256 + int_of_z b | _ -> -1) in
             if not (c05_tcp_ok (z_of_int r) (z_of_int pre) (z_of_int n)) then specs := "C05" :: !specs
           end
         end;
         (match full_bytes saw with
          | Some sb when saw <> "none" -> if not (c13_ok q sb) then specs := "C13" :: !specs
          | _ -> ())
       end
     | Ok Silence -> if nrep <> "0" then problems := ("expected silence, replies=" ^ nrep) :: !problems
     | Ok CloseConn -> if nrep <> "0" || closed <> "1" then problems := Printf.sprintf "expected close without reply, replies=%s closed=%s" nrep closed :: !problems
     | _ -> problems := ("model abnormal: " ^ res_str (fun _ -> "") model) :: !problems);
    let detail = String.concat "; " !problems in
    if !specs <> [] then verdict "reply" id ("spec:" ^ String.concat "," !specs) tag detail
    else if !problems = [] then verdict "reply" id "ok" tag ""
    else verdict "reply" id "diff" tag detail
  | _ -> verdict "reply" id "diff" "malformed-line" ""

(* ---- engine query ----
   query <id> <payloadhex> => <ok|err|PANIC|TIMEOUT> id class type rd msgsize namehex peerhex mac payloadenc *)
let do_query id ins outs =
  match ins with
  | [ph] ->
    let payload = bytes_of_token ph in
    let m = parse payload in
    let ms = (match m with
      | Ok (q, okflag) ->
        String.concat " " [ (if okflag then "ok" else "err");
          string_of_int (int_of_z q.q_id); string_of_int (int_of_z q.q_class); string_of_int (int_of_z q.q_type);
          (if q.q_rd then "1" else "0"); string_of_int (int_of_z q.q_msgsize);
          (match q.q_name with [] -> "-" | n -> hex_of_string (string_of_bytes n));
          (match q.q_peer with None -> "7f000009" | Some ip -> (match ip with [] -> "-" | _ -> hex_of_string (string_of_bytes ip)));
          (match q.q_mac with None -> "none" | Some [] -> "-" | Some mac -> hex_of_string (string_of_bytes mac));
          enc_out q.q_payload ]
      | Err _ -> "MODEL-ERR" | Panic -> "PANIC" | OutOfFuel -> "OUTOFFUEL") in
    let is = String.concat " " outs in
    let tag = (match m with Ok (q, true) ->
                 (if q.q_peer <> None then "ok+ecs" else if q.q_msgsize <> z_of_int 512 || q.q_mac <> None then "ok+opt" else "ok")
               | Ok (_, false) -> "perr" | _ -> "abnormal") in
    let specs = ref [] in
    (match outs with ("PANIC" | "TIMEOUT") :: _ -> specs := ["C02"] | _ -> ());
    if !specs <> [] then verdict "query" id "spec:C02" tag (Printf.sprintf "impl=%s model=%s" is ms)
    else if is = ms then verdict "query" id "ok" tag ""
    else verdict "query" id "diff" tag (Printf.sprintf "impl=%s model=%s" is ms)
  | _ -> verdict "query" id "diff" "malformed-line" ""

(* ---- engine forwarder ----
   fwd <id> <n> (<"-"|d<domhex>> <upid>)*n <qnamehex> => <saw list> <ok> *)
let do_fwd id ins outs =
  match ins with
  | nstr :: rest ->
    let n = int_of_string nstr in
    let rec take k l acc = if k = 0 then (List.rev acc, l) else
        (match l with d :: u :: r -> take (k-1) r ((d, int_of_string u) :: acc) | _ -> failwith "fwd line") in
    let (fl, rest') = take n rest [] in
    let qname = bytes_of_token (List.hd rest') in
    let dom_of d = if d = "-" then None else Some (bytes_of_token (String.sub d 1 (String.length d - 1))) in
    let fs = List.fold_left (fun acc (d, u) -> fwd_set acc (new_fwd (dom_of d) (z_of_int u))) [] fl in
    let model = String.concat "," (List.map (fun z -> string_of_int (int_of_z z)) (fwd_resolve fs qname)) in
    (* spec over label lists: the configured entries in their final order (after Set's replacement) *)
    let sfs = List.map (fun f -> ((match f.f_domain with [] -> None | d -> Some (split_dots d [])), f.f_up)) fs in
    let spec = string_of_int (int_of_z (spec_get sfs (split_dots qname []))) in
    let impl = List.hd outs in
    let tag = (if model = "0" then "default" else "fwd") ^ (if List.exists (fun (d,_) -> d = "-") fl then "+nodomain" else "") in
    if impl <> spec then verdict "fwd" id "spec:C10" tag (Printf.sprintf "impl=%s spec=%s model=%s" impl spec model)
    else if impl <> model then verdict "fwd" id "diff" tag (Printf.sprintf "impl=%s model=%s" impl model)
    else verdict "fwd" id "ok" tag ""
  | _ -> verdict "fwd" id "diff" "malformed-line" ""

(* ---- engine profile ----
   prof <id> <n> (<entry> <idhex>)*n <src> <dst> <mac> => <gothex> *)
let do_prof id ins outs =
  match ins with
  | nstr :: rest ->
    let n = int_of_string nstr in
    let rec take k l acc = if k = 0 then (List.rev acc, l) else
        (match l with e :: i :: r -> take (k-1) r ((e, i) :: acc) | _ -> failwith "prof line") in
    let (el, rest') = take n rest [] in
    let mk (e, i) =
      let pid = bytes_of_token i in
      let body = String.sub e 1 (String.length e - 1) in
      match e.[0] with
      | 'D' -> { pr_id = pid; pr_prefix = None; pr_mac = []; pr_dest = [] }
      | 'P' -> let j = String.index body '/' in
        let ip = bytes_of_token (String.sub body 0 j) and bits = int_of_string (String.sub body (j+1) (String.length body - j - 1)) in
        { pr_id = pid; pr_prefix = Some { c_ip = ip; c_bits = z_of_int bits }; pr_mac = []; pr_dest = [] }
      | 'M' -> { pr_id = pid; pr_prefix = None; pr_mac = bytes_of_token body; pr_dest = [] }
      | _ -> let ips = if body = "" then [] else List.map bytes_of_token (String.split_on_char ',' body) in
        { pr_id = pid; pr_prefix = None; pr_mac = []; pr_dest = ips } in
    let ps = List.fold_left (fun acc x -> pset acc (mk x)) [] el in
    (match rest' with
     | [src; dst; mac] ->
       let o s = if s = "nil" then None else Some (bytes_of_token s) in
       let c = { cl_src = o src; cl_dst = o dst; cl_mac = (if mac = "nil" then [] else bytes_of_token mac) } in
       let enc l = (match l with [] -> "-" | _ -> hex_of_string (string_of_bytes l)) in
       let model = enc (pget ps c) and spec = enc (pget_spec ps c) in
       let impl = List.hd outs in
       let tag = if model = "-" then "none" else "some" in
       if impl <> spec then verdict "prof" id "spec:C11" tag (Printf.sprintf "impl=%s spec=%s model=%s" impl spec model)
       else if impl <> model then verdict "prof" id "diff" tag (Printf.sprintf "impl=%s model=%s" impl model)
       else verdict "prof" id "ok" tag ""
     | _ -> verdict "prof" id "diff" "malformed-line" "")
  | _ -> verdict "prof" id "diff" "malformed-line" ""

let () =
  try
    while true do
      let line = input_line stdin in
      let toks = String.split_on_char ' ' line in
      match toks with
      | "reply" :: id :: rest -> let (i, o) = split_arrow rest in do_reply id i o
      | "query" :: id :: rest -> let (i, o) = split_arrow rest in do_query id i o
      | "fwd" :: id :: rest -> let (i, o) = split_arrow rest in do_fwd id i o
      | "prof" :: id :: rest -> let (i, o) = split_arrow rest in do_prof id i o
      | _ -> ()
    done
  with End_of_file -> ()
