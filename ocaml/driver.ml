(* Correspondence driver: reads the Go harness's case lines on stdin, runs the
   extracted Coq model (Model) on the same inputs, compares with the
   implementation's observation, evaluates the extracted boolean spec
   predicates on the implementation's observation, prints one verdict per line:
     V <engine> <id> <ok|diff|specfail> <tag> [| detail]
   Hand-written glue (trusted): hex/decimal conversion, md5 canonicalisation. *)
open Model
type string = Stdlib.String.t   (* Model exports Coq's string type (text constants of Router.v) *)

let rec pos_of_int n = if n = 1 then XH else if n land 1 = 1 then XI (pos_of_int (n lsr 1)) else XO (pos_of_int (n lsr 1))
let z_of_int n = if n = 0 then Z0 else if n > 0 then Zpos (pos_of_int n) else Zneg (pos_of_int (-n))
let rec int_of_pos = function XH -> 1 | XO p -> 2 * int_of_pos p | XI p -> 2 * int_of_pos p + 1
let int_of_z = function Z0 -> 0 | Zpos p -> int_of_pos p | Zneg p -> - (int_of_pos p)

let bytes_tab = Array.init 256 z_of_int

let hexval c = match c with
  | '0'..'9' -> Char.code c - 48 | 'a'..'f' -> Char.code c - 87 | 'A'..'F' -> Char.code c - 55
  | _ -> failwith "hex"

(* "hex", "-", or "hex*count:seed" *)
let bytes_of_token (s : string) : z list =
  let pre, fill =
    match String.index_opt s '*' with
    | None -> s, None
    | Some i -> String.sub s 0 i, Some (String.sub s (i+1) (String.length s - i - 1)) in
  let pre = if pre = "-" then "" else pre in
  let n = String.length pre / 2 in
  let tail = match fill with
    | None -> []
    | Some f ->
      let j = String.index f ':' in
      let cnt = int_of_string (String.sub f 0 j) and seed = int_of_string (String.sub f (j+1) (String.length f - j - 1)) in
      List.init cnt (fun i -> bytes_tab.((seed + i*31) land 0xff)) in
  let rec go i acc = if i < 0 then acc else go (i-1) (bytes_tab.(hexval pre.[2*i] * 16 + hexval pre.[2*i+1]) :: acc) in
  go (n-1) tail

let string_of_bytes (l : z list) : string =
  let b = Buffer.create 64 in
  List.iter (fun z -> Buffer.add_char b (Char.chr ((int_of_z z) land 0xff))) l; Buffer.contents b

let hex_of_string s =
  let b = Buffer.create (2 * String.length s) in
  String.iter (fun c -> Buffer.add_string b (Printf.sprintf "%02x" (Char.code c))) s; Buffer.contents b

(* same canonicalisation as the harness's hxo *)
let enc_out (l : z list) : string =
  let s = string_of_bytes l in
  if String.length s = 0 then "-"
  else if String.length s > 2048 then Printf.sprintf "#%d:%s" (String.length s) (Digest.to_hex (Digest.string s))
  else hex_of_string s

let verdict eng id v tag detail =
  if detail = "" then Printf.printf "V %s %s %s %s\n" eng id v tag
  else Printf.printf "V %s %s %s %s | %s\n" eng id v tag detail

let res_str f = function Ok a -> f a | Err e -> "err" ^ string_of_int (int_of_z e) | Panic -> "PANIC" | OutOfFuel -> "OUTOFFUEL"

let split_arrow toks =
  let rec go acc = function [] -> (List.rev acc, []) | "=>" :: r -> (List.rev acc, r) | x :: r -> go (x :: acc) r in
  go [] toks

(* ---- engine reply ----
   reply <id> <proto> <qhex> <kind> <upspec> => <nreplies> <replyenc> <closed> <upsaw> *)
let full_bytes tok = if String.length tok > 0 && tok.[0] = '#' then None else Some (bytes_of_token tok)

let do_reply id ins outs =
  match ins, outs with
  | [proto; qh; kind; upspec; adv], [nrep; rep; closed; saw; replen; head] ->
    let q = bytes_of_token qh in
    let up = bytes_of_token upspec in
    let o = (match kind with "up" -> Up up | "empty" -> UpEmpty | _ -> UpErr) in
    let pr = if proto = "udp" then UDP else TCP in
    let model = serve pr q o in
    let pq = parse q in
    let tag = Printf.sprintf "%s/%s%s" proto kind
        (match pq with Ok (_, true) -> "" | Ok (_, false) -> "/perr" | _ -> "/abn") in
    let tag = if List.length q <= 14 then tag ^ "/small" else tag in
    let problems = ref [] in
    let specs = ref [] in
    let advn = int_of_string adv and n = int_of_string replen in
    (match model with
     | Ok (Reply b) ->
       let mrep = enc_out b in
       if nrep <> "1" then problems := ("replies=" ^ nrep) :: !problems;
       if rep <> mrep then problems := Printf.sprintf "reply impl=%s model=%s" rep mrep :: !problems;
       let msaw = res_str enc_out (upstream_payload q) in
       if saw <> msaw then problems := Printf.sprintf "upsaw impl=%s model=%s" saw msaw :: !problems;
       (* extracted boolean specs on the implementation's own observation *)
       if nrep <> "1" then begin
         (* a datagram >14 bytes / a framed message must be answered: C02; for a query the
            generator built well-formed (adv >= -1) also C01 *)
         specs := "C02" :: !specs; if advn >= -1 then specs := "C01" :: !specs
       end else begin
         (match full_bytes rep with
          | Some rb -> if advn >= -1 && not (c01_ok pr q o rb) then specs := "C01" :: !specs
          | None -> ());
         let hd = bytes_of_token head in
         let r = List.length up in
         if kind = "up" && advn >= -1 && r >= 15 then begin
           let m = if advn < 0 then 512 else advn in
           if proto = "udp" then begin
             if not (c05_udp_ok (z_of_int m) (z_of_int r) (z_of_int n) (tc_bit hd) (tc_bit up)) then specs := "C05" :: !specs
           end else begin
             let pre = (match hd with a :: b :: _ -> int_of_z a * 256 + int_of_z b | _ -> -1) in
             if not (c05_tcp_ok (z_of_int r) (z_of_int pre) (z_of_int n)) then specs := "C05" :: !specs
           end
         end;
         (match full_bytes saw with
          | Some sb when saw <> "none" -> if not (c13_ok q sb) then specs := "C13" :: !specs
          | _ -> ())
       end
     | Ok Silence -> if nrep <> "0" then problems := ("expected silence, replies=" ^ nrep) :: !problems
     | Ok CloseConn -> if nrep <> "0" || closed <> "1" then problems := Printf.sprintf "expected close without reply, replies=%s closed=%s" nrep closed :: !problems
     | _ -> problems := ("model abnormal: " ^ res_str (fun _ -> "") model) :: !problems);
    let detail = String.concat "; " !problems in
    if !specs <> [] then verdict "reply" id ("spec:" ^ String.concat "," !specs) tag detail
    else if !problems = [] then verdict "reply" id "ok" tag ""
    else verdict "reply" id "diff" tag detail
  | _ -> verdict "reply" id "diff" "malformed-line" ""

(* ---- engine resolver, mode e2e ----  e2e <id> <proto> <qhex> <expectedhex> => <nrep> <rephex>
   real proxy + real resolver with the response cache on: the reply must be the message the upstream gives for
   this very question (ID of this query, TTL possibly aged, never raised), judged by the extracted c01_ok *)
let do_e2e id ins outs =
  match ins, outs with
  | [proto; qh; eh; prof], [nrep; rep; saw] ->
    let q = bytes_of_token qh and exp = bytes_of_token eh in
    let pr = if proto = "udp" then UDP else TCP in
    let tag = "e2e/" ^ proto in
    if nrep <> "1" then verdict "e2e" id "spec:C01" tag (Printf.sprintf "%s replies to one well-formed query" nrep)
    else if saw <> "-" && saw <> prof then
      (* the answer was fetched (or cached) under another client's profile *)
      verdict "e2e" id "spec:C11,C06,C01" tag (Printf.sprintf "a client under profile e%s was given the answer of profile e%s: reply=%s" prof saw rep)
    else (match full_bytes rep with
      | None -> verdict "e2e" id "diff" tag "reply too long to compare"
      | Some rb ->
        let body = (match pr, rb with TCP, _ :: _ :: r -> r | _, r -> r) in
        (* the TTL of the single answer record sits 6 bytes after the question *)
        (* end of the question section (the query may carry an OPT record after it) *)
        let qa = Array.of_list (List.map int_of_z q) in
        let rec qe o = if o >= Array.length qa || qa.(o) = 0 then o + 5 else qe (o + 1 + qa.(o)) in
        let qlen = min (qe 12) (Array.length qa) in
        let toff = qlen + 6 in
        let nth l i = int_of_z (List.nth l i) in
        let ttl_of l = if List.length l >= toff + 4 then Some ((((nth l toff) * 256 + nth l (toff+1)) * 256 + nth l (toff+2)) * 256 + nth l (toff+3)) else None in
        let exp' = (match ttl_of body, ttl_of exp with
            | Some t, Some t0 when t <= t0 -> List.mapi (fun i b -> if i >= toff && i < toff + 4 then List.nth body i else b) exp
            | _ -> exp) in
        if c01_ok pr q (Up exp') rb then verdict "e2e" id "ok" tag ""
        else verdict "e2e" id "spec:C01" tag (Printf.sprintf "reply=%s expected (apart from an aged TTL)=%s" rep (enc_out exp)))
  | _ -> verdict "e2e" id "diff" "malformed-line" ""

(* ---- engine query ----
   query <id> <payloadhex> => <ok|err|PANIC|TIMEOUT> id class type rd msgsize namehex peerhex mac payloadenc *)
let do_query id ins outs =
  match ins with
  | [ph] ->
    let payload = bytes_of_token ph in
    let m = parse payload in
    let ms = (match m with
      | Ok (q, okflag) ->
        String.concat " " [ (if okflag then "ok" else "err");
          string_of_int (int_of_z q.q_id); string_of_int (int_of_z q.q_class); string_of_int (int_of_z q.q_type);
          (if q.q_rd then "1" else "0"); string_of_int (int_of_z q.q_msgsize);
          (match q.q_name with [] -> "-" | n -> hex_of_string (string_of_bytes n));
          (match q.q_peer with None -> "7f000009" | Some ip -> (match ip with [] -> "-" | _ -> hex_of_string (string_of_bytes ip)));
          (match q.q_mac with None -> "none" | Some [] -> "-" | Some mac -> hex_of_string (string_of_bytes mac));
          enc_out q.q_payload ]
      | Err _ -> "MODEL-ERR" | Panic -> "PANIC" | OutOfFuel -> "OUTOFFUEL") in
    let is = String.concat " " outs in
    let tag = (match m with Ok (q, true) ->
                 (if q.q_peer <> None then "ok+ecs" else if q.q_msgsize <> z_of_int 512 || q.q_mac <> None then "ok+opt" else "ok")
               | Ok (_, false) -> "perr" | _ -> "abnormal") in
    let specs = ref [] in
    (match outs with ("PANIC" | "TIMEOUT") :: _ -> specs := ["C02"] | _ -> ());
    if !specs <> [] then verdict "query" id "spec:C02" tag (Printf.sprintf "impl=%s model=%s" is ms)
    else if is = ms then verdict "query" id "ok" tag ""
    else verdict "query" id "diff" tag (Printf.sprintf "impl=%s model=%s" is ms)
  | _ -> verdict "query" id "diff" "malformed-line" ""

(* ---- engine forwarder ----
   fwd <id> <n> (<"-"|d<domhex>> <upid>)*n <qnamehex> => <saw list> <ok> *)
let fwd_hide_default = ref false
let do_fwd id ins outs =
  match ins with
  | nstr :: rest ->
    let n = int_of_string nstr in
    let rec take k l acc = if k = 0 then (List.rev acc, l) else
        (match l with d :: u :: r -> take (k-1) r ((d, int_of_string u) :: acc) | _ -> failwith "fwd line") in
    let (fl, rest') = take n rest [] in
    let qname = bytes_of_token (List.hd rest') in
    let dom_of d = if d = "-" then None else Some (bytes_of_token (String.sub d 1 (String.length d - 1))) in
    let fs = List.fold_left (fun acc (d, u) -> fwd_set acc (new_fwd (dom_of d) (z_of_int u))) [] fl in
    (* upstreams 5 and 6 are dead (nothing listens): the query is lost there and must reach nobody else *)
    let live l = List.filter (fun z -> int_of_z z < 5 && not (!fwd_hide_default && int_of_z z = 0)) l in
    let show l = (match live l with [] -> "none" | l' -> String.concat "," (List.map (fun z -> string_of_int (int_of_z z)) l')) in
    let model = show (fwd_resolve fs qname) in
    (* spec over label lists: the configured entries in their final order (after Set's replacement) *)
    let sfs = List.map (fun f -> ((match f.f_domain with [] -> None | d -> Some (split_dots d [])), f.f_up)) fs in
    let spec = show [spec_get sfs (split_dots qname [])] in
    let impl = List.hd outs in
    let tag = (if model = "0" then "default" else if model = "none" then "fwd-dead" else "fwd") ^ (if List.exists (fun (d,_) -> d = "-") fl then "+nodomain" else "") in
    if impl <> spec then verdict (if !fwd_hide_default then "dfwd" else "fwd") id "spec:C10" tag (Printf.sprintf "impl=%s spec=%s model=%s" impl spec model)
    else if impl <> model then verdict (if !fwd_hide_default then "dfwd" else "fwd") id "diff" tag (Printf.sprintf "impl=%s model=%s" impl model)
    else verdict (if !fwd_hide_default then "dfwd" else "fwd") id "ok" tag ""
  | _ -> verdict (if !fwd_hide_default then "dfwd" else "fwd") id "diff" "malformed-line" ""

(* ---- engine profile ----
   prof <id> <n> (<entry> <idhex>)*n <src> <dst> <mac> => <gothex> *)
let do_prof id ins outs =
  match ins with
  | nstr :: rest ->
    let n = int_of_string nstr in
    let rec take k l acc = if k = 0 then (List.rev acc, l) else
        (match l with e :: i :: r -> take (k-1) r ((e, i) :: acc) | _ -> failwith "prof line") in
    let (el, rest') = take n rest [] in
    let mk (e, i) =
      let pid = bytes_of_token i in
      let body = String.sub e 1 (String.length e - 1) in
      match e.[0] with
      | 'D' -> { pr_id = pid; pr_prefix = None; pr_mac = []; pr_dest = [] }
      | 'P' -> let j = String.index body '/' in
        let ip = bytes_of_token (String.sub body 0 j) and bits = int_of_string (String.sub body (j+1) (String.length body - j - 1)) in
        { pr_id = pid; pr_prefix = Some { c_ip = ip; c_bits = z_of_int bits }; pr_mac = []; pr_dest = [] }
      | 'M' -> { pr_id = pid; pr_prefix = None; pr_mac = bytes_of_token body; pr_dest = [] }
      | _ -> let ips = if body = "" then [] else List.map bytes_of_token (String.split_on_char ',' body) in
        { pr_id = pid; pr_prefix = None; pr_mac = []; pr_dest = ips } in
    let ps = List.fold_left (fun acc x -> pset acc (mk x)) [] el in
    (match rest' with
     | [src; dst; mac] ->
       let o s = if s = "nil" then None else Some (bytes_of_token s) in
       let c = { cl_src = o src; cl_dst = o dst; cl_mac = (if mac = "nil" then [] else bytes_of_token mac) } in
       let enc l = (match l with [] -> "-" | _ -> hex_of_string (string_of_bytes l)) in
       let model = enc (pget ps c) and spec = enc (pget_spec ps c) in
       let impl = List.hd outs in
       let tag = if model = "-" then "none" else "some" in
       if impl <> spec then verdict "prof" id "spec:C11" tag (Printf.sprintf "impl=%s spec=%s model=%s" impl spec model)
       else if impl <> model then verdict "prof" id "diff" tag (Printf.sprintf "impl=%s model=%s" impl model)
       else verdict "prof" id "ok" tag ""
     | _ -> verdict "prof" id "diff" "malformed-line" "")
  | _ -> verdict "prof" id "diff" "malformed-line" ""

(* ---- environment functions of package net, re-implemented as glue ---- *)
(* net.IP.String on a normalised byte list (None -> "<nil>") *)
let go_ip_string (o : z list option) : z list =
  let of_str s = List.init (String.length s) (fun i -> bytes_tab.(Char.code s.[i])) in
  match o with
  | None -> of_str "<nil>"
  | Some ip ->
    let b = List.map int_of_z ip in
    let dotted l = String.concat "." (List.map string_of_int l) in
    (match to4 ip with
     | Some v4 -> of_str (dotted (List.map int_of_z v4))
     | None ->
       if List.length b <> 16 then of_str "?" else begin
         let a = Array.of_list b in
         let g = Array.init 8 (fun i -> a.(2*i) * 256 + a.(2*i+1)) in
         (* longest run of zero groups, length >= 2, first wins *)
         let e0 = ref (-1) and e1 = ref (-1) in
         let i = ref 0 in
         while !i < 8 do
           let j = ref !i in
           while !j < 8 && g.(!j) = 0 do incr j done;
           if !j > !i && !j - !i > !e1 - !e0 then begin e0 := !i; e1 := !j end;
           if !j > !i then i := !j else incr i
         done;
         if !e1 - !e0 <= 1 then begin e0 := -1; e1 := -1 end;
         let buf = Buffer.create 40 in
         let i = ref 0 in
         while !i < 8 do
           if !i = !e0 then begin Buffer.add_string buf "::"; i := !e1 end
           else begin
             if !i > 0 && !i <> !e1 then Buffer.add_char buf ':'
             else if !i > 0 && !i = !e1 then ();
             Buffer.add_string buf (Printf.sprintf "%x" g.(!i)); incr i
           end
         done;
         of_str (Buffer.contents buf)
       end)

(* ---- engine flow ----
   flow <id> <hostsfile> <ipmap> <bogus> <local> <disc> <dtok> <payload> <upmsg> <uperr>
        => <calls> <n> <err> <rcode> <answers> <md5> *)
let do_flow id ins outs =
  match ins, outs with
  | [file; ipmap; bogus; local_; disc_; dtok; payload; upmsg; uperr], [calls; n; err; rcode; answers; sum] ->
    let strtok s = bytes_of_token s in
    let entries = if ipmap = "" then [] else List.map (fun e -> match String.split_on_char ':' e with
        | [t; c; b] -> (strtok t, strtok c, strtok b) | _ -> failwith "ipmap") (String.split_on_char ';' ipmap) in
    let canon tok = (match List.find_opt (fun (t, _, _) -> t = tok) entries with
        | Some (_, c, _) -> if c = [] then None else Some c | None -> None) in
    let ip_bytes cs = (match List.find_opt (fun (_, c, _) -> c = cs) entries with
        | Some (_, _, b) -> if b = [] then None else Some b | None -> None) in
    let tbl = read_hosts canon (strtok file) in
    let hsrc = { src_host = hosts_lookup_host tbl; src_addr = hosts_lookup_addr tbl } in
    let dsrc =
      if disc_ = "0" then None
      else if dtok = "-" then Some { src_host = (fun _ -> []); src_addr = (fun _ -> []) }
      else if dtok.[0] = 'A' then
        let nm = strtok (String.sub dtok 2 (String.length dtok - 2)) in
        Some { src_host = (fun _ -> []); src_addr = (fun a -> if a = go_ip_string None then [] else [nm]) }
      else (match String.split_on_char ':' dtok with
          | [_; nm; addrs] -> let nmb = strtok nm and al = List.map strtok (String.split_on_char ',' addrs) in
            Some { src_host = (fun x -> if x = nmb then al else []); src_addr = (fun _ -> []) }
          | _ -> None) in
    let ip_bytes2 cs = (match ip_bytes cs with Some b -> Some b | None ->
        (* discovery script addresses *)
        let s = string_of_bytes cs in
        if s = "10.77.0.1" then Some (List.map z_of_int [10;77;0;1])
        else if s = "fd77::1" then Some (List.map z_of_int [0xfd;0x77;0;0;0;0;0;0;0;0;0;0;0;0;0;1]) else None) in
    let cfg = { bogus_priv = (bogus = "1"); local = (if local_ = "1" then Some hsrc else None); disc = dsrc } in
    (match parse (strtok payload) with
     | Ok (q, _) ->
       let up = URes (strtok upmsg, uperr = "1") in
       let (res, mcalls) = proxy_resolve go_ip_string ip_bytes2 cfg q up in
       let fmt_ans l = if l = [] then "-" else String.concat "," (List.map (fun (t, rd) ->
           Printf.sprintf "%d:0:%s" (int_of_z t) (match rd with [] -> "-" | _ -> hex_of_string (string_of_bytes rd))) l) in
       let (tag, expect) = (match res with
         | PLocal a -> ("local", Printf.sprintf "%d ok 0 %s" (int_of_z mcalls) (fmt_ans a))
         | PDisc a -> ("disc", Printf.sprintf "%d ok 0 %s" (int_of_z mcalls) (fmt_ans a))
         | PNX -> ("nx", Printf.sprintf "%d ok 3 -" (int_of_z mcalls))
         | PUp (m, e) -> ("up", Printf.sprintf "%d %s %d %s" (int_of_z mcalls) (if e then "err" else "ok") (List.length m)
                           (if m = [] then "-" else Digest.to_hex (Digest.string (string_of_bytes m))))) in
       let got = (match res with
         | PUp _ -> Printf.sprintf "%s %s %s %s" calls (if err = "1" then "err" else "ok") (if int_of_string n < 0 then "0" else n) sum
         | _ -> Printf.sprintf "%s %s %s %s" calls (if err = "1" then "err" else "ok") rcode answers) in
       (* spec: listed / private => no upstream call *)
       let addr_listed = (match ptr_ip q.q_name with
           | Some ip -> hosts_lookup_addr tbl (go_ip_string (Some ip)) <> [] | None -> false) in
       let sp = c12_ok (local_ = "1") (bogus = "1") tbl addr_listed q (z_of_int (int_of_string calls)) in
       if not sp then verdict "flow" id "spec:C12" tag (Printf.sprintf "impl=[%s] model=[%s]" got expect)
       else if got = expect then verdict "flow" id "ok" tag ""
       else if tag = "local" then
         (* a name listed in the hosts file is answered with exactly its listed addresses of the asked family
            (names for PTR): the answer is determined by the file *)
         verdict "flow" id "spec:C12" tag (Printf.sprintf "answer [%s] is not the one the hosts file determines [%s]" got expect)
       else verdict "flow" id "diff" tag (Printf.sprintf "impl=[%s] model=[%s]" got expect)
     | _ -> verdict "flow" id "diff" "model-parse" "")
  | _ -> verdict "flow" id "diff" "malformed-line" ""

(* ---- engine discovery (uniq / lease / hosts / clist) ---- *)
let toklist s = if s = "-" then [] else List.map bytes_of_token (String.split_on_char ',' s)
let enclist (l : z list list) = if l = [] then "-" else String.concat "," (List.map (fun b -> match b with [] -> "-" | _ -> hex_of_string (string_of_bytes b)) l)

let do_uniq id ins outs =
  match ins, outs with
  | [adds], [res] ->
    let al = toklist adds in
    let model = enclist (List.fold_left append_uniq [] al) in
    let spec = enclist (List.fold_left (fun acc x -> insert_sorted x acc) [] al) in
    let tag = Printf.sprintf "n%d" (List.length al) in
    if res <> spec then verdict "uniq" id "spec:C18" tag (Printf.sprintf "impl=%s spec=%s model=%s" res spec model)
    else if res <> model then verdict "uniq" id "diff" tag (Printf.sprintf "impl=%s model=%s" res model)
    else verdict "uniq" id "ok" tag ""
  | _ -> verdict "uniq" id "diff" "malformed-line" ""

let do_lease id ins outs =
  match ins, outs with
  | [format; content; kind; key], [res] ->
    let c = bytes_of_token content and k = bytes_of_token key in
    let t = if format = "dnsmasq" then read_dnsmasq c else read_dhcpd c in
    let l = (match kind with "host" -> lease_lookup_host t k | "addr" -> lease_lookup_addr t k | _ -> lease_lookup_mac t k) in
    let model = enclist l in
    let tag = format ^ "/" ^ kind ^ (if l = [] then "/miss" else if List.length l > 1 then "/multi" else "/hit") in
    (* C18 is functional: the lookup result is determined by the file (exactly the associations it lists, once each);
       the model's tables are that set, so a different answer fails the property on this very file *)
    if res = model then verdict "lease" id "ok" tag "" else verdict "lease" id "spec:C18" tag (Printf.sprintf "lookup returned %s, the associations in the file are %s" res model)
  | _ -> verdict "lease" id "diff" "malformed-line" ""

let do_hosts id ins outs =
  match ins, outs with
  | [content; ipmap; kind; key], [res] ->
    let entries = if ipmap = "" then [] else List.map (fun e -> match String.split_on_char ':' e with
        | [t; c] -> (bytes_of_token t, bytes_of_token c) | _ -> failwith "ipmap") (String.split_on_char ';' ipmap) in
    let canon tok = (match List.assoc_opt tok entries with Some [] -> None | Some c -> Some c | None -> None) in
    let t = read_hosts canon (bytes_of_token content) in
    let k = bytes_of_token key in
    let l = if kind = "host" then hosts_lookup_host t k else hosts_lookup_addr t k in
    let model = enclist l in
    let tag = "hosts/" ^ kind ^ (if l = [] then "/miss" else if List.length l > 1 then "/multi" else "/hit") in
    if res = model then verdict "hosts" id "ok" tag "" else verdict "hosts" id "spec:C18" tag (Printf.sprintf "lookup returned %s, the associations in the file are %s" res model)
  | _ -> verdict "hosts" id "diff" "malformed-line" ""

let do_clist id ins outs =
  match ins, outs with
  | [b], [res] ->
    let model = (match read_client_list (bytes_of_token b) with
      | None -> "err"
      | Some m ->
        let m = List.sort (fun (a, _) (b, _) -> compare (string_of_bytes a) (string_of_bytes b)) m in
        if m = [] then "empty" else
        String.concat ";" (List.map (fun (k, v) -> (match k with [] -> "-" | _ -> hex_of_string (string_of_bytes k)) ^ "=" ^ enclist v) m)) in
    let tag = if model = "err" then "err" else if model = "empty" then "empty" else "ok" in
    if res = model then verdict "clist" id "ok" tag "" else verdict "clist" id "diff" tag (Printf.sprintf "impl=%s model=%s" res model)
  | _ -> verdict "clist" id "diff" "malformed-line" ""

(* ---- engine mdns ----
   mdns <id> <cap> <addr=name;...> => <nnames> <names dump enc> <addrs dump enc> *)
let do_mdns id ins outs =
  match ins, outs with
  | [cap; ops], [nn; dn; da] ->
    let capn = int_of_string cap in
    let rec nat_of_int n = if n = 0 then O else S (nat_of_int (n-1)) in
    let capnat = nat_of_int capn in
    let opl = List.map (fun o -> match String.split_on_char '=' o with
        | [a; n] -> (bytes_of_token a, bytes_of_token n) | _ -> failwith "mdns op") (String.split_on_char ';' ops) in
    let s = List.fold_left (fun s (a, n) -> announce capnat s a n) mdns0 opl in
    let dump (m : (z list * mentry) list) =
      let l = List.sort (fun (a, _) (b, _) -> compare (string_of_bytes a) (string_of_bytes b)) m in
      if l = [] then "empty" else
      String.concat ";" (List.map (fun (k, e) -> (match k with [] -> "-" | _ -> hex_of_string (string_of_bytes k)) ^ "=" ^ enclist e.me_vals) l) in
    let mn = dump s.md_names and ma = dump s.md_addrs in
    let mcount = List.length s.md_names in
    let tag = if List.length opl > capn then "overflow" else "small" in
    (* the implementation's own dump as a model state, to evaluate the spec on it *)
    let parse_dump d = if d = "empty" then [] else
        List.map (fun kv -> match String.split_on_char '=' kv with
            | [k; v] -> (bytes_of_token k, { me_stamp = Z0; me_vals = toklist v }) | _ -> failwith "dump") (String.split_on_char ';' d) in
    let impl_state = { md_names = parse_dump dn; md_addrs = parse_dump da; md_clock = Z0 } in
    let short x = if String.length x > 200 then String.sub x 0 200 ^ "..." else x in
    if int_of_string nn > capn then verdict "mdns" id "spec:C18" tag (Printf.sprintf "names=%s cap=%d" nn capn)
    else if not (views_agree impl_state) then
      verdict "mdns" id "spec:C18" tag "name->address and address->name views of the implementation disagree"
    else if mn = dn && ma = da then verdict "mdns" id "ok" tag ""
    else verdict "mdns" id "spec:C18" tag (Printf.sprintf "the table is not the one the announcements determine (last announced addresses per name, least recently updated names evicted beyond the cap): names impl(%s) model(%d) equal=%b; addrs equal=%b; impl addrs=%s model addrs=%s" nn mcount (mn = dn) (ma = da) (short da) (short ma))
  | _ -> verdict "mdns" id "diff" "malformed-line" ""

(* ---- engine ttl ----
   ttl <id> upd|adj <msghex> <age> <maxAge> <maxTTL> <id> => <outenc> <minTTL> *)
let rec z_of_big (s : string) : z =
  (* decimal string -> Z without overflow concerns (values < 2^32 fit OCaml int anyway) *)
  z_of_int (int_of_string s)

(* (ttl, type) of every record, by a plain walk over a well-formed encoding (driver-side helper for the
   per-record spec; returns [] when the walk fails) *)
let record_ttls (b : int array) : (int * int) list =
  let n = Array.length b in
  if n < 12 then [] else
  let u16 o = b.(o) * 256 + b.(o+1) in
  let qd = u16 4 and cnt = ((u16 6) + (u16 8) + (u16 10)) land 0xffff in
  let off = ref 12 in
  let ok = ref true in
  let skip_name () =
    let fin = ref false in
    while not !fin && !ok do
      if !off >= n then ok := false else begin
        let c = b.(!off) in
        if c = 0 then (incr off; fin := true)
        else if c land 0xc0 = 0xc0 then (off := !off + 2; fin := true)
        else if c land 0xc0 = 0 then off := !off + 1 + c
        else ok := false end
    done in
  for _ = 1 to qd do if !ok then begin skip_name (); off := !off + 4 end done;
  let res = ref [] in
  (try
    for _ = 1 to cnt do
      if !ok && !off < n then begin
        skip_name ();
        if !ok && !off + 10 <= n then begin
          let typ = u16 !off in
          let ttl = (b.(!off+4) lsl 24) lor (b.(!off+5) lsl 16) lor (b.(!off+6) lsl 8) lor b.(!off+7) in
          let rl = u16 (!off + 8) in
          res := (ttl, typ) :: !res;
          off := !off + 10 + rl;
          if !off > n then ok := false
        end else ok := false
      end
    done with _ -> ok := false);
  List.rev !res

let do_ttl id ins outs =
  match ins, outs with
  | [kind; msgh; age; maxage; maxttl; qid], [out; minttl] ->
    let msg = bytes_of_token msgh in
    let a = z_of_big age and ma = z_of_big maxage and mt = z_of_big maxttl in
    let (mout, mmin) = if kind = "upd" then update_ttl msg a ma mt else adjusted_response msg (z_of_big qid) a ma mt in
    let ms = Printf.sprintf "%s %d" (enc_out mout) (int_of_z mmin) in
    let is = Printf.sprintf "%s %s" out minttl in
    let tag = kind ^ (if int_of_z mmin > 0 then "/fresh" else "/zero") in
    (* per-record spec on the implementation's own output when it is available in full *)
    let specbad =
      (match full_bytes out with
       | Some ob when List.length ob = List.length msg && kind = "upd" ->
         let before = record_ttls (Array.of_list (List.map int_of_z msg)) in
         let after = record_ttls (Array.of_list (List.map int_of_z ob)) in
         List.length before = List.length after &&
         List.exists2 (fun (t, ty) (t', _) -> ty <> 41 && not (ttl_ok (z_of_int t) (z_of_int t') a mt)) before after
       | _ -> false) in
    (* the freshness value returned next to the rewritten message: positive only while every answer / authority TTL is *)
    let minbad =
      (match full_bytes out with
       | Some ob when List.length ob = List.length msg && kind = "upd" && List.length ob >= 12 ->
         let arr = Array.of_list (List.map int_of_z ob) in
         let anns = (arr.(6) * 256 + arr.(7)) + (arr.(8) * 256 + arr.(9)) in
         let after = record_ttls arr in
         let rec firstn k l = if k = 0 then [] else (match l with [] -> [] | x :: r -> x :: firstn (k-1) r) in
         List.length after >= anns &&
         not (min_serves_ok (z_of_big minttl) (List.map (fun (t, _) -> z_of_int t) (List.filter (fun (_, ty) -> ty <> 41) (firstn anns after))))
       | _ -> false) in
    if minbad then verdict "ttl" id "spec:C07" tag (Printf.sprintf "freshness %s is positive although an answer/authority record of the rewritten message has TTL 0: impl=%s model=%s" minttl is ms)
    else if specbad then verdict "ttl" id "spec:C07" tag (Printf.sprintf "impl=%s model=%s" is ms)
    else if is = ms then verdict "ttl" id "ok" tag ""
    else verdict "ttl" id "diff" tag (Printf.sprintf "impl=%s model=%s" is ms)
  | _ -> verdict "ttl" id "diff" "malformed-line" ""

(* ---- engine resolver, mode hist ----
   rhist <id> <cacheon> <maxage> <maxttl> <op;op;...> => <out;out;...> *)
let split_on c s = String.split_on_char c s
let do_rhist id ins outs =
  match ins, outs with
  | [con; mage; mttl; opss], [outss] ->
    let cfg = { cache_on = (con = "1"); max_age = z_of_int (int_of_string mage); max_ttl = z_of_int (int_of_string mttl) } in
    let ops = split_on ';' opss and os = split_on ';' outss in
    let zi s = z_of_int (int_of_string s) in
    let parse_op o : rop * (rkey option) * string =
      (match split_on ':' o with
       | ["A"; dt] -> (OpAdvance (zi dt), None, "")
       | ["D"; qid; cls; typ; nm; url; up] ->
         let q = { rq_id = zi qid; rq_class = zi cls; rq_type = zi typ; rq_name = bytes_of_token nm } in
         let u = bytes_of_token url in
         let upm =
           if up = "E" then DRtErr else if up = "S" then DStatus (z_of_int 500) else if up = "X" then DBodyErr
           else (let body, lm = (match String.index_opt up '@' with
               | Some i -> String.sub up 1 (i-1), Some (zi (String.sub up (i+1) (String.length up - i - 1)))
               | None -> String.sub up 1 (String.length up - 1), None) in
                 DBody (bytes_of_token body, lm)) in
         (OpDoh (q, u, upm), Some (key_of_doh q u), string_of_bytes u)
       | ["N"; qid; cls; typ; nm; dial; dgs] ->
         let q = { rq_id = zi qid; rq_class = zi cls; rq_type = zi typ; rq_name = bytes_of_token nm } in
         (OpDns (q, dial = "1", List.map bytes_of_token (split_on ',' dgs)), Some (key_of_dns q), "")
       | _ -> failwith ("rhist op " ^ o)) in
    let problems = ref [] and specs = ref [] in
    let nq = ref 0 and nhit = ref 0 in
    let rec go h log ops os i =
      (match ops, os with
       | [], _ -> ()
       | o :: orest, out :: outrest ->
         let (op, key, url) = parse_op o in
         let (h', mres) = rstep cfg h op in
         (match mres, key with
          | Some r, Some k ->
            incr nq;
            (match split_on '/' out with
             | [buf; fc; err; asked; path; prof] ->
               let mbuf = enc_out r.rs_buf in
               let ms = Printf.sprintf "%s/%s/%s" mbuf (if r.rs_from_cache then "1" else "0") (if r.rs_err then "1" else "0") in
               let is = Printf.sprintf "%s/%s/%s" buf fc err in
               (* on error the bytes left in the buffer are not part of any property (the proxy answers SERVFAIL) *)
               let same = if r.rs_err && err = "1" then fc = (if r.rs_from_cache then "1" else "0") else is = ms in
               if not same then problems := Printf.sprintf "op %d (%s): impl=%s model=%s" i (String.sub o 0 (min 40 (String.length o))) is ms :: !problems;
               if fc = "1" && err = "0" && not (serves_now cfg h op) then specs := "C07" :: !specs;
               if fc = "1" && err = "0" then begin
                 incr nhit;
                 (match full_bytes buf with
                  | Some b -> if not (c06_ok log k b) then specs := "C06" :: !specs
                  | None -> ());
                 if asked <> "0" then problems := Printf.sprintf "op %d: served from cache but upstream was asked" i :: !problems
               end;
               (* C11: the request path is the profile id of the URL; ResolveInfo.Profile is that id *)
               if url <> "" && asked <> "0" then begin
                 let p = string_of_bytes (bytes_of_token path) in
                 let expect = (let pre = "https://doh.test" in String.sub url (String.length pre) (String.length url - String.length pre)) in
                 if p <> expect then specs := "C11" :: !specs;
                 if "/" ^ string_of_bytes (bytes_of_token prof) <> expect then specs := "C11" :: !specs
               end
             | _ -> problems := "bad out" :: !problems)
          | _ -> ());
         go h' (log @ stored_of cfg op) orest outrest (i + 1)
       | _ -> problems := "fewer outputs than ops" :: !problems) in
    go { h_st = rstate0; h_now = z_of_int 1000000 } [] ops os 0;
    let tag = Printf.sprintf "%s/q%d/hit%d" (if con = "1" then "cache" else "nocache") (min !nq 9) (min !nhit 3) in
    let detail = String.concat "; " (List.rev !problems) in
    if !specs <> [] then verdict "rhist" id ("spec:" ^ String.concat "," (List.sort_uniq compare !specs)) tag detail
    else if !problems = [] then verdict "rhist" id "ok" tag ""
    else verdict "rhist" id "diff" tag detail
  | _ -> verdict "rhist" id "diff" "malformed-line" ""

(* ---- engine resolver, mode fault ----
   fault <id> <tr> <kind> <qhex> <outcome> <uptok> => <nrep> <repenc> <lat_ms> <timeout_ms> *)
let fault_tcp = ref false
let do_fault id ins outs =
  match ins, outs with
  | [tr; kind; qh; outcome; uptok], [nrep; rep; lat; tmo] ->
    let q = bytes_of_token qh in
    let up = bytes_of_token uptok in
    let cfg0 = { cache_on = false; max_age = Z0; max_ttl = Z0 } in
    let o = (match outcome with
      | "up" -> if up = [] then UpEmpty else Up up
      | "empty" -> UpEmpty
      | "big" ->
        let rq0 = { rq_id = Z0; rq_class = Z0; rq_type = Z0; rq_name = [] } in
        let (_, r) = doh_resolve cfg0 rstate0 Z0 rq0 [] (DBody (up, None)) in
        if r.rs_err then UpErr else Up r.rs_buf
      | _ -> UpErr) in
    let model = res_str enc_out (handle (if !fault_tcp then TCP else UDP) q o) in
    let tag = tr ^ "/" ^ kind ^ (if !fault_tcp then "/tcp-reused" else "") in
    let late = int_of_string lat > int_of_string tmo + 300 in
    if nrep <> "1" || late then verdict (if !fault_tcp then "faulttcp" else "fault") id "spec:C03" tag (Printf.sprintf "replies=%s latency=%sms timeout=%sms" nrep lat tmo)
    else if outcome = "any" then verdict "fault" id "ok" tag ""   (* cache / TTL-cap world: judged by the bound alone *)
    else if rep = model then verdict (if !fault_tcp then "faulttcp" else "fault") id "ok" tag ""
    else if kind = "ok" && outcome = "up" then
      (* the upstream behaves: the reply is determined (its message under this query's ID) *)
      verdict (if !fault_tcp then "faulttcp" else "fault") id "spec:C03" tag
        (Printf.sprintf "the upstream answered normally but the client got %s instead of %s (latency %sms)" rep model lat)
    else verdict (if !fault_tcp then "faulttcp" else "fault") id "diff" tag (Printf.sprintf "impl=%s model=%s" rep model)
  | _ -> verdict (if !fault_tcp then "faulttcp" else "fault") id "diff" "malformed-line" ""

(* ---- engine manager ----
   mgr <id> <threshold/init> <provs> <health> <ops> => <log> <snapshots> *)
let do_mgr id ins outs =
  match ins, outs with
  | ["crash"; _; _; where], [what; _] ->
    verdict "mgr" id "spec:C08,C09" "crash" (Printf.sprintf "the process died while running the script (%s): %s" where what)
  | [cfgt; provt; healtht; opst], [ilog; isnaps] ->
    let zi s = z_of_int (int_of_string s) in
    let (thr, initid) = (match split_on '/' cfgt with [a; b] -> (int_of_string a, int_of_string b) | _ -> failwith "cfg") in
    let cfg = { threshold = z_of_int thr; def_interval = z_of_int 100;
                ep_interval = (fun e -> if (int_of_z e) mod 3 = 0 then z_of_int 5 else Z0);
                init_ep = (if initid = 0 then None else Some (z_of_int initid)) } in
    let parse_prov sp = (match sp with
        | "p" -> PFail PPlain | "u" -> PFail PUnreach
        | _ -> let body = String.sub sp 1 (String.length sp - 1) in
          PEps (if body = "" then [] else List.map zi (split_on ',' body))) in
    let provs0 = List.map parse_prov (split_on '|' provt) in
    let parse_h h = (match h with "ok" -> ProbeOk | "unreach" -> ProbeUnreach | _ -> ProbeFail) in
    let health0 = if healtht = "" then [] else List.map (fun kv -> match split_on '=' kv with
        | [k; v] -> (zi k, parse_h v) | _ -> failwith "health") (split_on ',' healtht) in
    let en0 = { provs = provs0; health = health0; now = z_of_int 1000000000 } in
    let ops = split_on ';' opst in
    let isn = Array.of_list (split_on ';' isnaps) in
    let captured = Hashtbl.create 8 in
    let problems = ref [] in
    let specfails = ref [] in
    let snap_of en s =
      (match s.active with
       | None -> "none"
       | Some i -> let a = get_obj s i in
         Printf.sprintf "ep%d/%d/%s/%d/%d" (int_of_z a.a_ep) (int_of_z a.a_interval) (if a.a_testing then "1" else "0")
           (int_of_z a.a_errs) (if a.a_last = Z0 then -1 else int_of_z en.now - int_of_z a.a_last)) in
    let nelect = ref 0 and nchange = ref 0 in
    let rec nat_of_int n = if n = 0 then O else S (nat_of_int (n-1)) in ignore nat_of_int;
    let (_, sfin, _) = List.fold_left (fun (en, s, k) o ->
        let lbl =
          if String.length o >= 2 && String.sub o 0 2 = "Q+" then QStart (zi (String.sub o 2 (String.length o - 2)))
          else if String.length o >= 2 && String.sub o 0 2 = "Q-" then
            (match split_on ':' (String.sub o 2 (String.length o - 2)) with
             | [q; ok] -> let i = (try Hashtbl.find captured (int_of_string q) with Not_found -> O) in QEnd (zi q, i, ok = "1")
             | _ -> failwith "Q-")
          else if o = "E" then (incr nelect; Elect)
          else if o.[0] = 'T' then Advance (zi (String.sub o 1 (String.length o - 1)))
          else if o.[0] = 'H' then
            (match split_on '=' (String.sub o 1 (String.length o - 1)) with
             | [e; h] -> SetHealth (zi e, parse_h h) | _ -> failwith "H")
          else if o.[0] = 'P' then
            (match split_on '=' (String.sub o 1 (String.length o - 1)) with
             | [j; sp] -> let jj = int_of_string j in
               SetProvs (List.mapi (fun idx p -> if idx = jj then parse_prov sp else p) en.provs)
             | _ -> failwith "P")
          else failwith ("mgr op " ^ o) in
        let ((en', s'), cap) = mstep cfg en s lbl in
        (match lbl, cap with QStart q, Some i -> Hashtbl.replace captured (int_of_z q) i | _ -> ());
        (* C08 on the implementation's own state: after an explicit election the active endpoint is the
           first healthy candidate in preference order, or the first listed one when none is healthy *)
        (if lbl = Elect && k < Array.length isn && isn.(k) <> "locked" && no_unreach en' then
           let want = (match spec_best en' with BOk e | BFallback e -> Some (int_of_z e) | _ -> None) in
           let got = (try Scanf.sscanf isn.(k) "ep%d/" (fun d -> Some d) with _ -> None) in
           (match spec_best en', (try Scanf.sscanf isn.(k) "ep%d/%d/" (fun d i -> Some (d, i)) with _ -> None) with
            | BFallback e, Some (g, itv) when g = int_of_z e && itv <> 10 ->
              specfails := Printf.sprintf "after op %d (election with no healthy candidate): ep%d elected with a retry interval of %d s instead of the short 10 s" k g itv :: !specfails
            | _ -> ());
           match want, got with
           | Some w, Some g when w <> g ->
             specfails := Printf.sprintf "after op %d (election): active endpoint is ep%d, the first healthy candidate in preference order (or the first listed when none is healthy) is ep%d" k g w :: !specfails
           | Some w, None ->
             specfails := Printf.sprintf "after op %d (election): no active endpoint (%s), expected ep%d" k isn.(k) w :: !specfails
           | _ -> ());
        (if k < Array.length isn && isn.(k) <> "locked" then
           let ms = snap_of en' s' in
           if ms <> isn.(k) then problems := Printf.sprintf "after op %d (%s): state impl=%s model=%s" k o isn.(k) ms :: !problems);
        (en', s', k + 1)) (en0, m0, 0) ops in
    let ev_str = function
      | EvProbe e -> Printf.sprintf "probe:%d" (int_of_z e) | EvChange e -> (incr nchange; Printf.sprintf "change:%d" (int_of_z e))
      | EvError e -> Printf.sprintf "error:%d" (int_of_z e) | EvProvErr _ -> "proverr"
      | EvUsed (q, e) -> Printf.sprintf "used:%d:%d" (int_of_z q) (int_of_z e) | EvQErr q -> Printf.sprintf "qerr:%d" (int_of_z q) in
    let mlog = (match sfin.evlog with [] -> "-" | l -> String.concat "," (List.map ev_str l)) in
    let has_sub s sub = (let n = String.length sub in let rec f i = i + n <= String.length s && (String.sub s i n = sub || f (i+1)) in f 0) in
    let tag = Printf.sprintf "e%d/c%d%s" (min !nelect 3) (min !nchange 3) (if initid = 0 then "/boot" else "/init") in
    if has_sub ilog "STUCK" then verdict "mgr" id "spec:C09" tag ("deadlock watchdog: " ^ ilog)
    else if !specfails <> [] then verdict "mgr" id "spec:C08" tag (String.concat "; " (List.rev !specfails) ^ " ;; log " ^ ilog)
    else if ilog <> mlog then verdict "mgr" id "diff" tag (Printf.sprintf "log impl=%s model=%s" ilog mlog)
    else if !problems <> [] then verdict "mgr" id "diff" tag (String.concat "; " (List.rev !problems))
    else verdict "mgr" id "ok" tag ""
  | _ -> verdict "mgr" id "diff" "malformed-line" ""

(* mgrhang <id> <provs> <health> => <active> <ok> <ms>   probes that end only with their context count as failed;
   the election must still elect the first healthy candidate in preference order (every probe has its own timeout) *)
let do_mgrhang id ins outs =
  match ins, outs with
  | [provt; healtht], [got; _; ms] ->
    let zi s = z_of_int (int_of_string s) in
    let parse_prov sp = let body = String.sub sp 1 (String.length sp - 1) in
      PEps (if body = "" then [] else List.map zi (split_on ',' body)) in
    let health0 = List.map (fun kv -> match split_on '=' kv with
        | [k; v] -> (zi k, (if v = "ok" then ProbeOk else ProbeFail)) | _ -> failwith "health") (split_on ',' healtht) in
    let en = { provs = List.map parse_prov (split_on '|' provt); health = health0; now = z_of_int 1000000000 } in
    let want = (match spec_best en with BOk e | BFallback e -> Printf.sprintf "ep%d" (int_of_z e) | _ -> "none") in
    let nhang = List.length (List.filter (fun kv -> match split_on '=' kv with [_; "hang"] -> true | _ -> false) (split_on ',' healtht)) in
    let tag = Printf.sprintf "hang%d" nhang in
    if got <> want then verdict "mgrhang" id "spec:C08,C09" tag
        (Printf.sprintf "providers %s health %s: elected %s after %s ms, the first healthy candidate in preference order is %s" provt healtht got ms want)
    else verdict "mgrhang" id "ok" tag ""
  | _ -> verdict "mgrhang" id "diff" "malformed-line" ""

(* ---- engine listen ----
   listen <id> <naddrs> <busy> <cancelkind> <anybusy> <ext> => <returned> <ms> <errclass> <rebind> *)
let do_listen id ins outs =
  match ins, outs with
  | [na; _busy; kind; anybusy; ext], [returned; ms; cls; rebind] ->
    let tag = Printf.sprintf "n%s/%s%s" na kind (if anybusy = "1" then "/busy" else "") in
    let ok = c16_ok (anybusy = "1") (ext = "1") (returned = "1") (rebind = "1") (z_of_int (int_of_string cls)) in
    if ok then verdict "listen" id "ok" tag ""
    else verdict "listen" id "spec:C16" tag (Printf.sprintf "returned=%s after %sms errclass=%s rebind=%s" returned ms cls rebind)
  | _ -> verdict "listen" id "diff" "malformed-line" ""

(* ---- engine resolver, mode lmconc ----  lmc <round> <urlhex> <stamps,...> => <final>
   the register after a burst of simultaneous responses vs. what every sequential order leaves (C15_lastmod_any_order) *)
let do_lmc id ins outs =
  match ins, outs with
  | [urlh; stamps], [fin] ->
    let url = bytes_of_token urlh in
    let ts = List.map (fun s -> z_of_int (int_of_string s)) (String.split_on_char ',' stamps) in
    let want = int_of_z (lastmod (apply_stamps [] url ts) url) in
    let tag = Printf.sprintf "burst%d" (List.length ts) in
    if int_of_string fin = want then verdict "lmc" id "ok" tag ""
    else verdict "lmc" id "spec:C15,C07" tag
        (Printf.sprintf "after simultaneous responses announcing %s the profile's last-modified register holds %s; every sequential order of these responses leaves %d" stamps fin want)
  | _ -> verdict "lmc" id "diff" "malformed-line" ""

(* ---- engine refresh ----  rfr <id> <ipmap> <op;op;...> => <out;out;...>
   one discovery.Hosts object, the file changing under it: W:<content>:<mtime s>, A:<ms>, L:<name>;
   model: Refresh.refresh instantiated with read_hosts (theorem table_catches_up) *)
let do_rfr id ins outs =
  match ins, outs with
  | [ipmap; opss], [outss] ->
    let strtok s = bytes_of_token s in
    let entries = if ipmap = "" then [] else List.map (fun e -> match String.split_on_char ':' e with
        | [t; c; b] -> (strtok t, strtok c, strtok b) | _ -> failwith "ipmap") (String.split_on_char ';' ipmap) in
    let canon tok = (match List.find_opt (fun (t, _, _) -> t = tok) entries with
        | Some (_, c, _) -> if c = [] then None else Some c | None -> None) in
    let parse_f content = read_hosts canon content in
    (* a table object that has not read any file yet holds nothing (not even the built-in localhost names) *)
    let st = ref { r_tbl = { ht_names = []; ht_addrs = [] }; r_info = None; r_expires = Z0 } in
    let now = ref 1 and file = ref None and away = ref None in
    let os = ref (String.split_on_char ';' outss) in
    let problems = ref [] and nl = ref 0 and nchanged = ref 0 in
    List.iteri (fun i o ->
        match String.split_on_char ':' o with
        | ["W"; c; mt] ->
          let content = strtok c in
          incr nchanged;
          file := Some { s_stat = { f_mtime = z_of_int (int_of_string mt); f_size = z_of_int (List.length content) }; s_content = content }
        | ["A"; ms] -> now := !now + int_of_string ms * 1000000
        | ["R"] -> away := !file; file := None; incr nchanged
        | ["B"] -> file := !away; incr nchanged
        | ["L"; nm] ->
          incr nl;
          st := refresh parse_f !st (z_of_int !now) !file;
          let want = (match hosts_lookup_host !st.r_tbl (strtok nm) with
              | [] -> "-" | l -> String.concat "," (List.map (fun b -> hex_of_string (string_of_bytes b)) l)) in
          (match !os with
           | got :: rest -> os := rest;
             if got <> want then problems := Printf.sprintf "op %d (lookup %s at +%d ms): impl=%s model=%s" i (string_of_bytes (strtok nm)) (!now / 1000000) got want :: !problems
           | [] -> problems := "fewer outputs than lookups" :: !problems)
        | _ -> problems := ("bad op " ^ o) :: !problems) (String.split_on_char ';' opss);
    let tag = Printf.sprintf "w%d/l%d" (min !nchanged 4) (min !nl 9) in
    if !problems = [] then verdict "rfr" id "ok" tag ""
    else verdict "rfr" id "spec:C18,C12" tag (String.concat "; " (List.rev !problems))
  | _ -> verdict "rfr" id "diff" "malformed-line" ""

(* ---- engine clientinfo, mode names ----  names <id> <source> <namehex> => ok | panic:<hex> | hang
   arbitrary device names through the real readers and the per-query lookups: they must return *)
let do_names id ins outs =
  match ins, outs with
  | [src; nm], [out] ->
    if out = "ok" then verdict "names" id "ok" src ""
    else verdict "names" id "spec:C14,C18,C02" src
        (Printf.sprintf "a device name (%s, source %s) makes the discovery code %s" nm src
           (if out = "hang" then "hang" else "panic: " ^ (try string_of_bytes (bytes_of_token (String.sub out 6 (String.length out - 6))) with _ -> out)))
  | _ -> verdict "names" id "diff" "malformed-line" ""

(* ---- engine resolver, mode eps ----  eps <id> <op;...> => <out;...>
   real DoH endpoints that differ in their bootstrap address only; expected: spec_best (first healthy candidate in the
   provider's order, else the first) at every election, and every query served by the elected endpoint's own server *)
let do_eps id ins outs =
  match ins, outs with
  | [opss], [outss] ->
    let ops = String.split_on_char ';' opss and os = String.split_on_char ';' outss in
    let offer = ref [0; 1] and mask = ref 7 and elected = ref (-1) in
    (* stale.(e): server e has been down since the last exchange with it: the pooled connection to it is dead, and a
       DoH POST is not replayed by the transport -- the first query after it is back may fail (and reconnects) *)
    let stale = Array.make 3 false in
    let name e = hex_of_string (Printf.sprintf "https://doh.test#127.0.0.%d" (e + 1)) in
    let elect () =
      let en = { provs = [PEps (List.map z_of_int !offer)];
                 health = List.map (fun e -> (z_of_int e, (if !mask land (1 lsl e) <> 0 then ProbeOk else ProbeFail))) [0; 1; 2];
                 now = z_of_int 1000000000 } in
      let e = (match spec_best en with BOk e | BFallback e -> int_of_z e | _ -> -1) in
      let changed = e <> !elected in
      elected := e; changed in
    let problems = ref [] in
    (try List.iteri (fun i (o, out) ->
        match String.split_on_char ':' o with
        | ["H"; m] -> mask := int_of_string m;
          Array.iteri (fun e _ -> if !mask land (1 lsl e) = 0 then stale.(e) <- true) stale
        | ["P"; l] -> offer := List.map int_of_string (String.split_on_char ',' l)
        | ["E"] ->
          let changed = elect () in
          (* the election probes the candidates in order up to the elected one: those exchanges reconnect *)
          (let rec upto = function [] -> () | e :: r -> if !mask land (1 lsl e) <> 0 then stale.(e) <- false; if e <> !elected then upto r in upto !offer);
          let want = if changed then name !elected else "same" in
          if out <> want then problems := Printf.sprintf "op %d (election, servers up mask %d, offer %s): announced %s, first healthy candidate in order is %s" i !mask
                (String.concat "," (List.map string_of_int !offer)) (if out = "same" then "no change" else string_of_bytes (bytes_of_token out))
                (Printf.sprintf "127.0.0.%d" (!elected + 1)) :: !problems
        | ["Q"] ->
          let boot = (!elected < 0) in
          let changed = if boot then elect () else false in
          if boot then (let rec upto = function [] -> () | e :: r -> if !mask land (1 lsl e) <> 0 then stale.(e) <- false; if e <> !elected then upto r in upto !offer);
          let up = !mask land (1 lsl !elected) <> 0 in
          let want = (if up then Printf.sprintf "s%d" !elected else "none") ^ (if changed then "/" ^ name !elected else "") ^ (if up then "/0" else "/1") in
          let want_stale = "none" ^ (if changed then "/" ^ name !elected else "") ^ "/1" in
          let was_stale = !elected >= 0 && stale.(!elected) in
          if up && !elected >= 0 then stale.(!elected) <- false;
          if out <> want && not (up && was_stale && out = want_stale) then problems := Printf.sprintf "op %d (query, elected 127.0.0.%d, servers up mask %d): observed %s expected %s" i (!elected + 1) !mask out want :: !problems
        | _ -> ()) (List.combine ops os)
     with Invalid_argument _ -> problems := ["ops/outs length"]);
    let tag = Printf.sprintf "ops%d" (min (List.length ops) 9) in
    if !problems = [] then verdict "eps" id "ok" tag ""
    else verdict "eps" id "spec:C08,C09" tag (String.concat "; " (List.rev !problems))
  | _ -> verdict "eps" id "diff" "malformed-line" ""

(* ---- engine daemon, modes svc and act (real binary, service life cycle) ---- *)
let do_dsvc id ins outs =
  match ins, outs with
  | [listen; up; _setopt], [l1; s1; l2; s2] ->
    let ok = l1 = "1" && l2 = "1" && s1 = up && s2 = up in
    if ok then verdict "dsvc" id "ok" "svc" ""
    else if String.length l1 > 10 && String.sub l1 0 10 = "CONFIGFAIL" then verdict "dsvc" id "diff" "config-set-failed" l1
    else verdict "dsvc" id "spec:C17" "svc"
        (Printf.sprintf "configuration stored with `config set` (listen %s, forwarder to upstream %s): the service listens there: %s, query reached upstream: %s; after setting one more option and a restart: listens %s, reached %s"
           (string_of_bytes (bytes_of_token listen)) up l1 s1 l2 s2)
  | _ -> verdict "dsvc" id "diff" "malformed-line" ""
let do_dact id ins outs =
  match ins, outs with
  | [scenario; _orig], [activated; ondisk; restored] ->
    if activated <> "1" then verdict "dact" id "diff" scenario "the daemon did not activate within 9 s"
    else if ondisk = "1" && restored = "1" then verdict "dact" id "ok" scenario ""
    else verdict "dact" id "spec:C19" scenario
        (Printf.sprintf "daemon with -auto-activate, scenario %s: original resolv.conf on disk while active: %s, restored byte for byte at the end: %s" scenario ondisk restored)
  | _ -> verdict "dact" id "diff" "malformed-line" ""

(* ---- engine racestress ----  race <i> stress <secs> => none | <frames> <count>
   no model output to compare: a report by the Go race detector whose stacks touch /repo
   code is a failure of C15 on the implementation itself *)
let do_race id ins outs =
  match outs with
  | ["none"] -> verdict "race" id "ok" "stress/none" ""
  | ["crash"; what; fr] -> verdict "race" id "spec:C15,C02,C01" "stress/crash"
      (Printf.sprintf "the daemon code aborted the process under concurrent load: %s in %s" (string_of_bytes (bytes_of_token what)) fr)
  | [fr; n] -> verdict "race" id "spec:C15" "stress/race" (Printf.sprintf "go race detector: %s reports between %s" n fr)
  | _ -> verdict "race" id "diff" "malformed-line" ""

(* ---- engine reply, mode storm ----  storm <id> <K> <events> => <maxDuring> <barrier> *)
let do_storm id ins outs =
  match ins, outs with
  | [k; evs], [md; ba] ->
    let tag = "k" ^ k ^ (if (try ignore (Str.search_forward (Str.regexp_string "panic") evs 0); true with Not_found -> false) then "/panic" else "") in
    let two = (try ignore (Str.search_forward (Str.regexp_string "two_addresses") evs 0); true with Not_found -> false) in
    let tag = if two then tag ^ "/2addr" else tag in
    let zi s = z_of_int (int_of_string s) in
    if (if two then c04_ok_multi (zi k) (z_of_int 2) (zi md) (zi ba) else c04_ok (zi k) (zi md) (zi ba)) then verdict "storm" id "ok" tag ""
    else verdict "storm" id "spec:C04,C02" tag (Printf.sprintf "capacity=%s max inside resolver during storm=%s, inside together afterwards=%s (events %s)" k md ba evs)
  | _ -> verdict "storm" id "diff" "malformed-line" ""

(* ---- engine router (C20) ----
   router <id> <fw> <pristine> <env> <script> => <op>:<ok|err>:<listens>:<env> ...
   env: c:<N|Fhex>/i:../us:<uci>/uc:<uci>/nv:<nv>/d:<b>/f:<b>/lc:../lu:<uci>/ln:<nv>/r:<n> *)
let hexs0 (l : z list) = match l with [] -> "-" | _ -> hex_of_string (string_of_bytes l)
let r_opt s = if s = "N" then None else Some (bytes_of_token (String.sub s 1 (String.length s - 1)))
let r_enc_opt = function None -> "N" | Some b -> "F" ^ hexs0 b
let r_uci_keys = [k_port; k_server; k_dhcpopt; k_ipaddr]
let r_parse_uci s =
  List.concat (List.mapi (fun i p -> if p = "N" then [] else
    [(List.nth r_uci_keys i, List.map bytes_of_token (String.split_on_char ',' p))]) (String.split_on_char ';' s))
let r_enc_uci st =
  String.concat ";" (List.map (fun k -> match sget k st with
    | Some (_ :: _ as l) -> String.concat "," (List.map hexs0 l) | _ -> "N") r_uci_keys)
let r_parse_nv s =
  List.concat (List.mapi (fun i p -> if p = "N" then [] else
    [(List.nth nv_names i, bytes_of_token (String.sub p 1 (String.length p - 1)))]) (String.split_on_char ';' s))
let r_enc_nv st = String.concat ";" (List.map (fun k -> match nget k st with Some v -> "F" ^ hexs0 v | None -> "N") nv_names)
let r_parse_env tok =
  let parts = List.filter_map (fun p -> match String.index_opt p ':' with
      | Some i -> Some (String.sub p 0 i, String.sub p (i+1) (String.length p - i - 1)) | None -> None)
      (String.split_on_char '/' tok) in
  let g k = try List.assoc k parts with Not_found -> failwith ("env part " ^ k) in
  { conf = r_opt (g "c"); info = r_opt (g "i"); uci_c = r_parse_uci (g "uc"); uci_s = r_parse_uci (g "us");
    nv = r_parse_nv (g "nv"); dhcp_on = (g "d" = "1"); filter_on = (g "f" = "1");
    loaded = { l_conf = r_opt (g "lc"); l_uci = r_parse_uci (g "lu"); l_nv = r_parse_nv (g "ln") };
    restarts = z_of_int (int_of_string (g "r")) }
let r_enc_env e =
  Printf.sprintf "c:%s/i:%s/us:%s/uc:%s/nv:%s/d:%s/f:%s/lc:%s/lu:%s/ln:%s/r:%d"
    (r_enc_opt e.conf) (r_enc_opt e.info) (r_enc_uci e.uci_s) (r_enc_uci e.uci_c) (r_enc_nv e.nv)
    (if e.dhcp_on then "1" else "0") (if e.filter_on then "1" else "0")
    (r_enc_opt e.loaded.l_conf) (r_enc_uci e.loaded.l_uci) (r_enc_nv e.loaded.l_nv) (int_of_z e.restarts)
let r_fw = function
  | "openwrt" -> Openwrt | "merlin" -> Merlin | "ddwrt" -> Ddwrt | "edgeos" -> Edgeos | "synology" -> Synology
  | "ubios" -> Ubios | "firewalla" -> Firewalla | "generic" -> Generic | s -> failwith ("fw " ^ s)
let r_listens = function L53 -> "L53" | LLoop -> "LLoop" | LLocalhost -> "LLocalhost" | LKeep -> "LKeep"
let r_view_str v =
  Printf.sprintf "port0=%b port=%s fwd=[%s] noresolv=%b addmac=%b unparsable-lines=%b user=[%s]" v.v_port0 (string_of_bytes v.v_port)
    (String.concat "," (List.map string_of_bytes v.v_fwd)) v.v_noresolv v.v_addmac v.v_junk
    (String.concat "|" (List.map (fun b -> String.escaped (string_of_bytes b)) v.v_user))
let split3 s =   (* op:err:listens:rest *)
  let i1 = String.index s ':' in let i2 = String.index_from s (i1+1) ':' in let i3 = String.index_from s (i2+1) ':' in
  (String.sub s 0 i1, String.sub s (i1+1) (i2-i1-1), String.sub s (i2+1) (i3-i2-1), String.sub s (i3+1) (String.length s - i3 - 1))

let do_router id ins outs =
  match ins with
  | [fws; pristine; envtok; script] ->
    (try
      let f = r_fw fws in
      let e0 = r_parse_env envtok in
      let v0 = view f e0.loaded in
      let lcs = List.filter (fun t -> String.length t >= 4) (String.split_on_char ',' script) in
      let crash = List.exists (fun t -> t.[3] = 'C') lcs in
      let isf t = String.length t >= 5 && t.[4] = 'f' in
      let faulted = List.exists isf lcs in
      let tag = Printf.sprintf "%s/n%d%s%s%s" fws (List.length lcs) (if crash then "/crash" else "") (if pristine = "1" then "" else "/remnant") (if faulted then "/fault" else "") in
      (match outs with
       | [x] when String.length x > 9 && String.sub x 0 9 = "CHILDFAIL" ->
         verdict "router" id "diff" (tag ^ "/childfail") (string_of_bytes (bytes_of_token (String.sub x 10 (String.length x - 10))))
       | _ ->
      (* model run *)
      let model = ref [] in
      let e = ref e0 in
      List.iter (fun t ->
        let c = { report = (t.[0] = '1'); cache0 = (t.[1] = '1') } in
        let r = new0 f !e in
        let (((r1, e1), ls), ok1) = configure r c !e in
        model := Printf.sprintf "c:%s:%s:%s" (if ok1 then "ok" else "err") (r_listens ls) (r_enc_env e1) :: !model;
        let ((r2, e2), ok2) = setup r1 e1 in
        model := Printf.sprintf "s:%s:-:%s" (if ok2 then "ok" else "err") (r_enc_env e2) :: !model;
        e := e2;
        if t.[3] = 'R' then begin
          let (e3, ok3) = restore r2 e2 in
          model := Printf.sprintf "r:%s:-:%s" (if ok3 then "ok" else "err") (r_enc_env e3) :: !model;
          e := e3
        end) lcs;
      let model = List.rev !model in
      (* the specification on the implementation's own observations *)
      let specfail = ref [] in
      let rec walk lcs obs allclean =
        match lcs, obs with
        | t :: lrest, oc :: os :: orest ->
          let c = { report = (t.[0] = '1'); cache0 = (t.[1] = '1') } in
          let (_, okc, lst, _) = split3 oc and (_, oks, _, envs) = split3 os in
          let es = r_parse_env envs in
          let nodns = (f = Generic) || (f = Synology && not es.dhcp_on) in
          if okc = "ok" && oks = "ok" && not (isf t) then begin
            let ls = match lst with "L53" -> Some L53 | "LLoop" -> Some LLoop | "LLocalhost" -> Some LLocalhost | _ -> None in
            match ls with
            | Some ls -> if not (c20_setup_ok f c ls nodns (view f es.loaded)) then
                specfail := Printf.sprintf "after setup (report=%b cache=%b listens=%s): running dnsmasq has %s" c.report c.cache0 lst (r_view_str (view f es.loaded)) :: !specfail
            | None -> specfail := ("Configure set unexpected listen addresses " ^ lst) :: !specfail
          end;
          if t.[3] = 'R' then begin
            match orest with
            | orr :: orest' ->
              let (_, okr, _, envr) = split3 orr in
              let er = r_parse_env envr in
              let v = view f er.loaded in
              (* what a dnsmasq restarted now (by the owner, by the system) would read *)
              let vdisk = view f { l_conf = er.conf; l_uci = er.uci_c; l_nv = er.nv } in
              let nodnsr = (f = Generic) || (f = Synology && not er.dhcp_on) in
              let allclean = allclean && not (isf t) in
              if nodnsr then ()
              else if not (c20_not_pointing v) then
                specfail := Printf.sprintf "after restore (%s): running dnsmasq still has %s" okr (r_view_str v) :: !specfail
              else if not (c20_not_pointing vdisk) then
                specfail := Printf.sprintf "after restore (%s): the configuration left on disk still points dnsmasq at the proxy: %s" okr (r_view_str vdisk) :: !specfail
              else if allclean && pristine = "1" && okr = "ok" && not (c20_restored v v0) then
                specfail := Printf.sprintf "after a start/stop cycle the owner's configuration differs: now %s, before %s" (r_view_str v) (r_view_str v0) :: !specfail;
              walk lrest orest' allclean
            | [] -> ()
          end else walk lrest orest false
        | _, _ -> () in
      walk lcs outs true;
      let rec firstdiff i a b = match a, b with
        | x :: ra, y :: rb -> if x = y then firstdiff (i+1) ra rb else Some (i, x, y)
        | [], [] -> None
        | x :: _, [] -> Some (i, x, "(missing)") | [], y :: _ -> Some (i, "(missing)", y) in
      if !specfail <> [] then verdict "router" id "spec:C20" tag (String.concat " ;; " (List.rev !specfail))
      else if faulted then verdict "router" id "ok" tag ""   (* injected faults: judged by the specification only *)
      else match firstdiff 0 model outs with
        | None -> verdict "router" id "ok" tag ""
        | Some (i, m, o) -> verdict "router" id "diff" tag (Printf.sprintf "step %d model=%s impl=%s" i m o))
    with Failure m -> verdict "router" id "diff" "malformed-line" m | Not_found -> verdict "router" id "diff" "malformed-line" "")
  | _ -> verdict "router" id "diff" "malformed-line" ""

(* ---- engine resolvconf ----
   rc <id> <file|link> <contenthex> <events> => <states>   state: r=..,b=..,t=.. with N | F<hex> | L<hex> *)
let do_rc id ins outs =
  match ins, outs with
  | [kind; content; evs], [states] ->
    let c = bytes_of_token content in
    let n0 = if kind = "link" then Link c else File c in
    let enc_node = function None -> "N" | Some (File b) -> "F" ^ (match b with [] -> "-" | _ -> hex_of_string (string_of_bytes b))
                            | Some (Link b) -> "L" ^ (match b with [] -> "-" | _ -> hex_of_string (string_of_bytes b)) in
    let enc f = Printf.sprintf "r=%s,b=%s,t=%s" (enc_node f.resolv) (enc_node f.bak) (enc_node f.tmp) in
    let rec nat_of_int n = if n <= 0 then O else S (nat_of_int (n-1)) in
    let evl = split_on ';' evs and stl = split_on ';' states in
    let problems = ref [] and specs = ref [] in
    let orig_ok f = (f.resolv = Some n0 && f.bak = None) || f.bak = Some n0 in
    let ncrash = ref 0 in
    let _ = List.fold_left2 (fun f e st ->
        let f' = (match split_on ':' e with
          | ["A"; dns; k] ->
            let d = bytes_of_token dns in
            let ops = activate_ops f d in
            let nops = List.length ops in
            let ki = int_of_string k in
            (* negative k = "killed on entry of the j-th rename": translate with the op list *)
            let kk = if ki >= 0 then ki else begin
                let j = - ki in
                let idxs = List.filteri (fun _ _ -> true) (List.mapi (fun i o -> (i, o)) ops) in
                let renames = List.filter (fun (_, o) -> match o with Rename (_, _) -> true | _ -> false) idxs in
                if List.length renames >= j then fst (List.nth renames (j-1)) else nops end in
            if kk < nops then incr ncrash;
            (* the kill is delivered while the traced process is in the numbered system call: that call has, rarely,
               already taken effect when the process dies -- the state one mutation further is the same crash point *)
            let f1 = crash_activate f d (nat_of_int kk) in
            if enc f1 <> st && ki >= 0 && kk < nops && enc (crash_activate f d (nat_of_int (kk + 1))) = st
            then crash_activate f d (nat_of_int (kk + 1)) else f1
          | ["D"; k] -> let ki = int_of_string k in if ki < List.length (deactivate_ops f) then incr ncrash;
            let f1 = crash_deactivate f (nat_of_int ki) in
            if enc f1 <> st && ki < List.length (deactivate_ops f) && enc (crash_deactivate f (nat_of_int (ki + 1))) = st
            then crash_deactivate f (nat_of_int (ki + 1)) else f1
          | _ -> failwith "rc event") in
        (* the temporary file of a killed writer may hold a partial last line only if a write was torn: never with one write per line *)
        if enc f' <> st then problems := Printf.sprintf "after %s: impl=%s model=%s" e st (enc f') :: !problems;
        (* spec on the implementation's own state: the original is intact at resolv.conf or at the backup *)
        let has_orig =
          (let r = List.nth (split_on ',' st) 0 and b = List.nth (split_on ',' st) 1 in
           let on = enc_node (Some n0) in
           (r = "r=" ^ on && b = "b=N") || b = "b=" ^ on) in
        if not has_orig then specs := "C19" :: !specs;
        (* after a completed activation the file names only the proxy *)
        (match split_on ':' e with
         | ["A"; dns; "999"] ->
           let r = List.nth (split_on ',' st) 0 in
           if String.length r > 3 && r.[2] = 'F' then begin
             let cont = bytes_of_token (String.sub r 3 (String.length r - 3)) in
             if nameservers cont <> [bytes_of_token dns] then specs := "C19" :: !specs
           end
         | _ -> ());
        ignore (orig_ok f');
        f') { resolv = Some n0; bak = None; tmp = None } evl stl in
    let tag = Printf.sprintf "%s/ev%d/crash%d" kind (List.length evl) (min !ncrash 3) in
    if !specs <> [] then verdict "rc" id "spec:C19" tag (String.concat "; " (List.rev !problems))
    else if !problems = [] then verdict "rc" id "ok" tag ""
    else verdict "rc" id "diff" tag (String.concat "; " (List.rev !problems))
  | _ -> verdict "rc" id "diff" "malformed-line" ""

(* ---- engine config ----
   cfg <id> <args> <setopt> => <E1> <file lines> <E2> <E3> <E4>   (hex; FAILED when the child exited non-zero) *)
let do_cfg id ins outs =
  match ins, outs with
  | [_args; setopt], [e1; lines; e2; e3; e4] ->
    let dec t = if t = "FAILED" then None else Some (string_of_bytes (bytes_of_token t)) in
    let kv e = List.filter_map (fun p -> match String.index_opt p '=' with
        | Some i -> Some (String.sub p 0 i, String.sub p (i+1) (String.length p - i - 1)) | None -> None) (String.split_on_char ';' e) in
    let so = string_of_bytes (bytes_of_token setopt) in
    let setkey = (let k = List.hd (String.split_on_char ' ' so) in
                  let k = List.hd (String.split_on_char '=' k) in
                  match k with "-debug" -> "debug" | "-log-queries" -> "log" | "-cache-size" -> "cache" | "-timeout" -> "timeout"
                             | "-max-ttl" -> "maxttl" | "-mdns" -> "mdns" | "-bogus-priv" -> "bogus" | "-max-inflight-requests" -> "inflight"
                             | "-discovery-dns" -> "ddns" | x -> x) in
    let problems = ref [] and specs = ref [] in
    (match dec e1, dec e2, dec e3, dec e4 with
     | Some a, Some b, Some c, Some d ->
       (* effective configuration: scalars, listen addresses, and the profile / forwarder chosen for every probe
          (the printed profile/forwarder lists are a representation, not part of the effective configuration) *)
       (* the printed lists are compared after the replacement Set performs (an entry with the same condition
          replaces the earlier one in place): the deprecated -config flag appends without it *)
       let norm_list v =
         let cond x = (match String.index_opt x '=' with Some i -> String.sub x 0 i | None -> "") in
         let items = if v = "" then [] else String.split_on_char ',' v in
         let acc = List.fold_left (fun acc x ->
             if List.exists (fun y -> cond y = cond x) acc then List.map (fun y -> if cond y = cond x then x else y) acc else acc @ [x]) [] items in
         String.concat "," acc in
       let eff e = List.map (fun (k, v) -> if k = "profiles" || k = "forwarders" then (k, norm_list v) else (k, v)) (kv e) in
       if eff a <> eff b then begin specs := "C17" :: !specs;
         let ka = eff a and kb = eff b in
         List.iter (fun (k, v) -> match List.assoc_opt k kb with Some v' when v' <> v -> problems := Printf.sprintf "%s: saved %s reloaded %s" k v v' :: !problems | _ -> ()) ka end;
       if eff c <> eff d then begin specs := "C17" :: !specs; problems := "config set: saved and reloaded effective configurations differ" :: !problems end;
       let kb = eff b and kd = eff d in
       List.iter (fun (k, v) -> if k <> setkey then (match List.assoc_opt k kd with
           | Some v' when v' <> v -> specs := "C17" :: !specs; problems := Printf.sprintf "config set %s changed %s: %s -> %s" setkey k v v' :: !problems
           | _ -> ())) kb;
       (* the stored lines, reloaded by the extracted generic store with string-level criteria, give the lists the implementation reports *)
       (match dec lines with
        | Some ls ->
          let items = List.filter_map (fun l -> match String.index_opt l ' ' with
              | Some i -> let n = String.sub l 0 i and v = String.sub l (i+1) (String.length l - i - 1) in
                (match n with "listen" -> Some (Elem (O, bytes_tab.(0) :: [] |> fun _ -> List.init (String.length v) (fun k -> bytes_tab.(Char.code v.[k]))))
                            | "profile" -> Some (Elem (S O, List.init (String.length v) (fun k -> bytes_tab.(Char.code v.[k]))))
                            | "forwarder" -> Some (Elem (S (S O), List.init (String.length v) (fun k -> bytes_tab.(Char.code v.[k]))))
                            | _ -> None)
              | None -> None) (String.split_on_char '\n' ls) in
          let cond s = (let s = string_of_bytes s in match String.index_opt s '=' with Some i -> Some (String.sub s 0 i) | None -> None) in
          let same j x y = (match j with
              | O -> x = y
              | S O -> (match cond x, cond y with None, None -> true | Some a, Some b -> a = b | _ -> false)
              | _ -> (match cond x, cond y with Some a, Some b -> a = b | None, None -> true | _ -> false)) in
          let parse j v = (match j with
              | S (S O) when ascii_text v -> (match fwd_text_parse (fun _ -> true) v with Some r -> Some (fwd_text_show r) | None -> None)
              | _ -> Some v) in
          let norm _ v = Some v in
          let d0 = { scalars = []; lists = [[]; []; []] } in
          (match load same parse norm d0 items with
           | Some st ->
             let str l = String.concat "," (List.map string_of_bytes l) in
             let expect k = (match List.assoc_opt k (kv b) with Some v -> v | None -> "?") in
             (match st.lists with
              | [li; pr; fw] ->
                if str li <> expect "listen" then problems := Printf.sprintf "listen: model %s impl %s" (str li) (expect "listen") :: !problems;
                if str pr <> expect "profiles" then problems := Printf.sprintf "profiles: model %s impl %s" (str pr) (expect "profiles") :: !problems;
                if str fw <> expect "forwarders" then problems := Printf.sprintf "forwarders: model %s impl %s" (str fw) (expect "forwarders") :: !problems
              | _ -> ())
           | None -> ())
        | None -> ())
     | Some _, None, _, _ -> specs := "C17" :: !specs; problems := "the saved configuration fails to load" :: !problems
     | Some _, Some _, None, _ | Some _, Some _, _, None -> specs := "C17" :: !specs; problems := "config set / reload failed on a stored configuration" :: !problems
     | None, _, _, _ -> ());
    let tag = if dec e1 = None then "rejected" else "accepted" in
    let detail = String.concat "; " (List.rev !problems) in
    if !specs <> [] then verdict "cfg" id "spec:C17" tag detail
    else if !problems = [] then verdict "cfg" id "ok" tag ""
    else verdict "cfg" id "diff" tag detail
  | _ -> verdict "cfg" id "diff" "malformed-line" ""

(* ---- engine fwdtext ----
   fwt <id> <value> => <err> <Domain> <String()> <Domain after re-Set> <String() after re-Set> <len after re-Set on top>
   model: Model/FwdText.v (newResolver / String at the level of text), valid := everything (rejected values are not compared) *)
let do_fwt id ins outs =
  match ins, outs with
  | [v], [err; d1; s1; d2; s2; n] ->
    let vb = bytes_of_token v in
    if err = "1" then verdict "fwt" id "ok" "rejected" ""
    else if not (ascii_text vb) then verdict "fwt" id "ok" "nonascii" ""
    else begin
      let enc l = (match l with [] -> "-" | _ -> hex_of_string (string_of_bytes l)) in
      let problems = ref [] and specs = ref [] in
      (match fwd_text_parse (fun _ -> true) vb with
       | Some r ->
         let md = enc (fst r) and ms = enc (fwd_text_show r) in
         if md <> d1 then problems := Printf.sprintf "Domain impl=%s model=%s" d1 md :: !problems;
         if ms <> s1 then problems := Printf.sprintf "String impl=%s model=%s" s1 ms :: !problems
       | None -> problems := "model rejects" :: !problems);
      (* specification on the implementation's own observation: what String() prints is read back to the same
         rule (same Domain, same printed form) and replaces the rule it came from (theorem C17_forwarder_text) *)
      if d2 <> d1 || s2 <> s1 then begin specs := "C17" :: !specs;
        problems := Printf.sprintf "String() %s reloads as Domain=%s String=%s (was Domain=%s)" s1 d2 s2 d1 :: !problems end;
      if n <> "1" then begin specs := "C17" :: !specs; problems := Printf.sprintf "re-Set of String() left %s rules" n :: !problems end;
      let tag = (match printed_cond vb with None -> "nocond" | Some _ -> if List.exists (fun c -> c = bytes_tab.(32) || c = bytes_tab.(9)) vb then "cond+ws" else "cond") in
      let detail = String.concat "; " (List.rev !problems) in
      if !specs <> [] then verdict "fwt" id "spec:C17" tag detail
      else if !problems = [] then verdict "fwt" id "ok" tag ""
      else verdict "fwt" id "diff" tag detail
    end
  | _ -> verdict "fwt" id "diff" "malformed-line" ""

(* ---- engine proftext ----
   pft <id> <value> => <err> <kind> <canonical condition> <ID> <String()> <String() after re-Set> <rules after re-Set on top>
   model: Model/ProfText.v; package net is an oracle instantiated from the implementation's own observation of this value
   (which kind of condition it is and how it prints): what is compared is the cutting, the trimming, the order of the three
   attempts and the printed form *)
let do_pft id ins outs =
  match ins, outs with
  | [v], [err; kind; canon; pid; s1; s2; n] ->
    let vb = bytes_of_token v in
    if err = "1" then verdict "pft" id "ok" "rejected" ""
    else if not (ascii_text vb) then verdict "pft" id "ok" "nonascii" ""
    else begin
      let enc l = (match l with [] -> "-" | _ -> hex_of_string (string_of_bytes l)) in
      let cb = bytes_of_token canon in
      let cond = (match cut_eq vb with Some (c, _) -> trim_space c | None -> []) in
      let orc k t = if kind = k && (t = cond || t = cb) then Some cb else None in
      let problems = ref [] and specs = ref [] in
      (match prof_text_parse (orc "cidr") (orc "mac") (fun t -> kind = "iface" && t = cond) vb with
       | Some r ->
         if enc (snd r) <> pid then problems := Printf.sprintf "ID impl=%s model=%s" pid (enc (snd r)) :: !problems;
         if enc (prof_text_show r) <> s1 then problems := Printf.sprintf "String impl=%s model=%s" s1 (enc (prof_text_show r)) :: !problems
       | None -> problems := "model rejects" :: !problems);
      if s2 <> s1 then begin specs := "C17" :: !specs; problems := Printf.sprintf "String() %s reloads as %s" s1 s2 :: !problems end;
      if n <> "1" then begin specs := "C17" :: !specs; problems := Printf.sprintf "re-Set of String() left %s rules" n :: !problems end;
      let detail = String.concat "; " (List.rev !problems) in
      if !specs <> [] then verdict "pft" id "spec:C17,C11" kind detail
      else if !problems = [] then verdict "pft" id "ok" kind ""
      else verdict "pft" id "diff" kind detail
    end
  | _ -> verdict "pft" id "diff" "malformed-line" ""

(* ---- engine clientinfo ---- *)
let hexs (l : z list) = match l with [] -> "-" | _ -> hex_of_string (string_of_bytes l)

(* sid <id> <profhex> <devhex> => <idhex> *)
let do_sid id ins outs =
  match ins, outs with
  | [p; d], [res] ->
    let m = hexs (short_id (bytes_of_token p) (bytes_of_token d)) in
    let ok5 = (res <> "-" && String.length res = 10) in
    if not ok5 then verdict "sid" id "spec:C14" "sid" (Printf.sprintf "device id is not five characters: %s" res)
    else if res = m then verdict "sid" id "ok" "sid" "" else verdict "sid" id "diff" "sid" (Printf.sprintf "impl=%s model=%s" res m)
  | _ -> verdict "sid" id "diff" "malformed-line" ""

(* ci <id> <prof> <iptext> <ipraw> <mac|-> <byaddr> <bymac> => id/ip/model/name *)
let do_ci id ins outs =
  match ins, outs with
  | [p; ipt; ipr; mac; ba; bm], [res] ->
    let lst s = if s = "-" then [] else List.map bytes_of_token (String.split_on_char ',' s) in
    let macb = if mac = "-" then None else Some (bytes_of_token mac) in
    let ci = lan_client_info (bytes_of_token p) (bytes_of_token ipt) (bytes_of_token ipr) macb (lst ba) (lst bm) in
    let m = String.concat "/" [hexs ci.ci_id; hexs ci.ci_ip; hexs ci.ci_model; hexs ci.ci_name] in
    let tag = (if mac = "-" then "ip" else "mac") ^ (if lst ba = [] && lst bm = [] then "" else "+name") in
    (* spec: the full MAC is never part of what is sent; the model field reveals at most 3 bytes *)
    let leak = (match macb, String.split_on_char '/' res with
        | Some mb, [_; _; model; _] when List.length mb >= 4 && model <> "-" ->
          let full = hex_of_string (string_of_bytes (mac_string mb)) in
          let has_sub s sub = (let n = String.length sub in let rec f i = i + n <= String.length s && (String.sub s i n = sub || f (i+1)) in f 0) in
          has_sub res full
        | _ -> false) in
    if leak then verdict "ci" id "spec:C14" tag ("the full MAC appears in the client information: " ^ res)
    else if res = m then verdict "ci" id "ok" tag "" else verdict "ci" id "diff" tag (Printf.sprintf "impl=%s model=%s" res m)
  | _ -> verdict "ci" id "diff" "malformed-line" ""

(* cis <id> <nprof> (<entry> <idhex>)* (<iptext>;<ip16>;<ipnorm>;<mac>;<byaddr>;<bymac>)+ => (<id>/<ip>/<model>/<name>/<profile>/<freshid>)+
   one daemon lifetime, several clients: the id sent for a client depends on its profile and device only *)
let do_cis id ins outs =
  match ins with
  | nstr :: rest ->
    let n = int_of_string nstr in
    let rec take k l acc = if k = 0 then (List.rev acc, l) else
        (match l with e :: i :: r -> take (k-1) r ((e, i) :: acc) | _ -> failwith "cis line") in
    let (el, qs) = take n rest [] in
    let mk (e, i) =
      let pid = bytes_of_token i in
      let body = String.sub e 1 (String.length e - 1) in
      match e.[0] with
      | 'P' -> let j = String.index body '/' in
        let ip = bytes_of_token (String.sub body 0 j) and bits = int_of_string (String.sub body (j+1) (String.length body - j - 1)) in
        { pr_id = pid; pr_prefix = Some { c_ip = ip; c_bits = z_of_int bits }; pr_mac = []; pr_dest = [] }
      | 'I' -> { pr_id = pid; pr_prefix = None; pr_mac = []; pr_dest = List.map bytes_of_token (String.split_on_char ',' body) }
      | _ -> { pr_id = pid; pr_prefix = None; pr_mac = []; pr_dest = [] } in
    let ps = List.fold_left (fun acc x -> pset acc (mk x)) [] el in
    let lst s = if s = "-" then [] else List.map bytes_of_token (String.split_on_char ',' s) in
    let problems = ref [] and specs = ref [] and spec13 = ref false in
    (if List.length qs <> List.length outs then problems := ["result count"] else
    List.iteri (fun k (q, o) ->
      match String.split_on_char ';' q, String.split_on_char '/' o with
      | [ipt; ip16; ipn; mac; ba; bm; loc], [iid; iip; imodel; iname; iprof; ifresh] ->
        let macb = if mac = "-" then None else Some (bytes_of_token mac) in
        let c = { cl_src = Some (bytes_of_token ipn); cl_dst = Some (bytes_of_token loc);
                  cl_mac = (match macb with Some m -> m | None -> []) } in
        let prof = pget ps c in
        let ci = lan_client_info prof (bytes_of_token ipt) (bytes_of_token ip16) macb (lst ba) (lst bm) in
        let m = String.concat "/" [hexs ci.ci_id; hexs ci.ci_ip; hexs ci.ci_model; hexs ci.ci_name; hexs prof] in
        let i = String.concat "/" [iid; iip; imodel; iname; iprof] in
        if iip <> ipt then (spec13 := true; specs := Printf.sprintf "client %d: the address %s the query came with (ECS or socket) is not what is reported as the client's identity (X-Device-Ip %s)" k
              (string_of_bytes (bytes_of_token ipt)) (if iip = "-" then "absent" else string_of_bytes (bytes_of_token iip)) :: !specs)
        else if iid <> ifresh then specs := Printf.sprintf "client %d (profile %s): id sent is %s, the id of this profile and device computed on its own is %s" k
              (string_of_bytes (bytes_of_token iprof)) (string_of_bytes (bytes_of_token iid)) (string_of_bytes (bytes_of_token ifresh)) :: !specs
        else if i <> m then problems := Printf.sprintf "client %d impl=%s model=%s" k i m :: !problems
      | _ -> problems := "malformed client" :: !problems) (List.combine qs outs));
    let tag = Printf.sprintf "p%d/q%d" n (List.length qs) in
    if !specs <> [] then verdict "cis" id (if !spec13 then "spec:C13,C14" else "spec:C14") tag (String.concat "; " (List.rev !specs))
    else if !problems <> [] then verdict "cis" id "diff" tag (String.concat "; " (List.rev !problems))
    else verdict "cis" id "ok" tag ""
  | _ -> verdict "cis" id "diff" "malformed-line" ""

(* hdr <id> <reporting> <id> <ip> <model> <name> => <resolved> <nreq> <headers> *)
let do_hdr id ins outs =
  match ins, outs with
  | [rep; cid; cip; cmodel; cname], [resolved; nreq; hs] ->
    let ci = if rep = "1" then Some { ci_id = bytes_of_token cid; ci_ip = bytes_of_token cip; ci_model = bytes_of_token cmodel; ci_name = bytes_of_token cname } else None in
    let names = [| "Id"; "Ip"; "Model"; "Name" |] in
    let m = List.sort compare (List.map (fun (k, v) -> names.(int_of_z k) ^ "=" ^ hexs v) (device_headers ci)) in
    let ms = if m = [] then "-" else String.concat "," m in
    let tag = (if rep = "1" then "on" else "off") ^ (if rep = "1" && not (valid_header_value (bytes_of_token cname)) then "/badname" else "") in
    if resolved <> "1" || nreq <> "1" then verdict "hdr" id "spec:C14" tag (Printf.sprintf "the query did not resolve (resolved=%s requests=%s)" resolved nreq)
    else if rep = "0" && hs <> "-" then verdict "hdr" id "spec:C14" tag ("device headers sent with reporting off: " ^ hs)
    else if hs = ms then verdict "hdr" id "ok" tag "" else verdict "hdr" id "diff" tag (Printf.sprintf "impl=%s model=%s" hs ms)
  | _ -> verdict "hdr" id "diff" "malformed-line" ""

let () =
  try
    while true do
      let line = input_line stdin in
      let toks = String.split_on_char ' ' line in
      (* one malformed or unexpected line must not end the run: it is reported as a disagreement on that case *)
      try (match toks with
      | "reply" :: id :: rest -> let (i, o) = split_arrow rest in do_reply id i o
      | "query" :: id :: rest -> let (i, o) = split_arrow rest in do_query id i o
      | "uniq" :: id :: rest -> let (i, o) = split_arrow rest in do_uniq id i o
      | "lease" :: id :: rest -> let (i, o) = split_arrow rest in do_lease id i o
      | "hosts" :: id :: rest -> let (i, o) = split_arrow rest in do_hosts id i o
      | "clist" :: id :: rest -> let (i, o) = split_arrow rest in do_clist id i o
      | "rhist" :: id :: rest -> let (i, o) = split_arrow rest in do_rhist id i o
      | "fault" :: id :: rest -> let (i, o) = split_arrow rest in fault_tcp := false; do_fault id i o
      | "faulttcp" :: id :: rest -> let (i, o) = split_arrow rest in fault_tcp := true; do_fault id i o; fault_tcp := false
      | "sid" :: id :: rest -> let (i, o) = split_arrow rest in do_sid id i o
      | "tcpstall" :: id :: rest ->
        (* a client that stopped reading for a while and then reads on receives whole messages only, each delimited by its
           length prefix, one per query *)
        let (i, o) = split_arrow rest in
        (match i, o with
         | [k; size], [whole; foreign; leftover] ->
           let tag = "stall/" ^ size in
           if whole = k && foreign = "0" && leftover = "0" then verdict "tcpstall" id "ok" tag ""
           else verdict "tcpstall" id "spec:C05,C01" tag
               (Printf.sprintf "%s pipelined queries with %s-byte answers, the client pausing its reads: %s whole replies, %s frames that are no reply to any of them, %s bytes after the last whole frame" k size whole foreign leftover)
         | _ -> verdict "tcpstall" id "diff" "malformed-line" "")
      | "qmut" :: id :: rest ->
        (* who asked (peer address, hardware address) and at which local address are the request's own: they were
           different when the upstream was done with the query than when it was called *)
        let (_, o) = split_arrow rest in
        (match o with
         | [nm; field; before; after] ->
           verdict "qmut" id "spec:C01,C02,C11,C13" field
             (Printf.sprintf "while query %s was being resolved its %s changed from %s to %s (another request's data)"
                (string_of_bytes (bytes_of_token nm)) field before after)
         | _ -> verdict "qmut" id "diff" "malformed-line" "")
      | "e2e" :: id :: rest -> let (i, o) = split_arrow rest in do_e2e id i o
      | "e2el" :: id :: rest ->
        (* a name the upstream does not know and a discovery source does: answered locally -- exactly one reply, carrying the
           query's ID and question, and not an error *)
        let (i, o) = split_arrow rest in
        (match i, o with
         | [proto; qh], [nrep; rep] ->
           let tag = "local/" ^ proto in
           if nrep <> "1" then verdict "e2el" id "spec:C01" tag (Printf.sprintf "%s replies to one well-formed query" nrep)
           else begin
             let q = string_of_bytes (bytes_of_token qh) and r = string_of_bytes (bytes_of_token rep) in
             let qend = (let rec go k = if k >= String.length q then k else if q.[k] = '\000' then k + 5 else go (k + 1 + Char.code q.[k]) in go 12) in
             if String.length r < qend || String.sub r 0 2 <> String.sub q 0 2 then
               verdict "e2el" id "spec:C01" tag (Printf.sprintf "the reply does not carry the query's ID: query=%s reply=%s" qh rep)
             else if String.sub r 12 (qend - 12) <> String.sub q 12 (qend - 12) then
               verdict "e2el" id "spec:C01" tag (Printf.sprintf "the reply does not carry the query's question: query=%s reply=%s" qh rep)
             else if Char.code r.[2] land 0x80 = 0 || Char.code r.[3] land 15 <> 0 then
               verdict "e2el" id "spec:C01,C12" tag (Printf.sprintf "a name known on the LAN was not answered locally: reply=%s" rep)
             else verdict "e2el" id "ok" tag ""
           end
         | _ -> verdict "e2el" id "diff" "malformed-line" "")
      | "lmc" :: id :: rest -> let (i, o) = split_arrow rest in do_lmc id i o
      | "dsvc" :: id :: rest -> let (i, o) = split_arrow rest in do_dsvc id i o
      | "dact" :: id :: rest -> let (i, o) = split_arrow rest in do_dact id i o
      | "eps" :: id :: rest -> let (i, o) = split_arrow rest in do_eps id i o
      | "names" :: id :: rest -> let (i, o) = split_arrow rest in do_names id i o
      | "rfr" :: id :: rest -> let (i, o) = split_arrow rest in do_rfr id i o
      | "cis" :: id :: rest -> let (i, o) = split_arrow rest in do_cis id i o
      | "ci" :: id :: rest -> let (i, o) = split_arrow rest in do_ci id i o
      | "hdr" :: id :: rest -> let (i, o) = split_arrow rest in do_hdr id i o
      | "cfg" :: id :: rest -> let (i, o) = split_arrow rest in do_cfg id i o
      | "fwt" :: id :: rest -> let (i, o) = split_arrow rest in do_fwt id i o
      | "pft" :: id :: rest -> let (i, o) = split_arrow rest in do_pft id i o
      | "rc" :: id :: rest -> let (i, o) = split_arrow rest in do_rc id i o
      | "router" :: id :: rest -> let (i, o) = split_arrow rest in do_router id i o
      | "race" :: id :: rest -> let (i, o) = split_arrow rest in do_race id i o
      | "storm" :: id :: rest -> let (i, o) = split_arrow rest in do_storm id i o
      | "listen" :: id :: rest -> let (i, o) = split_arrow rest in do_listen id i o
      | "mgrhang" :: id :: rest -> let (i, o) = split_arrow rest in do_mgrhang id i o
      | "mgr" :: id :: rest -> let (i, o) = split_arrow rest in do_mgr id i o
      | "ttl" :: id :: rest -> let (i, o) = split_arrow rest in do_ttl id i o
      | "mdns" :: id :: rest -> let (i, o) = split_arrow rest in do_mdns id i o
      | "flow" :: id :: rest -> let (i, o) = split_arrow rest in do_flow id i o
      | "fwd" :: id :: rest -> let (i, o) = split_arrow rest in fwd_hide_default := false; do_fwd id i o
      | "dfwd" :: id :: rest ->
        (* the real daemon: run.go appends the NextDNS default after the configured forwarders; what reaches it cannot be
           seen from inside the namespace, so only the configured upstreams are compared *)
        let (i, o) = split_arrow rest in
        (match o with
         | x :: _ when String.length x > 10 && String.sub x 0 10 = "DAEMONFAIL" -> verdict "dfwd" id "diff" "daemon-did-not-start" (string_of_bytes (bytes_of_token (String.sub x 11 (String.length x - 11))))
         | _ -> fwd_hide_default := true; do_fwd id i o; fwd_hide_default := false)
      | "dbind" :: id :: rest ->
        let (i, o) = split_arrow rest in
        (match i, o with
         | [kind; pinned], [rc; reported; ms] ->
           let tag = kind ^ (if pinned = "1" then "/shared-cpu" else "") in
           if rc = "1" && reported = "1" then verdict "dbind" id "ok" tag ""
           else verdict "dbind" id "spec:C16" tag (Printf.sprintf "the daemon was started on an address it cannot bind: exit status %s after %s ms, bind failure reported=%s (expected: reported, exit 1)" rc ms reported)
         | _ -> verdict "dbind" id "diff" "malformed-line" "")
      | "dops" :: id :: rest ->
        (* life cycle of the real proxySvc against the extracted specification Model/Svc.v *)
        let (i, o) = split_arrow rest in
        (match i with
         | [script] ->
           let ops = List.filter_map (function "O" -> Some SvOccupy | "F" -> Some SvFree | "S" -> Some SvStart | "T" -> Some SvStop
                                             | "R" -> Some SvRestart | _ -> None) (String.split_on_char ',' script) in
           let tag = Printf.sprintf "n%d%s" (min (List.length ops) 9) (if String.length script > 2 && String.sub script 0 3 = "O,S" then "/occupied-first" else "") in
           if not (svc_wf svc0 ops) then verdict "dops" id "diff" tag "history outside the specification"
           else begin
             let want = List.map (fun (ok, held) -> (if ok then "ok" else "err") ^ "/" ^ (if held then "1" else "0")) (snd (svc_run svc0 ops)) in
             if want = o || (want = [] && o = ["none"]) then verdict "dops" id "ok" tag ""
             else verdict "dops" id "spec:C16" tag (Printf.sprintf "service life cycle %s: reported/holds-the-address %s, expected %s" script (String.concat " " o) (String.concat " " want))
           end
         | _ -> verdict "dops" id "diff" "malformed-line" "")
      | "prof" :: id :: rest -> let (i, o) = split_arrow rest in do_prof id i o
      | _ -> ())
      with
      | End_of_file -> raise End_of_file
      | e -> (match toks with
          | eng :: id :: _ -> verdict eng id "diff" "driver-exception" (Printexc.to_string e)
          | _ -> ())
    done
  with End_of_file -> ()
