"""Per-property configuration for bin/check: which proof files carry the
obligations, which engine runs tie the model to /repo, case budgets per tier."""

WIRE = ["Proofs/WireFacts.v", "Proofs/QueryFacts.v", "Proofs/ReplyFacts.v"]

PROPS = {
    "C01": {
        "proof_files": WIRE,
        "runs": [
            {"engine": "reply", "args": ["-mode", "seq"], "n_quick": 1200, "n_thorough": 60000, "netns": True},
            {"engine": "reply", "args": ["-mode", "conc"], "n_quick": 1500, "n_thorough": 150000, "netns": True},
            {"engine": "reply", "args": ["-mode", "tcpstorm"], "n_quick": 25, "n_thorough": 1500, "netns": True},
            {"engine": "reply", "args": ["-mode", "tcpstall"], "n_quick": 3, "n_thorough": 60, "netns": True},
            {"engine": "resolver", "args": ["-mode", "e2e"], "n_quick": 900, "n_thorough": 60000, "netns": True},
        ],
        "trivial_tags": [r"/small"],
        "rule": "random well-formed/damaged queries x upstream outcomes (up/err/empty/err-with-bytes/hang) x UDP/TCP, one at a time "
                "(seq), plus batches of concurrent UDP clients and pipelined TCP clients whose handlers rendezvous in the upstream and "
                "are released together (conc); every reply compared byte-for-byte with the extracted `serve`; the extracted c01_ok "
                "spec is evaluated on the implementation's own reply. e2e: the real proxy in front of the real resolver (DoH over TLS to a local "
                "server whose answer is a function of the question bytes, response cache on), batches of concurrent UDP clients and pipelined "
                "TCP clients over a small pool of names in random letter case: each reply must be that function of its own question. "
                "distinct = distinct (proto, query, outcome, upstream message); "
                "non-trivial = query longer than 14 bytes",
        "assumptions": ["upstream echoes ID and question (the proxy relays without checking)",
                        "advertised EDNS size <= 65507 (the property's quantifier); larger sizes are still compared with the model",
                        "a single net.Conn.Write is atomic with respect to other writes"],
    },
    "C02": {
        "proof_files": WIRE + ["Mutants/QuerySpin.v"],
        "runs": [
            {"engine": "query", "args": [], "n_quick": 6000, "n_thorough": 400000},
            {"engine": "reply", "args": ["-mode", "seq"], "n_quick": 1200, "n_thorough": 40000, "netns": True},
            {"engine": "reply", "args": ["-mode", "storm"], "n_quick": 12, "n_thorough": 400, "netns": True},
            {"engine": "reply", "args": ["-mode", "conc"], "n_quick": 1500, "n_thorough": 40000, "netns": True},
            {"engine": "racestress", "args": [], "n_quick": 5, "n_thorough": 120, "netns": True, "mountns": True},
        ],
        "race_build": True,
        "trivial_tags": [],
        "rule": "structured generator (valid header; 0-3 questions; records in all sections; OPT anywhere with 0-6 options incl. ECS/MAC; "
                "compression pointers forward/backward/self/chained up to 14; non-OPT additionals) + mutation stream (truncate, flip, splice, "
                "inflate counts, insert pointers) + random bytes + large messages; query.New runs in a worker sub-process under a 3 s "
                "watchdog (spin) with crash detection; the live proxy gets the same families over UDP and TCP. distinct = distinct byte "
                "strings; non-trivial = all (every byte string is in the property's quantifier)",
        "assumptions": ["Go runtime, net and x/net control-message code are not modelled",
                        "peer is a loopback address: ARP/NDP table lookups return nothing (environment)"],
    },
    "C08": {
        "proof_files": ["Proofs/ManagerFacts.v"],
        "generated": {"cmd": ["consts-extract"], "out": "Gen/SrcConsts.v",
                      "compile": ["Gen/SrcConsts.v", "Properties/C08_consts.v"], "theorem": "C08_consts_agree"},
        "runs": [{"engine": "manager", "args": [], "n_quick": 500, "n_thorough": 40000},
                 {"engine": "manager", "args": ["-mode", "hang"], "n_quick": 8, "n_thorough": 60},
                 {"engine": "resolver", "args": ["-mode", "eps"], "n_quick": 60, "n_thorough": 6000, "netns": True}],
        "trivial_tags": [r"^e0/"],
        "rule": "random scripts (6-30 ops) on the real endpoint.Manager: 1-3 scripted providers x 0-3 endpoints, probe health flips incl. "
                "network-unreachable, provider errors (plain/unreachable), clock advances through the manager's testNow hook, queries whose "
                "actions block until the script ends them (success/failure), background elections held at a gate in the first provider "
                "until the script runs them; compared after every op: active endpoint, interval, testing latch, error count, last-test age, "
                "and the full ordered log of probes, OnChange/OnError/OnProviderError callbacks and endpoint used per query; each script runs "
                "in its own process (a crash is attributed to it). non-trivial = at least one background election ran",
        "assumptions": ["an election is atomic with respect to query starts (it holds Manager.mu; starting queries wait on RLock)",
                        "Go mutex hand-off is FIFO for the (at most two) waiting elections the scripts create"],
    },
    "C09": {
        "proof_files": ["Proofs/ManagerFacts.v", "Mutants/ManagerLock.v"],
        "generated": {"cmd": ["consts-extract"], "out": "Gen/SrcConsts.v",
                      "compile": ["Gen/SrcConsts.v", "Properties/C08_consts.v"], "theorem": "C08_consts_agree"},
        "runs": [{"engine": "manager", "args": [], "n_quick": 500, "n_thorough": 40000},
                 {"engine": "manager", "args": ["-mode", "hang"], "n_quick": 8, "n_thorough": 60},
                 {"engine": "resolver", "args": ["-mode", "eps"], "n_quick": 60, "n_thorough": 6000, "netns": True}],
        "trivial_tags": [r"^e0/"],
        "rule": "same scripts as C08, judged additionally by the deadlock watchdog (a Do / election that does not complete within 2 s "
                "while the script expects it) and by process crashes; script 0 is the corpus case bootstrap-with-unreachable-provider "
                "followed by a second query (F2)",
        "assumptions": ["fair scheduling by the Go runtime for progress", "real probes and HTTP transports replaced by scripted ones in the manager engine; the eps engine uses real DoH endpoints, transports and probes"],
    },
    "C10": {
        "proof_files": ["Proofs/ConfigFacts.v", "Proofs/ForwarderLabels.v"],
        "runs": [{"engine": "forwarder", "args": [], "n_quick": 600, "n_thorough": 60000, "netns": True},
                 {"engine": "daemon", "args": ["-mode", "fwd"], "n_quick": 30, "n_thorough": 1500, "netns": True}],
        "trivial_tags": [r"^default$"],
        "rule": "random ordered forwarder lists (1-5 entries over a pool of nested/overlapping domains in random letter case, "
                "domain-less entries at any position, Set's same-domain replacement) x 4 names each (equal, child, grandchild, "
                "string-suffix-only, suffix of the domain, root, unrelated; 0x20-randomised); each forwarder is a real resolver.DNS "
                "pointing at its own UDP server, default appended as run.go does; observed = which servers saw the name. "
                "non-trivial = a configured forwarder (not the default) was selected by the model",
        "assumptions": ["label-level reading of 'parent on a label boundary' is the extracted spec_get (label lists, case-insensitive) "
                        "evaluated on every case; the Coq theorems state it at string level ('.domain' suffix)"],
    },
    "C11": {
        "proof_files": ["Proofs/ConfigFacts.v"],
        "runs": [{"engine": "profile", "args": [], "n_quick": 800, "n_thorough": 80000, "netns": True},
                 {"engine": "resolver", "args": ["-mode", "e2e"], "n_quick": 500, "n_thorough": 30000, "netns": True},
                 {"engine": "resolver", "args": ["-mode", "hist"], "n_quick": 60, "n_thorough": 3000, "netns": True},
                 {"engine": "reply", "args": ["-mode", "conc"], "n_quick": 600, "n_thorough": 20000, "netns": True}],
        "trivial_tags": [r"^none$"],
        "rule": "random ordered profile lists (0-6 entries: v4/v6 nested subnets, MACs in three notations, interface conditions on "
                "lo and a veth pair, unconditional ids; built with Profiles.Set) x 5 client tuples (absent src/dst/MAC, v4-mapped); "
                "non-trivial = some profile id selected. e2e: the real proxy in front of the real resolver (DoH over TLS, cache on), four "
                "profiles chosen by client address, concurrent UDP and pipelined TCP clients of different profiles asking the same names "
                "while requests are outstanding: every reply must carry the answer fetched under the client's own profile. hist: the "
                "request path and ResolveInfo.Profile are the profile id (C11 spec in the history engine)",
        "assumptions": ["net.ParseCIDR / ParseMAC / InterfaceByName are environment: the harness reports their results to the model",
                        "the id-to-URL wiring in run.go (package main) is exercised by the daemon engine of C10, not here"],
    },
    "C12": {
        "proof_files": ["Proofs/DiscoveryFacts.v", "Proofs/ConfigFacts.v"],
        "runs": [{"engine": "flow", "args": [], "n_quick": 250, "n_thorough": 20000, "netns": True, "mountns": True},
                 {"engine": "refresh", "args": [], "n_quick": 300, "n_thorough": 30000, "netns": True, "mountns": True}],
        "trivial_tags": [r"^up$"],
        "rule": "random hosts files (v4/v6/zone/invalid addresses, several names per line, mixed case, comments, CR, missing final "
                "newline) bind-mounted over /etc/hosts in a private mount namespace and read by the real discovery.Hosts; 8 queries per "
                "file through the exported Proxy.Resolve (A/AAAA/PTR/other types; names in random case; reverse names for listed, "
                "private, public, partial, over-long, non-numeric and over-range labels; RD on/off) with bogus-priv, local and discovery "
                "resolvers on/off and 5 upstream outcomes; compared: upstream call count, rcode, answer rdata list or relayed bytes. "
                "non-trivial = answered locally / from discovery / NXDOMAIN by the proxy",
        "assumptions": ["net.ParseIP / IP.String are environment (table supplied by the harness, formatter re-implemented in the driver)",
                        "names and files are ASCII (strings.ToLower / strings.Fields are Unicode-aware in Go)"],
    },
    "C14": {
        "proof_files": ["Proofs/ClientFacts.v", "Proofs/ClientMore.v"],
        "runs": [{"engine": "clientinfo", "args": ["-mode", "probe"], "n_quick": 1500, "n_thorough": 150000},
                 {"engine": "clientinfo", "args": ["-mode", "headers"], "n_quick": 150, "n_thorough": 6000, "netns": True},
                 {"engine": "clientinfo", "args": ["-mode", "names"], "n_quick": 1200, "n_thorough": 60000, "netns": True}],
        "trivial_tags": [r"^off$"],
        "rule": "probe: the daemon binary built from /repo (package main, add-only probe file) computes shortID for random profile ids x device "
                "byte strings (MAC, IPv4, IPv6, empty, long) and the ClientInfo closure installed by setupClientReporting for LAN clients "
                "with/without MAC and discovered names by address / by MAC (control bytes, non-ASCII, long, dotted); compared with the extracted "
                "model (xxhash64, base-32, model string, name normalisation); spec: five characters, no full MAC in what is sent. headers: the "
                "real DoH resolver sends real HTTP/2 requests with scripted client information (names incl. control / non-ASCII bytes, "
                "reporting on/off); the X-Device-* headers received by the server and whether the query resolved are compared with the model. "
                "non-trivial = reporting on",
        "assumptions": ["the wiring of -report-client-info to setupClientReporting in run.go is not exercised (package main run())",
                        "names are injected at lookup level, not through multicast"],
    },
    "C15": {
        "proof_files": ["Proofs/LockFacts.v", "Proofs/LastModFacts.v", "Proofs/RmwFacts.v", "Proofs/RmwEmbed.v", "Properties/C15_instance.v"],
        "race_build": True,
        "trusted_extra": ["translator harness/locks_extract.go (Go AST -> Gen/AccessTable.v) and its configuration of shared types / guarded fields",
                          "Go race detector (ThreadSanitizer runtime) for the stress half"],
        "generated": {"cmd": ["locks-extract"], "out": "Gen/AccessTable.v",
                      "compile": ["Gen/AccessTable.v", "Properties/C15_instance.v"], "diag": "Gen/C15Diag.v",
                      "theorem": "C15_table_ok"},
        "runs": [{"engine": "racestress", "args": [], "n_quick": 8, "n_thorough": 240, "netns": True, "mountns": True},
                 {"engine": "resolver", "args": ["-mode", "lmconc"], "n_quick": 2500, "n_thorough": 120000, "netns": True}],
        "trivial_tags": [],
        "rule": "translator: every method of the shared types (hosts / lease / router client tables, mDNS tables, DoH last-modified map, "
                "endpoint manager and active endpoint) in /repo's current source is turned into its control-flow paths of lock operations "
                "and guarded-field accesses (field cell, container, element arrays; returned aliases read after the unlock); Coq evaluates "
                "table_ok on that table (C15_table_ok) and table_ok_sound lifts it to every schedule of any number of threads. "
                "stress: -race build of the harness runs lookups against refreshes, mDNS packets against lookups that iterate results, queries "
                "against elections, and UDP/TCP queries through the proxy for n seconds; any race report whose stacks touch /repo is a violation. "
                "evaluations = stress runs; the table size is in the log",
        "assumptions": ["the translator (harness/locks_extract.go) and its configuration of shared types, guarded fields and the one "
                        "fresh-object exemption are trusted; aliasing through local variables and callbacks is not tracked",
                        "shared state outside the configured types (cache implementation supplied by the embedder, Go runtime, net/http) is "
                        "covered by the race-detector stress only",
                        "Go memory model: a data race is two conflicting non-atomic accesses not ordered by a common mutex"],
    },
    "C16": {
        "proof_files": ["Proofs/ListenFacts.v", "Mutants/ListenRace.v", "Proofs/StartFacts.v", "Proofs/SlotsFacts.v", "Proofs/SvcFacts.v"],
        "generated": {"cmd": ["start-extract"], "out": "Gen/StartParams.v",
                      "compile": ["Gen/StartParams.v", "Properties/C16_instance.v"], "theorem": "C16_start_instance"},
        "runs": [{"engine": "listen", "args": [], "n_quick": 120, "n_thorough": 5000, "netns": True},
                 {"engine": "daemon", "args": ["-mode", "bind"], "n_quick": 25, "n_thorough": 300, "netns": True},
                 {"engine": "daemon", "args": ["-mode", "ops"], "n_quick": 8, "n_thorough": 160, "netns": True}],
        "trivial_tags": [],
        "rule": "1-4 listen addresses (127.0.0.1, 127.0.0.2, ::1), every address independently free / UDP busy / TCP busy / both busy, "
                "cancellation: none, immediate, after 1 ms, after the listeners are ready, at a random sub-3ms delay; judged by the extracted "
                "c16_ok spec: returned within the 2 s watchdog, every address can be bound again at once, non-nil error, and the bind error "
                "when a bind failed and nobody cancelled. Every run is in the quantifier (non-trivial = all)",
        "assumptions": ["proxySvc.start (package main) is exercised by the daemon engine only (real binary, unbindable addresses, shared CPU)",
                        "fair scheduling by the Go runtime"],
    },
    "C17": {
        "proof_files": ["Proofs/StoreFacts.v", "Proofs/ConfigFacts.v", "Proofs/FwdTextFacts.v", "Proofs/ProfTextFacts.v"],
        "runs": [{"engine": "config", "args": [], "n_quick": 200, "n_thorough": 15000, "netns": True},
                 {"engine": "fwdtext", "args": [], "n_quick": 3000, "n_thorough": 200000},
                 {"engine": "proftext", "args": [], "n_quick": 2000, "n_thorough": 100000, "netns": True},
                 {"engine": "daemon", "args": ["-mode", "svc"], "n_quick": 4, "n_thorough": 60, "netns": True, "mountns": True}],
        "trivial_tags": [r"^rejected$"],
        "rule": "random option sets (repeated -listen, 0-4 -profile entries of every condition kind incl. interfaces and the deprecated -config "
                "spelling, 0-3 -forwarder entries, every boolean / duration / size / uint option incl. values above 65535) through the real "
                "Config.Parse(-config-file) + Save in a child process, a fresh Parse of the stored file, then `config set` of one option and another "
                "fresh load; judged: the effective configuration (scalars, listen list, Profiles.Get on 6 probe clients, Forwarders.Get on 8 probe "
                "names) is identical after reload, every other option survives `config set`, and the extracted generic store reloads the stored "
                "lines to the same lists. non-trivial = accepted from the command line",
        "assumptions": ["time.Duration String/ParseDuration, net.ParseCIDR/ParseMAC/InterfaceByName round-trip (environment, sampled)",
                        "printable values without surrounding whitespace (the property's quantifier)"],
    },
    "C18": {
        "proof_files": ["Proofs/DiscoveryFacts.v", "Proofs/ConfigFacts.v", "Proofs/LeaseFacts.v", "Proofs/SortedFacts.v", "Proofs/MdnsFacts.v", "Proofs/RefreshFacts.v", "Proofs/RefreshHosts.v", "Proofs/RefreshAway.v"],
        "runs": [{"engine": "discovery", "args": [], "n_quick": 2500, "n_thorough": 200000},
                 {"engine": "refresh", "args": [], "n_quick": 400, "n_thorough": 40000, "netns": True, "mountns": True},
                 {"engine": "mdns", "args": [], "n_quick": 12, "n_thorough": 400, "netns": True}],
        "trivial_tags": [r"/miss$", r"^err$", r"^empty$", r"^n1$"],
        "rule": "appendUniq insertion sequences (1-8 adds over a 16-word pool; judged against sorted insertion); dnsmasq and isc-dhcpd lease "
                "files (repeated names/addresses/MACs, mixed case, '*' names, garbage lines) x 6 lookups (host incl. .local alias, addr, "
                "mac); hosts files x 5 lookups; merlin client lists incl. damaged ones; mDNS: histories of announcement packets through a "
                "real UDP socket into the real reader, half of them exceeding the cap of 1000 names with refreshes of early names, both "
                "views dumped and compared, views_agree evaluated on the implementation's dump. non-trivial = lookup hit / n>=2 / parsed list",
        "assumptions": ["ASCII input (bytes.ToLower / strings.ToLower are Unicode-aware)",
                        "all records of one mDNS packet belong to one name (Go map iteration order inside a packet is arbitrary; one name's entries are order independent); distinct time stamps"],
    },
    "C19": {
        "proof_files": ["Proofs/ResolvFacts.v"],
        "runs": [{"engine": "resolvconf", "args": [], "n_quick": 120, "n_thorough": 6000, "netns": True, "mountns": True},
                 {"engine": "daemon", "args": ["-mode", "act"], "n_quick": 3, "n_thorough": 30, "netns": True, "mountns": True}],
        "trivial_tags": [r"crash0$"],
        "rule": "generated resolv.conf contents (comments, options, several nameservers incl. tab-separated and indented ones, empty lines, "
                "missing final newline; regular file or symlink) x sequences of 1-4 activations/deactivations with the real host.SetDNS / "
                "ResetDNS on a scratch directory bind-mounted over /etc (private mount namespace); half of the operations are killed on entry "
                "of a chosen mutating system call (unlinkat / openat / k-th write / j-th renameat) with strace signal injection; the three "
                "paths are compared with the model after every event; spec on the implementation's own state: the original node is intact at "
                "resolv.conf or the backup, and a completed activation names only the proxy. non-trivial = history with a crash",
        "assumptions": ["rename(2) is atomic; no power loss (the code never fsyncs)",
                        "SIGKILL injected on syscall entry prevents that call",
                        "the NetworkManager side step is outside the property (no /etc/NetworkManager in the scratch tree)"],
    },
    "C13": {
        "proof_files": WIRE + ["Proofs/EcsWhole.v", "Proofs/CursorFacts.v", "Proofs/EcsParse.v"],
        "runs": [
            {"engine": "query", "args": ["-mode", "ecs"], "n_quick": 5000, "n_thorough": 300000},
            {"engine": "reply", "args": ["-mode", "seqecs"], "n_quick": 800, "n_thorough": 30000, "netns": True},
            {"engine": "clientinfo", "args": ["-mode", "probe"], "n_quick": 600, "n_thorough": 60000},
            {"engine": "reply", "args": ["-mode", "conc"], "n_quick": 600, "n_thorough": 20000, "netns": True},
        ],
        "trivial_tags": [r"^perr$", r"^ok$", r"/perr"],
        "rule": "queries with 1-6 EDNS options (ECS v4/32, v6/128, other prefix lengths/families, short ECS, MAC, unknown codes) at any "
                "position, also damaged; compared: PeerIP, MAC and the payload after rewriting (query engine) and the bytes the "
                "upstream actually received through the live proxy (reply engine), plus the extracted c13_ok spec on those bytes. "
                "non-trivial = the model reached the option loop (tags ok+ecs / ok+opt)",
        "assumptions": ["ECS options of 256 bytes or more are outside the premise (invalid per RFC 7871)"],
    },
    "C03": {
        "proof_files": ["Proofs/TimedFacts.v", "Proofs/ResolverFacts.v", "Proofs/QueryFacts.v"],
        "runs": [{"engine": "resolver", "args": ["-mode", "fault"], "n_quick": 45, "n_thorough": 1500, "netns": True}],
        "trivial_tags": [r"/ok$"],
        "rule": "per request fault scripts over DoH (real HTTP/2+TLS server: status errors, empty, >=65535-byte and junk bodies, hang "
                "before headers / mid-body, reset before headers / mid-body, trickle fast/slow, connection refused) and DNS53 (no answer, "
                "mismatched IDs, 1-byte datagram, late answer, junk, ICMP unreachable), each followed by a well-behaved exchange, through the real "
                "proxy front end with timeout 400 ms; judged: exactly one reply within timeout+300 ms (spec) and reply bytes = model. "
                "non-trivial = the fault step (not the follow-up ok exchange)",
        "assumptions": ["a blocked Read/RoundTrip returns at its deadline (Go runtime, net/http, kernel): assumed by the model, measured here",
                        "steady (non-electing) endpoint: elections are excluded by the property"],
    },
    "C06": {
        "proof_files": ["Proofs/ResolverFacts.v", "Proofs/CacheFacts.v"],
        "runs": [{"engine": "resolver", "args": ["-mode", "hist"], "n_quick": 160, "n_thorough": 8000, "netns": True},
                 {"engine": "resolver", "args": ["-mode", "e2e"], "n_quick": 500, "n_thorough": 30000, "netns": True}],
        "trivial_tags": [r"hit0$"],
        "rule": "random histories (4-24 ops) on one real resolver.DNS: DoH queries under 3 profiles (real HTTP/2+TLS, request path observed), "
                "DNS53 queries after a forced election, repeated questions incl. other profile / other letter case, clock advances (cache and "
                "last-modified stamps shifted), upstream errors, X-Conf-Last-Modified announcements; compared per query: reply bytes, FromCache, "
                "error, whether the upstream was asked, request path, ResolveInfo.Profile; c06_ok evaluated on every cache-served reply. "
                "non-trivial = history with at least one cache hit",
        "assumptions": ["ARC eviction is modelled as an arbitrary Forget step (the engine's cache never evicts)",
                        "whole-second ages: histories taking longer than 0.8 s of real time are skipped"],
    },
    "C07": {
        "proof_files": ["Proofs/CacheFacts.v", "Proofs/ResolverFacts.v"],
        "runs": [{"engine": "ttl", "args": [], "n_quick": 3000, "n_thorough": 300000},
                 {"engine": "resolver", "args": ["-mode", "hist"], "n_quick": 120, "n_thorough": 8000, "netns": True}],
        "trivial_tags": [r"/zero$", r"hit0$"],
        "rule": "generated response messages (all RR mixes, pointer names, OPT in any section, TTLs 0..2^32-1, count-overflow games) and "
                "damaged ones x 3 (age, max-age, max-ttl) settings through updateTTL / AdjustedResponse (sub-second jitter); per record "
                "ttl_ok spec on the implementation's output; plus the cache histories of C06 for the serve decision. non-trivial = minTTL>0 / cache hit",
        "assumptions": ["len(buf) >= len(msg) in AdjustedResponse (the request buffer is 64 KiB)"],
    },
    "C04": {
        "proof_files": ["Proofs/HandlerFacts.v", "Mutants/HandlerLeak.v"],
        "runs": [{"engine": "reply", "args": ["-mode", "storm"], "n_quick": 20, "n_thorough": 1500, "netns": True}],
        "trivial_tags": [],
        "rule": "storms of 10-40 concurrent events against a real proxy with capacity K in {2,3,5}: undersized and malformed datagrams, "
                "normal / upstream-error / timed-out / panicking requests over UDP and TCP, TCP half-frames, undersized TCP frames, disconnects "
                "before the reply; then, after all handlers ended, K+2 slow queries: the number inside the resolver together must be exactly K "
                "and never exceeded K during the storm (extracted c04_ok). Every storm is non-trivial",
        "assumptions": ["kernel socket buffers hold the datagrams that are not read while capacity is exhausted",
                        "timing: handlers end within 2x the request timeout; 90 ms are enough for K+2 loopback queries to reach the resolver"],
    },
    "C05": {
        "proof_files": ["Proofs/ReplyFacts.v", "Proofs/FrameStream.v"],
        "generated": {"cmd": ["consts-extract"], "out": "Gen/SrcConsts.v",
                      "compile": ["Gen/SrcConsts.v", "Properties/C05_consts.v"], "theorem": "C05_consts_agree"},
        "runs": [
            {"engine": "reply", "args": ["-mode", "c05"], "n_quick": 150, "n_thorough": 20000, "netns": True},
            {"engine": "reply", "args": ["-mode", "tcpstall"], "n_quick": 3, "n_thorough": 60, "netns": True},
        ],
        "rule": "boundary lattice of (advertised EDNS size, upstream length) plus n random pairs, each over UDP "
                "and TCP through the real proxy; distinct = distinct (query bytes, upstream spec, proto); "
                "non-trivial = the proxy produced a reply from an upstream message (every case here)",
        "assumptions": ["loopback UDP delivers datagrams up to 65507 bytes unmodified",
                        "the fake resolver.Resolver stands for the resolver layer (DoH/DNS53 are covered by C03/C06/C07)"],
    },
    "C20": {
        "proof_files": ["Proofs/RouterFacts.v", "Proofs/RouterOpenwrt.v", "Proofs/RouterDisk.v", "Proofs/RouterFault.v"],
        "runs": [{"engine": "router", "args": [], "n_quick": 1600, "n_thorough": 80000, "netns": True, "mountns": True}],
        "trivial_tags": [r"^generic/"],
        "rule": "the real router.New() (firewalla: firewalla.New()) / Configure / Setup / Restore of all eight firmware packages run in a chroot "
                "jail where uci, nvram, uname, ubus, service, startservice, kill, systemctl, /etc/init.d/dnsmasq, /etc/rc.network are a multi-call "
                "shim over fake stores; the shim's `restart dnsmasq` snapshots what dnsmasq would load. Pre-states: uci port absent/53/other, "
                "forwarder lists, DHCP option lists with/without 6,<ip> (and look-alikes), missing router address; nvram variables absent/empty/"
                "single/multi-line; postconf absent/user script (CRLF, blank lines, no final newline, own pc_append lines)/with an old NextDNS head; "
                "stale drop-ins; synology DHCP off; UDM content filtering on. Histories: 1-3 daemon lifetimes, each report on/off x cache "
                "'0'/''/'10MB'/'512kB', ending in Restore or in a crash (no Restore). After every call the managed file, the stores and the "
                "snapshot are compared with the extracted model; the extracted c20_setup_ok / c20_not_pointing / c20_restored are evaluated "
                "on the implementation's own snapshots. non-trivial = not the generic firmware",
        "assumptions": ["fake uci/nvram/service tools: uci add_list appends, del_list removes equal values and the option when empty, staged "
                        "changes are loaded by dnsmasq only after commit; nvram unset takes the literal name, get prints nothing for a missing variable",
                        "localhost resolves to 127.0.0.1 (ubios and firewalla listen on localhost:5342 and forward to 127.0.0.1#5342)",
                        "synology with DHCP off and the generic firmware run no dnsmasq: nothing is asserted about it there",
                        "run.go's OnStarted/OnStopped wiring is not executed; the engine calls Configure, Setup, Restore in that order"],
    },
}
