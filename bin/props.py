"""Per-property configuration for bin/check: which proof files carry the
obligations, which engine runs tie the model to /repo, case budgets per tier."""

PROPS = {
    "C05": {
        "proof_files": ["Proofs/ReplyFacts.v"],
        "runs": [
            {"engine": "reply", "args": ["-mode", "c05"], "n_quick": 150, "n_thorough": 20000, "netns": True},
        ],
        "rule": "boundary lattice of (advertised EDNS size, upstream length) plus n random pairs, each over UDP "
                "and TCP through the real proxy; distinct = distinct (query bytes, upstream spec, proto); "
                "non-trivial = the proxy produced a reply from an upstream message (every case here)",
        "assumptions": ["loopback UDP delivers datagrams up to 65507 bytes unmodified",
                        "the fake resolver.Resolver stands for the resolver layer (DoH/DNS53 are covered by C03/C06/C07)"],
    },
}
