#!/usr/bin/env python3
"""Shared machinery for /verif/bin/check and /verif/bin/build.

Build steps (all incremental, all offline):
  coq     : coq_makefile + make -j16 in /verif/coq  (full .vo build, no -vos)
  extract : coqc Extract.v in /verif/ocaml -> model.ml(i); ocamlfind ocamlopt driver
  harness : go build of /verif/harness against /repo's *current working tree*
            (replace directive), with the verif overlay for white-box exports.
"""
import fcntl, hashlib, json, os, re, subprocess, sys, time, shutil, tempfile

VERIF = os.path.dirname(os.path.dirname(os.path.abspath(__file__)))
REPO = os.environ.get("NX_REPO", "/repo")
COQ = os.path.join(VERIF, "coq")
OCAML = os.path.join(VERIF, "ocaml")
HARNESS = os.path.join(VERIF, "harness")
BUILD = os.path.join(VERIF, "build")
GOENV = dict(os.environ, GOFLAGS="-mod=mod", GOPROXY="off", GOSUMDB="off", GOTOOLCHAIN="local",
             CGO_ENABLED="0")

TRUSTED_BASE = [
    "Coq 8.16.1 kernel (coqc); vm_compute used for Examples/refutation witnesses and the C15 instance; no native_compute",
    "no axioms: Print Assumptions under every property theorem reports 'Closed under the global context' (checked by this run)",
    "extraction: ExtrOcamlBasic only (Extract Inductive bool/option/list/prod/unit/sumbool); no Extract Constant; OCaml 4.13.1",
    "hand-written OCaml driver (hex/decimal conversion, md5 canonicalisation of long outputs, dispatch)",
    "Go harness /verif/harness (generators, fake upstreams, sockets, jails) and bin/check classification",
    "hand-written Gallina model of the Go code (tie = differential run on the same inputs this run)",
]


def sh(cmd, cwd=None, env=None, timeout=None, inp=None):
    p = subprocess.run(cmd, cwd=cwd, env=env, timeout=timeout, input=inp,
                       stdout=subprocess.PIPE, stderr=subprocess.STDOUT, text=True)
    return p.returncode, p.stdout


class Lock:
    def __init__(self, name):
        os.makedirs(BUILD, exist_ok=True)
        self.path = os.path.join(BUILD, name + ".lock")

    def __enter__(self):
        self.f = open(self.path, "w")
        fcntl.flock(self.f, fcntl.LOCK_EX)
        return self

    def __exit__(self, *a):
        fcntl.flock(self.f, fcntl.LOCK_UN)
        self.f.close()


def build_coq(log):
    """Full .vo build. Returns (ok, output)."""
    with Lock("coq"):
        if not os.path.exists(os.path.join(COQ, "Makefile")) or \
           os.path.getmtime(os.path.join(COQ, "Makefile")) < os.path.getmtime(os.path.join(COQ, "_CoqProject")):
            rc, out = sh(["coq_makefile", "-f", "_CoqProject", "-o", "Makefile"], cwd=COQ)
            if rc != 0:
                return False, out
        t0 = time.time()
        rc, out = sh(["timeout", "3000", "make", "-j16"], cwd=COQ)
        log("coq make: rc=%d %.1fs" % (rc, time.time() - t0))
        return rc == 0, out


def build_extract(log):
    with Lock("ocaml"):
        src = os.path.join(COQ, "theories", "Extract", "Extract.v")
        deps = [src, os.path.join(OCAML, "driver.ml")]
        for d in ("Base", "Model"):
            dd = os.path.join(COQ, "theories", d)
            deps += [os.path.join(dd, f) for f in os.listdir(dd) if f.endswith(".v")]
        drv = os.path.join(OCAML, "driver")
        if os.path.exists(drv) and all(os.path.getmtime(d) <= os.path.getmtime(drv) for d in deps):
            return True, "driver current"
        qs = []
        for d in ("Base", "Model", "Proofs", "Gen"):
            qs += ["-Q", os.path.join(COQ, "theories", d), "NX"]
        rc, out = sh(["timeout", "600", "coqc"] + qs + [src], cwd=OCAML)
        if rc != 0:
            return False, out
        rc, out2 = sh(["ocamlfind", "ocamlopt", "-O2", "-w", "-a", "-package", "str", "-linkpkg",
                       "model.mli", "model.ml", "driver.ml", "-o", "driver"], cwd=OCAML)
        log("extract+ocaml: rc=%d" % rc)
        return rc == 0, out + out2


def build_harness(log, race=False):
    """go build the harness against /repo's working tree. Returns (ok, out, path)."""
    os.makedirs(BUILD, exist_ok=True)
    with Lock("go"):
        shutil.copyfile(os.path.join(REPO, "go.sum"), os.path.join(HARNESS, "go.sum"))
        out_path = os.path.join(BUILD, "nxh-race" if race else "nxh")
        overlay = os.path.join(BUILD, "overlay.json")
        write_overlay(overlay)
        cmd = ["go", "build", "-tags", "verif", "-overlay", overlay, "-o", out_path]
        env = dict(GOENV)
        if race:
            cmd.insert(2, "-race")
            env["CGO_ENABLED"] = "1"
            env.pop("GOFLAGS", None)
            env["GOFLAGS"] = "-mod=mod"
        cmd.append(".")
        t0 = time.time()
        rc, out = sh(cmd, cwd=HARNESS, env=env, timeout=900)
        log("go build%s: rc=%d %.1fs" % (" -race" if race else "", rc, time.time() - t0))
        if rc == 0 and not race:
            # the daemon itself with the package-main probe (shortID / ClientInfo), for the clientinfo engine
            rc2, out2 = sh(["go", "build", "-tags", "verif", "-overlay", overlay, "-o", os.path.join(BUILD, "nextdns-probe"), "."],
                           cwd=REPO, env=dict(GOENV), timeout=900)
            if rc2 != 0:
                return False, out + out2, out_path
        return rc == 0, out, out_path


def write_overlay(path):
    """Overlay: every file under harness/overlay/<pkgdir>/<name>.go is injected
    into /repo/<pkgdir>/ (build tag verif, add-only: never replaces a file)."""
    rep = {}
    root = os.path.join(HARNESS, "overlay")
    if os.path.isdir(root):
        for d, _, fs in os.walk(root):
            for f in fs:
                if f.endswith(".go"):
                    rel = os.path.relpath(os.path.join(d, f), root)
                    target = os.path.join(REPO, rel)
                    if os.path.exists(target):
                        raise SystemExit("overlay would replace existing file " + target)
                    rep[target] = os.path.join(d, f)
    with open(path, "w") as f:
        json.dump({"Replace": rep}, f)


def netns_wrap(cmd, mountns=False):
    """Run cmd in a private network namespace with lo up (ports always free).
    Falls back to running directly if unshare is not permitted."""
    probe = subprocess.run(["unshare", "-n", "true"], stdout=subprocess.DEVNULL, stderr=subprocess.DEVNULL)
    if probe.returncode != 0:
        return cmd
    flags = ["-n", "-m"] if mountns else ["-n"]
    return ["unshare"] + flags + ["sh", "-c", 'ip link set lo up && exec "$@"', "sh"] + cmd


def count_obligations(files):
    """Number of Theorem/Lemma/Example/Corollary statements in the given .v files."""
    n = 0
    names = []
    for f in files:
        p = os.path.join(COQ, "theories", f)
        if not os.path.exists(p):
            continue
        for m in re.finditer(r"^\s*(Theorem|Lemma|Example|Corollary|Fact)\s+([A-Za-z0-9_']+)", open(p).read(), re.M):
            n += 1
            names.append(m.group(2))
    return n, names


def vo_current(files):
    ok = 0
    for f in files:
        p = os.path.join(COQ, "theories", f)
        vo = p[:-2] + ".vo"
        if os.path.exists(vo) and os.path.getmtime(vo) >= os.path.getmtime(p):
            ok += 1
    return ok


def audit_sources():
    """grep for forbidden constructs in the development."""
    bad = []
    pat = re.compile(r"\b(Admitted|admit|Axiom|Parameter|Conjecture|Unset Guard|bypass_check|Admit Obligations)\b")
    for d, _, fs in os.walk(os.path.join(COQ, "theories")):
        for f in fs:
            if f.endswith(".v"):
                txt = open(os.path.join(d, f)).read()
                txt = re.sub(r"\(\*.*?\*\)", "", txt, flags=re.S)
                for m in pat.finditer(txt):
                    bad.append("%s: %s" % (f, m.group(1)))
    return bad
