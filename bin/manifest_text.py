TEXT = {
 "C05": {
  "text": "Proved in Coq for all pairs (advertised size 0..65535, upstream length 1..65535): datagram length <= max(512, advertised), "
          "shortened => TC set, fits => full length, every byte other than byte 2 is the upstream's, TCP frame = correct 2-byte prefix + whole message "
          "(Properties/C05.v, closed under the global context). The model (udp_adjust/udp_reply/tcp_frame and the query parser that yields the "
          "advertised size) is tied to /repo by running the real proxy.Proxy on loopback UDP+TCP over the boundary lattice and random pairs and "
          "comparing every reply byte-for-byte with the extracted model; the extracted boolean spec is also evaluated on the implementation's own replies.",
  "note": "Trusted: Coq kernel, extraction (ExtrOcamlBasic), OCaml driver, Go harness with a fake resolver.Resolver as upstream; the kernel's loopback UDP path.",
  "technique": "Coq proof (lia over the truncation rule, list lemmas) + differential correspondence check of the extracted model against the live proxy",
 },
}
NOT_APPLICABLE = {}
