TEXT = {
 "C01": {
  "text": "Proved in Coq (Properties/C01.v): for every byte string longer than 14 bytes and every resolver outcome the per-request function "
          "`serve` yields exactly one reply; it is the upstream message cut by the C05 rule (UDP; every byte but byte 2 unchanged) or framed "
          "(TCP) when a message of 1..65535 bytes arrived, and `servfail q` (ID, QR, RCODE=2, the question re-encoded) otherwise. The concurrent "
          "half (buffers never shared between in-flight handlers, frames never interleaved) is proved on the Handler LTS (Properties/C04.v / C01 "
          "section there) when present. Tie: the real proxy on loopback, sequential and concurrent/pipelined clients with a rendezvous upstream; "
          "every reply compared byte-for-byte with the extracted model and judged by the extracted c01_ok spec.",
  "note": "Trusted: Coq kernel, extraction, driver, harness with fake upstream. Assumes upstream echoes ID/question; single Write atomic; Go runtime/net not modelled.",
  "technique": "Coq proof over the parser/reply model + differential correspondence check against the live proxy (sequential and concurrent)",
 },
 "C02": {
  "text": "Proved in Coq (Properties/C02.v) for every byte string of any length: the model of query.New (dnsmessage parser state machine, name "
          "decompression with Go's pointer budget, option walk, ECS rewriting) terminates within its loop bounds and never indexes out of range "
          "(no OutOfFuel, no Panic), and `serve` answers every message longer than 14 bytes exactly once. The pre-repair loop is kept as a mutant "
          "with a proof that it has no bound (C02_spin_refuted; defect F1, fixed in /repo). Tie: query.New run in a watchdog sub-process and the "
          "live proxy on structured + mutated + random inputs; all parsed fields, rewritten payload and replies compared with the extracted model.",
  "note": "Trusted: Coq kernel, extraction, driver, harness. The Go runtime, net and the ipv4/ipv6 control message code are not modelled.",
  "technique": "Coq proof (invariants of the parser state machine, fuel sufficiency, structural recursion) + differential correspondence check with spin/crash watchdog",
 },
 "C08": {
  "text": "Proved in Coq (Properties/C08.v) on an LTS model of endpoint.Manager: an election elects the first endpoint in provider-then-endpoint order "
          "whose probe succeeds, else the first listed one, probing strictly in that order and stopping at the first success; OnChange fires exactly when "
          "the elected endpoint differs from the active one; each started query is executed exactly once on the endpoint active at its start; in every "
          "reachable state the active endpoint is the init endpoint or one offered in the latest successful election. Tie: the real Manager driven by "
          "scripts with full schedule control (gated elections, blocking actions, virtual clock), state and ordered callback log compared after every op.",
  "note": "Trusted: Coq kernel, extraction, driver, harness, add-only overlay (testNow setter, state reader). Elections are atomic in the model (they hold Manager.mu). Defects F2 (lock leak) and F16 (nil endpoint) fixed in /repo.",
  "technique": "Coq proof (invariant by induction over all label sequences) + schedule-controlled differential correspondence check",
 },
 "C09": {
  "text": "Proved in Coq (Properties/C09.v): reaching the error threshold / exceeding the test interval starts exactly one background election for "
          "that endpoint object (testing latch: at most one pending per object in every reachable state, NoDup); the election moves to the first healthy "
          "candidate; the step function is total and, at lock level, the repaired bootstrap path never leaves Manager.mu held (the pre-repair path is "
          "kept as a mutant with a proof that it wedges every later query). Tie: as C08 plus deadlock watchdog and crash detection per script.",
  "note": "Trusted: as C08. Progress assumes fair Go scheduling. The lock-level statement uses a small separate lock model (Mutants/ManagerLock.v).",
  "technique": "Coq proof (latch invariant over reachable states, lock model with refuted mutant) + schedule-controlled correspondence check with watchdog",
 },
 "C10": {
  "text": "Proved in Coq (Properties/C10.v) for all forwarder lists and names: exactly one upstream receives each query; it is the first entry in "
          "order whose domain is empty or equals the name or is followed by it after a '.' (case-insensitively), else the appended default; letter "
          "case never changes the decision. Tie: real config.Forwarders built with Set, each entry a real resolver.DNS with its own UDP server; the "
          "server that saw each name is compared with the extracted model and with the extracted label-list spec (spec_get).",
  "note": "Trusted: Coq kernel, extraction, driver, harness UDP servers. The equivalence of the string-suffix rule with the label-suffix reading is checked per case by spec_get, not proved in general. Defect F8 (case-sensitive match) fixed in /repo.",
  "technique": "Coq proof over the selection function + differential correspondence check with real UDP upstreams",
 },
 "C11": {
  "text": "Proved in Coq (Properties/C11.v) for all profile lists and clients: Profiles.Get equals 'first conditional matching entry, else the last "
          "unconditional entry, else none'; no entry before a matching conditional one can shadow it; the URL derived from the id is injective and "
          "never empty. Tie: real config.Profiles built with Set (incl. interface conditions on real interfaces in a private netns) queried with Get, "
          "compared with the extracted model and spec.",
  "note": "Trusted: Coq kernel, extraction, driver, harness. ParseCIDR/ParseMAC/InterfaceByName results are passed to the model as data. URL/ctx wiring in run.go is exercised by the C06 engines.",
  "technique": "Coq proof (induction over the list) + differential correspondence check",
 },
 "C12": {
  "text": "Proved in Coq (Properties/C12.v) on the model of Proxy.Resolve/hostsResolve/ptrIP/isPrivateReverse: a hosts-file answer is returned with "
          "zero upstream calls; with bogus-priv a PTR query whose reverse name denotes a private/loopback/link-local address makes zero upstream "
          "calls and is answered NXDOMAIN or from the tables; every other query reaches the upstream exactly once; name case never matters; the "
          "code's bit tests equal the documented address ranges for all 65536 leading byte pairs (v4 and v6). Tie: the real Proxy.Resolve with the "
          "real discovery.Hosts reading generated hosts files at /etc/hosts (private mount namespace), compared with the extracted model; the extracted "
          "c12_ok spec (independent RFC reading of reverse names, spec_reverse) is evaluated on every observed exchange.",
  "note": "Trusted: Coq kernel, extraction, driver (incl. its IP formatter), harness. Agreement of ptr_ip with the independent spec_reverse is checked per case, not proved in general. Defect F13 (case-sensitive .arpa) fixed in /repo.",
  "technique": "Coq proof over the resolve-flow model + finite exhaustive check lifted by computation + differential correspondence check",
 },
 "C14": {
  "text": "PARTIAL. Proved in Coq (Properties/C14.v): with reporting off no device header is produced; the device id always has exactly five "
          "characters and is a function of profile id and device bytes; the model string depends on the first three MAC bytes only and is at most 12 "
          "characters; whatever bytes a discovered name holds, the X-Device-Name value that is sent is a valid header value. xxhash64 is transcribed "
          "and checked against the real shortID. Not provable here: header validation inside net/http (transcribed as valid_header_value and tied by "
          "real HTTP/2 requests). Tie: package-main probe (shortID, ClientInfo closure) and real DoH requests with scripted client information.",
  "note": "Trusted: Coq kernel, extraction, driver, harness, the add-only package-main probe. net/http's header validation is outside the proof. Observation (not a finding): when the hash has fewer than five base-32 digits (probability 2^-44) shortID reuses input bytes. Defect F4 (control byte in a name broke every query of that client) fixed in /repo.",
  "technique": "Coq proof over the transcribed hashing/formatting functions (partial) + differential check against the daemon binary and real HTTP/2 requests",
 },
 "C15": {
  "text": "PARTIAL. Proved in Coq: a lock-set discipline is sound for a machine of any number of threads running straight-line paths of lock "
          "operations (sync.RWMutex read/write modes, non-reentrant) and plain / atomic accesses under every schedule (Properties/C15.v: "
          "table_ok tbl = true -> no reachable state has two threads about to perform conflicting accesses). The table is NOT written by hand: "
          "a Go-AST translator regenerates it from /repo's source on every run (hosts, lease and router client tables, mDNS tables, DoH "
          "last-modified map, endpoint manager, active endpoint; all control-flow paths, inlined helper calls, deferred unlocks, aliases "
          "returned to callers), and Properties/C15_instance.v evaluates table_ok on it. Not provable here: the Go runtime, happens-before edges "
          "through channels / sync.Once / WaitGroup, aliasing through locals and callbacks, and shared state outside the configured types - "
          "these are covered by a race-detector stress of the real packages (lookups vs refreshes, mDNS packets vs lookups, queries vs elections, "
          "UDP/TCP queries through the proxy), where any report touching /repo code is a violation with the report as replay.",
  "note": "Trusted: Coq kernel, the translator harness/locks_extract.go with its configuration, the Go race detector for the stress half. Defects F6 (host / lease tables rewritten under the read lock), F21 (mDNS lookups returned slices that are later updated in place) and F19 (testInterval written under the manager lock but read under the endpoint lock) fixed in /repo.",
  "technique": "Coq proof of lock-set soundness over all schedules + source-to-model translator re-run on every check (partial) + Go race-detector stress as failing-input search",
 },
 "C16": {
  "text": "Proved in Coq (Properties/C16.v) on an LTS of ListenAndServe (one thread per UDP/TCP listener, main, environment choosing bind outcomes "
          "and the stop time), for every number of listeners and every interleaving: an invariant of all reachable states; once cancelled some "
          "step is always enabled until main has returned (no deadlock) and every step decreases a natural-number measure (every run ends); at "
          "return no socket is open, the error is non-nil and, unless stopped from outside, it is the bind error. The pre-repair code is kept as a "
          "mutant with a 9-step schedule that deadlocks with a bound socket (F3, fixed in /repo). Tie: the real ListenAndServe over address lists "
          "with busy ports in every subset (and the same address listed twice) and cancellation at various times, judged by the extracted c16_ok spec "
          "(watchdog, re-bind, error class). The start wrapper (run.go proxySvc.start) is a second small LTS (Model/Start.v): with room for one error "
          "in the channel start never reports success for a listener that had failed (C16_start_reports); the unbuffered channel of the original "
          "code is kept as a refuted example (F23, fixed in /repo). That model is tied to the code only by the daemon engine: the real binary started "
          "on unbindable addresses on a CPU shared with a busy process must report the failure and exit.",
  "note": "Trusted: Coq kernel, extraction, driver, harness. The model's atomic steps (bind, register under the mutex, close pass, channel send/receive) are the Go primitives' documented semantics; the internal interleaving is not observed, only outcomes. proxySvc.start's 5 s wrapper is modelled only as an assumption.",
  "technique": "Coq proof (LTS invariant, progress, decreasing measure; refuted mutant) + outcome correspondence check over bind-failure/cancellation matrix",
 },
 "C17": {
  "text": "Proved in Coq (Properties/C17.v) for a generic option store (scalars + list options whose Set replaces an element of the same criteria, else "
          "appends; Save = one line per scalar / per list element; LoadConfig = Set per line; Parse = arguments, stored file, arguments again): every "
          "store in the form Set leaves it reloads from its saved lines to exactly itself (same scalars, same lists, same order); `config set` of one "
          "scalar option leaves the lists and every other scalar as stored; the real Forwarders.Set / Profiles.Set are instances. Parsing/printing of "
          "package net/time is an explicit hypothesis (String() of an element parses back to it). Tie: the real Config.Parse/Save in child processes; "
          "effective configuration (incl. Profiles.Get / Forwarders.Get on probes) compared before and after reload and after `config set`; the stored "
          "lines reloaded by the extracted store.",
  "note": "Trusted: Coq kernel, extraction, driver, harness. The hypothesis parse(show e)=e is environment (net, time) and is sampled by the engine. Defects F9 (interface condition lost) and F14 (16-bit load of uint options) fixed in /repo.",
  "technique": "Coq proof (generic store, induction over saved lines) + differential round-trip check on the real configuration code",
 },
 "C18": {
  "text": "Proved in Coq (Properties/C18.v): for every hosts file, address->names and name->addresses lookups return exactly the associations "
          "written in the file (order and repeats kept; case-insensitive key; built-in localhost default only when undefined); for every dnsmasq / "
          "isc-dhcpd lease file the by-address, by-MAC and by-name (case-insensitive, with the .local alias) lookups return a value iff some lease "
          "entry of the file associates it with the key, each listed once (appendUniq = sorted insertion without duplicates, proved through the "
          "binary search); for every cap and "
          "announcement sequence the mDNS name table never exceeds the cap, eviction removes a least-recently-updated name, and the name->address and address->name views agree (invariant through additions and evictions). Tie: appendUniq, "
          "lease readers, hosts reader, merlin list and the real mDNS reader (packets over UDP, >1000 names) compared with the extracted model; "
          "sorted-insertion spec and views_agree evaluated on the implementation's own outputs.",
  "note": "Trusted: Coq kernel, extraction, driver, harness, add-only overlay exports of unexported readers. Defects F5 (appendUniq) and F7 (mDNS eviction) fixed in /repo.",
  "technique": "Coq proof (association-list folds, eviction bound by induction) + differential correspondence check incl. real UDP mDNS packets",
 },
 "C19": {
  "text": "Proved in Coq (Properties/C19.v) on a model with one operation per mutating system call: for every sequence of activations and "
          "deactivations, each completed or killed after any number of its mutations (also followed by further operations), the original resolver node "
          "is intact at resolv.conf or as the backup, and a later deactivation restores it; activation of an unactivated system installs the managed "
          "file (header, the other directives in order, exactly one nameserver line naming the proxy) and keeps the original (file or symlink) as backup; "
          "deactivation after any number of activations restores it byte for byte. Tie: the real host.SetDNS/ResetDNS on a scratch /etc in a private "
          "mount namespace with strace-injected SIGKILL at chosen system calls, tree compared with the model after every event.",
  "note": "Trusted: Coq kernel, extraction, driver, harness, strace injection semantics, atomic rename(2). Power-loss reordering is not modelled (the code never syncs). Defect F10 (tab-separated nameserver kept) fixed in /repo.",
  "technique": "Coq proof (safety invariant over all operation prefixes and histories) + crash-injection correspondence check on a real file system",
 },
 "C13": {
  "text": "Proved in Coq (Properties/C13.v): nutterECSOption keeps the payload length, changes no byte outside the rewritten option, turns an option "
          "that lies inside the payload into code 0xFFFF with all-zero data, is memory-safe for every offset, and the option loop touches only "
          "payload/peer/MAC. Tie: rewritten payload, PeerIP and MAC from the real query.New and the bytes the upstream really receives through the "
          "live proxy, compared with the extracted model and judged by the extracted c13_ok spec (no address-carrying ECS left; differing bytes "
          "only inside such options).",
  "note": "Trusted: Coq kernel, extraction, driver, harness. The statement over whole encoded queries (parser located the options) rests on the correspondence check for the parser part.",
  "technique": "Coq proof about the in-place rewrite + differential correspondence check on option-heavy queries",
 },
 "C03": {
  "text": "PARTIAL. Proved in Coq (Properties/C03.v) on a timed model of one exchange: for every DNS53 datagram script and every DoH server script "
          "(refuse, reset, hang before/mid response, trickle, HTTP error) the exchange completes within the deadline; a message is relayed exactly "
          "when a complete in-time answer arrived (first >=2-byte datagram with the query's ID; status 200 and EOF before the deadline), SERVFAIL "
          "otherwise; a failed exchange leaves the resolver state unchanged. Not provable here: that blocked Go network calls return at the "
          "deadline -- assumed in the model, measured by the engine (real proxy + real DoH/DNS53 servers, fault menu, latency <= timeout+300 ms).",
  "note": "Trusted: Coq kernel, extraction, driver, harness servers; Go runtime/net/http deadline behaviour is assumed and only measured. F18 (>=65535-byte DoH body relayed cut with TC) kept as C03_oversize_refuted example.",
  "technique": "Coq proof over a timed exchange model (partial) + fault-injection correspondence check with latency bound",
 },
 "C06": {
  "text": "Proved in Coq (Properties/C06.v) over all histories of DoH/DNS53 queries, clock advances and evictions on one shared cache: every cache "
          "entry was stored from the upstream answer to a query with exactly its key (profile URL or \"\" for DNS53, class, type, byte-exact name); a "
          "cache-served reply is the aged copy of the entry under the query's own key; DoH and DNS53 keys never coincide. Tie: real resolver.DNS with "
          "real HTTP/2+TLS DoH server and UDP server, shared cache, forced elections, compared per query with the extracted model; c06_ok spec on every hit.",
  "note": "Trusted: Coq kernel, extraction, driver, harness servers, overlay time-shift helpers. ARC eviction abstracted as arbitrary Forget steps.",
  "technique": "Coq proof (invariant by induction over histories) + differential correspondence check on real transports",
 },
 "C07": {
  "text": "Proved in Coq (Properties/C07.v): for every well-formed message tree updateTTL on its encoding returns the encoding of the same tree with "
          "every non-OPT TTL aged and capped (nothing else changes) and the smallest aged answer/authority TTL (0 if none / older than max-age); the "
          "expiry never moves later; the rewriting keeps the length on arbitrary bytes; the serve decision is exactly: not PTR, entry present, minTTL>0, "
          "fetched after the last announced profile change -- otherwise the upstream is asked. Tie: updateTTL/AdjustedResponse on generated and damaged "
          "messages and real cache histories, compared byte-for-byte with the extracted model; ttl_ok spec on each rewritten record.",
  "note": "Trusted: Coq kernel, extraction, driver, harness, add-only overlay exports of updateTTL/AdjustedResponse.",
  "technique": "Coq proof (encoder/rewriter simulation by induction over records) + differential correspondence check",
 },
 "C04": {
  "text": "Proved in Coq (Properties/C04.v) on an LTS of the serve loops (UDP reader, any number of TCP connection readers, handler goroutines, the "
          "buffer pool) for every capacity and every interleaving: units in use = readers holding one + live handlers <= capacity in every reachable "
          "state; with no live handler all capacity is back; an idle reader can always take a free unit; every request ending runs the deferred "
          "cleanup that releases exactly one unit; pooled buffers are never shared (NoDup of pool + owned) and a handler writes at most once. The "
          "slip 'no release on the undersized-datagram path' is kept as a refuted mutant. Tie: storms on the real proxy with K in {2,3,5} followed by a "
          "rendezvous of K+2 slow queries inside the resolver, judged by the extracted c04_ok spec.",
  "note": "Trusted: Coq kernel, extraction, driver, harness. The LTS steps are the Go statements of serveUDP/serveTCPConn; the internal interleaving is not observed, only the concurrency inside the fake resolver. Depends on C02 for 'parse returns' (F1 fixed).",
  "technique": "Coq proof (counting invariant by induction over all interleavings; refuted mutant) + storm/rendezvous correspondence check",
 },
 "C05": {
  "text": "Proved in Coq for all pairs (advertised size 0..65535, upstream length 1..65535): datagram length <= max(512, advertised), "
          "shortened => TC set, fits => full length, every byte other than byte 2 is the upstream's, TCP frame = correct 2-byte prefix + whole message "
          "(Properties/C05.v, closed under the global context). The model (udp_adjust/udp_reply/tcp_frame and the query parser that yields the "
          "advertised size) is tied to /repo by running the real proxy.Proxy on loopback UDP+TCP over the boundary lattice and random pairs and "
          "comparing every reply byte-for-byte with the extracted model; the extracted boolean spec is also evaluated on the implementation's own replies.",
  "note": "Trusted: Coq kernel, extraction (ExtrOcamlBasic), OCaml driver, Go harness with a fake resolver.Resolver as upstream; the kernel's loopback UDP path.",
  "technique": "Coq proof (lia over the truncation rule, list lemmas) + differential correspondence check of the extracted model against the live proxy",
 },
 "C20": {
  "text": "Proved in Coq (Properties/C20.v) on a transcription of the eight router packages over an environment of managed file, uci (staged / "
          "committed) and nvram stores, where `restart` records what dnsmasq loads: for every firmware, setting and pre-existing state, after a "
          "successful Configure + Setup the running dnsmasq forwards to exactly 127.0.0.1#5342 with no-resolv and add-mac iff reporting (or has DNS "
          "off port 53 when the proxy takes :53, without stopping dnsmasq from starting); after Restore from ANY state - including the one an unclean "
          "stop left - nothing loaded points at the proxy or keeps DNS off; after a start/stop cycle from a state without remnants the owner's "
          "configuration (uci port / forwarders / DHCP options, nvram variables, postconf script) is back, merlin's owner part also surviving any number of unclean stops. Hypotheses are "
          "named in the statements: no uncommitted uci changes (openwrt setup), no '\\r\\r\\n' line ends in the postconf (merlin). Tie: the real "
          "packages run in a chroot jail against a multi-call shim, compared call by call with the extracted model.",
  "note": "Trusted: Coq kernel, extraction, driver, harness, and the shim's semantics of uci / nvram / service tools (stated under assumptions). Defects found and fixed in /repo: F11 openwrt never wrote port=0 after deleting port 53; F22 openwrt Restore deleted the owner's DHCP option; F20 firewalla add-mac unconditional; F12 ddwrt Restore left the NextDNS options in place (unset by 'name=', missing and multi-line variables lost, own options saved after an unclean stop).",
  "technique": "Coq proof over all firmware kinds, settings and pre-existing states (model transcribed from the router packages) + differential check of the real packages in a chroot jail with fake uci/nvram/service tools",
 },
}
NOT_APPLICABLE = {
}


# ---- later additions, applied to the texts above ----
def _patch(pid, field, old, new):
    assert old in TEXT[pid][field], (pid, field, old[:50])
    TEXT[pid][field] = TEXT[pid][field].replace(old, new, 1)


_patch("C13", "text", "and the option loop touches only payload/peer/MAC. Tie:",
       "and the option loop touches only payload/peer/MAC. Over the whole of query.parse (C13_whole_record, C13_upstream): for every client "
       "byte string, with os the options of the OPT record the parser reaches, the payload handed to the upstream has the same length, every "
       "address-carrying ECS option among them shorter than 256 bytes is inert in it (code 0xFFFF, data all zero) and every byte outside those "
       "options is the client's; that the options lie one after the other inside the payload with their length byte in place is proved from the "
       "parser (its cursor always denotes a position of the message), not assumed. Tie:")
_patch("C13", "note", "The statement over whole encoded queries (parser located the options) rests on the correspondence check for the parser part.",
       "Options of 256 bytes or more are outside the whole-parse theorem: the code reads the option length from one byte (observation in DESIGN "
       "section 6); the boolean c13_ok spec still judges them on the implementation's output.")
_patch("C13", "technique", "Coq proof about the in-place rewrite +",
       "Coq proof about the in-place rewrite and about the whole parse (cursor-position invariant) +")
_patch("C14", "text", "and is at most 12 characters; whatever bytes",
       "and is at most 12 characters; two MACs with the same vendor prefix and the same id give the very same client info, and neither "
       "MAC-derived header value is long enough to hold the textual MAC (C14_mac_dependence, C14_no_full_mac); whatever bytes")
_patch("C15", "text", "and Properties/C15_instance.v evaluates table_ok on it. Not provable here:",
       "and Properties/C15_instance.v evaluates table_ok on it. For the 'some sequential order' clause the state that concurrent responses "
       "share, the per-profile last-modified register, is proved to be a max-register (C15_lastmod_any_order: every sequential order of the "
       "same announcements leaves their maximum; monotone; covers every stamp), and the engine lmconc compares the real resolver's register "
       "after bursts of 2-16 simultaneous responses with that value. Not provable here:")
_patch("C15", "technique", "+ Go race-detector stress as failing-input search",
       "+ Go race-detector stress and concurrent-burst comparison with the proved order-independent value as failing-input search")
_patch("C16", "text", "That model is tied to the code only by the daemon engine: the real binary started",
       "That model is tied to the code twice: its parameters (capacity of the error channel; every send on it a select case with a default) "
       "are read from run.go by a Go-AST translator on every run and Properties/C16_instance.v re-proves the statement for them "
       "(C16_start_instance); and the daemon engine runs the real binary, which when started")
_patch("C16", "technique", "+ outcome correspondence check over bind-failure/cancellation matrix",
       "+ generated start-wrapper parameters (translator) + outcome correspondence check over the bind-failure / cancellation / held-connection matrix")
_patch("C02", "text", "and the live proxy on structured + mutated + random inputs;",
       "and the live proxy on structured + mutated + random inputs (sequential, capacity storms, concurrent batches, and a race-detector build "
       "under concurrent load; a Go runtime abort inside /repo code is a violation);")
_patch("C11", "note", "URL/ctx wiring in run.go is exercised by the C06 engines.",
       "The second sentence of the property (id = DoH path = cache context) is checked on the real resolver: histories (request path and "
       "ResolveInfo.Profile) and the end-to-end engine with four profiles chosen by client address, whose answers depend on the profile, under "
       "concurrent clients.")
_patch("C11", "technique", "+ differential correspondence check",
       "+ differential correspondence check + end-to-end per-profile answers under concurrency")
_patch("C18", "text", "sorted-insertion spec and views_agree evaluated on the implementation's own outputs.",
       "sorted-insertion spec and views_agree evaluated on the implementation's own outputs. Over time (C18_table_catches_up, generic in table "
       "type and parser): the lazily refreshed hosts / lease tables (re-check every 5 s, re-read only when modification time or size differ) "
       "work on the table parsed from the file on disk from one interval after the last lookup that preceded the change onwards; the limit "
       "(a change keeping both stamps is never seen) is stated as C18_same_stamp_never_reloaded. Tie: histories of file replacements, virtual "
       "waiting and lookups on one real discovery.Hosts, compared lookup by lookup; quiet periods of minutes to days in the mDNS histories.")
_patch("C18", "technique", "+ differential correspondence check incl. real UDP mDNS packets",
       "+ refresh state machine with catch-up theorem + differential correspondence check incl. real UDP mDNS packets and file-change histories")
_patch("C05", "text", "the extracted boolean spec is also evaluated on the implementation's own replies.",
       "the extracted boolean spec is also evaluated on the implementation's own replies. The size constants of the model (512, 4094, 65507, "
       "65535) are re-read from the source by a Go-AST translator on every run and Properties/C05_consts.v states that they agree.")
_patch("C05", "technique", "+ differential correspondence check", "+ generated-constants instance + differential correspondence check")
_patch("C08", "text", "state and ordered callback log compared after every op.",
       "state and ordered callback log compared after every op; probes that hang until their context ends (explicit and background elections). "
       "The manager's constants (error threshold 10, 2 h, 10 s) are re-read from the source on every run (Properties/C08_consts.v).")
_patch("C09", "text", "Tie: as C08 plus deadlock watchdog and crash detection per script.",
       "Tie: as C08 (incl. the generated-constants instance) plus deadlock watchdog and crash detection per script.")
_patch("C03", "text", "(real proxy + real DoH/DNS53 servers, fault menu, latency <= timeout+300 ms).",
       "(real proxy + real DoH/DNS53 servers, a menu of 25 faults incl. stray datagrams, two-fault sequences on one query and exchanges over a "
       "reused TCP connection, latency <= timeout+300 ms).")
_patch("C12", "text", "compared with the extracted model;",
       "compared with the extracted model -- also when the table object has lived on an earlier file of any age and the file changed six seconds "
       "of (virtual) waiting ago;")
_patch("C04", "text", "judged by the extracted c04_ok spec.",
       "judged by the extracted c04_ok spec; every third storm on two listen addresses, one in twelve starting with a hold of every slot for "
       "longer than any duration constant found in proxy/*.go while a TCP connection and a datagram wait.")
_patch("C15", "text", "after bursts of 2-16 simultaneous responses with that value. Not provable here:",
       "after bursts of 2-16 simultaneous responses with that value. Check-then-act: in every reachable state, while a plain read of x by one "
       "thread is in force (made under locks it has not released since) no other thread is about to write x (C15_rmw_exclusive), and a path "
       "that passes the syntactic rule `recheck` writes a location it has read before only while such a read is in force "
       "(C15_recheck_meaning); the translator emits every method body as a frame of its own and C15_frames_ok evaluates the rule on them. "
       "Not provable here:")
_patch("C04", "text", "while a TCP connection and a datagram wait.",
       "while a TCP connection and a datagram wait, one in twelve against the real resolver stack (endpoint manager, plain-DNS endpoint over a "
       "UDP socket) with queries failing while an endpoint test is running.")
_patch("C05", "text", "on loopback UDP+TCP over the boundary lattice and random pairs",
       "on loopback UDP+TCP over the boundary lattice and random pairs (once with a scripted upstream, once through the real plain-DNS resolver)")
_patch("C08", "text", "The manager's constants",
       "A second engine uses real DoH endpoints (three servers, one host name and certificate, endpoints differing in the bootstrap address "
       "only): elections must announce spec_best and every query must be received by the elected endpoint's own server. The manager's constants")
_patch("C17", "text", "Tie:", "Tie (besides the in-process round trip below, the real binary: a configuration stored with `nextdns config set` is what the "
       "daemon started as a service runs on - it listens on the stored address and uses the stored forwarder, also after one more option is set):")
_patch("C19", "text", "Tie:", "Tie (besides the crash-injection engine below, the real daemon: `nextdns run -auto-activate` through stop, kill + restart + stop and "
       "stop + restart + stop in a scratch /etc - the original is on disk while active and back byte for byte at the end):")
_patch("C15", "text", "the translator emits every method body as a frame of its own and C15_frames_ok evaluates the rule on them.",
       "the translator emits every method body as a frame of its own and C15_frames_ok evaluates the rule on them; C15_frame_rule_transfers "
       "carries the rule from a frame to every well-bracketed path that contains the frame's events in order with callee blocks (which give "
       "back every lock they take) in between.")

# ---- session 4 additions ----
_patch("C17", "text", "Parsing/printing of "
       "package net/time is an explicit hypothesis (String() of an element parses back to it).",
       "Parsing/printing of package net/time is an explicit hypothesis (String() of an element that Set can produce parses back to it); for the "
       "forwarder option it is a theorem instead: config/forwarder.go's newResolver and String are modelled at the level of text (Model/FwdText.v: cut at "
       "the first '=', ASCII TrimSpace, fqdn) and C17_forwarder_text proves, for every value newResolver accepts - whatever resolver.New accepts as an "
       "address - that the printed rule is read back to the very same rule; C17_forwarder_criterion that the replacement criterion of Forwarders.Set is "
       "the text before the first '=' of the stored line; C17_roundtrip_forwarders instantiates the store round trip with no assumption on the element "
       "syntax. Engine fwdtext ties that model to the code: values with white space around '=' and the ends, empty and dotted domains, several '=', "
       "through the real Forwarders.Set / String, Domain and printed form compared with the extracted parser, and - as a specification on the "
       "implementation alone - String() set again must give the same rule and replace the one it came from.")
_patch("C17", "note", "The hypothesis parse(show e)=e is environment (net, time) and is sampled by the engine.",
       "The hypothesis parse(show e)=e stays environment for listen addresses and profile conditions (net.ParseCIDR / ParseMAC / interfaces) and is sampled by the engine; "
       "for forwarders only the validity of the address text (resolver.New) is a parameter. strings.TrimSpace is modelled for ASCII (the engine's values are ASCII).")
_patch("C17", "technique", "+ differential round-trip check on the real configuration code",
       "+ text-level model of the forwarder syntax with a proved print/parse round trip + differential round-trip check on the real configuration code")
_patch("C16", "text", "The start wrapper (run.go proxySvc.start)",
       "Over histories of the service object (run.go proxySvc.Start / Stop / Restart, Model/Svc.v): what each call has to report and whether the "
       "service holds the address afterwards, with somebody else occupying and freeing the address in between; C16_start_honest (success is reported "
       "exactly when the address was free, and then it is held) and C16_lifecycle_coherent (a serving service and a foreign occupant never coexist "
       "in a reachable state). Engine daemon -mode ops runs such histories on the real proxySvc (probe build of package main) and compares call by "
       "call with the extracted svc_run. The start wrapper (run.go proxySvc.start)")
_patch("C16", "technique", "+ generated start-wrapper parameters (translator)",
       "+ life-cycle specification run against the real service object + generated start-wrapper parameters (translator)")
_patch("C18", "text", "Tie:", "A file that disappears for a while and comes back unchanged leaves the table in sync through every lookup made meanwhile "
       "(C18_away_and_back; the variant that empties the table but keeps the stamps is refuted by a three-event history). Tie:")
_patch("C20", "text", "Tie:", "What is left on disk: every successful Restore ends with the restart and writes nothing after it (C20_restore_disk: loaded = "
       "what is on disk), and when the restart at the end of setupDNSMasq fails on edgeos / ubios / firewalla the Restore of the following stop still "
       "removes the drop-in and restarts (C20_failed_restart_then_restore; the variant that skips Restore unless Setup succeeded is refuted). Tie (the shim "
       "can make the next restart command fail once; such histories are judged by the specification only, incl. the view of the files on disk):")
_patch("C05", "text", "the extracted boolean spec is also evaluated on the implementation's own replies.",
       "the extracted boolean spec is also evaluated on the implementation's own replies. Mode tcpstall: hundreds of pipelined queries with 40-65 kB "
       "answers on one TCP connection whose client stops reading for several request timeouts and then reads on - only whole replies, each delimited "
       "by its prefix, may arrive.")
_patch("C13", "text", "Tie:", "Tie (besides the engines below, the concurrent batches of mode conc: peer address, hardware address and local address of a query are "
       "sampled when the upstream is called and when it is done - they are the request's own and must not change while other requests are parsed):")
_patch("C17", "text", "Engine fwdtext ties that model to the code:",
       "The profile option has the same treatment (Model/ProfText.v: newConfig's cut at the first '=', trimming, and the order prefix / hardware "
       "address / interface; profile.String): C17_profile_text proves the print/parse round trip for every rule newConfig can produce under four "
       "stated facts about package net (a printed prefix or hardware address parses to itself, contains no '=' and no surrounding white space, a "
       "printed hardware address is not a prefix); engine proftext runs the real Profiles.Set / String on prefixes in non-canonical spellings, "
       "hardware addresses in three notations, interface names, padded and multi-'=' values, compares ID and printed form with the extracted "
       "parser (package net as an oracle taken from the implementation's own classification of that value) and checks that String() set again "
       "gives the same line and replaces the rule it came from. Engine fwdtext ties that model to the code:")
_patch("C05", "text", "Mode tcpstall:", "C05_stream_decodes: for every sequence of replies of 1..65535 bytes written each as one whole frame, a client "
       "reading length-then-body decodes exactly that sequence and is left with exactly what follows (a frame cut short is refuted by example). Mode tcpstall:")
