#!/usr/bin/env python3
"""Regenerates MANIFEST.json from bin/props.py + the texts below."""
import json, os, sys
sys.path.insert(0, os.path.dirname(os.path.abspath(__file__)))
from props import PROPS
from manifest_text import TEXT, NOT_APPLICABLE

ALL = ["C%02d" % i for i in range(1, 21)]
checks = []
for pid in ALL:
    if pid not in PROPS or pid not in TEXT:
        continue
    t = TEXT[pid]
    checks.append({
        "property_id": pid,
        "quick_cmd": "bin/check %s --tier quick" % pid,
        "thorough_cmd": "bin/check %s --tier thorough" % pid,
        "evidence_file": "/verif/evidence/%s.json" % pid,
        "replay_cmd_template": "bin/check %s --replay {path}" % pid,
        "engine": ",".join(sorted({r["engine"] for r in PROPS[pid]["runs"]})),
        "level_claimed": {"category": "proof", "text": t["text"], "design_ref": "DESIGN.md section 5, " + pid},
        "level_note": t["note"],
        "technique": t["technique"],
    })
na = [{"property_id": p, "reason": NOT_APPLICABLE.get(p, "check not built yet in this tree (planned: DESIGN.md section 5)")}
      for p in ALL if p not in {c["property_id"] for c in checks}]
m = {
    "version": 1,
    "setup_cmd": "bin/build",
    "hooks": {
        "guard": "verif",
        "enable": "go build -tags verif -overlay /verif/build/overlay.json (overlay files live in /verif/harness/overlay, all //go:build verif, add-only; nothing is committed in /repo)",
        "baseline_off_cmd": "cd /repo && go test -vet=off -count=1 ./...",
        "source_commits": [],
        "add_only": True,
    },
    "engines": [],
    "checks": checks,
    "not_applicable": na,
    "notes": "All checks: Coq 8.16.1 proofs about a hand-written executable Gallina model + correspondence check "
             "(extracted OCaml model vs the real Go code on the same inputs) on every run. See DESIGN.md.",
}
eng = {}
for pid in PROPS:
    for r in PROPS[pid]["runs"]:
        eng.setdefault(r["engine"], set()).add(pid)
m["engines"] = [{"name": e, "path": "/verif/harness", "serves_properties": sorted(ps),
                 "kind_free_text": "Go harness sub-command `nxh %s` driving the real code; verdicts by /verif/ocaml/driver" % e}
                for e, ps in sorted(eng.items())]
json.dump(m, open(os.path.join(os.path.dirname(__file__), "..", "MANIFEST.json"), "w"), indent=1)
print("MANIFEST.json: %d checks, %d not_applicable" % (len(checks), len(na)))
