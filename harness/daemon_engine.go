package main

// Engine "daemon": the real daemon binary built from /repo's package main (build/nextdns-probe, run as
// `nextdns run ...` in the engine's private network namespace), so that the wiring done in run.go is what runs.
//   mode fwd  (C10): random -forwarder lists pointing at local UDP upstreams; which upstream sees each query
//   mode bind (C16): listen addresses that cannot be bound; the daemon must report the failure and exit

import (
	"sync/atomic"
	"bytes"
	"fmt"
	"io"
	"net"
	"os"
	"os/exec"
	"path/filepath"
	"sort"
	"strings"
	"sync"
	"syscall"
	"time"
)

func init() {
	register("daemon", daemonEngine)
	register("burn", func(args []string) error { // a busy loop that ends by itself (scheduling pressure for mode bind)
		end := time.Now().Add(90 * time.Second)
		for time.Now().Before(end) {
		}
		return nil
	})
}

func daemonBin() string { return filepath.Join(filepath.Dir(os.Args[0]), "nextdns-probe") }

func daemonEngine(args []string) error {
	c := parseCommon("daemon", args)
	r := newRng(c.seed ^ 0xdae)
	switch c.mode {
	case "fwd":
		return daemonFwd(r, c.n)
	case "bind":
		return daemonBind(r, c.n)
	case "svc":
		return daemonSvc(r, c.n)
	case "act":
		return daemonAct(r, c.n)
	case "ops":
		return daemonOps(r, c.n)
	}
	return fmt.Errorf("daemon: unknown mode %q", c.mode)
}

func waitUDP(addr string, d time.Duration) bool {
	deadline := time.Now().Add(d)
	for time.Now().Before(deadline) {
		if c, err := net.DialTimeout("tcp", addr, 100*time.Millisecond); err == nil {
			c.Close()
			return true
		}
		time.Sleep(20 * time.Millisecond)
	}
	return false
}

func daemonFwd(r *rng, n int) error {
	const nup = 4
	var ups []*udpUp
	for i := 0; i < nup; i++ {
		u, err := startUDPUp(i+1, 6001+i)
		if err != nil {
			return err
		}
		ups = append(ups, u)
	}
	domPool := []string{"corp", "corp.", "example.corp", "a.example.corp.", "local", "notcorp", "rp", "example", "internal.lan.", "lan"}
	dir, err := os.MkdirTemp("", "nxdaemon")
	if err != nil {
		return err
	}
	defer os.RemoveAll(dir)
	for i := 0; i < n; i++ {
		nf := r.rng(1, 4)
		var toks, dargs, usedDoms []string
		for j := 0; j < nf; j++ {
			up := r.rng(1, nup)
			if r.coin(20) {
				up = nup + r.rng(1, 2)
			}
			addr := fmt.Sprintf("127.0.0.1:%d", 6000+up)
			if r.coin(25) {
				dargs = append(dargs, "-forwarder", addr)
				toks = append(toks, "-", itoa(up))
				continue
			}
			dom := randCase(r, domPool[r.intn(len(domPool))])
			dargs = append(dargs, "-forwarder", dom+"="+addr)
			toks = append(toks, "d"+sx(dom), itoa(up))
			usedDoms = append(usedDoms, strings.TrimSuffix(dom, "."))
		}
		port := 5400 + i%50
		listen := fmt.Sprintf("127.0.0.1:%d", port)
		a := append([]string{"run", "-listen", listen, "-control", filepath.Join(dir, fmt.Sprintf("c%d.sock", i)), "-auto-activate=false",
			"-report-client-info=false", "-timeout", "400ms", "-cache-size", "0"}, dargs...)
		cmd := exec.Command(daemonBin(), a...)
		var lg bytes.Buffer
		cmd.Stdout, cmd.Stderr = &lg, &lg
		if err := cmd.Start(); err != nil {
			return err
		}
		if !waitUDP(listen, 3*time.Second) {
			_ = cmd.Process.Kill()
			_ = cmd.Wait()
			emit("dfwd", itoa(i), "0", sx("-"), "=>", "DAEMONFAIL:"+sx(lg.String()), "0")
			continue
		}
		time.Sleep(30 * time.Millisecond)
		for _, u := range ups {
			u.take()
		}
		if i%3 == 1 {
			// a burst of different questions while the forwarders are used for the first time and are slow to answer
			// their probe: the queries queue inside the daemon, each must still reach exactly its own upstream
			for _, u := range ups {
				atomic.StoreInt32(&u.probeDelay, 120)
			}
			type bq struct {
				q  []byte
				qn string
				n  int
			}
			var bqs []*bq
			for k := 0; k < 16; k++ {
				base := []string{"com", "example.net", "org"}[r.intn(3)]
				if len(usedDoms) > 0 && r.coin(60) {
					base = usedDoms[r.intn(len(usedDoms))]
				}
				name := fmt.Sprintf("b%d-%s.%s", k, string(randLabel(r, 4)), base)
				q := msgSpec{id: r.intn(65536), flags: 0x0100, qs: [][]byte{question(encodeName(name), 1, 1)}}.encode()
				bqs = append(bqs, &bq{q: q, qn: wireName(q[12:])})
			}
			var wgb sync.WaitGroup
			viaTCP := 0
			if i%6 == 1 {
				viaTCP = 8 // half of these bursts: the first eight questions pipelined on ONE TCP connection
			}
			if viaTCP > 0 {
				var raw []byte
				for _, b := range bqs[:viaTCP] {
					raw = append(raw, frame(b.q)...)
				}
				wgb.Add(1)
				go func() {
					defer wgb.Done()
					st, _ := tcpExchange(listen, raw, viaTCP, 1500*time.Millisecond, time.Millisecond)
					for len(st) >= 2 {
						l := int(st[0])<<8 | int(st[1])
						if len(st) < 2+l {
							break
						}
						for _, b := range bqs[:viaTCP] {
							if l >= 2 && st[2] == b.q[0] && st[3] == b.q[1] {
								b.n++
							}
						}
						st = st[2+l:]
					}
				}()
			}
			for _, b := range bqs[viaTCP:] {
				wgb.Add(1)
				go func(b *bq) {
					defer wgb.Done()
					b.n = len(udpExchange(listen, b.q, 1200*time.Millisecond, time.Millisecond))
				}(b)
			}
			wgb.Wait()
			for _, u := range ups {
				atomic.StoreInt32(&u.probeDelay, 0)
			}
			sawBy := map[string][]string{}
			for _, u := range ups {
				for _, s := range u.take() {
					sawBy[s] = append(sawBy[s], itoa(u.id))
				}
			}
			known := map[string]bool{}
			for k, b := range bqs {
				known[b.qn] = true
				saw := sawBy[b.qn]
				sort.Strings(saw)
				out := strings.Join(saw, ",")
				if out == "" {
					out = "none"
				}
				emit(append(append([]string{"dfwd", fmt.Sprintf("%d.b%d", i, k), itoa(len(toks) / 2)}, toks...), sx(b.qn), "=>", out, itoa(b.n))...)
			}
			// anything an upstream saw that nobody asked: bytes of one question sent under another one's routing
			for s, by := range sawBy {
				if !known[s] {
					emit(append(append([]string{"dfwd", fmt.Sprintf("%d.bx", i), itoa(len(toks) / 2)}, toks...), sx(s), "=>", "x"+strings.Join(by, ",x"), "0")...)
				}
			}
		}
		for k := 0; k < 4; k++ {
			base := domPool[r.intn(len(domPool))]
			if len(usedDoms) > 0 && r.coin(60) {
				base = usedDoms[r.intn(len(usedDoms))]
			}
			var name string
			switch r.intn(5) {
			case 0:
				name = base
			case 1:
				name = string(randLabel(r, 5)) + "." + base
			case 2:
				name = string(randLabel(r, 3)) + base
			case 3:
				name = string(randLabel(r, 8)) + ".com"
			default:
				name = "www." + base
			}
			name = randCase(r, strings.TrimSuffix(name, "."))
			q := msgSpec{id: r.intn(65536), flags: 0x0100, qs: [][]byte{question(encodeName(name), 1, 1)}}.encode()
			rs := udpExchange(listen, q, 900*time.Millisecond, time.Millisecond)
			qn := wireName(q[12:])
			var saw []string
			for _, u := range ups {
				for _, s := range u.take() {
					if s == qn {
						saw = append(saw, itoa(u.id))
					} else {
						saw = append(saw, "x"+itoa(u.id))
					}
				}
			}
			sort.Strings(saw)
			out := strings.Join(saw, ",")
			if out == "" {
				out = "none"
			}
			emit(append(append([]string{"dfwd", fmt.Sprintf("%d.%d", i, k), itoa(len(toks) / 2)}, toks...), sx(qn), "=>", out, itoa(len(rs)))...)
		}
		_ = cmd.Process.Signal(os.Interrupt)
		done := make(chan struct{})
		go func() { _ = cmd.Wait(); close(done) }()
		select {
		case <-done:
		case <-time.After(2 * time.Second):
			_ = cmd.Process.Kill()
			<-done
		}
	}
	return nil
}

// mode bind: the daemon is started on addresses it cannot bind, on a CPU it shares with a busy process (the
// listener can then fail before the starter waits for its error). It must report the failure and exit.
func daemonBind(r *rng, n int) error {
	dir, err := os.MkdirTemp("", "nxdaemon")
	if err != nil {
		return err
	}
	defer os.RemoveAll(dir)
	cpu := "2"
	var burners []*exec.Cmd
	for b := 0; b < 1; b++ {
		burn := exec.Command("taskset", "-c", cpu, "timeout", "120", "sh", "-c", "while true; do true; done")
		if burn.Start() == nil {
			burners = append(burners, burn)
		}
	}
	pinned := len(burners) > 0
	defer func() {
		for _, burn := range burners {
			_ = burn.Process.Signal(syscall.SIGTERM) // timeout(1) passes it on to the loop
			_ = burn.Wait()
		}
	}()
	type res struct{ line string }
	out := make([]string, n)
	var mu sync.Mutex
	_ = mu
	bad := 0
	for i := 0; i < n && bad < 3; i++ {
		kind := []string{"notavail4", "busytcp", "notavail6", "busyudp", "mixed"}[i%5]
		port := 5500 + i%40
		var listens []string
		var holders []interface{ Close() error }
		switch kind {
		case "notavail4":
			listens = []string{fmt.Sprintf("192.0.2.1:%d", port)}
		case "notavail6":
			listens = []string{fmt.Sprintf("[2001:db8::1]:%d", port)}
		case "busytcp":
			listens = []string{fmt.Sprintf("127.0.0.1:%d", port)}
			if l, err := net.Listen("tcp", listens[0]); err == nil {
				holders = append(holders, l)
			}
		case "busyudp":
			listens = []string{fmt.Sprintf("127.0.0.1:%d", port)}
			if l, err := net.ListenPacket("udp", listens[0]); err == nil {
				holders = append(holders, l)
			}
		case "mixed":
			listens = []string{fmt.Sprintf("127.0.0.1:%d", port), fmt.Sprintf("192.0.2.1:%d", port)}
		}
		a := []string{"run", "-control", filepath.Join(dir, fmt.Sprintf("b%d.sock", i)), "-auto-activate=false"}
		for _, l := range listens {
			a = append(a, "-listen", l)
		}
		var cmd *exec.Cmd
		if pinned {
			cmd = exec.Command("taskset", append([]string{"-c", cpu, daemonBin()}, a...)...)
		} else {
			cmd = exec.Command(daemonBin(), a...)
		}
		cmd.Env = append(os.Environ(), "GOMAXPROCS=2")
		lgf, _ := os.Create(filepath.Join(dir, fmt.Sprintf("b%d.log", i)))
		cmd.Stdout, cmd.Stderr = lgf, lgf
		start := time.Now()
		rc := -1
		if err := cmd.Start(); err == nil {
			done := make(chan error, 1)
			go func() { done <- cmd.Wait() }()
			select {
			case err := <-done:
				rc = 0
				if ee, ok := err.(*exec.ExitError); ok {
					rc = ee.ExitCode()
				}
			case <-time.After(7 * time.Second): // past start's own 5 s wait
				_ = cmd.Process.Kill()
				<-done
				rc = 124
			}
		}
		for _, h := range holders {
			h.Close()
		}
		lgf.Close()
		lgb, _ := os.ReadFile(filepath.Join(dir, fmt.Sprintf("b%d.log", i)))
		reported := strings.Contains(string(lgb), "bind:") || strings.Contains(string(lgb), "Startup failed")
		if rc != 1 {
			bad++
		}
		out[i] = strings.Join([]string{"dbind", itoa(i), kind, b2s(pinned), "=>", itoa(rc), b2s(reported), fmt.Sprint(time.Since(start).Milliseconds())}, " ")
	}
	for _, l := range out {
		if l != "" {
			fmt.Println(l)
		}
	}
	return nil
}

// mode ops (C16): life cycles of the daemon's own service object (proxySvc.Start / Stop / Restart of run.go, through
// the probe binary) on one address that somebody else occupies and frees in between: a start on an occupied
// address reports the failure -- also the second time, also after a stop -- and one that reports success holds the
// address.   dops <id> <ops> => <result/held>...
func daemonOps(r *rng, n int) error {
	lines := make([]string, n)
	var wg sync.WaitGroup
	for i := 0; i < n; i++ {
		// at most two successful starts per history (each takes start's own 5 s wait)
		var ops []string
		serving, occupied, succ := false, false, 0
		for k := r.rng(4, 9); k > 0; k-- {
			switch x := r.intn(10); {
			case x < 3 && !serving && !occupied:
				ops, occupied = append(ops, "O"), true
			case x < 3 && occupied:
				ops, occupied = append(ops, "F"), false
			case x < 7 && !serving:
				if !occupied {
					if succ >= 2 {
						continue
					}
					succ++
					serving = true
				}
				ops = append(ops, "S")
			case x < 8:
				if !occupied {
					if succ >= 2 {
						continue
					}
					succ++
					serving = true
				}
				ops = append(ops, "R")
			default:
				if serving || r.coin(30) {
					ops, serving = append(ops, "T"), false
				}
			}
		}
		if i == 0 {
			ops = []string{"O", "S", "S", "F", "S", "T"}
			serving = false
		}
		calls := 0
		for _, o := range ops {
			if o == "S" || o == "R" || o == "T" {
				calls++
			}
		}
		if calls == 0 {
			// every history makes at least one call: a start in whatever state the address is in
			ops = append(ops, "S")
			serving = !occupied
		}
		if serving {
			ops = append(ops, "T")
		}
		script := strings.Join(ops, ",")
		addr := fmt.Sprintf("127.0.0.1:%d", 5600+i%200)
		wg.Add(1)
		go func(i int) {
			defer wg.Done()
			cmd := exec.Command(daemonBin())
			cmd.Env = append(os.Environ(), "NXVERIF_PROBE=1")
			cmd.Stdin = strings.NewReader("svc " + addr + " " + script + "\n")
			cmd.Stderr = io.Discard
			done := make(chan struct{})
			var out []byte
			go func() { out, _ = cmd.Output(); close(done) }()
			select {
			case <-done:
			case <-time.After(90 * time.Second):
				if cmd.Process != nil {
					_ = cmd.Process.Kill()
				}
				<-done
			}
			res := strings.TrimSpace(string(out))
			if res == "" {
				res = "none"
			}
			lines[i] = "dops " + itoa(i) + " " + script + " => " + res
		}(i)
		if i%8 == 7 {
			wg.Wait()
		}
	}
	wg.Wait()
	for _, l := range lines {
		fmt.Println(l)
	}
	return nil
}
