package main

// Engine "refresh" (C18, C12): histories on ONE discovery.Hosts object whose file changes under it.
// Operations: W (the file is replaced: content, modification time), R / B (the file is moved away / moved back
// unchanged), A (time passes: VerifAdvance), L (LookupHost).  The model is Model/Refresh.v instantiated with the hosts parser; the theorem
// behind it is table_catches_up (Proofs/RefreshFacts.v).
//   rfr <id> <ipmap> <op;op;...> => <out;out;...>      (one out per L: addresses, or -)

import (
	"fmt"
	"os"
	"strings"
	"time"

	"github.com/nextdns/nextdns/discovery"
)

func init() { register("refresh", refreshEngine) }

func refreshEngine(args []string) error {
	c := parseCommon("refresh", args)
	r := newRng(c.seed)
	dir, err := os.MkdirTemp("", "nxrfr")
	if err != nil {
		return err
	}
	defer os.RemoveAll(dir)
	// a scratch /etc (private mount namespace): /etc/hosts is a regular file in some histories and, as on many
	// routers, a symbolic link to a file elsewhere in others
	if err := bindOver(dir, "/etc"); err != nil {
		return err
	}
	_ = os.MkdirAll("/etc/real", 0755)
	hf := "/etc/hosts"
	base := time.Now().Add(-1000 * 24 * time.Hour).Truncate(time.Second)
	for h := 0; h < c.n; h++ {
		hosts := &discovery.Hosts{}
		_ = os.Remove("/etc/hosts")
		_ = os.Remove("/etc/real/hosts")
		linked := h%3 == 2
		hf = "/etc/hosts"
		if linked {
			hf = "/etc/real/hosts" // what gets rewritten is the link's target; the link itself never changes
			_ = os.WriteFile(hf, nil, 0644)
			_ = os.Symlink("real/hosts", "/etc/hosts")
		}
		// a small pool of contents for this history (some of equal length, so that only the stamp tells them apart)
		var pool []string
		for i := r.rng(2, 4); i > 0; i-- {
			pool = append(pool, genHostsFile(r))
		}
		if r.coin(50) {
			pool = append(pool, "10.0.0.1 nas printer\n", "10.0.0.2 nas printer\n", "10.0.0.1 sat printer\n")
		}
		seenTok := map[string]bool{}
		var ipmap []string
		for _, content := range pool {
			for _, line := range strings.Split(content, "\n") {
				if k := strings.IndexByte(line, '#'); k >= 0 {
					line = line[:k]
				}
				f := strings.Fields(line)
				if len(f) == 0 || seenTok[f[0]] {
					continue
				}
				seenTok[f[0]] = true
				canon, ip := literalIP(f[0])
				ipmap = append(ipmap, sx(f[0])+":"+sx(canon)+":"+hx(ipNorm(ip)))
			}
		}
		ipmap = append(ipmap, sx("127.0.0.1")+":"+sx("127.0.0.1")+":7f000001", sx("::1")+":"+sx("::1")+":00000000000000000000000000000001")
		var ops, outs []string
		write := func() {
			content := pool[r.intn(len(pool))]
			mt := int64(r.intn(6)) * 3600 // few distinct stamps: collisions of (stamp, size) do happen
			if r.coin(40) {
				mt = int64(r.intn(1000000))
			}
			_ = os.WriteFile(hf, []byte(content), 0644)
			t := base.Add(time.Duration(mt) * time.Second)
			_ = os.Chtimes(hf, t, t)
			ops = append(ops, fmt.Sprintf("W:%s:%d", sx(content), mt))
		}
		write()
		t0 := time.Now()
		removed := false
		away := hf + ".away"
		_ = os.Remove(away)
		for i := r.rng(4, 20); i > 0; i-- {
			switch x := r.intn(10); {
			case x < 2 && h%4 == 1 && i%2 == 0:
				// the file disappears for a while (an editor or a package upgrade moving it aside) and comes back as
				// it was, stamps included: what the table answers afterwards is still what the file says
				if removed {
					_ = os.Rename(away, hf)
					ops = append(ops, "B")
				} else {
					_ = os.Rename(hf, away)
					ops = append(ops, "R")
				}
				removed = !removed
			case x < 2:
				write()
				removed = false
			case x < 5:
				ms := []int{1000, 2000, 2500, 4000, 6000, 60000, 5000}[r.intn(7)]
				hosts.VerifAdvance(time.Duration(ms) * time.Millisecond)
				ops = append(ops, fmt.Sprintf("A:%d", ms))
			default:
				name := hostNames[r.intn(len(hostNames))]
				if r.coin(30) {
					name = []string{"nas", "printer", "sat", "localhost"}[r.intn(4)]
				}
				name = randCase(r, name)
				res := hosts.LookupHost(name)
				ops = append(ops, "L:"+sx(name))
				outs = append(outs, sxl(res))
			}
		}
		if time.Since(t0) > 400*time.Millisecond {
			note("refresh history %d took %v: skipped (virtual half seconds would be ambiguous)", h, time.Since(t0))
			continue
		}
		if len(outs) == 0 {
			continue
		}
		emit("rfr", itoa(h), strings.Join(ipmap, ";"), strings.Join(ops, ";"), "=>", strings.Join(outs, ";"))
	}
	return nil
}
