package main

// Engine "clientinfo" (C14): (mode probe) the daemon binary built from /repo with a
// package-main probe answers shortID / ClientInfo requests; (mode headers) the real
// DoH resolver sends requests with scripted client information to the harness
// HTTP/2 server, which records the X-Device-* headers it receives.

import (
	"bufio"
	"context"
	"errors"
	"fmt"
	"io"
	"net"
	"os"
	"os/exec"
	"path/filepath"
	"sort"
	"strings"
	"time"

	"github.com/nextdns/nextdns/resolver"
	"github.com/nextdns/nextdns/resolver/query"
)

func init() { register("clientinfo", clientinfoEngine) }

// printable spellings of control and other special bytes in the encodings a name may pass through
// (DNS presentation format, C, URL, HTML, MIME), plus the short literals of the code that builds the
// headers, read from the current source
var nameEscapes = func() []string {
	out := []string{"\\000", "\\010", "\\013", "\\027", "\\031", "\\032", "\\127", "\\255", "\\n", "\\r", "\\x0a", "\\u000a", "\\",
		"%0a", "%0d%0a", "%00", "%7f", "&#10;", "&#x1b;", "=0A", "=?utf-8?q?=0A?=", "\"", "'", ":", ";", ",", "\\.", "\\\\"}
	for _, t := range sourceDict("resolver/doh.go", "run.go").strs {
		if len(t) <= 2 {
			out = append(out, t)
		}
	}
	return out
}()

func randName(r *rng) string {
	switch r.intn(9) {
	case 8: // escape sequences: a printable name that some decoder could turn into a control byte
		n := "cam" + nameEscapes[r.intn(len(nameEscapes))]
		if r.coin(50) {
			n += string(randLabel(r, 3))
		}
		if r.coin(30) {
			n += nameEscapes[r.intn(len(nameEscapes))]
		}
		return n
	case 0:
		return ""
	case 1: // control bytes
		b := []byte("dev-" + string(randLabel(r, 6)))
		b[r.intn(len(b))] = byte([]int{1, 7, 10, 13, 27, 0, 127, 31}[r.intn(8)])
		return string(b)
	case 2: // non-ASCII / UTF-8
		return []string{"Émile's iPhone", "日本語のテレビ", "caf\xe9", "\xff\xfe binary", "naïve.local."}[r.intn(5)]
	case 3: // long
		return strings.Repeat(string(randLabel(r, 8)), r.rng(5, 30))
	case 4:
		return "tab\there and space"
	default:
		n := string(randLabel(r, 10))
		if r.coin(50) {
			n += ".local."
		}
		return n
	}
}

func hexList(l []string) string {
	if len(l) == 0 {
		return "-"
	}
	var p []string
	for _, s := range l {
		p = append(p, sx(s))
	}
	return strings.Join(p, ",")
}

func clientinfoEngine(args []string) error {
	c := parseCommon("clientinfo", args)
	r := newRng(c.seed)
	switch c.mode {
	case "probe":
		return clientinfoProbe(r, c.n)
	case "names":
		return namesEngine(r, c.n)
	case "headers":
		certDir, re, err := ensureCerts(args)
		if re || err != nil {
			return err
		}
		return clientinfoHeaders(r, c.n, certDir)
	}
	return errors.New("clientinfo: unknown mode")
}

func clientinfoProbe(r *rng, n int) error {
	probe := filepath.Join(filepath.Dir(os.Args[0]), "nextdns-probe")
	cmd := exec.Command(probe)
	cmd.Env = append(os.Environ(), "NXVERIF_PROBE=1")
	stdin, _ := cmd.StdinPipe()
	stdout, _ := cmd.StdoutPipe()
	cmd.Stderr = io.Discard
	if err := cmd.Start(); err != nil {
		return fmt.Errorf("probe binary: %v", err)
	}
	out := bufio.NewReaderSize(stdout, 1<<20)
	ask := func(line string) (string, error) {
		if _, err := io.WriteString(stdin, line+"\n"); err != nil {
			return "", err
		}
		s, err := out.ReadString('\n')
		return strings.TrimSpace(s), err
	}
	defer func() { stdin.Close(); _ = cmd.Wait() }()
	profiles := []string{"abc123", "fedcba", "a", "", "abcd", "p-with-long-identifier-0123456789-0123456789"}
	for i := 0; i < n; i++ {
		prof := profiles[r.intn(len(profiles))]
		if i%3 == 0 {
			dev := r.bytes([]int{6, 6, 4, 16, 0, 8, 1, 40}[r.intn(8)])
			res, err := ask(fmt.Sprintf("sid %s %s", sx(prof), hx(dev)))
			if err != nil {
				return err
			}
			emit("sid", itoa(i), sx(prof), hx(dev), "=>", res)
			continue
		}
		if i%4 == 1 {
			// one daemon lifetime: conditional profiles, the same devices seen from several subnets
			type ent struct{ spec, tok, id string }
			pool := []ent{{"10.1.0.0/16=", "P0a010000/16", ""}, {"192.168.0.0/16=", "Pc0a80000/16", ""}, {"fd00::/8=", "Pfd000000000000000000000000000000/8", ""},
				{"172.16.0.0/12=", "Pac100000/12", ""}}
			var specs, toks []string
			np := r.rng(1, 3)
			for j := 0; j < np; j++ {
				e := pool[r.intn(len(pool))]
				id := profiles[r.intn(len(profiles))]
				if id == "" {
					id = "zz9"
				}
				specs = append(specs, sx(e.spec+id))
				toks = append(toks, e.tok, sx(id))
			}
			// a profile for what arrives at the addresses of the loopback interface (a second listener), as
			// `-profile lo=<id>` gives: the same client is then seen under two profiles in one daemon lifetime
			var loIPs []string
			if r.coin(45) {
				if ifc, _ := net.InterfaceByName("lo"); ifc != nil {
					if addrs, _ := ifc.Addrs(); len(addrs) > 0 {
						for _, a := range addrs {
							if n, ok := a.(*net.IPNet); ok {
								loIPs = append(loIPs, hx(ipNorm(n.IP)))
							}
						}
					}
				}
				if len(loIPs) > 0 {
					id := []string{"lo0001", "fedcba"}[r.intn(2)]
					specs = append(specs, sx("lo="+id))
					toks = append(toks, "I"+strings.Join(loIPs, ","), sx(id))
				}
			}
			if r.coin(60) {
				id := []string{"dflt01", "abc123"}[r.intn(2)]
				specs = append(specs, sx(id))
				toks = append(toks, "D", sx(id))
			}
			macs := []string{hx(r.bytes(6)), hx(r.bytes(6))}
			ips := []string{"10.1.2.3", "192.168.1.77", "fd00::5", "172.16.0.9", "10.1.9.9", "8.8.4.4"}
			nq := r.rng(2, 5)
			noSources := r.coin(25) // localhost mode: no discovery source is configured (names can then not be known)
			var qs, mq []string
			for k := 0; k < nq; k++ {
				ip := ips[r.intn(len(ips))]
				mac := "-"
				if r.coin(75) {
					mac = macs[r.intn(2)]
				}
				var ba, bm []string
				if r.coin(30) {
					ba = append(ba, randName(r))
				}
				if r.coin(30) {
					bm = append(bm, randName(r))
				}
				if noSources {
					ba, bm = nil, nil
				}
				local := "127.0.0.1"
				if len(loIPs) > 0 && r.coin(50) {
					local = "10.7.7.7" // arrived at another interface's address
				}
				qs = append(qs, strings.Join([]string{ip, mac, hexList(ba), hexList(bm), local}, ";"))
				mq = append(mq, strings.Join([]string{sx(ip), hx(net.ParseIP(ip)), hx(ipNorm(net.ParseIP(ip))), mac, hexList(ba), hexList(bm), hx(ipNorm(net.ParseIP(local)))}, ";"))
			}
			cmdName := "cis "
			if noSources {
				cmdName = "cisn "
			}
			res, err := ask(cmdName + strings.Join(specs, ",") + " " + strings.Join(qs, " "))
			if err != nil {
				return err
			}
			emit(append(append(append([]string{"cis", itoa(i), itoa(len(toks) / 2)}, toks...), mq...), append([]string{"=>"}, strings.Fields(res)...)...)...)
			continue
		}
		ip := []string{"10.1.2.3", "192.168.1.77", "fd00::5", "2001:db8::1", "172.16.0.9"}[r.intn(5)]
		mac := "-"
		if r.coin(65) {
			mac = hx(r.bytes([]int{6, 6, 6, 8, 2, 3, 20}[r.intn(7)]))
		}
		var byAddr, byMAC []string
		for k := r.intn(3); k > 0; k-- {
			byAddr = append(byAddr, randName(r))
		}
		for k := r.intn(3); k > 0; k-- {
			byMAC = append(byMAC, randName(r))
		}
		pt := sx(prof)
		res, err := ask(fmt.Sprintf("ci %s %s %s %s %s", pt, ip, mac, hexList(byAddr), hexList(byMAC)))
		if err != nil {
			return err
		}
		ipn := net.ParseIP(ip)
		emit("ci", itoa(i), pt, sx(ip), hx(ipn), mac, hexList(byAddr), hexList(byMAC), "=>", strings.ReplaceAll(res, " ", "/"))
	}
	return nil
}

func clientinfoHeaders(r *rng, n int, certDir string) error {
	w, err := newRWorld(certDir, false, 0, 0)
	if err != nil {
		return err
	}
	defer w.close()
	var cur *resolver.ClientInfo
	w.res.DOH.ClientInfo = func(q query.Query) resolver.ClientInfo {
		if cur == nil {
			return resolver.ClientInfo{}
		}
		return *cur
	}
	for i := 0; i < n; i++ {
		reporting := !r.coin(20)
		ci := resolver.ClientInfo{}
		if reporting {
			ci = resolver.ClientInfo{ID: strings.ToUpper(string(randLabel(r, 5))), IP: "10.1.2.3", Model: "mac:aa:bb:cc", Name: randName(r)}
			if r.coin(20) {
				ci.Model = ""
			}
			cur = &ci
			w.res.DOH.ClientInfo = func(q query.Query) resolver.ClientInfo { return *cur }
		} else {
			w.res.DOH.ClientInfo = nil
		}
		ms := msgSpec{id: r.intn(65536), flags: 0x0100, qs: [][]byte{question(encodeName(fmt.Sprintf("h%d.example", i)), 1, 1)}}
		payload := ms.encode()
		q, _ := query.New(append([]byte{}, payload...), net.IP{10, 1, 2, 3}, net.IP{127, 0, 0, 1})
		w.doh.set(nil)
		buf := make([]byte, 65535)
		ctx, cancel := context.WithTimeout(context.Background(), 2*time.Second)
		nn, _, rerr := w.res.Resolve(ctx, q, buf)
		cancel()
		reqs := w.doh.take()
		var hs []string
		if len(reqs) > 0 {
			for k, v := range reqs[0].headers {
				if strings.HasPrefix(k, "X-Device-") && len(v) > 0 {
					hs = append(hs, strings.TrimPrefix(k, "X-Device-")+"="+sx(v[0]))
				}
			}
		}
		sort.Strings(hs)
		hstr := strings.Join(hs, ",")
		if hstr == "" {
			hstr = "-"
		}
		emit("hdr", itoa(i), b2s(reporting), sx(ci.ID), sx(ci.IP), sx(ci.Model), sx(ci.Name), "=>", b2s(rerr == nil && nn > 0), itoa(len(reqs)), hstr)
	}
	return nil
}
