package main

// Engine "flow" (C12, also feeds C18): proxy.Proxy.Resolve with the real
// discovery.Hosts as LocalResolver (hosts file bind-mounted over /etc/hosts in a
// private mount namespace), a scripted discovery resolver and a counting upstream.

import (
	"context"
	"crypto/md5"
	"encoding/hex"
	"errors"
	"fmt"
	"net"
	"os"
	"os/exec"
	"path/filepath"
	"strings"
	"time"

	"github.com/nextdns/nextdns/discovery"
	"github.com/nextdns/nextdns/proxy"
	"github.com/nextdns/nextdns/resolver"
	"github.com/nextdns/nextdns/resolver/query"
)

func init() { register("flow", flowEngine) }

// bindOver makes `src` appear at `target` inside this (private) mount namespace.
func bindOver(src, target string) error {
	// refuse to run outside a private mount namespace: compare mnt ns of pid 1 and self
	a, _ := os.Readlink("/proc/1/ns/mnt")
	b, _ := os.Readlink("/proc/self/ns/mnt")
	if a == b {
		return errors.New("not in a private mount namespace (run under unshare -m)")
	}
	_ = exec.Command("mount", "--make-rprivate", "/").Run()
	out, err := exec.Command("mount", "--bind", src, target).CombinedOutput()
	if err != nil {
		return fmt.Errorf("mount --bind %s %s: %v: %s", src, target, err, out)
	}
	return nil
}

// parseLiteralIP as discovery/hosts.go does (environment function of the model)
func literalIP(addr string) (canon string, ip net.IP) {
	hasDot, hasColon := false, false
	for i := 0; i < len(addr); i++ {
		if addr[i] == '.' {
			hasDot = true
			break
		}
		if addr[i] == ':' {
			hasColon = true
			break
		}
	}
	if hasDot {
		ip = net.ParseIP(addr)
		if ip == nil {
			return "", nil
		}
		return ip.String(), ip
	}
	if hasColon {
		host, zone := addr, ""
		if i := strings.LastIndexByte(addr, '%'); i > 0 {
			host, zone = addr[:i], addr[i+1:]
		}
		ip = net.ParseIP(host)
		if ip == nil {
			return "", nil
		}
		if zone == "" {
			return ip.String(), ip
		}
		return ip.String() + "%" + zone, nil
	}
	return "", nil
}

type scriptedHosts struct {
	hosts map[string][]string
	addrs map[string][]string
}

func (s scriptedHosts) LookupHost(n string) []string { return s.hosts[n] }
func (s scriptedHosts) LookupAddr(a string) []string { return s.addrs[a] }

type flowUp struct {
	calls int
	msg   []byte
	err   bool
}

func (u *flowUp) Resolve(ctx context.Context, q query.Query, buf []byte) (int, resolver.ResolveInfo, error) {
	u.calls++
	n := copy(buf, u.msg)
	if u.err {
		return n, resolver.ResolveInfo{}, errors.New("scripted")
	}
	return n, resolver.ResolveInfo{}, nil
}

// answers of a DNS message as type:rdatahex list (generic walker, follows no pointers: only skips names)
func projectReply(b []byte) (rcode int, answers string) {
	if len(b) < 12 {
		return -1, "short"
	}
	rcode = int(b[3] & 0xf)
	qd := int(b[4])<<8 | int(b[5])
	an := int(b[6])<<8 | int(b[7])
	off := 12
	skipName := func() bool {
		for off < len(b) {
			c := int(b[off])
			if c == 0 {
				off++
				return true
			}
			if c&0xc0 == 0xc0 {
				off += 2
				return true
			}
			off += 1 + c
		}
		return false
	}
	for i := 0; i < qd; i++ {
		if !skipName() {
			return rcode, "bad"
		}
		off += 4
	}
	var parts []string
	for i := 0; i < an; i++ {
		if !skipName() || off+10 > len(b) {
			return rcode, "bad"
		}
		typ := int(b[off])<<8 | int(b[off+1])
		ttl := int(b[off+4])<<24 | int(b[off+5])<<16 | int(b[off+6])<<8 | int(b[off+7])
		rl := int(b[off+8])<<8 | int(b[off+9])
		off += 10
		if off+rl > len(b) {
			return rcode, "bad"
		}
		parts = append(parts, fmt.Sprintf("%d:%d:%s", typ, ttl, hx(b[off:off+rl])))
		off += rl
	}
	if len(parts) == 0 {
		return rcode, "-"
	}
	return rcode, strings.Join(parts, ",")
}

var v4pool = []string{"10.1.2.3", "10.0.0.1", "192.168.1.10", "172.16.5.5", "172.32.0.1", "8.8.8.8", "127.0.0.1", "127.0.1.1", "169.254.3.4", "100.64.0.1", "192.169.0.1", "11.0.0.1"}
var v6pool = []string{"::1", "fe80::1", "fd00::5", "2001:db8::1", "fe80::1%eth0", "fdab:cdef::9", "febf::1", "fec0::1", "fc00::1", "::ffff:10.1.2.3", "2001:DB8:0:0:0:0:0:2"}
var badAddr = []string{"notanip", "1.2.3", "300.1.1.1", "1.2.3.4.5", ":::", "g::1", "12345"}
var hostNames = []string{"printer", "nas.lan", "Router.Home", "laptop.local", "MiXed.Case.Example", "a", "x.y.z.w", "server-1", "localhost", "localhost.localdomain", "db", "Web"}

func genHostsFile(r *rng) string {
	var sb strings.Builder
	n := r.rng(0, 9)
	for i := 0; i < n; i++ {
		switch r.intn(10) {
		case 0:
			sb.WriteString("# comment line\n")
			continue
		case 1:
			sb.WriteString("\n")
			continue
		}
		var addr string
		switch x := r.intn(10); {
		case x < 5:
			addr = v4pool[r.intn(len(v4pool))]
		case x < 9:
			addr = v6pool[r.intn(len(v6pool))]
		default:
			addr = badAddr[r.intn(len(badAddr))]
		}
		sb.WriteString(addr)
		k := r.rng(0, 3)
		for j := 0; j < k; j++ {
			sb.WriteString([]string{" ", "\t", "  "}[r.intn(3)])
			sb.WriteString(randCase(r, hostNames[r.intn(len(hostNames))]))
			if r.coin(10) {
				sb.WriteString(".")
			}
		}
		if r.coin(10) {
			sb.WriteString(" # trailing comment host.in.comment")
		}
		if r.coin(5) {
			sb.WriteString("\r")
		}
		if i < n-1 || !r.coin(15) {
			sb.WriteString("\n")
		}
	}
	return sb.String()
}

func reverseName(r *rng, ip net.IP) string {
	var labels []string
	if v4 := ip.To4(); v4 != nil && !r.coin(10) {
		for i := 3; i >= 0; i-- {
			labels = append(labels, fmt.Sprintf("%d", v4[i]))
		}
		labels = append(labels, "in-addr", "arpa")
	} else {
		ip = ip.To16()
		for i := 15; i >= 0; i-- {
			labels = append(labels, fmt.Sprintf("%x", ip[i]&0xf), fmt.Sprintf("%x", ip[i]>>4))
		}
		labels = append(labels, "ip6", "arpa")
	}
	// odd shapes
	switch r.intn(12) {
	case 0: // partial: drop leading labels
		k := r.rng(1, len(labels)-3)
		labels = labels[k:]
	case 1: // extra leading label
		labels = append([]string{"99"}, labels...)
	case 2: // non numeric label
		labels[r.intn(len(labels)-2)] = "zz"
	case 3: // over-range
		labels[r.intn(len(labels)-2)] = "256"
	case 4: // two-digit hex / leading zeros
		labels[r.intn(len(labels)-2)] = []string{"0a", "007", "ff", "+1", "1_0"}[r.intn(5)]
	case 5, 6: // a zone cut: only the first 1..5 octets / nibbles of the address (odd nibble counts included)
		keep := r.rng(1, 5)
		if len(labels) > keep+2 {
			labels = labels[len(labels)-2-keep:]
		}
	}
	return randCase(r, strings.Join(labels, "."))
}

func flowEngine(args []string) error {
	c := parseCommon("flow", args)
	r := newRng(c.seed)
	dir, err := os.MkdirTemp("", "nxflow")
	if err != nil {
		return err
	}
	defer os.RemoveAll(dir)
	hf := filepath.Join(dir, "hosts")
	if err := os.WriteFile(hf, []byte("127.0.0.1 localhost\n"), 0644); err != nil {
		return err
	}
	if err := bindOver(hf, "/etc/hosts"); err != nil {
		return err
	}
	for i := 0; i < c.n; i++ {
		content := genHostsFile(r)
		if err := os.WriteFile(hf, []byte(content), 0644); err != nil {
			return err
		}
		// environment table for the model: address token -> canonical string -> bytes
		var ipmap []string
		seenTok := map[string]bool{}
		var fileIPs []net.IP
		for _, line := range strings.Split(content, "\n") {
			if k := strings.IndexByte(line, '#'); k >= 0 {
				line = line[:k]
			}
			f := strings.Fields(line)
			if len(f) == 0 || seenTok[f[0]] {
				continue
			}
			seenTok[f[0]] = true
			canon, ip := literalIP(f[0])
			if ip != nil {
				fileIPs = append(fileIPs, ip)
			}
			ipmap = append(ipmap, sx(f[0])+":"+sx(canon)+":"+hx(ipNorm(ip)))
		}
		// the defaults added by readHostsFile
		ipmap = append(ipmap, sx("127.0.0.1")+":"+sx("127.0.0.1")+":7f000001", sx("::1")+":"+sx("::1")+":"+hx(net.ParseIP("::1")))
		hosts := &discovery.Hosts{}
		if i%3 == 1 {
			// history: the daemon has been running on an earlier hosts file (of any age) when this content is
			// written; six seconds later -- the table is re-checked every five -- the new content must be in effect
			prevContent := genHostsFile(r)
			_ = os.WriteFile(hf, []byte(prevContent), 0644)
			age := []time.Duration{0, 90 * time.Second, 2 * time.Hour, 400 * 24 * time.Hour}[r.intn(4)]
			old := time.Now().Add(-age)
			_ = os.Chtimes(hf, old, old)
			_ = hosts.LookupHost("localhost.")
			_ = hosts.LookupAddr("127.0.0.1")
			if r.coin(50) {
				hosts.VerifAdvance(6 * time.Second) // checked once more while unchanged
				_ = hosts.LookupHost("localhost.")
			}
			if err := os.WriteFile(hf, []byte(content), 0644); err != nil {
				return err
			}
			if r.coin(30) {
				older := time.Now().Add(-age - time.Duration(r.rng(1, 50))*time.Minute) // restored from a backup: an older stamp than before
				_ = os.Chtimes(hf, older, older)
			}
			hosts.VerifAdvance(6 * time.Second)
		}
		again := hostNames[r.intn(len(hostNames))] // asked repeatedly, both families: the table must not change by being read
		for k := 0; k < 12; k++ {
			bogus := r.coin(50)
			useLocal := !r.coin(15)
			useDisc := r.coin(40)
			// query
			var name string
			typ := []int{1, 28, 12, 16, 15, 255}[r.intn(6)]
			switch x := r.intn(10); {
			case k >= 8:
				name = randCase(r, again)
				typ = []int{28, 1, 28, 1}[k-8]
				useLocal, useDisc = true, false
			case x < 4:
				name = randCase(r, hostNames[r.intn(len(hostNames))])
			case x < 8:
				typ = 12
				var ip net.IP
				if len(fileIPs) > 0 && r.coin(50) {
					ip = fileIPs[r.intn(len(fileIPs))]
				} else if r.coin(50) {
					ip = net.ParseIP(v4pool[r.intn(len(v4pool))])
				} else {
					ip = net.ParseIP(strings.Split(v6pool[r.intn(len(v6pool))], "%")[0])
				}
				name = reverseName(r, ip)
				if r.coin(15) {
					// the apex of a private (or neighbouring public) reverse zone, as resolvers ask for delegation checks
					name = randCase(r, []string{"b.e.f.ip6.arpa", "8.e.f.ip6.arpa", "a.e.f.ip6.arpa", "9.e.f.ip6.arpa", "c.e.f.ip6.arpa", "7.e.f.ip6.arpa",
						"e.f.ip6.arpa", "d.f.ip6.arpa", "0.d.f.ip6.arpa", "c.f.ip6.arpa", "10.in-addr.arpa", "16.172.in-addr.arpa", "31.172.in-addr.arpa",
						"32.172.in-addr.arpa", "168.192.in-addr.arpa", "254.169.in-addr.arpa", "127.in-addr.arpa", "0.0.127.in-addr.arpa", "11.in-addr.arpa"}[r.intn(19)])
				}
			default:
				name = string(randLabel(r, 6)) + ".example"
			}
			flags := 0x0100
			if r.coin(15) {
				flags = 0
			}
			ms := msgSpec{id: r.intn(65536), flags: flags, qs: [][]byte{question(encodeName(name), typ, 1)}}
			payload := ms.encode()
			q, qerr := query.New(append([]byte{}, payload...), net.IP{127, 0, 0, 9}, net.IP{127, 0, 0, 1})
			if qerr != nil {
				continue
			}
			// discovery script: maybe knows this name / address
			ds := scriptedHosts{hosts: map[string][]string{}, addrs: map[string][]string{}}
			dtok := "-"
			if useDisc && r.coin(60) {
				if typ == 12 {
					if ip := proxy.VerifPtrIP(strings.ToLower(q.Name)); ip != nil {
						_ = ip
					}
					// the harness does not know the address the code derives: script by the lower-cased canonical
					// form of well-formed names only (generator-side knowledge: derive from `name` labels is overkill);
					// instead answer any address with one fixed name
					dtok = "A:" + sx("disc-host.lan.")
				} else {
					ds.hosts[strings.ToLower(q.Name)] = []string{"10.77.0.1", "fd77::1"}
					dtok = "H:" + sx(strings.ToLower(q.Name)) + ":" + sx("10.77.0.1") + "," + sx("fd77::1")
				}
			}
			var discRes proxy.HostResolver
			if useDisc {
				if strings.HasPrefix(dtok, "A:") {
					discRes = anyAddr{"disc-host.lan."}
				} else {
					discRes = ds
				}
			}
			up := &flowUp{}
			upk := r.intn(5)
			upmsg := append([]byte{}, payload...)
			upmsg[2] |= 0x80
			switch upk {
			case 0: // success NOERROR
			case 1: // NXDOMAIN
				upmsg[3] = (upmsg[3] &^ 0xf) | 3
			case 2: // error, no bytes
				upmsg = nil
				up.err = true
			case 3: // empty
				upmsg = nil
			case 4: // error with stale bytes
				up.err = true
			}
			up.msg = upmsg
			p := proxy.Proxy{Upstream: up, BogusPriv: bogus}
			if useLocal {
				p.LocalResolver = discovery.Resolver{hosts}
			}
			if discRes != nil {
				p.DiscoveryResolver = discRes
			}
			buf := make([]byte, 65535)
			ctx, cancel := context.WithTimeout(context.Background(), time.Second)
			n, _, rerr := p.Resolve(ctx, q, buf)
			cancel()
			rcode, answers := -1, "-"
			sum := "-"
			if n > 0 {
				rcode, answers = projectReply(buf[:n])
				s := md5.Sum(buf[:n])
				sum = hex.EncodeToString(s[:])
			}
			ipm := strings.Join(ipmap, ";")
			emit("flow", fmt.Sprintf("%d.%d", i, k), sx(content), ipm, b2s(bogus), b2s(useLocal), b2s(useDisc), dtok,
				hx(payload), hx(upmsg), b2s(up.err), "=>",
				itoa(up.calls), itoa(n), b2s(rerr != nil), itoa(rcode), answers, sum)
		}
	}
	return nil
}

// anyAddr: a discovery source that knows one name for every address
type anyAddr struct{ name string }

func (a anyAddr) LookupHost(n string) []string { return nil }
func (a anyAddr) LookupAddr(addr string) []string {
	if addr == "<nil>" {
		return nil
	}
	return []string{a.name}
}
