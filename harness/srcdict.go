package main

// Dictionary from the source under test: the string, character and integer literals of the files a
// property is anchored in, read from /repo's *current* working tree on every run.  Generators mix
// them into their pools, so a special case keyed on a constant that appears in the code (a header
// line, an escape character, a threshold) is within reach of the generated inputs -- including a
// constant that a later change introduces.
import (
	"go/ast"
	"go/parser"
	"go/token"
	"os"
	"path/filepath"
	"sort"
	"strconv"
	"strings"
	"time"
)

type srcDict struct {
	strs []string
	ints []int
}

func repoRoot() string {
	if r := os.Getenv("NX_REPO"); r != "" {
		return r
	}
	return "/repo"
}

// sourceDict parses the given files (paths relative to the repository root; a directory means every
// non-test .go file in it) and returns their literals, sorted (deterministic for a given tree).
func sourceDict(rel ...string) srcDict {
	ss, is := map[string]bool{}, map[int]bool{}
	var files []string
	for _, p := range rel {
		full := filepath.Join(repoRoot(), p)
		if st, err := os.Stat(full); err == nil && st.IsDir() {
			ents, _ := os.ReadDir(full)
			for _, e := range ents {
				if strings.HasSuffix(e.Name(), ".go") && !strings.HasSuffix(e.Name(), "_test.go") {
					files = append(files, filepath.Join(full, e.Name()))
				}
			}
		} else {
			files = append(files, full)
		}
	}
	fset := token.NewFileSet()
	for _, f := range files {
		af, err := parser.ParseFile(fset, f, nil, 0)
		if err != nil {
			continue
		}
		ast.Inspect(af, func(n ast.Node) bool {
			if _, ok := n.(*ast.ImportSpec); ok {
				return false
			}
			bl, ok := n.(*ast.BasicLit)
			if !ok {
				return true
			}
			switch bl.Kind {
			case token.STRING:
				if s, err := strconv.Unquote(bl.Value); err == nil && len(s) > 0 && len(s) < 200 {
					ss[s] = true
				}
			case token.CHAR:
				if s, err := strconv.Unquote(bl.Value); err == nil {
					ss[s] = true
				}
			case token.INT:
				if v, err := strconv.ParseInt(bl.Value, 0, 64); err == nil && v >= 0 && v < 1<<31 {
					is[int(v)] = true
				}
			}
			return true
		})
	}
	var d srcDict
	for s := range ss {
		d.strs = append(d.strs, s)
	}
	for i := range is {
		d.ints = append(d.ints, i)
	}
	sort.Strings(d.strs)
	sort.Ints(d.ints)
	return d
}

// lines: every line of every string literal (for line-oriented file generators)
func (d srcDict) lines() []string {
	seen := map[string]bool{}
	var out []string
	for _, s := range d.strs {
		for _, l := range strings.Split(s, "\n") {
			if !seen[l] && !strings.Contains(l, "%") {
				seen[l] = true
				out = append(out, l)
			}
		}
	}
	return out
}

// sourceDurations: the `<int> * time.<Unit>` expressions of the given files (same path rules as
// sourceDict), as durations.  Engines that hold a resource "for long" size the hold from these, so
// that it outlasts any waiting limit that the code under test contains now.
func sourceDurations(rel ...string) []time.Duration {
	var files []string
	for _, p := range rel {
		full := filepath.Join(repoRoot(), p)
		if st, err := os.Stat(full); err == nil && st.IsDir() {
			ents, _ := os.ReadDir(full)
			for _, e := range ents {
				if strings.HasSuffix(e.Name(), ".go") && !strings.HasSuffix(e.Name(), "_test.go") {
					files = append(files, filepath.Join(full, e.Name()))
				}
			}
		} else {
			files = append(files, full)
		}
	}
	units := map[string]time.Duration{"Millisecond": time.Millisecond, "Second": time.Second, "Minute": time.Minute, "Hour": time.Hour}
	seen := map[time.Duration]bool{}
	var out []time.Duration
	fset := token.NewFileSet()
	for _, f := range files {
		af, err := parser.ParseFile(fset, f, nil, 0)
		if err != nil {
			continue
		}
		ast.Inspect(af, func(n ast.Node) bool {
			be, ok := n.(*ast.BinaryExpr)
			if !ok || be.Op != token.MUL {
				return true
			}
			lit, sel := be.X, be.Y
			if _, ok := lit.(*ast.BasicLit); !ok {
				lit, sel = be.Y, be.X
			}
			bl, ok1 := lit.(*ast.BasicLit)
			se, ok2 := sel.(*ast.SelectorExpr)
			if !ok1 || !ok2 || bl.Kind != token.INT {
				return true
			}
			if x, ok := se.X.(*ast.Ident); !ok || x.Name != "time" {
				return true
			}
			u, ok := units[se.Sel.Name]
			v, err := strconv.ParseInt(bl.Value, 0, 64)
			if ok && err == nil && v > 0 && v < 1<<20 {
				if d := time.Duration(v) * u; !seen[d] {
					seen[d] = true
					out = append(out, d)
				}
			}
			return true
		})
	}
	sort.Slice(out, func(i, j int) bool { return out[i] < out[j] })
	return out
}

// holdLongerThan: a duration exceeding every duration constant of the given files that is at most
// `cap`, and at least `floor`
func holdLongerThan(floor, cap time.Duration, rel ...string) time.Duration {
	h := floor
	for _, d := range sourceDurations(rel...) {
		if d <= cap && d+d/4+500*time.Millisecond > h {
			h = d + d/4 + 500*time.Millisecond
		}
	}
	return h
}
