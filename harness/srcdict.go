package main

// Dictionary from the source under test: the string, character and integer literals of the files a
// property is anchored in, read from /repo's *current* working tree on every run.  Generators mix
// them into their pools, so a special case keyed on a constant that appears in the code (a header
// line, an escape character, a threshold) is within reach of the generated inputs -- including a
// constant that a later change introduces.
import (
	"go/ast"
	"go/parser"
	"go/token"
	"os"
	"path/filepath"
	"sort"
	"strconv"
	"strings"
)

type srcDict struct {
	strs []string
	ints []int
}

func repoRoot() string {
	if r := os.Getenv("NX_REPO"); r != "" {
		return r
	}
	return "/repo"
}

// sourceDict parses the given files (paths relative to the repository root; a directory means every
// non-test .go file in it) and returns their literals, sorted (deterministic for a given tree).
func sourceDict(rel ...string) srcDict {
	ss, is := map[string]bool{}, map[int]bool{}
	var files []string
	for _, p := range rel {
		full := filepath.Join(repoRoot(), p)
		if st, err := os.Stat(full); err == nil && st.IsDir() {
			ents, _ := os.ReadDir(full)
			for _, e := range ents {
				if strings.HasSuffix(e.Name(), ".go") && !strings.HasSuffix(e.Name(), "_test.go") {
					files = append(files, filepath.Join(full, e.Name()))
				}
			}
		} else {
			files = append(files, full)
		}
	}
	fset := token.NewFileSet()
	for _, f := range files {
		af, err := parser.ParseFile(fset, f, nil, 0)
		if err != nil {
			continue
		}
		ast.Inspect(af, func(n ast.Node) bool {
			if _, ok := n.(*ast.ImportSpec); ok {
				return false
			}
			bl, ok := n.(*ast.BasicLit)
			if !ok {
				return true
			}
			switch bl.Kind {
			case token.STRING:
				if s, err := strconv.Unquote(bl.Value); err == nil && len(s) > 0 && len(s) < 200 {
					ss[s] = true
				}
			case token.CHAR:
				if s, err := strconv.Unquote(bl.Value); err == nil {
					ss[s] = true
				}
			case token.INT:
				if v, err := strconv.ParseInt(bl.Value, 0, 64); err == nil && v >= 0 && v < 1<<31 {
					is[int(v)] = true
				}
			}
			return true
		})
	}
	var d srcDict
	for s := range ss {
		d.strs = append(d.strs, s)
	}
	for i := range is {
		d.ints = append(d.ints, i)
	}
	sort.Strings(d.strs)
	sort.Ints(d.ints)
	return d
}

// lines: every line of every string literal (for line-oriented file generators)
func (d srcDict) lines() []string {
	seen := map[string]bool{}
	var out []string
	for _, s := range d.strs {
		for _, l := range strings.Split(s, "\n") {
			if !seen[l] && !strings.Contains(l, "%") {
				seen[l] = true
				out = append(out, l)
			}
		}
	}
	return out
}
