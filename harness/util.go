package main

import (
	"crypto/md5"
	"encoding/hex"
	"fmt"
	"os"
	"strings"
	"sync"
)

// ---- deterministic PRNG (splitmix64): every random choice of a run derives from one seed ----
type rng struct{ s uint64 }

func newRng(seed uint64) *rng { return &rng{s: seed*0x9E3779B97F4A7C15 + 0x1234567} }
func (r *rng) next() uint64 {
	r.s += 0x9E3779B97F4A7C15
	z := r.s
	z = (z ^ (z >> 30)) * 0xBF58476D1CE4E5B9
	z = (z ^ (z >> 27)) * 0x94D049BB133111EB
	return z ^ (z >> 31)
}
func (r *rng) intn(n int) int {
	if n <= 0 {
		return 0
	}
	return int(r.next() % uint64(n))
}
func (r *rng) rng(lo, hi int) int { return lo + r.intn(hi-lo+1) } // inclusive
func (r *rng) coin(pct int) bool  { return r.intn(100) < pct }
func (r *rng) bytes(n int) []byte {
	b := make([]byte, n)
	for i := range b {
		b[i] = byte(r.next())
	}
	return b
}
func (r *rng) fork() *rng { return newRng(r.next()) }

// ---- line protocol: tokens separated by single spaces; byte strings in hex, "-" = empty ----
func hx(b []byte) string {
	if len(b) == 0 {
		return "-"
	}
	return hex.EncodeToString(b)
}

// hxo encodes an *output* byte string: long ones as #len:md5 (the OCaml driver
// applies the same rule to the model's output before comparing).
func hxo(b []byte) string {
	if len(b) > 2048 {
		s := md5.Sum(b)
		return fmt.Sprintf("#%d:%s", len(b), hex.EncodeToString(s[:]))
	}
	return hx(b)
}

func unhx(s string) []byte {
	if s == "-" {
		return nil
	}
	b, err := hex.DecodeString(s)
	if err != nil {
		panic("bad hex: " + s)
	}
	return b
}

// filler: deterministic padding bytes, the driver expands "hexprefix*count:seed" the same way
func filler(count int, seed int) []byte {
	b := make([]byte, count)
	for i := range b {
		b[i] = byte((seed + i*31) & 0xff)
	}
	return b
}
func hxfill(prefix []byte, count, seed int) string {
	p := hx(prefix)
	if count == 0 {
		return p
	}
	return fmt.Sprintf("%s*%d:%d", p, count, seed)
}

// str token: strings are hex-encoded too (arbitrary bytes allowed)
func sx(s string) string { return hx([]byte(s)) }

var outMu sync.Mutex

func emit(parts ...string) {
	outMu.Lock()
	fmt.Fprintln(os.Stdout, strings.Join(parts, " "))
	outMu.Unlock()
}

func note(format string, a ...interface{}) {
	fmt.Fprintf(os.Stderr, "nxh: "+format+"\n", a...)
}

func b2s(b bool) string {
	if b {
		return "1"
	}
	return "0"
}

func itoa(i int) string { return fmt.Sprintf("%d", i) }

func parseFill(tok string) (pre []byte, cnt, seed int) {
	i := strings.IndexByte(tok, '*')
	if i < 0 {
		return unhx(tok), 0, 0
	}
	pre = unhx(tok[:i])
	fmt.Sscanf(tok[i+1:], "%d:%d", &cnt, &seed)
	return
}
