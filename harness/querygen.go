package main

import (
	"os"
	"strings"
)

// Generators for client query byte strings (engines query, reply).

// names the machine's own hosts file answers (the reply worlds wire the hosts table in front of the upstream, as
// run.go does): a generated query name must not be one of them, the models of these engines know no hosts file
var machineHosts = func() map[string]bool {
	m := map[string]bool{}
	b, err := os.ReadFile("/etc/hosts")
	if err != nil {
		return m
	}
	for _, line := range strings.Split(string(b), "\n") {
		if k := strings.IndexByte(line, '#'); k >= 0 {
			line = line[:k]
		}
		f := strings.Fields(line)
		for i := 1; i < len(f); i++ {
			m[strings.ToLower(strings.TrimSuffix(f[i], "."))] = true
		}
	}
	return m
}()

func labelsInHosts(labels [][]byte) bool {
	if len(machineHosts) == 0 {
		return false
	}
	var parts []string
	for _, l := range labels {
		parts = append(parts, strings.ToLower(string(l)))
	}
	return machineHosts[strings.Join(parts, ".")]
}

func genQuery(r *rng, uniq string) (q []byte, adv int) {
	labels := randLabels(r, uniq)
	for labelsInHosts(labels) {
		labels = randLabels(r, uniq)
	}
	if r.coin(3) && uniq == "" {
		labels = nil // root
	}
	if r.coin(4) {
		// a name of (nearly) the maximum legal length: 255 wire octets = 63+63+63+61 label bytes + 4 length bytes + root
		var ls [][]byte
		if uniq != "" {
			ls = append(ls, []byte(uniq))
		}
		total := 0
		for _, l := range ls {
			total += 1 + len(l)
		}
		budget := 254 - r.intn(3) - total // 254, 253 or 252 octets before the root byte
		for budget > 1 {
			n := budget - 1
			if n > 63 {
				n = 63
			}
			lab := make([]byte, n)
			for i := range lab {
				lab[i] = labelAlphabet[r.intn(len(labelAlphabet))]
			}
			ls = append(ls, lab)
			budget -= 1 + n
		}
		labels = ls
	}
	name := encodeLabels(labels)
	typ := pick(r, commonTypes)
	if r.coin(50) {
		typ = pick(r, []int{1, 28, 12, 16})
	} else if r.coin(30) {
		typ = r.intn(65536) // any of the 65536 types, assigned or not, mostly never seen before in this run
	}
	class := pick(r, commonClasses)
	flags := []int{0x0100, 0x0000, 0x0120, 0x0110, 0x8180, 0x0300, 0x7900}[r.intn(7)]
	if r.coin(60) {
		flags = 0x0100
	}
	ms := msgSpec{id: r.intn(65536), flags: flags, qs: [][]byte{question(name, typ, class)}}
	if r.coin(4) {
		// extra questions
		for i := r.intn(3); i > 0; i-- {
			ms.qs = append(ms.qs, question(encodeLabels(randLabels(r, "")), pick(r, commonTypes), 1))
		}
	}
	if r.coin(8) {
		for i := r.intn(3); i > 0; i-- {
			ms.an = append(ms.an, randRR(r, -1))
		}
	}
	if r.coin(8) {
		for i := r.intn(3); i > 0; i-- {
			ms.ns = append(ms.ns, randRR(r, -1))
		}
	}
	adv = -1
	// additional section: non-OPT records before/after, OPT anywhere
	nbefore, nafter := 0, 0
	if r.coin(15) {
		nbefore = r.rng(1, 3)
	}
	if r.coin(10) {
		nafter = r.rng(1, 2)
	}
	for i := 0; i < nbefore; i++ {
		ms.ar = append(ms.ar, randRR(r, -1))
	}
	if r.coin(70) || ecsHeavy {
		sizes := []int{0, 1, 511, 512, 513, 1232, 1232, 1232, 4096, 4094, 4095, 8000, 65507, 65535, 40000}
		adv = sizes[r.intn(len(sizes))]
		if r.coin(30) {
			adv = r.intn(65536)
		}
		o := optRR(adv, uint32(r.intn(2))<<15, randOpts(r))
		if r.coin(3) {
			o.name = encodeLabels(randLabels(r, "")) // OPT with non-root owner
		}
		ms.ar = append(ms.ar, o)
		if r.coin(3) {
			ms.ar = append(ms.ar, optRR(r.intn(65536), 0, randOpts(r))) // second OPT (ignored by the code)
		}
	}
	for i := 0; i < nafter; i++ {
		ms.ar = append(ms.ar, randRR(r, -1))
	}
	return ms.encode(), adv
}

// mutate damages a byte string: truncate, flip, splice, inflate counts, pointer games
func mutate(r *rng, b []byte) []byte {
	b = append([]byte{}, b...)
	for k := r.rng(1, 3); k > 0; k-- {
		if len(b) == 0 {
			return b
		}
		switch r.intn(9) {
		case 0: // truncate
			b = b[:r.intn(len(b)+1)]
		case 1: // flip a byte
			b[r.intn(len(b))] ^= byte(1 << r.intn(8))
		case 2: // random byte
			b[r.intn(len(b))] = byte(r.next())
		case 3: // inflate a count
			if len(b) >= 12 {
				i := 4 + 2*r.intn(4)
				v := []int{0, 1, 2, 3, 255, 256, 65535}[r.intn(7)]
				b[i], b[i+1] = byte(v>>8), byte(v)
			}
		case 4: // insert a compression pointer somewhere
			i := r.intn(len(b))
			tgt := []int{0, 12, i, i + 1, len(b) - 1, len(b), r.intn(len(b) + 4), 0x3fff}[r.intn(8)]
			p := []byte{0xc0 | byte(tgt>>8&0x3f), byte(tgt)}
			b = append(b[:i], append(p, b[i:]...)...)
		case 5: // splice random bytes
			i := r.intn(len(b) + 1)
			b = append(b[:i], append(r.bytes(r.rng(1, 12)), b[i:]...)...)
		case 6: // delete a range
			i := r.intn(len(b))
			j := i + r.intn(len(b)-i)
			b = append(b[:i], b[j:]...)
		case 7: // set a byte to a length-ish / reserved-prefix value
			b[r.intn(len(b))] = []byte{0x40, 0x80, 0xc0, 0xff, 63, 64, 0}[r.intn(7)]
		case 8: // append junk
			b = append(b, r.bytes(r.rng(1, 40))...)
		}
	}
	return b
}

// pointerChain: question name made of a chain of k compression pointers ending in a label (or a loop)
func pointerChain(r *rng, k int, loop bool) []byte {
	// header(12) then k pointers each pointing at the next 2 bytes... laid out after the question
	ms := msgSpec{id: r.intn(65536), flags: 0x0100}
	// question name = pointer to offset 18 ; type/class at 14..17
	b := ms.encode()
	b[4], b[5] = 0, 1
	b = append(b, 0xc0, 18, 0, 1, 0, 1) // offsets 12..17
	off := 18
	for i := 0; i < k; i++ {
		nxt := off + 2
		if loop && i == k-1 {
			nxt = 18
		}
		b = append(b, 0xc0|byte(nxt>>8), byte(nxt))
		off += 2
	}
	if !loop {
		b = append(b, 3, 'e', 'n', 'd', 0)
	}
	return b
}

// bigJunk: large structurally plausible message (many records) up to 64KiB
func bigJunk(r *rng) []byte {
	ms := msgSpec{id: r.intn(65536), flags: 0x0100, qs: [][]byte{question(encodeLabels(randLabels(r, "big")), 1, 1)}}
	n := r.rng(100, 2500)
	for i := 0; i < n; i++ {
		rec := randRR(r, -1)
		switch r.intn(3) {
		case 0:
			ms.an = append(ms.an, rec)
		case 1:
			ms.ns = append(ms.ns, rec)
		default:
			ms.ar = append(ms.ar, rec)
		}
	}
	if r.coin(60) {
		ms.ar = append(ms.ar, optRR(1232, 0, randOpts(r)))
	}
	b := ms.encode()
	if len(b) > 65535 {
		b = b[:65535]
	}
	return b
}

type qcase struct {
	q    []byte
	adv  int // -2 when the bytes were damaged (no intended advertised size)
	kind string
}

func genQueryCase(r *rng, uniq string) qcase {
	switch x := r.intn(100); {
	case x < 55:
		q, adv := genQuery(r, uniq)
		return qcase{q, adv, "wf"}
	case x < 85:
		q, _ := genQuery(r, uniq)
		return qcase{mutate(r, q), -2, "mut"}
	case x < 90:
		return qcase{pointerChain(r, r.rng(1, 14), r.coin(30)), -2, "ptr"}
	case x < 93:
		return qcase{r.bytes(r.rng(0, 40)), -2, "rand"}
	case x < 95:
		return qcase{bigJunk(r), -2, "big"}
	default:
		// F1 family: valid query + non-OPT additional(s), possibly damaged rdlength
		q, _ := genQuery(r, uniq)
		ms := msgSpec{id: r.intn(65536), flags: 0x0100, qs: [][]byte{question(encodeLabels(randLabels(r, uniq)), 1, 1)}}
		ms.ar = []rr{randRR(r, 1)}
		if r.coin(50) {
			ms.ar = append(ms.ar, optRR(1232, 0, randOpts(r)))
		}
		b := ms.encode()
		if r.coin(30) {
			b = b[:len(b)-r.rng(1, 3)]
		}
		_ = q
		return qcase{b, -2, "nonopt"}
	}
}
