package main

// Engine "ttl" (C07): updateTTL / cacheValue.AdjustedResponse on generated and
// damaged response messages.

import (
	"fmt"
	"time"

	"github.com/nextdns/nextdns/resolver"
)

func init() { register("ttl", ttlEngine) }

func genResponseMsg(r *rng) []byte {
	name := encodeLabels(randLabels(r, ""))
	ms := msgSpec{id: r.intn(65536), flags: 0x8180}
	nq := 1
	if r.coin(10) {
		nq = r.intn(3)
	}
	for i := 0; i < nq; i++ {
		ms.qs = append(ms.qs, question(name, pick(r, []int{1, 28, 16, 5}), 1))
	}
	mk := func(n int) []rr {
		var l []rr
		for i := 0; i < n; i++ {
			rec := randRR(r, -1)
			if r.coin(8) {
				rec = optRR(1232, uint32(r.next()), randOpts(r)) // OPT anywhere
			}
			l = append(l, rec)
		}
		return l
	}
	ms.an = mk(r.intn(5))
	ms.ns = mk(r.intn(3))
	ms.ar = mk(r.intn(3))
	if r.coin(50) {
		ms.ar = append(ms.ar, optRR(1232, uint32(r.intn(1<<16))<<16, nil))
	}
	return ms.encode()
}

func ttlEngine(args []string) error {
	c := parseCommon("ttl", args)
	r := newRng(c.seed)
	ages := []uint32{0, 1, 2, 29, 30, 59, 60, 61, 299, 300, 3600, 86400, 0x7fffffff, 0x80000000, 0xffffffff}
	for i := 0; i < c.n; i++ {
		msg := genResponseMsg(r)
		kind := "wf"
		if r.coin(25) {
			msg = mutate(r, msg)
			kind = "mut"
		} else if r.coin(5) {
			// count overflow games: answers+authorities wraps
			if len(msg) >= 12 {
				msg[6], msg[7] = 0xff, 0xff
				msg[8], msg[9] = 0, byte(r.intn(3))
				kind = "wrap"
			}
		}
		for k := 0; k < 3; k++ {
			age := ages[r.intn(len(ages))]
			if r.coin(50) {
				age = uint32(r.intn(5000))
			}
			maxAge := []uint32{0, 0, 1, 60, 300, 3600, 0xffffffff}[r.intn(7)]
			maxTTL := []uint32{0, 0, 1, 5, 60, 300, 0x7fffffff}[r.intn(7)]
			if r.coin(50) {
				buf := append([]byte{}, msg...)
				min := resolver.VerifUpdateTTL(buf, age, maxAge, maxTTL)
				emit("ttl", fmt.Sprintf("%s%d.%d", kind, i, k), "upd", hx(msg), fmt.Sprint(age), fmt.Sprint(maxAge), fmt.Sprint(maxTTL), "0", "=>", hxo(buf), fmt.Sprint(min))
			} else {
				id := r.intn(65536)
				if age > 1<<31 {
					age = uint32(r.intn(100000))
				}
				jitter := time.Duration(r.intn(1000000000))
				buf := make([]byte, 65535)
				n, min := resolver.VerifAdjustedResponse(msg, buf, uint16(id), maxAge, maxTTL, time.Duration(age)*time.Second+jitter)
				emit("ttl", fmt.Sprintf("%s%d.%d", kind, i, k), "adj", hx(msg), fmt.Sprint(age), fmt.Sprint(maxAge), fmt.Sprint(maxTTL), fmt.Sprint(id), "=>", hxo(buf[:n]), fmt.Sprint(min))
			}
		}
	}
	return nil
}
