package main

// Engine "discovery" (C18): appendUniq, lease-file readers, hosts-file reader,
// merlin client list, through add-only overlay exports of the unexported functions.

import (
	"fmt"
	"os"
	"path/filepath"
	"sort"
	"strings"

	"github.com/nextdns/nextdns/discovery"
)

func init() { register("discovery", discoveryEngine) }

func sxl(l []string) string {
	if len(l) == 0 {
		return "-"
	}
	var p []string
	for _, s := range l {
		p = append(p, sx(s))
	}
	return strings.Join(p, ",")
}

var leaseNames = []string{"laptop", "Phone", "PRINTER", "nas", "tv-1", "iPad", "*", "printer", "a.b", "zeta", "Alpha", "mid"}
var leaseIPs = []string{"192.168.1.10", "192.168.1.11", "192.168.1.12", "192.168.1.13", "10.0.0.5", "fd00::10", "FD00::11", "192.168.1.9", "192.168.1.100"}
var leaseMACs = []string{"00:11:22:33:44:55", "AA:BB:CC:DD:EE:FF", "aa:bb:cc:dd:ee:01", "02:00:00:00:00:01", "02:00:00:00:00:02"}

func genDnsmasq(r *rng) string {
	var sb strings.Builder
	n := r.rng(0, 10)
	for i := 0; i < n; i++ {
		if r.coin(8) {
			sb.WriteString("garbage line\n")
			continue
		}
		name := randCase(r, leaseNames[r.intn(len(leaseNames))])
		if r.coin(10) {
			name += "."
		}
		fmt.Fprintf(&sb, "%d %s %s %s %s\n", 1600000000+r.intn(100000), randCase(r, leaseMACs[r.intn(len(leaseMACs))]),
			leaseIPs[r.intn(len(leaseIPs))], name, []string{"*", "01:00:11:22:33:44:55"}[r.intn(2)])
	}
	return sb.String()
}

func genDhcpd(r *rng) string {
	var sb strings.Builder
	n := r.rng(0, 8)
	for i := 0; i < n; i++ {
		fmt.Fprintf(&sb, "lease %s {\n", leaseIPs[r.intn(len(leaseIPs))])
		fmt.Fprintf(&sb, "  starts 4 2020/01/01 00:00:00;\n")
		if !r.coin(15) {
			fmt.Fprintf(&sb, "  hardware ethernet %s;\n", randCase(r, leaseMACs[r.intn(len(leaseMACs))]))
		}
		if !r.coin(20) {
			fmt.Fprintf(&sb, "  client-hostname \"%s\";\n", randCase(r, leaseNames[r.intn(len(leaseNames))]))
		}
		sb.WriteString("}\n")
	}
	return sb.String()
}

func discoveryEngine(args []string) error {
	c := parseCommon("discovery", args)
	r := newRng(c.seed)
	dir, err := os.MkdirTemp("", "nxdisc")
	if err != nil {
		return err
	}
	defer os.RemoveAll(dir)
	words := []string{"a", "b", "c", "d", "e", "aa", "ab", "B", "Z", "m", "10.0.0.1", "10.0.0.2", "10.0.0.10", "host.", "Host.", "zz"}
	for i := 0; i < c.n; i++ {
		switch i % 5 {
		case 0: // appendUniq: insertion sequences from the empty set
			k := r.rng(1, 8)
			var set []string
			var adds []string
			for j := 0; j < k; j++ {
				w := words[r.intn(len(words))]
				adds = append(adds, w)
				set = discovery.VerifAppendUniq(set, w)
			}
			emit("uniq", itoa(i), sxl(adds), "=>", sxl(set))
		case 1, 2: // lease files
			format, content := "dnsmasq", ""
			if i%5 == 2 {
				format = "isc-dhcpd"
				content = genDhcpd(r)
			} else {
				content = genDnsmasq(r)
			}
			macs, addrs, names, err := discovery.VerifReadLease(format, []byte(content))
			if err != nil {
				continue
			}
			for k := 0; k < 6; k++ {
				var kind, key string
				var res []string
				switch r.intn(3) {
				case 0:
					kind = "host"
					key = randCase(r, leaseNames[r.intn(len(leaseNames))])
					if r.coin(30) {
						key += ".local"
					}
					if r.coin(30) {
						key += "."
					}
					res = names[discovery.VerifPrepareHostLookup(strings.ToLower(key))]
				case 1:
					kind = "addr"
					key = leaseIPs[r.intn(len(leaseIPs))]
					res = addrs[strings.ToLower(key)]
				case 2:
					kind = "mac"
					key = randCase(r, leaseMACs[r.intn(len(leaseMACs))])
					res = macs[strings.ToLower(key)]
				}
				emit("lease", fmt.Sprintf("%d.%d", i, k), format, sx(content), kind, sx(key), "=>", sxl(res))
			}
		case 3: // hosts file through readHostsFile
			content := genHostsFile(r)
			p := filepath.Join(dir, "hosts")
			if err := os.WriteFile(p, []byte(content), 0644); err != nil {
				return err
			}
			names, addrs, err := discovery.VerifReadHostsFile(p)
			if err != nil {
				continue
			}
			var ipmap []string
			seen := map[string]bool{}
			for _, line := range strings.Split(content, "\n") {
				if k := strings.IndexByte(line, '#'); k >= 0 {
					line = line[:k]
				}
				f := strings.Fields(line)
				if len(f) == 0 || seen[f[0]] {
					continue
				}
				seen[f[0]] = true
				canon, _ := literalIP(f[0])
				ipmap = append(ipmap, sx(f[0])+":"+sx(canon))
			}
			for k := 0; k < 5; k++ {
				if r.coin(50) {
					key := randCase(r, hostNames[r.intn(len(hostNames))])
					res := names[discovery.VerifPrepareHostLookup(strings.ToLower(key))]
					emit("hosts", fmt.Sprintf("%d.%d", i, k), sx(content), strings.Join(ipmap, ";"), "host", sx(key), "=>", sxl(res))
				} else {
					var keys []string
					for a := range addrs {
						keys = append(keys, a)
					}
					sort.Strings(keys)
					key := "10.9.9.9"
					if len(keys) > 0 {
						key = keys[r.intn(len(keys))]
					}
					emit("hosts", fmt.Sprintf("%d.%d", i, k), sx(content), strings.Join(ipmap, ";"), "addr", sx(key), "=>", sxl(addrs[strings.ToLower(key)]))
				}
			}
		case 4: // merlin client list
			var sb strings.Builder
			k := r.rng(0, 5)
			for j := 0; j < k; j++ {
				name := randCase(r, leaseNames[r.intn(len(leaseNames))])
				if r.coin(10) {
					name = ""
				}
				mac := randCase(r, leaseMACs[r.intn(len(leaseMACs))])
				fmt.Fprintf(&sb, "<%s>%s>0>0>>", name, mac)
				if r.coin(10) {
					sb.WriteString("\n")
				}
			}
			b := []byte(sb.String())
			if r.coin(25) && len(b) > 0 {
				b = mutate(r, b)
				for j := range b {
					if b[j] >= 0x80 { // bytes.ToLower is Unicode-aware; the model covers ASCII (documented)
						b[j] = 'x'
					}
				}
			}
			macs, err := discovery.VerifReadClientList(append([]byte{}, b...))
			if err != nil {
				emit("clist", itoa(i), hx(b), "=>", "err")
				continue
			}
			var keys []string
			for m := range macs {
				keys = append(keys, m)
			}
			sort.Strings(keys)
			var parts []string
			for _, m := range keys {
				parts = append(parts, sx(m)+"="+sxl(macs[m]))
			}
			out := strings.Join(parts, ";")
			if out == "" {
				out = "empty"
			}
			emit("clist", itoa(i), hx(b), "=>", out)
		}
	}
	return nil
}
