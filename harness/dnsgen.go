package main

// DNS wire-format generators used by several engines. Everything random comes
// from the *rng passed in.

type rr struct {
	name  []byte // encoded name (labels or pointer), already wire format
	typ   int
	class int
	ttl   uint32
	rdata []byte
}

type opt struct {
	code int
	data []byte
}

func u16b(n int) []byte  { return []byte{byte(n >> 8), byte(n)} }
func u32b(n uint32) []byte { return []byte{byte(n >> 24), byte(n >> 16), byte(n >> 8), byte(n)} }

// encodeName encodes dotted name "a.b." (or "." / "") to wire format.
func encodeLabels(labels [][]byte) []byte {
	var b []byte
	for _, l := range labels {
		b = append(b, byte(len(l)))
		b = append(b, l...)
	}
	return append(b, 0)
}

func splitName(s string) [][]byte {
	var out [][]byte
	cur := []byte{}
	for i := 0; i < len(s); i++ {
		if s[i] == '.' {
			if len(cur) > 0 {
				out = append(out, cur)
			}
			cur = []byte{}
		} else if s[i] == '|' {
			cur = append(cur, '.') // a dot inside a label
		} else {
			cur = append(cur, s[i])
		}
	}
	if len(cur) > 0 {
		out = append(out, cur)
	}
	return out
}

func encodeName(s string) []byte { return encodeLabels(splitName(s)) }

func encodeRR(r rr) []byte {
	b := append([]byte{}, r.name...)
	b = append(b, u16b(r.typ)...)
	b = append(b, u16b(r.class)...)
	b = append(b, u32b(r.ttl)...)
	b = append(b, u16b(len(r.rdata))...)
	return append(b, r.rdata...)
}

func encodeOpts(opts []opt) []byte {
	var b []byte
	for _, o := range opts {
		b = append(b, u16b(o.code)...)
		b = append(b, u16b(len(o.data))...)
		b = append(b, o.data...)
	}
	return b
}

func optRR(udpSize int, ttl uint32, opts []opt) rr {
	return rr{name: []byte{0}, typ: 41, class: udpSize, ttl: ttl, rdata: encodeOpts(opts)}
}

type msgSpec struct {
	id     int
	flags  int
	qs     [][]byte // encoded questions (name+type+class)
	an, ns []rr
	ar     []rr
}

func question(name []byte, typ, class int) []byte {
	b := append([]byte{}, name...)
	b = append(b, u16b(typ)...)
	return append(b, u16b(class)...)
}

func (m msgSpec) encode() []byte {
	b := u16b(m.id)
	b = append(b, u16b(m.flags)...)
	b = append(b, u16b(len(m.qs))...)
	b = append(b, u16b(len(m.an))...)
	b = append(b, u16b(len(m.ns))...)
	b = append(b, u16b(len(m.ar))...)
	for _, q := range m.qs {
		b = append(b, q...)
	}
	for _, s := range [][]rr{m.an, m.ns, m.ar} {
		for _, r := range s {
			b = append(b, encodeRR(r)...)
		}
	}
	return b
}

// dottedLabels: engines that build query names on the wire may put a dot inside a label
var dottedLabels bool

var labelAlphabet = []byte("abcdefghijklmnopqrstuvwxyzABCDEFGHIJKLMNOPQRSTUVWXYZ0123456789-_")

func randLabel(r *rng, maxLen int) []byte {
	n := r.rng(1, maxLen)
	b := make([]byte, n)
	for i := range b {
		b[i] = labelAlphabet[r.intn(len(labelAlphabet))]
	}
	if dottedLabels && n >= 3 && r.coin(4) {
		b[r.rng(1, n-2)] = '.' // a dot inside a label
	} else if dottedLabels && r.coin(3) {
		b[[]int{0, n - 1}[r.intn(2)]] = '.' // ... or at its edge: the printed name then has two dots in a row
	}
	return b
}

// randName: 1..4 labels, no dots inside labels; prefix label makes it unique
func randLabels(r *rng, uniq string) [][]byte {
	var ls [][]byte
	if uniq != "" {
		ls = append(ls, []byte(uniq))
	}
	n := r.rng(0, 3)
	for i := 0; i < n; i++ {
		ml := 12
		if r.coin(5) {
			ml = 63
		}
		ls = append(ls, randLabel(r, ml))
	}
	return ls
}

var commonTypes = []int{1, 2, 5, 6, 12, 15, 16, 28, 33, 41, 64, 65, 255, 252, 99, 0, 65535}
var commonClasses = []int{1, 1, 1, 1, 3, 4, 255, 0, 2, 65535}

func pick(r *rng, xs []int) int { return xs[r.intn(len(xs))] }

var ecsHeavy bool

// ECS addresses: random, or one related to the exchange itself (the peer and local addresses the
// engines use, their v4-mapped forms, the unspecified and broadcast addresses)
func ecsAddr4(r *rng) []byte {
	if r.coin(30) {
		return [][]byte{{127, 0, 0, 9}, {127, 0, 0, 1}, {0, 0, 0, 0}, {255, 255, 255, 255}, {10, 0, 0, 1}, {127, 0, 0, 2}}[r.intn(6)]
	}
	return r.bytes(4)
}
func ecsAddr6(r *rng) []byte {
	if r.coin(30) {
		m := func(a, b, c, d byte) []byte { return []byte{0, 0, 0, 0, 0, 0, 0, 0, 0, 0, 0xff, 0xff, a, b, c, d} }
		lo := make([]byte, 16)
		lo[15] = 1
		return [][]byte{lo, m(127, 0, 0, 9), m(127, 0, 0, 1), make([]byte, 16), m(127, 0, 0, 2)}[r.intn(5)]
	}
	return r.bytes(16)
}

func randOpts(r *rng) []opt {
	var opts []opt
	n := r.intn(5)
	if ecsHeavy {
		n = r.rng(1, 6)
	}
	for i := 0; i < n; i++ {
		k := r.intn(9)
		if ecsHeavy && r.coin(50) {
			k = []int{0, 1, 2, 8}[r.intn(4)]
		}
		switch k {
		case 0: // ECS v4/32
			d := []byte{0, 1, 32, 0}
			d = append(d, ecsAddr4(r)...)
			opts = append(opts, opt{8, d})
		case 1: // ECS v6/128
			d := []byte{0, 2, 128, 0}
			d = append(d, ecsAddr6(r)...)
			opts = append(opts, opt{8, d})
		case 2: // ECS other prefix/len
			fam := []byte{1, 2, 0, 3, 1, 2}[r.intn(6)]
			d := []byte{byte(r.intn(2)), fam, byte(r.intn(130)), byte(r.intn(3))}
			d = append(d, r.bytes(r.intn(24))...)
			opts = append(opts, opt{8, d})
		case 3: // MAC
			opts = append(opts, opt{0xfde9, r.bytes([]int{6, 6, 6, 0, 8, 3}[r.intn(6)])})
		case 4: // short ECS
			opts = append(opts, opt{8, r.bytes(r.intn(8))})
		case 8: // ECS claiming a full-length prefix with fewer address bytes than that (or more)
			if r.coin(50) {
				d := []byte{0, 1, 32, byte(r.intn(2) * 32)}
				opts = append(opts, opt{8, append(d, r.bytes([]int{0, 1, 2, 3, 3, 5, 7}[r.intn(7)])...)})
			} else {
				d := []byte{0, 2, 128, byte(r.intn(2) * 128)}
				opts = append(opts, opt{8, append(d, r.bytes([]int{0, 3, 4, 8, 15, 15, 17}[r.intn(7)])...)})
			}
		default:
			opts = append(opts, opt{[]int{10, 12, 15, 3, 65001, 0xffff, 0}[r.intn(7)], r.bytes(r.intn(20))})
		}
	}
	return opts
}

func randRR(r *rng, typ int) rr {
	var name []byte
	switch r.intn(4) {
	case 0:
		name = []byte{0xc0, 12}
	case 1:
		name = []byte{0}
	default:
		name = encodeLabels(randLabels(r, ""))
	}
	if typ < 0 {
		typ = pick(r, []int{1, 28, 5, 2, 16, 6, 15, 33, 12, 99})
	}
	var rd []byte
	switch typ {
	case 1:
		rd = r.bytes(4)
	case 28:
		rd = r.bytes(16)
	default:
		rd = r.bytes(r.intn(30))
	}
	ttls := []uint32{0, 1, 2, 30, 60, 300, 3600, 86400, 0x7fffffff, 0x80000000, 0xffffffff}
	ttl := ttls[r.intn(len(ttls))]
	if r.coin(50) {
		ttl = uint32(r.intn(100000))
	}
	return rr{name: name, typ: typ, class: pick(r, []int{1, 1, 1, 3, 255}), ttl: ttl, rdata: rd}
}
