//go:build verif

package proxy

import "net"

// White-box exports for the verification harness (add-only, build tag verif).
func VerifPtrIP(ptr string) net.IP             { return ptrIP(ptr) }
func VerifIsPrivateReverse(qname string) bool  { return isPrivateReverse(qname) }
