//go:build verif

package main

// Probe command "svc" for the verification harness (add-only, build tag verif): a life
// cycle of the daemon's own service object (proxySvc of run.go) on one listen address.
//   svc <addr> <op,op,...>     O occupy the address (UDP and TCP) / F free it / S Start / T Stop / R Restart
// answers one token per S, T, R: <ok|err|hang>/<1|0>  (reported result / the service holds the address afterwards)

import (
	"net"
	"strings"
	"time"

	"github.com/nextdns/nextdns/host"
	"github.com/nextdns/nextdns/proxy"
)

func verifSvc(addr string, ops string) string {
	p := &proxySvc{log: host.NewConsoleLogger("verif")}
	p.Proxy = proxy.Proxy{Addrs: []string{addr}, MaxInflightRequests: 8}
	var holdU net.PacketConn
	var holdT net.Listener
	occupied := false
	held := func() string {
		if occupied {
			return "0"
		}
		// the service holds the address iff nobody else can bind it
		for i := 0; i < 40; i++ {
			u, err := net.ListenPacket("udp", addr)
			if err != nil {
				return "1"
			}
			u.Close()
			l, err := net.Listen("tcp", addr)
			if err != nil {
				return "1"
			}
			l.Close()
			time.Sleep(5 * time.Millisecond) // a listener that is still being opened
		}
		return "0"
	}
	call := func(f func() error) string {
		done := make(chan error, 1)
		go func() { done <- f() }()
		select {
		case err := <-done:
			if err != nil {
				return "err"
			}
			return "ok"
		case <-time.After(20 * time.Second):
			return "hang"
		}
	}
	var outs []string
	for _, o := range strings.Split(ops, ",") {
		switch o {
		case "O":
			holdU, _ = net.ListenPacket("udp", addr)
			holdT, _ = net.Listen("tcp", addr)
			occupied = holdU != nil || holdT != nil
		case "F":
			if holdU != nil {
				holdU.Close()
			}
			if holdT != nil {
				holdT.Close()
			}
			holdU, holdT, occupied = nil, nil, false
		case "S":
			outs = append(outs, call(p.Start)+"/"+held())
		case "R":
			outs = append(outs, call(p.Restart)+"/"+held())
		case "T":
			outs = append(outs, call(p.Stop)+"/"+held())
		}
	}
	return strings.Join(outs, " ")
}
