//go:build verif

package discovery

import (
	"bytes"
)

// White-box exports for the verification harness (add-only, build tag verif).
func VerifAppendUniq(set []string, add string) []string { return appendUniq(set, add) }

func VerifReadLease(format string, content []byte) (macs, addrs, names map[string][]string, err error) {
	if format == "dnsmasq" {
		return readDNSMasqLease(bytes.NewReader(content))
	}
	return readDHCPDLease(bytes.NewReader(content))
}

func VerifReadHostsFile(path string) (names, addrs map[string][]string, err error) { return readHostsFile(path) }
func VerifReadClientList(b []byte) (map[string][]string, error)                   { return readClientList(b) }
func VerifPrepareHostLookup(h string) string                                      { return prepareHostLookup(h) }
