//go:build verif

package discovery

import "time"

// VerifExpire makes the next lookup refresh its table (takes the write lock, so it
// is itself race free).
func (r *Hosts) VerifExpire() { r.mu.Lock(); r.expires = time.Time{}; r.fileInfo = fileInfo{}; r.mu.Unlock() }
func (r *DHCP) VerifExpire()  { r.mu.Lock(); r.expires = time.Time{}; r.fileInfo = fileInfo{}; r.mu.Unlock() }

// VerifAdvance lets d of waiting pass for the refresh logic: the time of the next check moves d
// closer (the tables and the remembered file state stay as they are).
func (r *Hosts) VerifAdvance(d time.Duration) { r.mu.Lock(); r.expires = r.expires.Add(-d); r.mu.Unlock() }
func (r *DHCP) VerifAdvance(d time.Duration)  { r.mu.Lock(); r.expires = r.expires.Add(-d); r.mu.Unlock() }
