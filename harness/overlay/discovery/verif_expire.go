//go:build verif

package discovery

import "time"

// VerifExpire makes the next lookup refresh its table (takes the write lock, so it
// is itself race free).
func (r *Hosts) VerifExpire() { r.mu.Lock(); r.expires = time.Time{}; r.fileInfo = fileInfo{}; r.mu.Unlock() }
func (r *DHCP) VerifExpire()  { r.mu.Lock(); r.expires = time.Time{}; r.fileInfo = fileInfo{}; r.mu.Unlock() }
