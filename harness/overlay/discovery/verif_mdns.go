//go:build verif

package discovery

import (
	"context"
	"net"
)

// VerifRead runs the unexported packet reader on conn (blocks until conn is closed).
func (r *MDNS) VerifRead(ctx context.Context, conn *net.UDPConn) { r.read(ctx, conn) }

const VerifMdnsMaxEntries = mdnsMaxEntries

// VerifDump returns both views (copied under the lock).
func (r *MDNS) VerifDump() (names, addrs map[string][]string) {
	r.mu.RLock()
	defer r.mu.RUnlock()
	names, addrs = map[string][]string{}, map[string][]string{}
	for k, v := range r.names {
		names[k] = append([]string{}, v.values...)
	}
	for k, v := range r.addrs {
		addrs[k] = append([]string{}, v.values...)
	}
	return
}
