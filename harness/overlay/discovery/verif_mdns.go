//go:build verif

package discovery

import (
	"context"
	"net"
	"time"
)

// VerifRead runs the unexported packet reader on conn (blocks until conn is closed).
func (r *MDNS) VerifRead(ctx context.Context, conn *net.UDPConn) { r.read(ctx, conn) }

const VerifMdnsMaxEntries = mdnsMaxEntries

// VerifDump returns both views (copied under the lock).
func (r *MDNS) VerifDump() (names, addrs map[string][]string) {
	r.mu.RLock()
	defer r.mu.RUnlock()
	names, addrs = map[string][]string{}, map[string][]string{}
	for k, v := range r.names {
		names[k] = append([]string{}, v.values...)
	}
	for k, v := range r.addrs {
		addrs[k] = append([]string{}, v.values...)
	}
	return
}

// VerifAge lets d of quiet time pass: every entry of both tables was last updated d earlier.
func (r *MDNS) VerifAge(d time.Duration) {
	r.mu.Lock()
	defer r.mu.Unlock()
	for k, v := range r.names {
		v.lastUpdate = v.lastUpdate.Add(-d)
		r.names[k] = v
	}
	for k, v := range r.addrs {
		v.lastUpdate = v.lastUpdate.Add(-d)
		r.addrs[k] = v
	}
}
