//go:build verif

package resolver

import "time"

// White-box exports for the verification harness (add-only, build tag verif).
func VerifUpdateTTL(msg []byte, age, maxAge, maxTTL uint32) uint32 {
	return updateTTL(msg, age, maxAge, maxTTL)
}

// VerifAdjustedResponse builds a cache entry fetched at t0 holding msg and asks for
// the adjusted response at t0+elapsed.
func VerifAdjustedResponse(msg []byte, buf []byte, id uint16, maxAge, maxTTL uint32, elapsed time.Duration) (int, uint32) {
	t0 := time.Now()
	v := cacheValue{time: t0, msg: msg}
	return v.AdjustedResponse(buf, id, maxAge, maxTTL, t0.Add(elapsed))
}

// VerifShiftCacheValue moves the fetch time of a cache entry back by d (the
// harness emulates a clock advance this way).
func VerifShiftCacheValue(v interface{}, d time.Duration) {
	if cv, ok := v.(*cacheValue); ok {
		cv.time = cv.time.Add(-d)
	}
}

// VerifShiftLastMod moves every recorded configuration change back by d.
func (r *DOH) VerifShiftLastMod(d time.Duration) {
	r.mu.Lock()
	for k, t := range r.lastModified {
		r.lastModified[k] = t.Add(-d)
	}
	r.mu.Unlock()
}

// VerifLastMod reads the recorded configuration change of one profile URL.
func (r *DOH) VerifLastMod(url string) time.Time { return r.lastMod(url) }

// VerifKeyString renders a cache key.
func VerifKeyString(k interface{}) string {
	if ck, ok := k.(cacheKey); ok {
		return ck.String()
	}
	return "?"
}
