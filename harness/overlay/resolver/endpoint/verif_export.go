//go:build verif

package endpoint

import (
	"sync/atomic"
	"time"
)

// White-box access for the verification harness (add-only, build tag verif).

// VerifSetNow installs the manager's existing virtual-clock hook.
func (m *Manager) VerifSetNow(f func() time.Time) { m.testNow = f }

type VerifAE struct {
	Obj      interface{} // the *activeEnpoint, opaque
	Endpoint string
	LastTest time.Time
	Interval time.Duration
	Testing  bool
	Errs     uint32
}

// VerifActive reports the active endpoint object if Manager.mu can be read-locked
// right now (an election in progress holds it).
func (m *Manager) VerifActive() (ae VerifAE, present bool, locked bool) {
	if !m.mu.TryRLock() {
		return VerifAE{}, false, true
	}
	a := m.activeEndpoint
	m.mu.RUnlock()
	if a == nil {
		return VerifAE{}, false, false
	}
	return VerifObjState(a), true, false
}

// VerifObjState reads the bookkeeping of one activeEnpoint under its own lock.
func VerifObjState(obj interface{}) VerifAE {
	a := obj.(*activeEnpoint)
	a.mu.RLock()
	defer a.mu.RUnlock()
	s := "<nil>"
	if a.Endpoint != nil {
		s = a.Endpoint.String()
	}
	return VerifAE{Obj: a, Endpoint: s, LastTest: a.lastTest, Interval: a.testInterval, Testing: a.testing,
		Errs: atomic.LoadUint32(&a.consecutiveErrors)}
}
