//go:build verif

package main

// Probe for the verification harness (add-only, build tag verif): when
// NXVERIF_PROBE is set the binary answers line requests on stdin about
// shortID and the ClientInfo closure installed by setupClientReporting, then exits.

import (
	"bufio"
	"encoding/hex"
	"fmt"
	"net"
	"os"
	"strings"

	"github.com/nextdns/nextdns/config"
	"github.com/nextdns/nextdns/discovery"
	"github.com/nextdns/nextdns/resolver"
	"github.com/nextdns/nextdns/resolver/query"
)

type verifSource struct {
	byAddr []string
	byMAC  []string
}

func (s verifSource) Name() string                          { return "verif" }
func (s verifSource) Visit(func(string, []string))          {}
func (s verifSource) LookupAddr(addr string) []string       { return s.byAddr }
func (s verifSource) LookupHost(name string) []string       { return nil }
func (s verifSource) LookupMAC(mac string) []string         { return s.byMAC }

func verifUnhex(s string) []byte {
	if s == "-" {
		return nil
	}
	b, _ := hex.DecodeString(s)
	return b
}
func verifHex(s string) string {
	if s == "" {
		return "-"
	}
	return hex.EncodeToString([]byte(s))
}
func verifList(s string) []string {
	if s == "-" {
		return nil
	}
	var out []string
	for _, t := range strings.Split(s, ",") {
		out = append(out, string(verifUnhex(t)))
	}
	return out
}

func init() {
	if os.Getenv("NXVERIF_PROBE") == "" {
		return
	}
	in := bufio.NewScanner(os.Stdin)
	in.Buffer(make([]byte, 1<<20), 1<<20)
	for in.Scan() {
		f := strings.Fields(in.Text())
		if len(f) == 0 {
			continue
		}
		switch f[0] {
		case "sid":
			fmt.Println(verifHex(shortID(string(verifUnhex(f[1])), verifUnhex(f[2]))))
		case "ci":
			// ci <profile> <peerip text> <machex|-> <names by addr> <names by mac>
			var conf config.Profiles
			if f[1] != "-" {
				_ = conf.Set(string(verifUnhex(f[1])))
			}
			p := &proxySvc{resolver: &resolver.DNS{}}
			setupClientReporting(p, &conf, discovery.Resolver{verifSource{verifList(f[4]), verifList(f[5])}})
			q := query.Query{PeerIP: net.ParseIP(f[2]), LocalIP: net.IP{127, 0, 0, 1}}
			if f[3] != "-" {
				q.MAC = net.HardwareAddr(verifUnhex(f[3]))
			}
			ci := p.resolver.DOH.ClientInfo(q)
			fmt.Println(verifHex(ci.ID), verifHex(ci.IP), verifHex(ci.Model), verifHex(ci.Name))
		}
	}
	os.Exit(0)
}
