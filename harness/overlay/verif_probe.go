//go:build verif

package main

// Probe for the verification harness (add-only, build tag verif): when
// NXVERIF_PROBE is set the binary answers line requests on stdin about
// shortID and the ClientInfo closure installed by setupClientReporting, then exits.

import (
	"bufio"
	"encoding/hex"
	"fmt"
	"net"
	"os"
	"strings"

	"github.com/nextdns/nextdns/config"
	"github.com/nextdns/nextdns/discovery"
	"github.com/nextdns/nextdns/resolver"
	"github.com/nextdns/nextdns/resolver/query"
)

type verifSource struct {
	byAddr []string
	byMAC  []string
}

func (s verifSource) Name() string                    { return "verif" }
func (s verifSource) Visit(func(string, []string))    {}
func (s verifSource) LookupAddr(addr string) []string { return s.byAddr }
func (s verifSource) LookupHost(name string) []string { return nil }
func (s verifSource) LookupMAC(mac string) []string   { return s.byMAC }

// a source whose answers the probe changes between queries of one daemon lifetime
type verifVarSource struct{ cur *verifSource }

func (s verifVarSource) Name() string                    { return "verif" }
func (s verifVarSource) Visit(func(string, []string))    {}
func (s verifVarSource) LookupAddr(addr string) []string { return s.cur.byAddr }
func (s verifVarSource) LookupHost(name string) []string { return nil }
func (s verifVarSource) LookupMAC(mac string) []string   { return s.cur.byMAC }

func verifUnhex(s string) []byte {
	if s == "-" {
		return nil
	}
	b, _ := hex.DecodeString(s)
	return b
}
func verifHex(s string) string {
	if s == "" {
		return "-"
	}
	return hex.EncodeToString([]byte(s))
}
func verifList(s string) []string {
	if s == "-" {
		return nil
	}
	var out []string
	for _, t := range strings.Split(s, ",") {
		out = append(out, string(verifUnhex(t)))
	}
	return out
}

func init() {
	if os.Getenv("NXVERIF_PROBE") == "" {
		return
	}
	in := bufio.NewScanner(os.Stdin)
	in.Buffer(make([]byte, 1<<20), 1<<20)
	for in.Scan() {
		f := strings.Fields(in.Text())
		if len(f) == 0 {
			continue
		}
		switch f[0] {
		case "svc":
			fmt.Println(verifSvc(f[1], f[2]))
		case "sid":
			fmt.Println(verifHex(shortID(string(verifUnhex(f[1])), verifUnhex(f[2]))))
		case "cis", "cisn":
			// cis <profile specs> (<peerip>;<machex|->;<names by addr>;<names by mac>)+   one daemon lifetime, several clients
			var conf config.Profiles
			for _, sp := range verifList(f[1]) {
				_ = conf.Set(sp)
			}
			p := &proxySvc{resolver: &resolver.DNS{}}
			src := verifVarSource{cur: &verifSource{}}
			if f[0] == "cisn" {
				// the daemon listening on the local host only: run.go hands over no discovery source at all
				setupClientReporting(p, &conf, discovery.Resolver{})
			} else {
				setupClientReporting(p, &conf, discovery.Resolver{src})
			}
			var outs []string
			for _, qs := range f[2:] {
				t := strings.Split(qs, ";")
				if len(t) != 4 && len(t) != 5 {
					continue
				}
				src.cur.byAddr, src.cur.byMAC = verifList(t[2]), verifList(t[3])
				q := query.Query{PeerIP: net.ParseIP(t[0]), LocalIP: net.IP{127, 0, 0, 1}}
				if len(t) == 5 {
					q.LocalIP = net.ParseIP(t[4]) // the local address the query arrived at
				}
				if t[1] != "-" {
					q.MAC = net.HardwareAddr(verifUnhex(t[1]))
				}
				ci := p.resolver.DOH.ClientInfo(q)
				// the id a fresh computation gives for the same profile and device
				dev := []byte(q.PeerIP)
				if q.MAC != nil {
					dev = q.MAC
				}
				prof := conf.Get(q.PeerIP, q.LocalIP, q.MAC)
				outs = append(outs, strings.Join([]string{verifHex(ci.ID), verifHex(ci.IP), verifHex(ci.Model), verifHex(ci.Name),
					verifHex(prof), verifHex(shortID(prof, dev))}, "/"))
			}
			fmt.Println(strings.Join(outs, " "))
		case "ci":
			// ci <profile> <peerip text> <machex|-> <names by addr> <names by mac>
			var conf config.Profiles
			if f[1] != "-" {
				_ = conf.Set(string(verifUnhex(f[1])))
			}
			p := &proxySvc{resolver: &resolver.DNS{}}
			setupClientReporting(p, &conf, discovery.Resolver{verifSource{verifList(f[4]), verifList(f[5])}})
			q := query.Query{PeerIP: net.ParseIP(f[2]), LocalIP: net.IP{127, 0, 0, 1}}
			if f[3] != "-" {
				q.MAC = net.HardwareAddr(verifUnhex(f[3]))
			}
			ci := p.resolver.DOH.ClientInfo(q)
			fmt.Println(verifHex(ci.ID), verifHex(ci.IP), verifHex(ci.Model), verifHex(ci.Name))
		}
	}
	os.Exit(0)
}
