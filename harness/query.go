package main

// Engine "query": query.New on byte strings, in a worker sub-process so that a
// spin (watchdog) or a crash of the real parser is observed, not suffered.

import (
	"bufio"
	"fmt"
	"io"
	"net"
	"os"
	"os/exec"
	"strings"
	"time"

	"github.com/nextdns/nextdns/resolver/query"
)

func init() {
	register("query", queryEngine)
	register("query-worker", queryWorker)
}

func queryResult(payload []byte) string {
	peer := net.IP{127, 0, 0, 9}
	q, err := query.New(payload, peer, net.IP{127, 0, 0, 1})
	st := "ok"
	if err != nil {
		st = "err"
	}
	mac := "none"
	if q.MAC != nil {
		mac = hx(q.MAC)
	}
	return strings.Join([]string{st, itoa(int(q.ID)), itoa(int(q.Class)), itoa(int(q.Type)), b2s(q.RecursionDesired),
		itoa(int(q.MsgSize)), sx(q.Name), hx(q.PeerIP), mac, hxo(q.Payload)}, " ")
}

func queryWorker(args []string) error {
	in := bufio.NewReaderSize(os.Stdin, 1<<20)
	for {
		line, err := in.ReadString('\n')
		if err != nil {
			return nil
		}
		line = strings.TrimSpace(line)
		fmt.Fprintln(os.Stdout, queryResult(unhx(line)))
	}
}

type worker struct {
	cmd *exec.Cmd
	in  io.WriteCloser
	out *bufio.Reader
}

func startWorker(sub string) (*worker, error) {
	cmd := exec.Command(os.Args[0], sub)
	in, _ := cmd.StdinPipe()
	out, _ := cmd.StdoutPipe()
	cmd.Stderr = io.Discard
	if err := cmd.Start(); err != nil {
		return nil, err
	}
	return &worker{cmd, in, bufio.NewReaderSize(out, 1<<20)}, nil
}

func (w *worker) kill() {
	_ = w.cmd.Process.Kill()
	_ = w.cmd.Wait()
}

// ask sends one line, waits for one line; "" + status on crash/timeout
func (w *worker) ask(line string, timeout time.Duration) (string, string) {
	if _, err := io.WriteString(w.in, line+"\n"); err != nil {
		return "", "PANIC"
	}
	type res struct {
		s   string
		err error
	}
	ch := make(chan res, 1)
	go func() {
		s, err := w.out.ReadString('\n')
		ch <- res{s, err}
	}()
	select {
	case r := <-ch:
		if r.err != nil {
			return "", "PANIC"
		}
		return strings.TrimSpace(r.s), ""
	case <-time.After(timeout):
		return "", "TIMEOUT"
	}
}

func queryEngine(args []string) error {
	dottedLabels = true
	c := parseCommon("query", args)
	r := newRng(c.seed)
	ecsHeavy = c.mode == "ecs"
	var cases []qcase
	if c.extra != "" {
		cases = []qcase{{unhx(strings.Fields(c.extra)[0]), -2, "replay"}}
	} else {
		// corpus first: F1 witness and friends
		cases = append(cases, qcase{unhx("00010100000100000000000101610000010001000001000100000000000401020304"), -2, "corpus"})
		for i := 0; i < c.n; i++ {
			cases = append(cases, genQueryCase(r, ""))
		}
	}
	w, err := startWorker("query-worker")
	if err != nil {
		return err
	}
	defer func() { w.kill() }()
	abnormal := 0
	for i, qc := range cases {
		if abnormal >= 6 {
			note("query: %d abnormal results (spin/crash): stopping early after %d cases", abnormal, i)
			break
		}
		out, st := w.ask(hx(qc.q), 3*time.Second)
		if st != "" {
			// retry once in isolation before it counts
			w.kill()
			if w, err = startWorker("query-worker"); err != nil {
				return err
			}
			out, st = w.ask(hx(qc.q), 3*time.Second)
			if st != "" {
				w.kill()
				if w, err = startWorker("query-worker"); err != nil {
					return err
				}
				out = st
				abnormal++
			}
		}
		emit("query", fmt.Sprintf("%s%d", qc.kind, i), hx(qc.q), "=>", out)
	}
	return nil
}
