package main

// Engine "mdns" (C18): discovery.MDNS fed with announcement packets through a
// loopback UDP socket handed to its (overlay-exported) reader; the records of one packet
// all belong to one name, so that the order of table updates that matters is the order of packets.

import (
	"context"
	"fmt"
	"net"
	"sort"
	"strings"
	"time"

	"github.com/nextdns/nextdns/discovery"
)

func init() { register("mdns", mdnsEngine) }

func mdnsPacket(name string, ipl []net.IP, extra bool, r *rng) []byte {
	ms := msgSpec{id: 0, flags: 0x8400}
	nm := encodeName(name)
	for _, ip := range ipl {
		if v4 := ip.To4(); v4 != nil {
			ms.an = append(ms.an, rr{name: nm, typ: 1, class: 0x8001, ttl: 120, rdata: v4})
		} else {
			ms.an = append(ms.an, rr{name: nm, typ: 28, class: 0x8001, ttl: 120, rdata: ip.To16()})
		}
	}
	if extra {
		// unrelated records the reader must skip
		ms.an = append([]rr{{name: nm, typ: 16, class: 1, ttl: 10, rdata: []byte{3, 'a', '=', 'b'}}}, ms.an...)
		ms.ns = append(ms.ns, randRR(r, 2))
		ms.ar = append(ms.ar, rr{name: []byte{0xc0, 12}, typ: 47, class: 1, ttl: 10, rdata: r.bytes(6)})
	}
	return ms.encode()
}

func mdnsEngine(args []string) error {
	c := parseCommon("mdns", args)
	r := newRng(c.seed)
	capN := discovery.VerifMdnsMaxEntries
	for h := 0; h < c.n; h++ {
		m := &discovery.MDNS{}
		conn, err := net.ListenUDP("udp4", &net.UDPAddr{IP: net.IP{127, 0, 0, 1}, Port: 0})
		if err != nil {
			return err
		}
		ctx, cancel := context.WithCancel(context.Background())
		done := make(chan struct{})
		go func() { m.VerifRead(ctx, conn); close(done) }()
		cl, err := net.DialUDP("udp4", nil, conn.LocalAddr().(*net.UDPAddr))
		if err != nil {
			return err
		}
		// history: a few distinct "interesting" names early (mixed case, shared addresses, conflicts),
		// then filler names to exceed the cap in some histories, then re-announcements
		var ops []string
		known := map[string][]net.IP{}
		send := func(name string, ip net.IP) {
			ipl := []net.IP{ip}
			// every fifth announcement carries several records of the one name (A + AAAA, or the addresses
			// announced before plus a new one, in either order): the entries of one name are kept sorted and
			// stamped together, so the tables do not depend on the order in which the reader visits them
			if r.coin(20) {
				if old := known[name]; len(old) > 0 && r.coin(60) {
					o := old[r.intn(len(old))]
					if !o.Equal(ip) {
						if r.coin(50) {
							ipl = []net.IP{o, ip}
						} else {
							ipl = []net.IP{ip, o}
						}
					}
				} else {
					ipl = append(ipl, net.IP{0xfe, 0x80, 0, 0, 0, 0, 0, 0, 0, 0, 0, 0, 0, 1, byte(r.intn(4)), byte(r.intn(256))})
				}
			}
			known[name] = append(known[name], ipl...)
			pkt := mdnsPacket(name, ipl, r.coin(20), r)
			_, _ = cl.Write(pkt)
			for _, x := range ipl {
				ops = append(ops, sx(x.String())+"="+sx(name+"."))
			}
			// keep packets strictly ordered and stamps distinct
			time.Sleep(20 * time.Microsecond)
		}
		base := []string{"Living-Room.local", "living-room.local", "KITCHEN.local", "printer.local", "Printer.Local", "nas.local", "AppleTV.local", "10-0-0-213.local", "CC_22_3D_E4_CE_FE", "10-0-0-213"}
		ips := []net.IP{net.ParseIP("10.0.0.1"), net.ParseIP("10.0.0.2"), net.ParseIP("10.0.0.3"), net.ParseIP("fe80::1"), net.ParseIP("fd00::2")}
		nEarly := r.rng(3, 12)
		for i := 0; i < nEarly; i++ {
			send(base[r.intn(len(base))], ips[r.intn(len(ips))])
		}
		syncs := 0
		quiet := func() {
			// a quiet period (minutes to days) during which nothing is announced, then re-announcements: nothing an
			// announcement said earlier may be lost or left in one view only because it is old
			syncs++
			sn := fmt.Sprintf("sync-%d-%d.local", h, syncs)
			send(sn, net.IP{10, 250, 250, byte(syncs)})
			dl := time.Now().Add(5 * time.Second)
			for len(m.LookupHost(sn+".")) == 0 && time.Now().Before(dl) {
				time.Sleep(time.Millisecond)
			}
			m.VerifAge([]time.Duration{3 * time.Minute, time.Hour, 48 * time.Hour}[r.intn(3)])
			for i := r.rng(2, 6); i > 0; i-- {
				send(base[r.intn(len(base))], ips[r.intn(len(ips))])
			}
		}
		if h%3 != 0 {
			quiet()
		}
		overflow := h%2 == 0
		nfill := r.rng(20, 200)
		if overflow {
			nfill = capN + r.rng(-5, 30)
		}
		for i := 0; i < nfill; i++ {
			name := fmt.Sprintf("Dev%d-%s.local", i, string(randLabel(r, 3)))
			ip := net.IP{10, 1, byte(i >> 8), byte(i)}
			if r.coin(10) {
				ip = ips[r.intn(len(ips))]
			}
			send(name, ip)
			if r.coin(3) {
				send(base[r.intn(len(base))], ips[r.intn(len(ips))]) // refresh an early name: it must survive eviction
			}
			if h%4 == 1 && i == nfill/2 {
				quiet()
			}
		}
		// sentinel: wait until the reader has processed everything
		sentinel := fmt.Sprintf("sentinel-%d.local", h)
		send(sentinel, net.IP{10, 250, 250, 250})
		deadline := time.Now().Add(5 * time.Second)
		for len(m.LookupHost(sentinel+".")) == 0 && time.Now().Before(deadline) {
			time.Sleep(2 * time.Millisecond)
		}
		names, addrs := m.VerifDump()
		cancel()
		conn.Close()
		cl.Close()
		<-done
		dump := func(mm map[string][]string) string {
			var keys []string
			for k := range mm {
				keys = append(keys, k)
			}
			sort.Strings(keys)
			var parts []string
			for _, k := range keys {
				parts = append(parts, sx(k)+"="+sxl(mm[k]))
			}
			if len(parts) == 0 {
				return "empty"
			}
			return strings.Join(parts, ";")
		}
		dn, da := dump(names), dump(addrs)
		emit("mdns", itoa(h), itoa(capN), strings.Join(ops, ";"), "=>", itoa(len(names)), dn, da)
	}
	return nil
}
