package main

// Engine "resolver" (C03 C06 C07 C11): the real resolver.DNS with a real
// endpoint.Manager, DoH over real HTTP/2+TLS to a harness server on
// 127.0.0.1:443 (own CA through SSL_CERT_FILE), DNS53 to a harness UDP server,
// one shared cache as run.go wires it, and (mode fault) the real proxy in front.

import (
	"strconv"
	"bytes"
	"io"
	"crypto/md5"
	"encoding/hex"
	"context"
	"crypto/ecdsa"
	"crypto/elliptic"
	"crypto/rand"
	"crypto/tls"
	"crypto/x509"
	"crypto/x509/pkix"
	"encoding/pem"
	"errors"
	"fmt"
	"math/big"
	"net"
	"net/http"
	"os"
	"os/exec"
	"path/filepath"
	"strings"
	"sync"
	"sync/atomic"
	"time"

	"github.com/nextdns/nextdns/discovery"
	"github.com/nextdns/nextdns/proxy"
	"github.com/nextdns/nextdns/resolver"
	"github.com/nextdns/nextdns/resolver/endpoint"
	"github.com/nextdns/nextdns/resolver/query"
)

func init() { register("resolver", resolverEngine) }

// ---------- certificates ----------
func mkCerts(dir string) error {
	caKey, _ := ecdsa.GenerateKey(elliptic.P256(), rand.Reader)
	caT := &x509.Certificate{SerialNumber: big.NewInt(1), Subject: pkix.Name{CommonName: "nxverif test CA"},
		NotBefore: time.Now().Add(-time.Hour), NotAfter: time.Now().Add(48 * time.Hour), IsCA: true,
		KeyUsage: x509.KeyUsageCertSign | x509.KeyUsageDigitalSignature, BasicConstraintsValid: true}
	caDER, err := x509.CreateCertificate(rand.Reader, caT, caT, &caKey.PublicKey, caKey)
	if err != nil {
		return err
	}
	srvKey, _ := ecdsa.GenerateKey(elliptic.P256(), rand.Reader)
	srvT := &x509.Certificate{SerialNumber: big.NewInt(2), Subject: pkix.Name{CommonName: "doh.test"},
		DNSNames:  []string{"doh.test", "dns.nextdns.io", "dns1.nextdns.io", "dns2.nextdns.io"},
		NotBefore: time.Now().Add(-time.Hour), NotAfter: time.Now().Add(48 * time.Hour),
		KeyUsage: x509.KeyUsageDigitalSignature, ExtKeyUsage: []x509.ExtKeyUsage{x509.ExtKeyUsageServerAuth}}
	srvDER, err := x509.CreateCertificate(rand.Reader, srvT, caT, &srvKey.PublicKey, caKey)
	if err != nil {
		return err
	}
	kb, _ := x509.MarshalECPrivateKey(srvKey)
	w := func(name, typ string, b []byte) error {
		return os.WriteFile(filepath.Join(dir, name), pem.EncodeToMemory(&pem.Block{Type: typ, Bytes: b}), 0600)
	}
	if err := w("ca.pem", "CERTIFICATE", caDER); err != nil {
		return err
	}
	if err := w("srv.pem", "CERTIFICATE", srvDER); err != nil {
		return err
	}
	return w("srv.key", "EC PRIVATE KEY", kb)
}

// ensureCerts: crypto/x509 reads SSL_CERT_FILE once per process, so the engine
// re-executes itself with the variable pointing at a freshly made CA.
func ensureCerts(args []string) (dir string, reexeced bool, err error) {
	if d := os.Getenv("NXH_CERT_DIR"); d != "" {
		return d, false, nil
	}
	dir, err = os.MkdirTemp("", "nxcert")
	if err != nil {
		return "", false, err
	}
	defer os.RemoveAll(dir)
	if err = mkCerts(dir); err != nil {
		return "", false, err
	}
	cmd := exec.Command(os.Args[0], os.Args[1:]...)
	cmd.Env = append(os.Environ(), "NXH_CERT_DIR="+dir, "SSL_CERT_FILE="+filepath.Join(dir, "ca.pem"))
	cmd.Stdout, cmd.Stderr = os.Stdout, os.Stderr
	err = cmd.Run()
	return dir, true, err
}

// ---------- DoH server ----------
type dohScript struct {
	kind    string // ok status empty hang_hdr hang_mid reset_hdr reset_mid trickle trickle_slow
	status  int
	body    []byte
	lastmod string
	delayMs int // "auto" only
	releaseAt time.Time // "autolm" only
	next      *dohScript // what any further request of the same exchange meets (a client that retries on its own)
}

type dohReq struct {
	path    string
	headers http.Header
	body    []byte
}

type dohServer struct {
	mu       sync.Mutex
	cur      *dohScript
	reqs     []dohReq
	conns    map[net.Conn]bool
	rejectN  int32
	silentN  int32 // the next connections are accepted and then left alone: the TLS handshake never completes
	held     []net.Conn
	srv      *http.Server
	ln       net.Listener
	hangStop chan struct{}
}

type rejectListener struct {
	net.Listener
	s *dohServer
}

func (l rejectListener) Accept() (net.Conn, error) {
	for {
		c, err := l.Listener.Accept()
		if err != nil {
			return nil, err
		}
		if atomic.LoadInt32(&l.s.rejectN) > 0 {
			atomic.AddInt32(&l.s.rejectN, -1)
			if tc, ok := c.(*net.TCPConn); ok {
				_ = tc.SetLinger(0) // RST
			}
			c.Close()
			continue
		}
		if atomic.LoadInt32(&l.s.silentN) > 0 {
			atomic.AddInt32(&l.s.silentN, -1)
			l.s.mu.Lock()
			l.s.held = append(l.s.held, c)
			l.s.mu.Unlock()
			continue
		}
		return c, nil
	}
}

func (s *dohServer) handler(w http.ResponseWriter, r *http.Request) {
	body := make([]byte, 0, 512)
	buf := make([]byte, 4096)
	for {
		n, err := r.Body.Read(buf)
		body = append(body, buf[:n]...)
		if err != nil {
			break
		}
	}
	s.mu.Lock()
	sc := s.cur
	if sc != nil && sc.next != nil && len(s.reqs) > 0 {
		sc = sc.next
	}
	s.reqs = append(s.reqs, dohReq{r.URL.Path, r.Header.Clone(), body})
	s.mu.Unlock()
	if sc == nil {
		// default: echo the query as a response
		resp := append([]byte{}, body...)
		if len(resp) > 2 {
			resp[2] |= 0x80
		}
		w.Header().Set("Content-Type", "application/dns-message")
		_, _ = w.Write(resp)
		return
	}
	if sc.lastmod != "" {
		w.Header().Set("X-Conf-Last-Modified", sc.lastmod)
	}
	w.Header().Set("Content-Type", "application/dns-message")
	fl, _ := w.(http.Flusher)
	switch sc.kind {
	case "autolm": // as auto; the first label of the name, t<unix seconds>, is announced as the profile's last change,
		// and every response of a burst leaves at the same instant
		if len(body) > 14 && body[13] == 't' {
			if sec, err := strconv.ParseInt(string(body[14:13+int(body[12])]), 10, 64); err == nil {
				w.Header().Set("X-Conf-Last-Modified", time.Unix(sec, 0).UTC().Format(time.RFC1123))
			}
		}
		if d := time.Until(sc.releaseAt); d > 0 {
			time.Sleep(d)
		}
		_, _ = w.Write(autoAnswerP(body, r.URL.Path))
	case "auto": // the answer is a function of the question bytes alone (e2e mode)
		if sc.delayMs > 0 {
			time.Sleep(time.Duration(sc.delayMs) * time.Millisecond) // keeps requests outstanding long enough to overlap
		}
		_, _ = w.Write(autoAnswerP(body, r.URL.Path))
	case "ok":
		_, _ = w.Write(sc.body)
	case "status":
		w.WriteHeader(sc.status)
		_, _ = w.Write(sc.body)
	case "empty":
		w.WriteHeader(200)
	case "hang_hdr":
		select {
		case <-r.Context().Done():
		case <-s.hangStop:
		case <-time.After(5 * time.Second):
		}
	case "hang_mid":
		_, _ = w.Write(sc.body[:len(sc.body)/2])
		fl.Flush()
		select {
		case <-r.Context().Done():
		case <-s.hangStop:
		case <-time.After(5 * time.Second):
		}
	case "reset_hdr":
		panic(http.ErrAbortHandler)
	case "reset_mid":
		_, _ = w.Write(sc.body[:len(sc.body)/2])
		fl.Flush()
		panic(http.ErrAbortHandler)
	case "trickle", "trickle_slow":
		d := 5 * time.Millisecond
		if sc.kind == "trickle_slow" {
			d = 120 * time.Millisecond
		}
		step := len(sc.body)/8 + 1
		for off := 0; off < len(sc.body); off += step {
			end := off + step
			if end > len(sc.body) {
				end = len(sc.body)
			}
			if _, err := w.Write(sc.body[off:end]); err != nil {
				return
			}
			fl.Flush()
			select {
			case <-r.Context().Done():
				return
			case <-time.After(d):
			}
		}
	}
}

func startDoH(certDir string) (*dohServer, error) { return startDoHAt(certDir, "127.0.0.1:443") }

func startDoHAt(certDir, addr string) (*dohServer, error) {
	cert, err := tls.LoadX509KeyPair(filepath.Join(certDir, "srv.pem"), filepath.Join(certDir, "srv.key"))
	if err != nil {
		return nil, err
	}
	s := &dohServer{conns: map[net.Conn]bool{}, hangStop: make(chan struct{})}
	// the listener of the previous world of this run may still be on its way out (http.Server.Close returns before
	// the kernel has let go of the port in rare cases): retry for a moment
	var ln net.Listener
	for try := 0; ; try++ {
		ln, err = net.Listen("tcp", addr)
		if err == nil {
			break
		}
		if try >= 100 {
			return nil, err
		}
		time.Sleep(10 * time.Millisecond)
	}
	s.ln = ln
	s.srv = &http.Server{
		Handler:   http.HandlerFunc(s.handler),
		TLSConfig: &tls.Config{Certificates: []tls.Certificate{cert}, NextProtos: []string{"h2", "http/1.1"}},
		ConnState: func(c net.Conn, st http.ConnState) {
			s.mu.Lock()
			if st == http.StateClosed || st == http.StateHijacked {
				delete(s.conns, c)
			} else {
				s.conns[c] = true
			}
			s.mu.Unlock()
		},
		ErrorLog: nil,
	}
	s.srv.ErrorLog = quietLogger()
	go func() { _ = s.srv.ServeTLS(rejectListener{ln, s}, "", "") }()
	return s, nil
}

func (s *dohServer) set(sc *dohScript) {
	s.mu.Lock()
	s.cur = sc
	s.reqs = nil
	s.mu.Unlock()
}
func (s *dohServer) take() []dohReq {
	s.mu.Lock()
	r := s.reqs
	s.reqs = nil
	s.mu.Unlock()
	return r
}

// releaseHeld closes the connections that were accepted and left alone
func (s *dohServer) releaseHeld() {
	atomic.StoreInt32(&s.silentN, 0)
	s.mu.Lock()
	for _, c := range s.held {
		c.Close()
	}
	s.held = nil
	s.mu.Unlock()
}

// dropConns closes every client connection (the next request must dial again)
func (s *dohServer) dropConns(rejectNext int) {
	atomic.StoreInt32(&s.rejectN, int32(rejectNext))
	s.mu.Lock()
	for c := range s.conns {
		c.Close()
	}
	s.mu.Unlock()
}

// ---------- DNS53 server ----------
type dnsScript struct {
	datagrams [][]byte        // sent in order
	delays    []time.Duration // before each
}
type dnsServer struct {
	mu   sync.Mutex
	cur  *dnsScript
	seen [][]byte
	conn *net.UDPConn
}

func startDNS53(port int) (*dnsServer, error) {
	c, err := net.ListenUDP("udp", &net.UDPAddr{IP: net.IP{127, 0, 0, 1}, Port: port})
	if err != nil {
		return nil, err
	}
	s := &dnsServer{conn: c}
	go func() {
		buf := make([]byte, 65535)
		for {
			n, addr, err := c.ReadFromUDP(buf)
			if err != nil {
				return
			}
			q := append([]byte{}, buf[:n]...)
			s.mu.Lock()
			sc := s.cur
			s.seen = append(s.seen, q)
			s.mu.Unlock()
			go func() {
				if sc == nil {
					resp := append([]byte{}, q...)
					if len(resp) > 2 {
						resp[2] |= 0x80
					}
					_, _ = c.WriteToUDP(resp, addr)
					return
				}
				for i, d := range sc.datagrams {
					if i < len(sc.delays) && sc.delays[i] > 0 {
						time.Sleep(sc.delays[i])
					}
					_, _ = c.WriteToUDP(d, addr)
				}
			}()
		}
	}()
	return s, nil
}
func (s *dnsServer) set(sc *dnsScript) {
	s.mu.Lock()
	s.cur = sc
	s.seen = nil
	s.mu.Unlock()
}
func (s *dnsServer) take() [][]byte {
	s.mu.Lock()
	r := s.seen
	s.seen = nil
	s.mu.Unlock()
	return r
}

// ---------- cache with a movable clock ----------
type histCache struct {
	mu sync.Mutex
	m  map[interface{}]interface{}
}

func (c *histCache) Add(k, v interface{}) {
	c.mu.Lock()
	c.m[k] = v
	c.mu.Unlock()
}
func (c *histCache) Get(k interface{}) (interface{}, bool) {
	c.mu.Lock()
	v, ok := c.m[k]
	c.mu.Unlock()
	return v, ok
}
func (c *histCache) shift(d time.Duration) {
	c.mu.Lock()
	for _, v := range c.m {
		resolver.VerifShiftCacheValue(v, d)
	}
	c.mu.Unlock()
}

// ---------- the resolver under test ----------
type rworld struct {
	doh      *dohServer
	dns      *dnsServer
	cache    *histCache
	res      *resolver.DNS
	useDNS   int32
	profile  atomic.Value // string
	dohEP    *endpoint.DOHEndpoint
	dnsEP    *endpoint.DNSEndpoint
	deadEP   *endpoint.DNSEndpoint
	dnsDead  int32
}

func newRWorld(certDir string, cacheOn bool, maxAge, maxTTL uint32) (*rworld, error) {
	w := &rworld{}
	var err error
	if w.doh, err = startDoH(certDir); err != nil {
		return nil, err
	}
	if w.dns, err = startDNS53(5353); err != nil {
		return nil, err
	}
	w.dohEP = &endpoint.DOHEndpoint{Hostname: "doh.test", Bootstrap: []string{"127.0.0.1"}}
	w.dnsEP = &endpoint.DNSEndpoint{Addr: "127.0.0.1:5353"}
	w.deadEP = &endpoint.DNSEndpoint{Addr: "127.0.0.1:5354"} // nothing listens: ICMP port unreachable
	w.profile.Store("p0")
	w.res = &resolver.DNS{
		DOH: resolver.DOH{
			GetProfileURL: func(q query.Query) (string, string) {
				p := w.profile.Load().(string)
				return "https://doh.test/" + p, p
			},
			CacheMaxAge: maxAge, MaxTTL: maxTTL,
		},
		DNS53: resolver.DNS53{CacheMaxAge: maxAge, MaxTTL: maxTTL},
		Manager: &endpoint.Manager{
			Providers: []endpoint.Provider{endpoint.ProviderFunc(func(ctx context.Context) ([]endpoint.Endpoint, error) {
				if atomic.LoadInt32(&w.useDNS) == 1 {
					if atomic.LoadInt32(&w.dnsDead) == 1 {
						return []endpoint.Endpoint{w.deadEP}, nil
					}
					return []endpoint.Endpoint{w.dnsEP}, nil
				}
				return []endpoint.Endpoint{w.dohEP}, nil
			})},
			EndpointTester: func(e endpoint.Endpoint) endpoint.Tester {
				return func(ctx context.Context, d string) error { return nil }
			},
			ErrorThreshold:  1 << 30,
			MinTestInterval: 1000 * time.Hour,
		},
	}
	if cacheOn {
		w.cache = &histCache{m: map[interface{}]interface{}{}}
		w.res.DOH.Cache = w.cache
		w.res.DNS53.Cache = w.cache
	}
	return w, nil
}

func (w *rworld) setTransport(dns bool, dead bool) error {
	v, d := int32(0), int32(0)
	if dns {
		v = 1
	}
	if dead {
		d = 1
	}
	if atomic.LoadInt32(&w.useDNS) == v && atomic.LoadInt32(&w.dnsDead) == d {
		return nil
	}
	atomic.StoreInt32(&w.useDNS, v)
	atomic.StoreInt32(&w.dnsDead, d)
	return w.res.Manager.Test(context.Background())
}

func (w *rworld) close() {
	close(w.doh.hangStop)
	w.doh.dropConns(0)
	_ = w.doh.srv.Close()
	_ = w.doh.ln.Close() // also when Serve has not registered it yet
	_ = w.dns.conn.Close()
}

// ---------- response generator ----------
func respFor(r *rng, payload []byte, marker string) []byte {
	// echo id + question, answers carry the marker (profile/transport) in TXT rdata and random TTLs
	off := 12
	for off < len(payload) && payload[off] != 0 {
		off += 1 + int(payload[off])
	}
	off += 5
	if off > len(payload) {
		off = len(payload)
	}
	b := append([]byte{}, payload[:off]...)
	b[2], b[3] = 0x81, 0x80
	b[4], b[5] = 0, 1
	n := r.rng(1, 3)
	ttls := []uint32{0, 1, 2, 5, 30, 60, 300, 3600, 86400, 0x7fffffff}
	var recs []byte
	for i := 0; i < n; i++ {
		ttl := ttls[r.intn(len(ttls))]
		if r.coin(60) {
			ttl = uint32(r.rng(3, 50))
		}
		txt := []byte(marker)
		rec := rr{name: []byte{0xc0, 12}, typ: 16, class: 1, ttl: ttl, rdata: append([]byte{byte(len(txt))}, txt...)}
		recs = append(recs, encodeRR(rec)...)
	}
	b[6], b[7] = 0, byte(n)
	b[8], b[9], b[10], b[11] = 0, 0, 0, 0
	b = append(b, recs...)
	if r.coin(30) {
		b[11] = 1
		b = append(b, encodeRR(optRR(1232, 0, nil))...)
	}
	return b
}

func resolverEngine(args []string) error {
	c := parseCommon("resolver", args)
	certDir, re, err := ensureCerts(args)
	if re || err != nil {
		return err
	}
	r := newRng(c.seed)
	switch c.mode {
	case "e2e":
		return resolverE2E(r, c.n, certDir)
	case "hist":
		return resolverHist(r, c.n, certDir)
	case "fault":
		return resolverFault(r, c.n, certDir)
	case "lmconc":
		return resolverLastModConc(r, c.n, certDir)
	case "eps":
		return resolverEndpoints(r, c.n, certDir)
	}
	return errors.New("resolver: unknown mode")
}

// ---------- mode lmconc: bursts of simultaneous responses announcing different last-modified stamps ----------
// After a burst the profile's register must hold what every sequential order of the same responses
// leaves there (Proofs/LastModFacts.v: their maximum).
func resolverLastModConc(r *rng, n int, certDir string) error {
	w, err := newRWorld(certDir, true, 0, 0)
	if err != nil {
		return err
	}
	defer w.close()
	if err := w.setTransport(false, false); err != nil {
		return err
	}
	base := time.Now().Unix() - 100000
	for round := 0; round < n; round++ {
		prof := fmt.Sprintf("lm%d", round)
		url := "https://doh.test/" + prof
		w.res.DOH.GetProfileURL = func(q query.Query) (string, string) { return url, prof }
		k := r.rng(2, 6)
		if round%2 == 1 {
			k = r.rng(8, 16)
		}
		stamps := make([]int64, k)
		seen := map[int64]bool{}
		for i := range stamps {
			for {
				stamps[i] = base + int64(round)*100 + int64(r.intn(90))
				if !seen[stamps[i]] {
					seen[stamps[i]] = true
					break
				}
			}
		}
		w.doh.set(&dohScript{kind: "autolm", releaseAt: time.Now().Add(1500 * time.Microsecond)})
		var wg sync.WaitGroup
		for i := range stamps {
			wg.Add(1)
			go func(i int) {
				defer wg.Done()
				name := fmt.Sprintf("t%d.r%d.example", stamps[i], round)
				payload := msgSpec{id: r2id(round, i), flags: 0x0100, qs: [][]byte{question(encodeName(name), 1, 1)}}.encode()
				q, err := query.New(payload, net.IP{127, 0, 0, 9}, net.IP{127, 0, 0, 1})
				if err != nil {
					return
				}
				ctx, cancel := context.WithTimeout(context.Background(), 2*time.Second)
				_, _, _ = w.res.Resolve(ctx, q, make([]byte, 4096))
				cancel()
			}(i)
		}
		wg.Wait()
		w.doh.take()
		final := w.res.DOH.VerifLastMod(url)
		fin := int64(0)
		if !final.IsZero() {
			fin = final.Unix()
		}
		var toks []string
		for _, s := range stamps {
			toks = append(toks, fmt.Sprint(s-base))
		}
		if fin != 0 {
			fin -= base
		}
		emit("lmc", itoa(round), sx(url), strings.Join(toks, ","), "=>", fmt.Sprint(fin))
	}
	return nil
}

func r2id(a, b int) int { return (a*7 + b*131 + 1) & 0xffff }

// ---------- mode eps: elections and queries over REAL DoH endpoints that share one host name ----------
// Three DoH servers (same certificate, same host name doh.test) on 127.0.0.1, .2 and .3; the provider offers
// endpoints that differ in their bootstrap address only, as the steering record of dns.nextdns.io does.  Histories
// of: servers going down / coming back, the provider changing its offer, explicit elections, queries.  Observed:
// the endpoint announced by OnChange and the server that actually received each query.
//   eps <id> <op;op;...> => <out;out;...>    ops  H:<mask>  P:<i,j,..>  E  Q      outs  -|e<i>|none   s<i>|-
func resolverEndpoints(r *rng, n int, certDir string) error {
	var srvs []*dohServer
	for i := 1; i <= 3; i++ {
		s, err := startDoHAt(certDir, fmt.Sprintf("127.0.0.%d:443", i))
		if err != nil {
			return err
		}
		s.set(&dohScript{kind: "auto"})
		srvs = append(srvs, s)
	}
	defer func() {
		for _, s := range srvs {
			close(s.hangStop)
			s.dropConns(0)
			_ = s.srv.Close()
		}
	}()
	for h := 0; h < n; h++ {
		offer := []int{0, 1}
		var mu sync.Mutex
		var changes []string
		mgr := &endpoint.Manager{
			Providers: []endpoint.Provider{endpoint.ProviderFunc(func(ctx context.Context) ([]endpoint.Endpoint, error) {
				mu.Lock()
				defer mu.Unlock()
				var eps []endpoint.Endpoint
				for _, i := range offer {
					eps = append(eps, &endpoint.DOHEndpoint{Hostname: "doh.test", Bootstrap: []string{fmt.Sprintf("127.0.0.%d", i+1)}})
				}
				return eps, nil
			})},
			OnChange: func(e endpoint.Endpoint) {
				mu.Lock()
				changes = append(changes, e.String())
				mu.Unlock()
			},
			ErrorThreshold:  1 << 30,
			MinTestInterval: 1000 * time.Hour,
		}
		res := &resolver.DNS{DOH: resolver.DOH{GetProfileURL: func(q query.Query) (string, string) { return "https://doh.test/p", "p" }}, Manager: mgr}
		setHealth := func(mask int) {
			for i, s := range srvs {
				if mask&(1<<i) != 0 {
					atomic.StoreInt32(&s.rejectN, 0) // up (connections that are open stay open)
				} else {
					s.dropConns(1 << 20) // down: every connection is reset, the open ones are closed
				}
			}
		}
		mask := 7
		setHealth(mask)
		var ops, outs []string
		nops := r.rng(4, 10)
		for i := 0; i < nops; i++ {
			switch x := r.intn(10); {
			case x < 3:
				mask = r.rng(0, 7)
				setHealth(mask)
				ops = append(ops, fmt.Sprintf("H:%d", mask))
				outs = append(outs, "-")
			case x < 5:
				perm := [][]int{{0, 1}, {1, 0}, {0, 1, 2}, {2, 0}, {1, 2}, {2, 1, 0}, {0}, {1}}[r.intn(8)]
				mu.Lock()
				offer = perm
				mu.Unlock()
				var t []string
				for _, k := range perm {
					t = append(t, itoa(k))
				}
				ops = append(ops, "P:"+strings.Join(t, ","))
				outs = append(outs, "-")
			case x < 7:
				mu.Lock()
				changes = nil
				mu.Unlock()
				ctx, cancel := context.WithTimeout(context.Background(), 3*time.Second)
				_ = mgr.Test(ctx)
				cancel()
				mu.Lock()
				o := "same"
				if len(changes) > 0 {
					o = sx(changes[len(changes)-1])
				}
				mu.Unlock()
				ops = append(ops, "E")
				outs = append(outs, o)
			default:
				for _, s := range srvs {
					s.take()
				}
				mu.Lock()
				changes = nil
				mu.Unlock()
				name := fmt.Sprintf("q%d-%d.example", h, i)
				payload := msgSpec{id: r.intn(65536), flags: 0x0100, qs: [][]byte{question(encodeName(name), 1, 1)}}.encode()
				q, _ := query.New(payload, net.IP{127, 0, 0, 9}, net.IP{127, 0, 0, 1})
				ctx, cancel := context.WithTimeout(context.Background(), 1500*time.Millisecond)
				_, _, rerr := res.Resolve(ctx, q, make([]byte, 4096))
				cancel()
				var got []string
				for k, s := range srvs {
					for _, rq := range s.take() {
						if len(rq.body) > 13 && strings.HasPrefix(string(rq.body[13:]), name[:strings.IndexByte(name, '.')]) {
							got = append(got, fmt.Sprintf("s%d", k))
						}
					}
				}
				o := strings.Join(got, ",")
				if o == "" {
					o = "none"
				}
				mu.Lock()
				if len(changes) > 0 { // the first query bootstraps the manager with an election of its own
					o += "/" + sx(changes[len(changes)-1])
				}
				mu.Unlock()
				ops = append(ops, "Q")
				outs = append(outs, o+"/"+b2s(rerr != nil))
			}
		}
		emit("eps", itoa(h), strings.Join(ops, ";"), "=>", strings.Join(outs, ";"))
		setHealth(7)
	}
	return nil
}

// ---------- mode hist: cache histories ----------
func resolverHist(r *rng, n int, certDir string) error {
	names := []string{"a.example", "A.Example", "b.example", "a.b.example", "4.3.2.10.in-addr.arpa", "www.corp"}
	for h := 0; h < n; h++ {
		cacheOn := !r.coin(10)
		maxAge := []uint32{0, 0, 5, 20, 3600}[r.intn(5)]
		maxTTL := []uint32{0, 0, 4, 30}[r.intn(4)]
		// every 12th history: one resolver sees several hundred distinct profiles (a large conditional-profile
		// configuration), all asking the same few questions; no clock moves, the transport may still switch
		manyProf := h%12 == 7
		if manyProf {
			cacheOn = true
		}
		w, err := newRWorld(certDir, cacheOn, maxAge, maxTTL)
		if err != nil {
			return err
		}
		var ops, outs []string
		t0 := time.Now()
		var vnow time.Duration // virtual time since t0 (sum of advances)
		nops := r.rng(4, 24)
		nprof := 4
		if manyProf {
			nprof = r.rng(258, 300)
			nops = nprof + r.rng(20, 40)
		}
		useDNS := false
		type prevQ struct {
			name       string
			typ, class int
			prof       int
		}
		var prev []prevQ
		for i := 0; i < nops; i++ {
			x := r.intn(100)
			if manyProf && x < 18 {
				x = 50
			}
			if manyProf && x < 26 && i < nprof {
				x = 50
			}
			switch {
			case x < 18: // advance the clock
				dt := time.Duration(r.rng(1, 12)) * time.Second
				if r.coin(15) {
					dt = time.Duration(r.rng(30, 4000)) * time.Second
				}
				if w.cache != nil {
					w.cache.shift(dt)
				}
				w.res.DOH.VerifShiftLastMod(dt)
				vnow += dt
				ops = append(ops, fmt.Sprintf("A:%d", int64(dt)))
				outs = append(outs, "-")
			case x < 26: // switch transport
				useDNS = !useDNS
				if err := w.setTransport(useDNS, false); err != nil {
					return err
				}
			default:
				name := names[r.intn(len(names))]
				typ := []int{1, 1, 28, 16, 12, 257, 1, 65, 32769}[r.intn(9)] // incl. CAA (257) and a private-use type: the high byte must not be lost
				if strings.HasSuffix(name, ".arpa") {
					typ = 12
				}
				class := 1
				if r.coin(8) {
					class = 3
				}
				forceProf := -1
				if manyProf {
					name, typ, class = names[0], 1, 1
					if i < nprof {
						forceProf = i + 4 // p4, p5, ...: each profile once, in order
					}
				}
				if len(prev) > 0 && r.coin(55) && !(manyProf && i < nprof) {
					// repeat an earlier question (possibly under another profile / letter case)
					pq := prev[r.intn(len(prev))]
					name, typ, class = pq.name, pq.typ, pq.class
					if r.coin(75) {
						forceProf = pq.prof
					}
					if r.coin(15) {
						name = randCase(r, name)
					}
				}
				ms := msgSpec{id: r.intn(65536), flags: 0x0100, qs: [][]byte{question(encodeName(name), typ, class)}}
				payload := ms.encode()
				q, err := query.New(append([]byte{}, payload...), net.IP{127, 0, 0, 9}, net.IP{127, 0, 0, 1})
				if err != nil {
					return err
				}
				buf := make([]byte, 65535)
				ctx, cancel := context.WithTimeout(context.Background(), 2*time.Second)
				if !useDNS {
					pi := r.intn(4)
					if manyProf {
						pi = r.intn(nprof + 4)
					}
					if forceProf >= 0 {
						pi = forceProf
					}
					prev = append(prev, prevQ{name, typ, class, pi})
					prof := fmt.Sprintf("p%d", pi)
					if pi == 3 {
						prof = "" // no profile configured / no conditional profile matched
					}
					w.profile.Store(prof)
					url := "https://doh.test/" + prof
					body := respFor(r, payload, "doh/"+prof+"/"+q.Name)
					sc := &dohScript{kind: "ok", body: body}
					up := "B" + hx(body)
					switch y := r.intn(100); {
					case y < 70:
						if r.coin(30) {
							// announce a profile change at a virtual time: expressed on the real axis as t0 + (lv - vnow)
							off := r.rng(-40, 40)
							if off == 0 || off == 1 {
								// a stamp within a second of "now" compares differently with entries stored a few (real)
								// milliseconds earlier or later in this history: the model's clock has no such sub-second part
								off = -3
							}
							lv := vnow + time.Duration(off)*time.Second
							if r.coin(25) {
								// the upstream's clock and the device's disagree: stamps minutes to hours away from "now", either side
								lv = vnow + time.Duration(r.rng(-7200, 7200))*time.Second
							}
							real := t0.Add(lv - vnow).Truncate(time.Second)
							// keep clear of the strict/non-strict boundary (sub-second): skip when it would tie with "now"
							sc.lastmod = real.UTC().Format(time.RFC1123)
							up += fmt.Sprintf("@%d", real.Sub(t0)+vnow)
						}
					case y < 80:
						sc = &dohScript{kind: "status", status: []int{500, 404, 429, 204}[r.intn(4)], body: body}
						up = "S"
					case y < 88:
						sc = &dohScript{kind: "empty"}
						up = "B-"
					case y < 94:
						sc = &dohScript{kind: "reset_mid", body: body}
						up = "X"
					default:
						sc = &dohScript{kind: "reset_hdr"}
						up = "E"
					}
					w.doh.set(sc)
					nn, ri, rerr := w.res.Resolve(ctx, q, buf)
					reqs := w.doh.take()
					path := "-"
					if len(reqs) > 0 {
						path = reqs[0].path
					}
					ops = append(ops, fmt.Sprintf("D:%d:%d:%d:%s:%s:%s", q.ID, class, typ, sx(q.Name), sx(url), up))
					if nn < 0 {
						nn = 0
					}
					outs = append(outs, fmt.Sprintf("%s/%s/%s/%d/%s/%s", hxo(buf[:nn]), b2s(ri.FromCache), b2s(rerr != nil), len(reqs), sx(path), sx(ri.Profile)))
				} else {
					prev = append(prev, prevQ{name, typ, class, 0})
					body := respFor(r, payload, "dns53/"+q.Name)
					var dgs [][]byte
					tok := ""
					switch y := r.intn(100); {
					case y < 70:
						dgs = [][]byte{body}
					case y < 80:
						wrong := append([]byte{}, body...)
						wrong[0] ^= 0x55
						dgs = [][]byte{wrong, {0x01}, body}
					default:
						wrong := append([]byte{}, body...)
						wrong[1] ^= 0x01
						dgs = [][]byte{wrong}
					}
					var parts []string
					for _, d := range dgs {
						parts = append(parts, hx(d))
					}
					tok = strings.Join(parts, ",")
					w.dns.set(&dnsScript{datagrams: dgs})
					cctx, ccancel := context.WithTimeout(ctx, 60*time.Millisecond)
					nn, ri, rerr := w.res.Resolve(cctx, q, buf)
					ccancel()
					seen := w.dns.take()
					if nn < 0 {
						nn = 0
					}
					ops = append(ops, fmt.Sprintf("N:%d:%d:%d:%s:1:%s", q.ID, class, typ, sx(q.Name), tok))
					outs = append(outs, fmt.Sprintf("%s/%s/%s/%d/-/%s", hxo(buf[:nn]), b2s(ri.FromCache), b2s(rerr != nil), len(seen), sx(ri.Profile)))
				}
				cancel()
			}
		}
		elapsed := time.Since(t0)
		w.close()
		if elapsed > 800*time.Millisecond {
			note("history %d took %v: skipped (whole-second ages would be ambiguous)", h, elapsed)
			continue
		}
		if len(ops) == 0 {
			continue
		}
		emit("rhist", itoa(h), b2s(cacheOn), fmt.Sprint(maxAge), fmt.Sprint(maxTTL), strings.Join(ops, ";"), "=>", strings.Join(outs, ";"))
	}
	return nil
}

// ---------- mode e2e: real proxy + real resolver (DoH over TLS, response cache on), concurrent clients ----------
// autoAnswer: id and question echoed, one answer record (TTL 600) whose rdata is derived from the question bytes
func autoAnswer(q []byte) []byte { return autoAnswerP(q, "") }

// autoAnswerP: the rdata also depends on the request path, i.e. on the profile the query was sent under
func autoAnswerP(q []byte, path string) []byte {
	if len(q) < 17 {
		return q
	}
	off := 12
	for off < len(q) && q[off] != 0 {
		off += 1 + int(q[off])
	}
	off += 5
	if off > len(q) {
		return q
	}
	b := append([]byte{}, q[:off]...)
	b[2], b[3] = 0x81, 0x80
	b[4], b[5], b[6], b[7], b[8], b[9], b[10], b[11] = 0, 1, 0, 1, 0, 0, 0, 0
	if bytes.Contains(bytes.ToLower(q[12:off]), []byte("\x03nxd")) {
		// names with a label "nxd" do not exist upstream
		b[3], b[7] = 0x83, 0
		return b
	}
	sum := md5.Sum(append(append([]byte{}, q[12:off]...), path...))
	typ := q[off-4 : off-2]
	rd := sum[:4]
	if typ[1] == 16 {
		rd = append([]byte{8}, []byte(hex.EncodeToString(sum[:4]))...)
	}
	b = append(b, 0xc0, 12, typ[0], typ[1], 0, 1, 0, 0, 2, 0x58, byte(len(rd)>>8), byte(len(rd)))
	return append(b, rd...)
}

func resolverE2E(r *rng, n int, certDir string) error {
	w, err := newRWorld(certDir, true, 0, 0)
	if err != nil {
		return err
	}
	defer w.close()
	if err := w.setTransport(false, false); err != nil {
		return err
	}
	w.doh.set(&dohScript{kind: "auto", delayMs: 3})
	// four profiles, chosen by the client's address (127.0.0.10 .. 127.0.0.13) as a conditional-profile
	// configuration does; the upstream's answer depends on the profile it was asked under
	const e2eProfiles = 4
	profOf := func(ip net.IP) string {
		if v4 := ip.To4(); v4 != nil && v4[3] >= 10 && int(v4[3]) < 10+e2eProfiles {
			return fmt.Sprintf("e%d", v4[3]-10)
		}
		return "e0"
	}
	w.res.DOH.GetProfileURL = func(q query.Query) (string, string) {
		p := profOf(q.PeerIP)
		return "https://doh.test/" + p, p
	}
	// as in the daemon: names the upstream does not know are looked up in the discovery sources (a device on the LAN)
	p := proxy.Proxy{Addrs: []string{"127.0.0.1:5301"}, Upstream: w.res, Timeout: 1500 * time.Millisecond, MaxInflightRequests: 64,
		DiscoveryResolver: discovery.Resolver{e2eLan{}}}
	ctx, cancel := context.WithCancel(context.Background())
	defer cancel()
	go func() { _ = p.ListenAndServe(ctx) }()
	time.Sleep(150 * time.Millisecond)
	bases := []string{"www.example.com", "mail.example.com", "a.b.c.example.org", "router.lan.example", "x.test", "cdn.example.net",
		"api.service.example", "time.example.com", "w3.example.com", "printer.nxd.example", "ghost.nxd.example", "printer.nxd.example", "w3|example.com", "w3.example|com", "db.internal.example", "long-label-name-for-testing.example.com", "q.example"}
	type cq struct {
		proto string
		q     []byte
	}
	serial := 0
	hot := ""
	lastECS := -1 // profile stated by the ECS option of the query mkq built last (-1: none)
	mkq := func(id int) []byte {
		name := bases[r.intn(len(bases))]
		if hot != "" && r.coin(50) {
			name = hot // a name nobody asked before, asked by several clients of this round at once
		}
		if r.coin(35) {
			name = randCase(r, name)
		}
		typ := []int{1, 1, 16}[r.intn(3)]
		ms := msgSpec{id: id, flags: 0x0100, qs: [][]byte{question(encodeName(name), typ, 1)}}
		lastECS = -1
		if r.coin(30) {
			// the query comes through a local forwarder that states the real client in a full-length ECS option
			// (dnsmasq add-subnet=32,128): that address, not the socket's, selects the profile
			lastECS = r.intn(e2eProfiles)
			d := []byte{0, 1, 32, 0, 127, 0, 0, byte(10 + lastECS)}
			if r.coin(30) {
				d = append([]byte{0, 2, 128, 0, 0, 0, 0, 0, 0, 0, 0, 0, 0, 0, 0xff, 0xff, 127, 0, 0}, byte(10+lastECS))
			}
			opts := []opt{{8, d}}
			if r.coin(40) {
				opts = append([]opt{{10, r.bytes(8)}}, opts...)
			}
			ms.ar = []rr{optRR(1232, 0, opts)}
		}
		return ms.encode()
	}
	emitQ := func(proto string, prof int, q []byte, nrep int, rep []byte) {
		serial++
		exp := autoAnswerP(q, fmt.Sprintf("/e%d", prof))
		// whose answer is it? (the record data identifies the profile it was fetched under)
		body := rep
		if proto == "tcp" && len(body) >= 2 {
			body = body[2:]
		}
		saw := "-"
		qend := 12
		for qend < len(q) && q[qend] != 0 {
			qend += 1 + int(q[qend])
		}
		qend += 5
		for k := 0; k < e2eProfiles; k++ {
			a := autoAnswerP(q, fmt.Sprintf("/e%d", k))
			if len(body) == len(a) && len(a) > qend+10 && bytes.Equal(body[qend+10:], a[qend+10:]) {
				saw = itoa(k)
			}
		}
		if bytes.Contains(bytes.ToLower(q[12:qend]), []byte("\x07printer\x03nxd")) {
			// unknown upstream, known on the LAN: answered locally -- one reply, the query's ID and question, no error
			emit("e2el", itoa(serial), proto, hx(q), "=>", itoa(nrep), hxo(body))
			return
		}
		emit("e2e", itoa(serial), proto, hx(q), hx(exp), itoa(prof), "=>", itoa(nrep), hxo(rep), saw)
	}
	for round, done := 0, 0; done < n; round++ {
		hot = fmt.Sprintf("h%d.example.com", round)
		nudp, ntcp := r.rng(4, 8), r.rng(1, 2)
		uq := make([][]byte, nudp)
		uecs := make([]int, nudp)
		for i := range uq {
			uq[i] = mkq(r.intn(65536))
			uecs[i] = lastECS
		}
		tq := make([][][]byte, ntcp)
		tecs := make([][]int, ntcp)
		for i := range tq {
			k := r.rng(2, 4)
			ids := r.intn(60000)
			for j := 0; j < k; j++ {
				tq[i] = append(tq[i], mkq(ids+j))
				tecs[i] = append(tecs[i], lastECS)
			}
		}
		uprof := make([]int, nudp)
		for i := range uprof {
			uprof[i] = r.intn(e2eProfiles)
		}
		tprof := make([]int, ntcp)
		for i := range tprof {
			tprof[i] = r.intn(e2eProfiles)
		}
		ures := make([][][]byte, nudp)
		tres := make([][]byte, ntcp)
		var wg sync.WaitGroup
		for i := range uq {
			wg.Add(1)
			go func(i int) {
				defer wg.Done()
				ures[i] = udpExchangeFrom(fmt.Sprintf("127.0.0.%d", 10+uprof[i]), "127.0.0.1:5301", uq[i], 2500*time.Millisecond, 20*time.Millisecond)
			}(i)
		}
		for i := range tq {
			wg.Add(1)
			go func(i int) {
				defer wg.Done()
				var raw []byte
				for _, q := range tq[i] {
					raw = append(raw, frame(q)...)
				}
				tres[i], _ = tcpExchangeFrom(fmt.Sprintf("127.0.0.%d", 10+tprof[i]), "127.0.0.1:5301", raw, len(tq[i]), 2500*time.Millisecond, 20*time.Millisecond)
			}(i)
		}
		wg.Wait()
		for i, q := range uq {
			var rep []byte
			if len(ures[i]) > 0 {
				rep = ures[i][0]
			}
			pf := uprof[i]
			if uecs[i] >= 0 {
				pf = uecs[i]
			}
			emitQ("udp", pf, q, len(ures[i]), rep)
			done++
		}
		for i, qs := range tq {
			// frames may come back in any order: match them to the queries by ID
			frames := map[int][][]byte{}
			st := tres[i]
			for len(st) >= 2 {
				l := int(st[0])<<8 | int(st[1])
				if len(st) < 2+l {
					break
				}
				if l >= 2 {
					id := int(st[2])<<8 | int(st[3])
					frames[id] = append(frames[id], st[:2+l])
				} else {
					frames[-1] = append(frames[-1], st[:2+l])
				}
				st = st[2+l:]
			}
			for j, q := range qs {
				id := int(q[0])<<8 | int(q[1])
				var rep []byte
				if len(frames[id]) > 0 {
					rep = frames[id][0]
				}
				pf := tprof[i]
				if tecs[i][j] >= 0 {
					pf = tecs[i][j]
				}
				emitQ("tcp", pf, q, len(frames[id]), rep)
				done++
			}
		}
	}
	return nil
}

// ---------- mode fault: upstream fault menu through the real proxy ----------
func resolverFault(r *rng, n int, certDir string) error {
	if err := resolverFaultMain(r, n, certDir); err != nil {
		return err
	}
	time.Sleep(50 * time.Millisecond)
	return resolverFaultCut(r, n/3+8, certDir)
}

func resolverFaultMain(r *rng, n int, certDir string) error {
	w, err := newRWorld(certDir, false, 0, 0)
	if err != nil {
		return err
	}
	defer w.close()
	timeout := 400 * time.Millisecond
	p := proxy.Proxy{Addrs: []string{"127.0.0.1:5300"}, Upstream: w.res, Timeout: timeout, MaxInflightRequests: 32}
	ctx, cancel := context.WithCancel(context.Background())
	defer cancel()
	go func() { _ = p.ListenAndServe(ctx) }()
	time.Sleep(150 * time.Millisecond)
	dohKinds := []string{"ok", "status", "empty", "big", "hang_hdr", "hang_mid", "reset_hdr", "reset_mid", "trickle", "trickle_slow", "refuse", "junk",
		"reset_then_hang", "resetmid_then_trickle", "status_then_hang", "tls_hang"}
	dnsKinds := []string{"ok", "none", "mismatch_ok", "short_ok", "mismatch_only", "late", "junk", "unreach", "stray_late", "stray_trickle"}
	for i := 0; i < n; i++ {
		// every fault of both menus in turn (quick runs cover each several times), queries stay random
		slot := i % (len(dohKinds) + len(dnsKinds))
		useDNS := slot >= len(dohKinds)
		var kind string
		if useDNS {
			kind = dnsKinds[slot-len(dohKinds)]
		} else {
			kind = dohKinds[slot]
		}
		if err := w.setTransport(useDNS, kind == "unreach"); err != nil {
			return err
		}
		// sequences: the fault, then a well-behaved exchange; every third case over one reused TCP connection
		overTCP := i%3 == 2 && kind != "big"
		var tconn net.Conn
		var tconnAt time.Time
		for step := 0; step < 2; step++ {
			k := kind
			if step == 1 {
				k = "ok"
				if useDNS {
					_ = w.setTransport(true, false)
				}
			}
			qc, adv := genQuery(r, fmt.Sprintf("f%d", i))
			_ = adv
			// keep replies under the UDP cut so the comparison is about the fault, not truncation
			body := respFor(r, qc, "fault")
			outcome := "up"
			upTok := hx(body)
			if !useDNS {
				sc := &dohScript{kind: k, body: body}
				switch k {
				case "status":
					sc.status = []int{500, 502, 404, 429, 301}[r.intn(5)]
					outcome = "err"
				case "empty":
					outcome = "empty"
				case "big":
					sc.kind = "ok"
					sz := []int{65535, 65536, 70000}[(i/(len(dohKinds)+len(dnsKinds)))%3]
					sc.body = append(append([]byte{}, body...), filler(sz-len(body), 7)...)
					outcome = "big"
					upTok = hxfill(body, sz-len(body), 7)
				case "hang_hdr", "hang_mid", "reset_hdr", "reset_mid", "trickle_slow":
					outcome = "err"
				case "reset_then_hang", "resetmid_then_trickle", "status_then_hang":
					// a sequence of two faults on the same query: a quick failure, and should the client come back
					// for that query on its own, a slow one
					first, second := map[string][2]string{"reset_then_hang": {"reset_hdr", "hang_hdr"},
						"resetmid_then_trickle": {"reset_mid", "trickle_slow"}, "status_then_hang": {"status", "hang_mid"}}[k][0],
						map[string][2]string{"reset_then_hang": {"reset_hdr", "hang_hdr"},
							"resetmid_then_trickle": {"reset_mid", "trickle_slow"}, "status_then_hang": {"status", "hang_mid"}}[k][1]
					sc.kind, sc.status = first, 503
					sc.next = &dohScript{kind: second, body: body}
					outcome = "err"
				case "refuse":
					sc.kind = "ok"
					w.doh.dropConns(3)
					outcome = "err"
				case "tls_hang":
					// no connection left, and the upstream accepts the next ones without ever answering the TLS hello;
					// those stay open (silent) while the well-behaved exchange that follows is made
					sc.kind = "ok"
					w.doh.dropConns(0)
					atomic.StoreInt32(&w.doh.silentN, 4)
					outcome = "err"
				case "junk":
					sc.kind = "ok"
					sc.body = r.bytes(r.rng(1, 40))
					upTok = hx(sc.body)
				}
				w.doh.set(sc)
			} else {
				sc := &dnsScript{}
				wrong := append([]byte{}, body...)
				wrong[0] ^= 0x40
				switch k {
				case "ok":
					sc.datagrams = [][]byte{body}
				case "none", "unreach":
					outcome = "err"
				case "mismatch_ok":
					sc.datagrams = [][]byte{wrong, body}
				case "short_ok":
					sc.datagrams = [][]byte{{0x00}, body}
				case "mismatch_only":
					sc.datagrams = [][]byte{wrong, wrong}
					outcome = "err"
				case "late":
					sc.datagrams = [][]byte{body}
					sc.delays = []time.Duration{timeout + 200*time.Millisecond}
					outcome = "err"
				case "stray_late": // a datagram with another ID well into the wait, then silence
					sc.datagrams = [][]byte{wrong}
					sc.delays = []time.Duration{timeout * 7 / 10}
					outcome = "err"
				case "stray_trickle": // datagrams with other IDs every half timeout
					sc.datagrams = [][]byte{wrong, wrong, wrong, wrong, wrong}
					sc.delays = []time.Duration{timeout / 2, timeout / 2, timeout / 2, timeout / 2, timeout / 2}
					outcome = "err"
				case "junk":
					j := append([]byte{body[0], body[1]}, r.bytes(r.rng(0, 30))...)
					sc.datagrams = [][]byte{j}
					upTok = hx(j)
				}
				w.dns.set(sc)
			}
			start := time.Now()
			var rs [][]byte
			if overTCP {
				// one TCP connection for both exchanges of the case; the second one is sent once more than the
				// timeout has passed since the connection was opened
				if step == 0 {
					tconn, _ = net.Dial("tcp", "127.0.0.1:5300")
					tconnAt = time.Now()
				} else if d := timeout + 150*time.Millisecond - time.Since(tconnAt); d > 0 {
					time.Sleep(d)
					start = time.Now()
				}
				if tconn != nil {
					_, _ = tconn.Write(frame(qc))
					_ = tconn.SetReadDeadline(time.Now().Add(timeout + 1500*time.Millisecond))
					hdr := make([]byte, 2)
					if _, err := io.ReadFull(tconn, hdr); err == nil {
						body := make([]byte, int(hdr[0])<<8|int(hdr[1]))
						if _, err := io.ReadFull(tconn, body); err == nil {
							rs = append(rs, append(hdr, body...))
						}
					}
					if step == 1 {
						tconn.Close()
						tconn = nil
					}
				}
			} else {
				rs = udpExchange("127.0.0.1:5300", qc, timeout+1500*time.Millisecond, 10*time.Millisecond)
			}
			lat := time.Since(start)
			if !useDNS && k == "refuse" {
				atomic.StoreInt32(&w.doh.rejectN, 0)
			}
			if !useDNS && k == "tls_hang" {
				atomic.StoreInt32(&w.doh.silentN, 0) // the upstream behaves again; the silent connections stay as they are
			}
			if !useDNS && step == 1 && kind == "tls_hang" {
				w.doh.releaseHeld()
			}
			var rep []byte
			if len(rs) > 0 {
				rep = rs[0]
			}
			tr := "doh"
			if useDNS {
				tr = "dns"
			}
			eng := "fault"
			if overTCP {
				eng = "faulttcp"
			}
			emit(eng, fmt.Sprintf("%d.%d", i, step), tr, k, hx(qc), outcome, upTok, "=>", itoa(len(rs)), hxo(rep), fmt.Sprint(lat.Milliseconds()), fmt.Sprint(timeout.Milliseconds()))
			// let hung handlers drain before the next exchange
			if strings.HasPrefix(k, "hang") || k == "trickle_slow" || k == "late" {
				time.Sleep(250 * time.Millisecond)
			}
			if k == "stray_trickle" {
				time.Sleep(5 * timeout / 2) // let the scripted datagrams run out
			}
		}
	}
	return nil
}

// second part of mode fault: the daemon as run with a response cache and a TTL cap (run.go with -cache-size and
// -max-ttl): every upstream message also passes through the TTL rewriting and is stored.  The upstream answers with
// a well-formed message cut short at every offset around the end of the question (and at random ones), over DoH
// and over UDP/53; the same question is then asked again (cache hit path).  Judged by the bound alone: one reply
// (whatever it says) within the timeout.
func resolverFaultCut(r *rng, n int, certDir string) error {
	w, err := newRWorld(certDir, true, 0, 30)
	if err != nil {
		return err
	}
	defer w.close()
	timeout := 400 * time.Millisecond
	p := proxy.Proxy{Addrs: []string{"127.0.0.1:5300"}, Upstream: w.res, Timeout: timeout, MaxInflightRequests: 32}
	ctx, cancel := context.WithCancel(context.Background())
	defer cancel()
	go func() { _ = p.ListenAndServe(ctx) }()
	time.Sleep(150 * time.Millisecond)
	for i := 0; i < n; i++ {
		useDNS := i%2 == 1
		if err := w.setTransport(useDNS, false); err != nil {
			return err
		}
		name := fmt.Sprintf("cut%d.example", i)
		qc := msgSpec{id: r.intn(65536), flags: 0x0100, qs: [][]byte{question(encodeName(name), 1, 1)}}.encode()
		body := respFor(r, qc, "cut")
		qend := len(qc)
		cut := qend + (i/2)%16
		if i%7 == 6 {
			cut = r.rng(2, len(body))
		}
		if cut > len(body) {
			cut = len(body)
		}
		cutBody := append([]byte{}, body[:cut]...)
		tr := "doh"
		if useDNS {
			tr = "dns"
			w.dns.set(&dnsScript{datagrams: [][]byte{cutBody}})
		} else {
			w.doh.set(&dohScript{kind: "ok", body: cutBody})
		}
		for step := 0; step < 2; step++ {
			q := append([]byte{}, qc...)
			if step == 1 {
				q[0] ^= 0x5a // the same question again: a stored message is adjusted and served
			}
			start := time.Now()
			rs := udpExchange("127.0.0.1:5300", q, timeout+1500*time.Millisecond, 10*time.Millisecond)
			lat := time.Since(start)
			var rep []byte
			if len(rs) > 0 {
				rep = rs[0]
			}
			emit("fault", fmt.Sprintf("c%d.%d", i, step), tr, fmt.Sprintf("cut@q+%d", cut-qend), hx(q), "any", hx(cutBody), "=>", itoa(len(rs)), hxo(rep), fmt.Sprint(lat.Milliseconds()), fmt.Sprint(timeout.Milliseconds()))
		}
	}
	return nil
}

// e2eLan: a discovery source that knows one device of the LAN
type e2eLan struct{}

func (e2eLan) Name() string                 { return "verif-lan" }
func (e2eLan) Visit(func(string, []string)) {}
func (e2eLan) LookupAddr(string) []string   { return nil }
func (e2eLan) LookupMAC(string) []string    { return nil }
func (e2eLan) LookupHost(name string) []string {
	if strings.ToLower(name) == "printer.nxd.example." {
		return []string{"10.9.8.7"}
	}
	return nil
}
