package main

import (
	"io"
	"log"
)

func quietLogger() *log.Logger { return log.New(io.Discard, "", 0) }
