package main

// Engine "manager" (C08 C09): the real endpoint.Manager with scripted providers
// and probes, a virtual clock (the manager's own testNow hook), and schedule
// control: background elections wait at a gate in the first provider until the
// script lets them run; query actions block until the script ends them.

import (
	"context"
	"errors"
	"fmt"
	"os"
	"os/exec"
	"strings"
	"sync"
	"sync/atomic"
	"syscall"
	"time"

	"github.com/nextdns/nextdns/resolver/endpoint"
)

func init() { register("manager", managerEngine) }

type fakeEP struct{ id int }

func (e *fakeEP) String() string              { return fmt.Sprintf("ep%d", e.id) }
func (e *fakeEP) Protocol() endpoint.Protocol { return endpoint.ProtocolDNS }
func (e *fakeEP) Equal(o endpoint.Endpoint) bool {
	if o2, ok := o.(*fakeEP); ok {
		return o2.id == e.id
	}
	return false
}
func (e *fakeEP) Exchange(ctx context.Context, payload, buf []byte) (int, error) { return 0, nil }

var errPlain = errors.New("scripted failure")
var errUnreach = &os.SyscallError{Syscall: "connect", Err: syscall.ENETUNREACH}

type mgrWorld struct {
	m        *endpoint.Manager
	mu       sync.Mutex
	provs    []string       // per provider: "e1,2,3" | "p" (plain error) | "u" (unreachable)
	health   map[int]string // "ok" | "fail" | "unreach"
	now      time.Time
	log      []string
	tokens   int32 // gate tokens
	waiting  int32 // elections waiting at the gate
	seenObjs []interface{}
}

func (w *mgrWorld) logf(f string, a ...interface{}) {
	w.mu.Lock()
	w.log = append(w.log, fmt.Sprintf(f, a...))
	w.mu.Unlock()
}

func (w *mgrWorld) provider(j int) endpoint.Provider {
	return endpoint.ProviderFunc(func(ctx context.Context) ([]endpoint.Endpoint, error) {
		if j == 0 {
			// the start of every election: wait for the script
			atomic.AddInt32(&w.waiting, 1)
			for {
				t := atomic.LoadInt32(&w.tokens)
				if t > 0 && atomic.CompareAndSwapInt32(&w.tokens, t, t-1) {
					break
				}
				time.Sleep(50 * time.Microsecond)
			}
			atomic.AddInt32(&w.waiting, -1)
		}
		w.mu.Lock()
		spec := w.provs[j]
		w.mu.Unlock()
		switch spec {
		case "p":
			return nil, errPlain
		case "u":
			return nil, fmt.Errorf("provider: %w", errUnreach)
		}
		var eps []endpoint.Endpoint
		if len(spec) > 1 {
			for _, t := range strings.Split(spec[1:], ",") {
				var id int
				fmt.Sscanf(t, "%d", &id)
				eps = append(eps, &fakeEP{id})
			}
		}
		return eps, nil
	})
}

func (w *mgrWorld) pendingElections() int {
	n := 0
	for _, o := range w.seenObjs {
		if endpoint.VerifObjState(o).Testing {
			n++
		}
	}
	return n
}

// noteActive records the active object (if readable) so that its testing flag can be polled
func (w *mgrWorld) noteActive() {
	ae, present, _ := w.m.VerifActive()
	if present {
		for _, o := range w.seenObjs {
			if o == ae.Obj {
				return
			}
		}
		w.seenObjs = append(w.seenObjs, ae.Obj)
	}
}

func (w *mgrWorld) snapshot() string {
	ae, present, locked := w.m.VerifActive()
	if locked {
		return "locked"
	}
	if !present {
		return "none"
	}
	w.mu.Lock()
	now := w.now
	w.mu.Unlock()
	age := int64(-1)
	if !ae.LastTest.IsZero() {
		age = int64(now.Sub(ae.LastTest) / time.Second)
	}
	return fmt.Sprintf("%s/%d/%s/%d/%d", ae.Endpoint, int64(ae.Interval/time.Second), b2s(ae.Testing), ae.Errs, age)
}

// mode hang: probes that only end with their context (a black-holed endpoint). Every endpoint must get its own
// probe timeout: the candidates after a hanging one are still probed and the first healthy one is elected.
func managerHang(c *common) error {
	type scen struct {
		provs  []string
		health map[int]string
	}
	scens := []scen{
		{[]string{"e1,2"}, map[int]string{1: "hang", 2: "ok"}},
		{[]string{"e1,2,3"}, map[int]string{1: "hang", 2: "fail", 3: "ok"}},
		{[]string{"e1", "e2"}, map[int]string{1: "hang", 2: "ok"}},
		{[]string{"e1,2"}, map[int]string{1: "ok", 2: "hang"}},
		{[]string{"e1", "e2,3"}, map[int]string{1: "fail", 2: "hang", 3: "ok"}},
		{[]string{"e1,2"}, map[int]string{1: "hang", 2: "hang"}},
	}
	r := newRng(c.seed ^ 0x9a)
	for len(scens) < c.n {
		k := r.rng(2, 4)
		h := map[int]string{}
		var ids []string
		for id := 1; id <= k; id++ {
			ids = append(ids, itoa(id))
			h[id] = []string{"ok", "fail", "hang"}[r.intn(3)]
		}
		h[r.rng(1, k-1)] = "hang"
		cut := r.rng(1, k)
		provs := []string{"e" + strings.Join(ids[:cut], ",")}
		if cut < k {
			provs = append(provs, "e"+strings.Join(ids[cut:], ","))
		}
		scens = append(scens, scen{provs, h})
	}
	if c.n < len(scens) {
		scens = scens[:c.n]
	}
	out := make([]string, len(scens))
	var wg sync.WaitGroup
	for i, sc := range scens {
		wg.Add(1)
		go func(i int, sc scen) {
			defer wg.Done()
			m := &endpoint.Manager{
				EndpointTester: func(e endpoint.Endpoint) endpoint.Tester {
					return func(ctx context.Context, d string) error {
						if err := ctx.Err(); err != nil {
							return err // like any network call with an expired context
						}
						switch sc.health[e.(*fakeEP).id] {
						case "ok":
							return nil
						case "hang":
							<-ctx.Done()
							return ctx.Err()
						}
						return errPlain
					}
				},
			}
			for _, p := range sc.provs {
				var eps []endpoint.Endpoint
				for _, t := range strings.Split(p[1:], ",") {
					var id int
					fmt.Sscanf(t, "%d", &id)
					eps = append(eps, &fakeEP{id})
				}
				m.Providers = append(m.Providers, endpoint.StaticProvider(eps))
			}
			start := time.Now()
			var err error
			got := "none"
			if i%2 == 1 {
				// background election: the first listed endpoint is elected while healthy, then the scripted health
				// applies and a failed query (error threshold 1) starts the recovery election in the background
				saved := sc.health
				sc.health = map[int]string{}
				for id := range saved {
					sc.health[id] = "ok"
				}
				m.ErrorThreshold = 1
				err = m.Test(context.Background())
				sc.health = saved
				_ = m.Do(context.Background(), func(e endpoint.Endpoint) error { return errPlain })
				nhang := 0
				for _, h := range saved {
					if h == "hang" {
						nhang++
					}
				}
				time.Sleep(time.Duration(nhang)*5*time.Second + 1500*time.Millisecond)
			} else {
				err = m.Test(context.Background())
			}
			ae, present, _ := m.VerifActive()
			if present {
				got = ae.Endpoint
			}
			var ht []string
			for id := 1; id <= len(sc.health); id++ {
				ht = append(ht, fmt.Sprintf("%d=%s", id, sc.health[id]))
			}
			out[i] = strings.Join([]string{"mgrhang", itoa(i), strings.Join(sc.provs, "|"), strings.Join(ht, ","), "=>", got, b2s(err == nil),
				fmt.Sprint(time.Since(start).Milliseconds())}, " ")
		}(i, sc)
	}
	wg.Wait()
	for _, l := range out {
		fmt.Println(l)
	}
	return nil
}

func managerEngine(args []string) error {
	c := parseCommon("manager", args)
	if c.mode == "hang" {
		return managerHang(c)
	}
	if c.mode != "one" {
		// parent: one child process per script, so that a crash (panic in a background
		// goroutine of the manager) is attributed to the script that caused it
		var wg sync.WaitGroup
		sem := make(chan struct{}, 8)
		for i := 0; i < c.n; i++ {
			wg.Add(1)
			sem <- struct{}{}
			go func(i int) {
				defer wg.Done()
				defer func() { <-sem }()
				cmd := exec.Command(os.Args[0], "manager", "-mode", "one", "-seed", fmt.Sprint(c.seed), "-n", fmt.Sprint(i))
				out, err := cmd.Output()
				// a watchdog verdict must reproduce: a deadlock is a property of the script, a slow machine is not
				for try := 0; try < 2 && err == nil && strings.Contains(string(out), "STUCK"); try++ {
					cmd = exec.Command(os.Args[0], "manager", "-mode", "one", "-seed", fmt.Sprint(c.seed), "-n", fmt.Sprint(i))
					out, err = cmd.Output()
				}
				if err != nil {
					msg := "crash"
					if ee, ok := err.(*exec.ExitError); ok {
						lines := strings.Split(strings.TrimSpace(string(ee.Stderr)), "\n")
						for _, l := range lines {
							if strings.HasPrefix(l, "panic:") || strings.HasPrefix(l, "fatal error:") {
								msg = strings.ReplaceAll(l, " ", "_")
								break
							}
						}
					}
					emit("mgr", itoa(i), "crash", "-", "-", fmt.Sprintf("seed=%d,script=%d", c.seed, i), "=>", "CRASH:"+msg, "-")
					return
				}
				outMu.Lock()
				os.Stdout.Write(out)
				outMu.Unlock()
			}(i)
		}
		wg.Wait()
		return nil
	}
	for sidx := c.n; sidx < c.n+1; sidx++ {
		r := newRng(c.seed*1000003 + uint64(sidx))
		w := &mgrWorld{health: map[int]string{}, now: time.Unix(1000000000, 0)}
		np := r.rng(1, 3)
		epid := 1
		for j := 0; j < np; j++ {
			k := r.intn(4)
			if sidx%7 == 0 && j == 0 && r.coin(50) {
				k = 0
			}
			var ids []string
			for x := 0; x < k; x++ {
				ids = append(ids, itoa(epid))
				if r.coin(70) {
					w.health[epid] = "ok"
				} else {
					w.health[epid] = "fail"
				}
				epid++
			}
			w.provs = append(w.provs, "e"+strings.Join(ids, ","))
		}
		nEps := epid - 1
		threshold := r.rng(1, 4)
		useInit := r.coin(50)
		forcedStarts := 0
		if sidx == 0 {
			// corpus: bootstrap election hitting a network-unreachable provider error, then another query (F2)
			for j := range w.provs {
				w.provs[j] = "u"
			}
			useInit = false
			forcedStarts = 2
		}
		initID := 0
		w.m = &endpoint.Manager{
			ErrorThreshold:  threshold,
			MinTestInterval: 100 * time.Second,
			GetMinTestInterval: func(e endpoint.Endpoint) time.Duration {
				if fe, ok := e.(*fakeEP); ok && fe.id%3 == 0 {
					return 5 * time.Second
				}
				return 0
			},
			EndpointTester: func(e endpoint.Endpoint) endpoint.Tester {
				return func(ctx context.Context, d string) error {
					id := e.(*fakeEP).id
					w.logf("probe:%d", id)
					w.mu.Lock()
					h := w.health[id]
					w.mu.Unlock()
					switch h {
					case "ok":
						return nil
					case "unreach":
						return fmt.Errorf("probe: %w", errUnreach)
					}
					return errPlain
				}
			},
			OnChange: func(e endpoint.Endpoint) {
				if fe, ok := e.(*fakeEP); ok {
					w.logf("change:%d", fe.id)
				} else {
					w.logf("change:NIL")
				}
			},
			OnError: func(e endpoint.Endpoint, err error) {
				if fe, ok := e.(*fakeEP); ok {
					w.logf("error:%d", fe.id)
				} else {
					w.logf("error:NIL")
				}
			},
			OnProviderError: func(p endpoint.Provider, err error) { w.logf("proverr") },
		}
		for j := 0; j < np; j++ {
			w.m.Providers = append(w.m.Providers, w.provider(j))
		}
		if useInit {
			initID = 50 + r.intn(2)
			if r.coin(40) && nEps > 0 {
				initID = r.rng(1, nEps)
			}
			w.m.InitEndpoint = &fakeEP{initID}
			if _, ok := w.health[initID]; !ok {
				w.health[initID] = "fail"
			}
		}
		w.m.VerifSetNow(func() time.Time {
			w.mu.Lock()
			defer w.mu.Unlock()
			return w.now
		})
		cfgTok := fmt.Sprintf("%d/%d", threshold, initID)
		provTok := strings.Join(w.provs, "|")
		var healthTok []string
		for id := 1; id <= nEps; id++ {
			healthTok = append(healthTok, fmt.Sprintf("%d=%s", id, w.health[id]))
		}
		if useInit && initID > nEps {
			healthTok = append(healthTok, fmt.Sprintf("%d=%s", initID, w.health[initID]))
		}
		type inflight struct {
			q       int
			release chan bool
			done    chan error
		}
		var fl []*inflight
		var ops, snaps []string
		stuck := false
		nextQ := 1
		nops := r.rng(6, 30)
		settle := func() {
			// wait until every election that was spawned sits at the gate or behind the mutex
			deadline := time.Now().Add(300 * time.Millisecond)
			for time.Now().Before(deadline) {
				w.noteActive()
				p := w.pendingElections()
				if p == 0 {
					return
				}
				if int(atomic.LoadInt32(&w.waiting)) >= 1 {
					return
				}
				time.Sleep(100 * time.Microsecond)
			}
		}
		for i := 0; i < nops && !stuck; i++ {
			pend := w.pendingElections()
			atGate := atomic.LoadInt32(&w.waiting) > 0
			x := r.intn(100)
			if forcedStarts > 0 {
				forcedStarts--
				x = 0
			}
			switch {
			case x < 30 && len(fl) < 4 && !atGate:
				// start a query (only while no election holds the manager lock: it would just wait)
				_, present, _ := w.m.VerifActive()
				if !present && w.m.InitEndpoint == nil {
					atomic.AddInt32(&w.tokens, 1) // bootstrap election runs inside Do
				}
				f := &inflight{q: nextQ, release: make(chan bool, 1), done: make(chan error, 1)}
				nextQ++
				entered := make(chan int, 1)
				go func() {
					err := w.m.Do(context.Background(), func(e endpoint.Endpoint) error {
						if _, ok := e.(*fakeEP); !ok {
							entered <- -1 // nil endpoint handed to the action
							<-f.release
							return errPlain
						}
						entered <- e.(*fakeEP).id
						if ok := <-f.release; !ok {
							return errPlain
						}
						return nil
					})
					f.done <- err
				}()
				select {
				case id := <-entered:
					w.logf("used:%d:%d", f.q, id)
					fl = append(fl, f)
				case err := <-f.done:
					_ = err
					w.logf("qerr:%d", f.q)
					atomic.StoreInt32(&w.tokens, 0)
				case <-time.After(2 * time.Second):
					w.logf("STUCK:qstart:%d", f.q)
					stuck = true
				}
				ops = append(ops, fmt.Sprintf("Q+%d", f.q))
				w.noteActive()
				settle()
			case x < 55 && len(fl) > 0:
				k := r.intn(len(fl))
				f := fl[k]
				fl = append(fl[:k], fl[k+1:]...)
				ok := r.coin(45)
				f.release <- ok
				select {
				case <-f.done:
				case <-time.After(2 * time.Second):
					w.logf("STUCK:qend:%d", f.q)
					stuck = true
				}
				ops = append(ops, fmt.Sprintf("Q-%d:%s", f.q, b2s(ok)))
				settle()
			case x < 72 && pend > 0 && atGate:
				before := pend
				atomic.AddInt32(&w.tokens, 1)
				deadline := time.Now().Add(2 * time.Second)
				for w.pendingElections() >= before && time.Now().Before(deadline) {
					time.Sleep(100 * time.Microsecond)
				}
				if w.pendingElections() >= before {
					w.logf("STUCK:elect")
					stuck = true
				}
				ops = append(ops, "E")
				w.noteActive()
				settle()
			case x < 82:
				dt := []int{1, 3, 6, 11, 50, 101, 200, 8000}[r.intn(8)]
				w.mu.Lock()
				w.now = w.now.Add(time.Duration(dt) * time.Second)
				w.mu.Unlock()
				ops = append(ops, fmt.Sprintf("T%d", dt))
			case x < 92 && nEps > 0:
				id := r.rng(1, nEps)
				if useInit && r.coin(20) {
					id = initID
				}
				h := []string{"ok", "fail", "ok", "fail", "unreach"}[r.intn(5)]
				w.mu.Lock()
				w.health[id] = h
				w.mu.Unlock()
				ops = append(ops, fmt.Sprintf("H%d=%s", id, h))
			case x < 96 && !atGate:
				j := r.intn(np)
				w.mu.Lock()
				old := w.provs[j]
				nv := []string{"p", "u", old, old, "e"}[r.intn(5)]
				if old == "p" || old == "u" || old == "e" {
					// give it endpoints back: reuse existing ids
					var ids []string
					for id := 1; id <= nEps; id++ {
						if r.coin(40) {
							ids = append(ids, itoa(id))
						}
					}
					nv = "e" + strings.Join(ids, ",")
				}
				w.provs[j] = nv
				w.mu.Unlock()
				ops = append(ops, fmt.Sprintf("P%d=%s", j, nv))
			default:
				continue
			}
			snaps = append(snaps, w.snapshot())
		}
		w.mu.Lock()
		lg := strings.Join(w.log, ",")
		w.mu.Unlock()
		// drain: let pending elections and queries finish so no goroutine is left behind
		atomic.StoreInt32(&w.tokens, 1000)
		for _, f := range fl {
			f.release <- true
			select {
			case <-f.done:
			case <-time.After(time.Second):
			}
		}
		time.Sleep(2 * time.Millisecond)
		if lg == "" {
			lg = "-"
		}
		if len(ops) == 0 {
			continue
		}
		emit("mgr", itoa(sidx), cfgTok, provTok, strings.Join(healthTok, ","), strings.Join(ops, ";"), "=>", lg, strings.Join(snaps, ";"))
	}
	return nil
}
