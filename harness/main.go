package main

import (
	"flag"
	"fmt"
	"os"
	"path/filepath"
)

type engine struct {
	name string
	run  func(args []string) error
}

var engines = map[string]func(args []string) error{}

func register(name string, f func(args []string) error) { engines[name] = f }

func main() {
	if shimMain(filepath.Base(os.Args[0]), os.Args[1:]) {
		return
	}
	if len(os.Args) < 2 {
		fmt.Fprintln(os.Stderr, "usage: nxh <engine> [flags]")
		os.Exit(2)
	}
	f, ok := engines[os.Args[1]]
	if !ok {
		fmt.Fprintln(os.Stderr, "unknown engine", os.Args[1])
		os.Exit(2)
	}
	if err := f(os.Args[2:]); err != nil {
		fmt.Fprintln(os.Stderr, "nxh:", err)
		os.Exit(3)
	}
}

// common flags
type common struct {
	seed  uint64
	n     int
	mode  string
	fs    *flag.FlagSet
	extra string
}

func parseCommon(name string, args []string) *common {
	c := &common{}
	c.fs = flag.NewFlagSet(name, flag.ExitOnError)
	c.fs.Uint64Var(&c.seed, "seed", 1, "PRNG seed")
	c.fs.IntVar(&c.n, "n", 100, "number of generated cases")
	c.fs.StringVar(&c.mode, "mode", "", "engine mode")
	c.fs.StringVar(&c.extra, "replay", "", "replay: one input line (engine-specific)")
	_ = c.fs.Parse(args)
	return c
}
