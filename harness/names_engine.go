package main

// Engine "clientinfo -mode names" (C14, C18): names with arbitrary bytes (control, non-ASCII, invalid UTF-8,
// escape sequences) as LAN devices may advertise them, through the real readers -- the mDNS packet reader over a
// UDP socket, the hosts-file reader, both lease-file readers -- followed by the lookups the daemon makes per query.
// No model comparison (lower-casing of non-ASCII text is outside the models): the readers and lookups must return.
//   names <id> <source> <namehex> => ok | panic:<msg> | hang
// (the mDNS reader runs in a goroutine of its own: a panic there ends the process, which the check reports)

import (
	"context"
	"fmt"
	"net"
	"os"
	"path/filepath"
	"time"

	"github.com/nextdns/nextdns/discovery"
)

func weirdName(r *rng) string {
	switch r.intn(6) {
	case 0:
		return randName(r)
	case 1: // Latin-1 / invalid UTF-8
		return []string{"caf\xe9-tv", "\xff\xfe", "t\xe9l\xe9", "M\xfcller-PC", "\xc3\x28", "a\x80b", "\xed\xa0\x80x"}[r.intn(7)]
	case 2: // well-formed UTF-8
		return []string{"Émile", "日本語", "naïve-box", "Ω-lab"}[r.intn(4)]
	case 3:
		b := r.bytes(r.rng(1, 24))
		for i := range b {
			if b[i] == '\n' || b[i] == ' ' || b[i] == '\t' || b[i] == '#' || b[i] == 0 {
				b[i] = 0xe9
			}
		}
		return string(b)
	case 4:
		return "dev" + nameEscapes[r.intn(len(nameEscapes))] + "x"
	default:
		return string(randLabel(r, 12)) + string([]byte{byte(0x80 + r.intn(128))})
	}
}

func guarded(f func()) string {
	res := make(chan string, 1)
	go func() {
		defer func() {
			if e := recover(); e != nil {
				res <- "panic:" + sx(fmt.Sprint(e))
			}
		}()
		f()
		res <- "ok"
	}()
	select {
	case s := <-res:
		return s
	case <-time.After(2 * time.Second):
		return "hang"
	}
}

func namesEngine(r *rng, n int) error {
	dir, err := os.MkdirTemp("", "nxnames")
	if err != nil {
		return err
	}
	defer os.RemoveAll(dir)
	m := &discovery.MDNS{}
	conn, err := net.ListenUDP("udp4", &net.UDPAddr{IP: net.IP{127, 0, 0, 1}, Port: 0})
	if err != nil {
		return err
	}
	ctx, cancel := context.WithCancel(context.Background())
	defer cancel()
	go m.VerifRead(ctx, conn)
	cl, err := net.DialUDP("udp4", nil, conn.LocalAddr().(*net.UDPAddr))
	if err != nil {
		return err
	}
	defer cl.Close()
	defer conn.Close()
	for i := 0; i < n; i++ {
		name := weirdName(r)
		ip := fmt.Sprintf("10.9.%d.%d", (i>>8)&255, i&255)
		var out string
		src := []string{"mdns", "hosts", "dnsmasq", "isc-dhcpd"}[i%4]
		switch src {
		case "mdns":
			// one label (dots split the name on the wire), at most 63 bytes
			lab := []byte(name)
			if len(lab) > 50 {
				lab = lab[:50]
			}
			if len(lab) == 0 {
				lab = []byte{0xe9}
			}
			ms := msgSpec{id: 0, flags: 0x8400}
			ms.an = append(ms.an, rr{name: encodeLabels([][]byte{lab, []byte("local")}), typ: 1, class: 0x8001, ttl: 120, rdata: net.ParseIP(ip).To4()})
			_, _ = cl.Write(ms.encode())
			time.Sleep(300 * time.Microsecond)
			out = guarded(func() {
				_ = m.LookupAddr(ip)
				_ = m.LookupHost(name + ".local.")
				m.Visit(func(string, []string) {})
			})
		case "hosts":
			p := filepath.Join(dir, "hosts")
			_ = os.WriteFile(p, []byte(ip+" "+name+" plain-"+itoa(i)+"\n"), 0644)
			out = guarded(func() { _, _, _ = discovery.VerifReadHostsFile(p) })
			if out == "ok" {
				out = guarded(func() { _ = discovery.VerifPrepareHostLookup(name) })
			}
		case "dnsmasq":
			content := fmt.Sprintf("1600000000 aa:bb:cc:00:%02x:%02x %s %s 01:aa:bb:cc:00:00:01\n", (i>>8)&255, i&255, ip, name)
			out = guarded(func() { _, _, _, _ = discovery.VerifReadLease("dnsmasq", []byte(content)) })
		default:
			content := fmt.Sprintf("lease %s {\n  hardware ethernet aa:bb:cc:00:%02x:%02x;\n  client-hostname \"%s\";\n}\n", ip, (i>>8)&255, i&255, name)
			out = guarded(func() { _, _, _, _ = discovery.VerifReadLease("isc-dhcpd", []byte(content)) })
		}
		emit("names", itoa(i), src, sx(name), "=>", out)
	}
	// the reader goroutine must still be alive and the tables usable
	out := guarded(func() { _ = m.LookupAddr("10.9.0.0") })
	emit("names", "final", "mdns", "-", "=>", out)
	return nil
}
