package main

// Engine "racestress" (C15): the query path and its background tasks hammered
// concurrently in a binary built with the Go race detector.  The parent process
// runs the -race build of this harness (mode child) with GORACE=log_path and turns
// every report whose stacks touch /repo packages into one output line.

import (
	"context"
	"fmt"
	"net"
	"os"
	"os/exec"
	"path/filepath"
	"regexp"
	"sort"
	"strings"
	"sync"
	"sync/atomic"
	"time"

	"github.com/nextdns/nextdns/discovery"
	"github.com/nextdns/nextdns/proxy"
	"github.com/nextdns/nextdns/resolver"
	"github.com/nextdns/nextdns/resolver/endpoint"
	"github.com/nextdns/nextdns/resolver/query"
)

func init() { register("racestress", raceEngine) }

func raceEngine(args []string) error {
	c := parseCommon("racestress", args)
	if c.mode == "child" {
		return raceChild(time.Duration(c.n) * time.Second)
	}
	raceBin := filepath.Join(filepath.Dir(os.Args[0]), "nxh-race")
	if _, err := os.Stat(raceBin); err != nil {
		return fmt.Errorf("race build of the harness missing: %v", err)
	}
	dir, err := os.MkdirTemp("", "nxrace")
	if err != nil {
		return err
	}
	defer os.RemoveAll(dir)
	cmd := exec.Command(raceBin, "racestress", "-mode", "child", "-n", fmt.Sprint(c.n))
	cmd.Env = append(os.Environ(), "GORACE=halt_on_error=0 log_path="+filepath.Join(dir, "race"))
	out, err := cmd.CombinedOutput()
	if err != nil && !strings.Contains(string(out), "exit status 66") {
		if _, ok := err.(*exec.ExitError); !ok {
			return fmt.Errorf("race child: %v: %s", err, out)
		}
	}
	// the child dying of a Go runtime abort inside the code under test (e.g. "concurrent map read and map write")
	// is the daemon crashing under concurrent load
	if m := regexp.MustCompile(`(?m)^(fatal error: .*|panic: .*)$`).FindStringIndex(string(out)); m != nil {
		rest := string(out)[m[0]:]
		what := strings.SplitN(rest, "\n", 2)[0]
		var fr []string
		for _, fm := range regexp.MustCompile(`(?m)^(github\.com/nextdns/nextdns/[^\s(]+)\(`).FindAllStringSubmatch(rest, 4) {
			fr = append(fr, strings.TrimPrefix(fm[1], "github.com/nextdns/nextdns/"))
		}
		if len(fr) > 0 {
			emit("race", "crash", "stress", itoa(c.n), "=>", "crash", sx(what), strings.Join(fr, "|"))
		}
	}
	files, _ := filepath.Glob(filepath.Join(dir, "race.*"))
	sigs := map[string]int{}
	frame := regexp.MustCompile(`^\s+(github\.com/nextdns/nextdns/\S+)\(`)
	for _, f := range files {
		b, _ := os.ReadFile(f)
		for _, rep := range strings.Split(string(b), "WARNING: DATA RACE") {
			var fr []string
			seen := map[string]bool{}
			for _, l := range strings.Split(rep, "\n") {
				if m := frame.FindStringSubmatch(l); m != nil {
					fn := strings.TrimPrefix(m[1], "github.com/nextdns/nextdns/")
					if !seen[fn] && len(fr) < 4 {
						seen[fn] = true
						fr = append(fr, fn)
					}
				}
			}
			if len(fr) > 0 {
				sort.Strings(fr)
				sigs[strings.Join(fr, "|")]++
			}
		}
	}
	if len(sigs) == 0 {
		emit("race", "0", "stress", itoa(c.n), "=>", "none")
		return nil
	}
	i := 0
	for s, n := range sigs {
		emit("race", itoa(i), "stress", itoa(c.n), "=>", s, itoa(n))
		i++
	}
	return nil
}

func raceChild(d time.Duration) error {
	stop := make(chan struct{})
	var wg sync.WaitGroup
	spawn := func(f func()) {
		wg.Add(1)
		go func() {
			defer wg.Done()
			for {
				select {
				case <-stop:
					return
				default:
					f()
				}
			}
		}()
	}
	// --- hosts and lease tables: lookups racing refreshes ---
	hosts := &discovery.Hosts{}
	dhcp := &discovery.DHCP{}
	for i := 0; i < 4; i++ {
		spawn(func() {
			for _, n := range hosts.LookupAddr("127.0.0.1") {
				_ = len(n)
			}
			_ = hosts.LookupHost("localhost")
			hosts.Visit(func(name string, addrs []string) { _ = len(addrs) })
			_ = dhcp.LookupHost("laptop")
			_ = dhcp.LookupAddr("192.168.1.10")
			_ = dhcp.LookupMAC("00:11:22:33:44:55")
		})
	}
	spawn(func() { hosts.VerifExpire(); dhcp.VerifExpire(); time.Sleep(500 * time.Microsecond) })
	// in a private mount namespace: a scratch /etc whose hosts file lists names with several addresses in the order
	// an owner wrote them (not sorted) and is rewritten all the time, so that every few lookups work on a fresh table
	multiHosts := false
	if dir, err := os.MkdirTemp("", "nxrace"); err == nil {
		defer os.RemoveAll(dir)
		if bindOver(dir, "/etc") == nil {
			multiHosts = true
			variants := []string{
				"127.0.0.1 localhost\n10.0.1.9 multi.example nas\n10.0.1.5 multi.example\n10.0.1.7 multi.example\nfd00::9 multi.example\nfd00::2 multi.example\n",
				"127.0.0.1 localhost\n10.0.1.8 multi.example\n10.0.1.3 multi.example nas\n10.0.1.2 nas\n",
				"127.0.0.1 localhost\n10.9.9.9 multi.example\n10.1.1.1 multi.example\n10.5.5.5 multi.example\n10.0.0.1 multi.example\nfd00::f nas\nfd00::1 nas\n"}
			k := 0
			wh := func() {
				k++
				_ = os.WriteFile("/etc/hosts.tmp", []byte(variants[k%len(variants)]), 0644)
				t := time.Unix(1700000000+int64(k), 0)
				_ = os.Chtimes("/etc/hosts.tmp", t, t)
				_ = os.Rename("/etc/hosts.tmp", "/etc/hosts")
			}
			wh()
			spawn(func() { wh(); time.Sleep(time.Millisecond) })
			lr := discovery.Resolver{hosts}
			for i := 0; i < 4; i++ {
				spawn(func() {
					_ = lr.LookupHost("multi.example.")
					_ = lr.LookupHost("nas.")
					_ = lr.LookupAddr("10.0.1.9")
				})
			}
		}
	}
	// the other table sources through the public interface
	merlin, ubios, fw := &discovery.Merlin{}, &discovery.Ubios{}, &discovery.Firewalla{}
	for i := 0; i < 2; i++ {
		spawn(func() {
			_ = merlin.LookupMAC("00:11:22:33:44:55")
			_ = ubios.LookupMAC("00:11:22:33:44:55")
			_ = fw.LookupMAC("00:11:22:33:44:55")
		})
	}
	// --- mDNS: packets in, lookups iterating what they got back ---
	m := &discovery.MDNS{}
	conn, err := net.ListenUDP("udp4", &net.UDPAddr{IP: net.IP{127, 0, 0, 1}, Port: 0})
	if err == nil {
		ctx, cancel := context.WithCancel(context.Background())
		go m.VerifRead(ctx, conn)
		cl, _ := net.DialUDP("udp4", nil, conn.LocalAddr().(*net.UDPAddr))
		r := newRng(7)
		var mu sync.Mutex
		spawn(func() {
			mu.Lock()
			i := r.intn(40)
			pkt := mdnsPacket(fmt.Sprintf("Dev%d.local", i), []net.IP{{10, 0, 0, byte(r.intn(4))}}, false, r)
			mu.Unlock()
			_, _ = cl.Write(pkt)
			time.Sleep(50 * time.Microsecond)
		})
		for i := 0; i < 3; i++ {
			spawn(func() {
				for k := 0; k < 4; k++ {
					for _, n := range m.LookupAddr(fmt.Sprintf("10.0.0.%d", k)) {
						_ = len(n) + int(n[0])
					}
				}
				for _, a := range m.LookupHost("dev3.local.") {
					_ = len(a)
				}
				m.Visit(func(name string, addrs []string) {
					for _, a := range addrs {
						_ = len(a)
					}
				})
			})
		}
		defer func() { cancel(); conn.Close(); cl.Close() }()
	}
	// --- endpoint manager: queries racing elections that fall back to the active endpoint ---
	var fail int32 = 1
	mgr := &endpoint.Manager{
		Providers: []endpoint.Provider{endpoint.StaticProvider([]endpoint.Endpoint{&fakeEP{1}, &fakeEP{2}})},
		EndpointTester: func(e endpoint.Endpoint) endpoint.Tester {
			return func(ctx context.Context, d string) error {
				if atomic.LoadInt32(&fail) == 1 {
					return errPlain
				}
				return nil
			}
		},
		ErrorThreshold:  2,
		MinTestInterval: time.Millisecond,
	}
	for i := 0; i < 4; i++ {
		k := i
		spawn(func() {
			_ = mgr.Do(context.Background(), func(e endpoint.Endpoint) error {
				if k%2 == 0 {
					return errPlain
				}
				return nil
			})
		})
	}
	spawn(func() { atomic.StoreInt32(&fail, 1-atomic.LoadInt32(&fail)); _ = mgr.Test(context.Background()); time.Sleep(200 * time.Microsecond) })
	// --- the proxy itself: concurrent UDP and TCP queries through a caching DNS53 resolver ---
	up, err := startDNS53(5399)
	if err == nil {
		defer up.conn.Close()
		cache := &histCache{m: map[interface{}]interface{}{}}
		res := &resolver.DNS{
			DNS53: resolver.DNS53{Cache: cache, MaxTTL: 30},
			Manager: &endpoint.Manager{Providers: []endpoint.Provider{endpoint.StaticProvider([]endpoint.Endpoint{&endpoint.DNSEndpoint{Addr: "127.0.0.1:5399"}})},
				EndpointTester: func(e endpoint.Endpoint) endpoint.Tester {
					return func(ctx context.Context, d string) error { return nil }
				}},
		}
		p := proxy.Proxy{Addrs: []string{"127.0.0.1:5398"}, Upstream: res, Timeout: 300 * time.Millisecond, MaxInflightRequests: 32,
			LocalResolver: discovery.Resolver{hosts}, DiscoveryResolver: discovery.Resolver{m, dhcp}, BogusPriv: true}
		ctx, cancel := context.WithCancel(context.Background())
		go func() { _ = p.ListenAndServe(ctx) }()
		defer cancel()
		time.Sleep(100 * time.Millisecond)
		r2 := newRng(9)
		var mu2 sync.Mutex
		for i := 0; i < 6; i++ {
			tcp := i >= 4
			spawn(func() {
				mu2.Lock()
				name := []string{"a.example", "b.example", "localhost", "4.3.2.10.in-addr.arpa", "dev3.local"}[r2.intn(5)]
				if multiHosts && r2.coin(35) {
					name = []string{"multi.example", "nas", "MULTI.example"}[r2.intn(3)]
				}
				typ := []int{1, 28, 12}[r2.intn(3)]
				if r2.coin(40) {
					typ = r2.intn(65536) // any type, assigned or not, mostly never seen before
				}
				id := r2.intn(65536)
				mu2.Unlock()
				q := msgSpec{id: id, flags: 0x0100, qs: [][]byte{question(encodeName(name), typ, 1)}}.encode()
				if tcp {
					tcpExchange("127.0.0.1:5398", frame(q), 1, 200*time.Millisecond, time.Millisecond)
				} else {
					udpExchange("127.0.0.1:5398", q, 200*time.Millisecond, time.Millisecond)
				}
			})
		}
		_ = query.TypeA
		spawn(func() { _ = res.CacheStats; time.Sleep(time.Millisecond) })
	}
	time.Sleep(d)
	close(stop)
	wg.Wait()
	return nil
}
