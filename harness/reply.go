package main

// Engine "reply": the real proxy.Proxy serving on loopback UDP+TCP, with a
// scripted fake resolver.Resolver as Upstream. Serves C01 C02 C04 C05 C13.

import (
	"context"
	"encoding/binary"
	"errors"
	"fmt"
	"io"
	"net"
	"sync"
	"sync/atomic"
	"time"

	"github.com/nextdns/nextdns/proxy"
	"github.com/nextdns/nextdns/resolver"
	"github.com/nextdns/nextdns/resolver/query"
)

type behaviour struct {
	kind string // up | err | empty | panic | hang
	msg  []byte
	gate chan struct{} // when non-nil Resolve blocks on it first
}

type upCall struct {
	name    string
	payload []byte
}

type fakeUp struct {
	mu        sync.Mutex
	script    map[string]*behaviour // by q.Name
	cur       *behaviour            // default for unscripted names
	calls     []upCall
	active    int32
	maxActive int32
	arrived   chan string // optional: names as they arrive
}

func (u *fakeUp) Resolve(ctx context.Context, q query.Query, buf []byte) (int, resolver.ResolveInfo, error) {
	var ri resolver.ResolveInfo
	u.mu.Lock()
	b := u.script[q.Name]
	if b == nil {
		b = u.cur
	}
	u.calls = append(u.calls, upCall{q.Name, append([]byte{}, q.Payload...)})
	u.mu.Unlock()
	a := atomic.AddInt32(&u.active, 1)
	for {
		m := atomic.LoadInt32(&u.maxActive)
		if a <= m || atomic.CompareAndSwapInt32(&u.maxActive, m, a) {
			break
		}
	}
	defer atomic.AddInt32(&u.active, -1)
	if u.arrived != nil {
		select {
		case u.arrived <- q.Name:
		default:
		}
	}
	if b == nil {
		return 0, ri, errors.New("unscripted")
	}
	if b.gate != nil {
		select {
		case <-b.gate:
		case <-ctx.Done():
			return 0, ri, ctx.Err()
		}
	}
	switch b.kind {
	case "up":
		n := copy(buf, b.msg)
		return n, ri, nil
	case "err":
		return 0, ri, errors.New("scripted upstream error")
	case "errn": // error with stale bytes left in buf and n>0 (cache fallback contract)
		n := copy(buf, b.msg)
		return n, ri, errors.New("scripted upstream error with fallback")
	case "empty":
		return 0, ri, nil
	case "panic":
		panic("scripted upstream panic")
	case "hang":
		<-ctx.Done()
		return 0, ri, ctx.Err()
	}
	return 0, ri, errors.New("bad behaviour")
}

func (u *fakeUp) takeCalls() []upCall {
	u.mu.Lock()
	c := u.calls
	u.calls = nil
	u.mu.Unlock()
	return c
}

type world struct {
	addr   string
	up     *fakeUp
	cancel context.CancelFunc
	done   chan error
	errs   int32
}

func newWorld(port int, k uint, timeout time.Duration) (*world, error) {
	w := &world{addr: fmt.Sprintf("127.0.0.1:%d", port), up: &fakeUp{script: map[string]*behaviour{}}}
	p := proxy.Proxy{
		Addrs:               []string{w.addr},
		Upstream:            w.up,
		Timeout:             timeout,
		MaxInflightRequests: k,
		ErrorLog:            func(error) { atomic.AddInt32(&w.errs, 1) },
	}
	ctx, cancel := context.WithCancel(context.Background())
	w.cancel = cancel
	w.done = make(chan error, 1)
	go func() { w.done <- p.ListenAndServe(ctx) }()
	// wait until both sockets answer
	deadline := time.Now().Add(3 * time.Second)
	for {
		c, err := net.DialTimeout("tcp", w.addr, 200*time.Millisecond)
		if err == nil {
			c.Close()
			break
		}
		if time.Now().After(deadline) {
			cancel()
			return nil, fmt.Errorf("proxy did not start on %s: %v", w.addr, err)
		}
		time.Sleep(10 * time.Millisecond)
	}
	time.Sleep(30 * time.Millisecond) // UDP listener is started by a sibling goroutine
	return w, nil
}

func (w *world) stop() {
	w.cancel()
	select {
	case <-w.done:
	case <-time.After(2 * time.Second):
	}
}

// udpExchange sends one datagram from a fresh socket and collects every reply
// that arrives: the first within `wait`, then any extra within `extra`.
func udpExchange(addr string, q []byte, wait, extra time.Duration) [][]byte {
	c, err := net.Dial("udp", addr)
	if err != nil {
		return nil
	}
	defer c.Close()
	if _, err := c.Write(q); err != nil {
		return nil
	}
	var out [][]byte
	buf := make([]byte, 70000)
	_ = c.SetReadDeadline(time.Now().Add(wait))
	for {
		n, err := c.Read(buf)
		if err != nil {
			return out
		}
		out = append(out, append([]byte{}, buf[:n]...))
		_ = c.SetReadDeadline(time.Now().Add(extra))
	}
}

// tcpExchange writes the given raw bytes (already framed by the caller) and
// returns everything the server sent until `want` bytes-frames are complete, the
// peer closes, or the deadline passes. closed reports whether EOF was seen.
func tcpExchange(addr string, raw []byte, wantFrames int, wait, extra time.Duration) (stream []byte, closed bool) {
	c, err := net.Dial("tcp", addr)
	if err != nil {
		return nil, true
	}
	defer c.Close()
	if _, err := c.Write(raw); err != nil {
		return nil, true
	}
	buf := make([]byte, 70000)
	_ = c.SetReadDeadline(time.Now().Add(wait))
	for {
		n, err := c.Read(buf)
		stream = append(stream, buf[:n]...)
		if err != nil {
			return stream, err == io.EOF
		}
		if wantFrames > 0 && countFrames(stream) >= wantFrames {
			_ = c.SetReadDeadline(time.Now().Add(extra))
			wantFrames = 0
		}
	}
}

func countFrames(s []byte) int {
	n := 0
	for len(s) >= 2 {
		l := int(binary.BigEndian.Uint16(s))
		if len(s) < 2+l {
			break
		}
		s = s[2+l:]
		n++
	}
	return n
}

func frame(q []byte) []byte {
	b := make([]byte, 2, 2+len(q))
	binary.BigEndian.PutUint16(b, uint16(len(q)))
	return append(b, q...)
}

// upstream message for a query: echo id + question, response flags, then filler up to r bytes
func upstreamMsg(q []byte, qlen int, r int, seed int, flags int) (prefix []byte, fill int) {
	// header + question copied from the query (qlen = 12 + question length)
	h := append([]byte{}, q[:qlen]...)
	h[2] = byte(flags >> 8)
	h[3] = byte(flags)
	h[4], h[5] = 0, 1
	h[6], h[7], h[8], h[9], h[10], h[11] = 0, 0, 0, 0, 0, 0
	if r <= len(h) {
		return h[:r], 0
	}
	return h, r - len(h)
}

func init() { register("reply", replyEngine) }

type replyCase struct {
	id      string
	proto   string
	q       []byte
	kind    string
	upPre   []byte
	upFill  int
	upSeed  int
	expectSilence bool
	adv     int // advertised EDNS size intended by the generator: -1 absent, -2 unknown
}

func (c replyCase) upMsg() []byte { return append(append([]byte{}, c.upPre...), filler(c.upFill, c.upSeed)...) }

func runSeq(w *world, c replyCase, timeout time.Duration) {
	b := &behaviour{kind: c.kind, msg: c.upMsg()}
	w.up.mu.Lock()
	w.up.cur = b
	w.up.mu.Unlock()
	w.up.takeCalls()
	wait := timeout + 1500*time.Millisecond
	if c.expectSilence {
		wait = 150 * time.Millisecond
	}
	var nrep int
	var rep []byte
	closed := false
	if c.proto == "udp" {
		rs := udpExchange(w.addr, c.q, wait, 15*time.Millisecond)
		nrep = len(rs)
		if nrep > 0 {
			rep = rs[0]
		}
	} else {
		var s []byte
		s, closed = tcpExchange(w.addr, frame(c.q), 1, wait, 15*time.Millisecond)
		nrep = countFrames(s)
		rep = s // whole stream, prefix included
	}
	calls := w.up.takeCalls()
	saw := "none"
	if len(calls) == 1 {
		saw = hxo(calls[0].payload)
	} else if len(calls) > 1 {
		saw = fmt.Sprintf("multi%d", len(calls))
	}
	head := rep
	if len(head) > 16 {
		head = head[:16]
	}
	emit("reply", c.id, c.proto, hx(c.q), c.kind, hxfill(c.upPre, c.upFill, c.upSeed), itoa(c.adv), "=>",
		itoa(nrep), hxo(rep), b2s(closed), saw, itoa(len(rep)), hx(head))
}

func replyEngine(args []string) error {
	c := parseCommon("reply", args)
	port := c.fs.Lookup("seed") // placeholder to keep flag set used
	_ = port
	r := newRng(c.seed)
	base := 5300
	timeout := 400 * time.Millisecond
	switch c.mode {
	case "c05":
		return replyC05(r, c.n, base, timeout)
	case "seq":
		return replySeq(r, c.n, base, timeout)
	}
	return fmt.Errorf("reply: unknown mode %q", c.mode)
}

func parallelWorlds(nw int, base int, k uint, timeout time.Duration, cases []replyCase) error {
	var wg sync.WaitGroup
	errc := make(chan error, nw)
	for i := 0; i < nw; i++ {
		w, err := newWorld(base+i, k, timeout)
		if err != nil {
			return err
		}
		wg.Add(1)
		go func(i int, w *world) {
			defer wg.Done()
			defer w.stop()
			for j := i; j < len(cases); j += nw {
				runSeq(w, cases[j], timeout)
			}
		}(i, w)
	}
	wg.Wait()
	close(errc)
	return nil
}

// ---- mode c05: boundary lattice of (advertised size, upstream length) ----
func replyC05(r *rng, n int, base int, timeout time.Duration) error {
	adv := []int{-1, 0, 1, 511, 512, 513, 1232, 4093, 4094, 4095, 8000, 65506, 65507}
	var pairs [][2]int
	seen := map[[2]int]bool{}
	add := func(m, l int) {
		if l < 15 {
			l = 15
		}
		if l > 65535 {
			l = 65535
		}
		p := [2]int{m, l}
		if !seen[p] {
			seen[p] = true
			pairs = append(pairs, p)
		}
	}
	for _, m := range adv {
		for _, b := range []int{15, 100, 511, 512, 513, 1232, 4094, 4095, 8000, 65507, 65535, m} {
			if b < 0 {
				continue
			}
			for d := -1; d <= 1; d++ {
				add(m, b+d)
			}
		}
	}
	for i := 0; i < n; i++ {
		m := -1
		switch r.intn(4) {
		case 0:
			m = r.rng(0, 65507)
		case 1:
			m = r.rng(400, 5000)
		case 2:
			m = adv[r.intn(len(adv))]
		}
		l := r.rng(15, 65535)
		if r.coin(60) {
			l = r.rng(15, 6000)
		}
		if m > 0 && r.coin(30) {
			l = m + r.rng(-2, 2)
		}
		add(m, l)
	}
	var cases []replyCase
	for i, p := range pairs {
		m, l := p[0], p[1]
		name := encodeLabels([][]byte{[]byte(fmt.Sprintf("c%d", i)), []byte("test")})
		ms := msgSpec{id: r.intn(65536), flags: 0x0100, qs: [][]byte{question(name, 1, 1)}}
		if m >= 0 {
			ms.ar = []rr{optRR(m, 0, nil)}
		}
		q := ms.encode()
		flags := 0x8180
		if r.coin(10) {
			flags |= 0x0200 // upstream already flagged TC
		}
		pre, fill := upstreamMsg(q, 12+len(name)+4, l, r.intn(256), flags)
		for _, proto := range []string{"udp", "tcp"} {
			cases = append(cases, replyCase{id: fmt.Sprintf("%d/%d/%s", m, l, proto), proto: proto, q: q, kind: "up",
				upPre: pre, upFill: fill, upSeed: i & 0xff, adv: m})
		}
	}
	return parallelWorlds(8, base, 16, timeout, cases)
}

func replySeq(r *rng, n int, base int, timeout time.Duration) error {
	return errors.New("not yet")
}
