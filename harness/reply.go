package main

// Engine "reply": the real proxy.Proxy serving on loopback UDP+TCP, with a
// scripted fake resolver.Resolver as Upstream. Serves C01 C02 C04 C05 C13.

import (
	"bytes"
	"context"
	"encoding/binary"
	"errors"
	"fmt"
	"io"
	"net"
	"sort"
	"strconv"
	"strings"
	"sync"
	"sync/atomic"
	"time"

	"github.com/nextdns/nextdns/discovery"
	"github.com/nextdns/nextdns/proxy"
	"github.com/nextdns/nextdns/resolver/endpoint"
	"github.com/nextdns/nextdns/resolver"
	"github.com/nextdns/nextdns/resolver/query"
)

type behaviour struct {
	kind  string // up | err | empty | panic | hang
	msg   []byte
	gate  chan struct{} // when non-nil Resolve blocks on it first
	grp   *group        // when non-nil: rendezvous with the other queries of the group
	delay time.Duration
}

// group: k handlers rendezvous inside the upstream, then are released together
type group struct {
	mu      sync.Mutex
	want    int
	n       int
	release chan struct{}
}

func newGroup(k int) *group { return &group{want: k, release: make(chan struct{})} }
func (g *group) arrive() {
	g.mu.Lock()
	g.n++
	if g.n == g.want {
		close(g.release)
	}
	g.mu.Unlock()
}

type upCall struct {
	name    string
	payload []byte
}

type fakeUp struct {
	mu        sync.Mutex
	script    map[string]*behaviour // by q.Name
	cur       *behaviour            // default for unscripted names
	calls     []upCall
	gen       int // bumped by takeCalls
	active    int32
	maxActive int32
	arrived   chan string // optional: names as they arrive
	mutated   []string    // fields of a query that changed while it was inside Resolve: "<name> <field> <before> <after>"
}

// takeMutated returns (and forgets) the in-flight changes seen so far
func (u *fakeUp) takeMutated() []string {
	u.mu.Lock()
	m := u.mutated
	u.mutated = nil
	u.mu.Unlock()
	return m
}

func (u *fakeUp) Resolve(ctx context.Context, q query.Query, buf []byte) (int, resolver.ResolveInfo, error) {
	var ri resolver.ResolveInfo
	u.mu.Lock()
	b := u.script[q.Name]
	if b == nil {
		b = u.cur
	}
	u.calls = append(u.calls, upCall{q.Name, append([]byte{}, q.Payload...)})
	callIdx, callGen := len(u.calls)-1, u.gen
	u.mu.Unlock()
	// a real upstream is sent the payload when the connection is there, not when the handler arrives: what the
	// query holds at that later moment is what counts
	resample := func() {
		u.mu.Lock()
		if u.gen == callGen && callIdx < len(u.calls) && !bytes.Equal(u.calls[callIdx].payload, q.Payload) {
			u.calls[callIdx].payload = append([]byte{}, q.Payload...)
		}
		u.mu.Unlock()
	}
	defer resample()
	// the fields of a query are the request's own: whatever other requests arrive meanwhile, they are the same when
	// the upstream is done as they were when it was called (who asked, at which address, with which hardware address)
	peer0, loc0, mac0 := append([]byte{}, q.PeerIP...), append([]byte{}, q.LocalIP...), append([]byte{}, q.MAC...)
	defer func() {
		chk := func(field string, before, after []byte) {
			if !bytes.Equal(before, after) {
				u.mu.Lock()
				u.mutated = append(u.mutated, sx(q.Name)+" "+field+" "+hx(before)+" "+hx(after))
				u.mu.Unlock()
			}
		}
		chk("PeerIP", peer0, q.PeerIP)
		chk("LocalIP", loc0, q.LocalIP)
		chk("MAC", mac0, q.MAC)
	}()
	a := atomic.AddInt32(&u.active, 1)
	for {
		m := atomic.LoadInt32(&u.maxActive)
		if a <= m || atomic.CompareAndSwapInt32(&u.maxActive, m, a) {
			break
		}
	}
	defer atomic.AddInt32(&u.active, -1)
	if u.arrived != nil {
		select {
		case u.arrived <- q.Name:
		default:
		}
	}
	if b == nil {
		return 0, ri, errors.New("unscripted")
	}
	if b.gate != nil {
		select {
		case <-b.gate:
		case <-ctx.Done():
			return 0, ri, ctx.Err()
		}
	}
	if b.grp != nil {
		b.grp.arrive()
		select {
		case <-b.grp.release:
		case <-time.After(300 * time.Millisecond):
		case <-ctx.Done():
			return 0, ri, ctx.Err()
		}
		if b.delay > 0 {
			time.Sleep(b.delay)
		}
	}
	switch b.kind {
	case "up":
		n := copy(buf, b.msg)
		return n, ri, nil
	case "err":
		return 0, ri, errors.New("scripted upstream error")
	case "errn": // error with stale bytes left in buf and n>0 (cache fallback contract)
		n := copy(buf, b.msg)
		return n, ri, errors.New("scripted upstream error with fallback")
	case "empty":
		return 0, ri, nil
	case "panic":
		panic("scripted upstream panic")
	case "hang":
		<-ctx.Done()
		return 0, ri, ctx.Err()
	}
	return 0, ri, errors.New("bad behaviour")
}

func (u *fakeUp) takeCalls() []upCall {
	u.mu.Lock()
	c := u.calls
	u.gen++
	u.calls = nil
	u.mu.Unlock()
	return c
}

type world struct {
	addr   string
	up     *fakeUp
	cancel context.CancelFunc
	done   chan error
	errs   int32
}

func newWorld(port int, k uint, timeout time.Duration) (*world, error) {
	return newWorldAddrs([]string{fmt.Sprintf("127.0.0.1:%d", port)}, k, timeout)
}

// newWorldAddrs: one proxy listening on several addresses (they share MaxInflightRequests)
func newWorldAddrs(addrs []string, k uint, timeout time.Duration) (*world, error) {
	w := &world{addr: addrs[0], up: &fakeUp{script: map[string]*behaviour{}}}
	p := proxy.Proxy{
		Addrs:               addrs,
		Upstream:            w.up,
		Timeout:             timeout,
		MaxInflightRequests: k,
		ErrorLog:            func(error) { atomic.AddInt32(&w.errs, 1) },
		// as run.go wires it by default (use-hosts): every query name first goes through the hosts table
		LocalResolver: discovery.Resolver{&discovery.Hosts{}},
	}
	ctx, cancel := context.WithCancel(context.Background())
	w.cancel = cancel
	w.done = make(chan error, 1)
	go func() { w.done <- p.ListenAndServe(ctx) }()
	// wait until both sockets answer
	deadline := time.Now().Add(3 * time.Second)
	for {
		c, err := net.DialTimeout("tcp", w.addr, 200*time.Millisecond)
		if err == nil {
			c.Close()
			break
		}
		if time.Now().After(deadline) {
			cancel()
			return nil, fmt.Errorf("proxy did not start on %s: %v", w.addr, err)
		}
		time.Sleep(10 * time.Millisecond)
	}
	time.Sleep(30 * time.Millisecond) // UDP listener is started by a sibling goroutine
	return w, nil
}

func (w *world) stop() {
	w.cancel()
	select {
	case <-w.done:
	case <-time.After(2 * time.Second):
	}
}

// udpExchange sends one datagram from a fresh socket and collects every reply
// that arrives: the first within `wait`, then any extra within `extra`.
func udpExchange(addr string, q []byte, wait, extra time.Duration) [][]byte {
	return udpExchangeFrom("", addr, q, wait, extra)
}

// udpExchangeFrom: the same from a given local address ("" = any)
func udpExchangeFrom(local, addr string, q []byte, wait, extra time.Duration) [][]byte {
	d := net.Dialer{}
	if local != "" {
		d.LocalAddr = &net.UDPAddr{IP: net.ParseIP(local)}
	}
	c, err := d.Dial("udp", addr)
	if err != nil {
		return nil
	}
	defer c.Close()
	if _, err := c.Write(q); err != nil {
		return nil
	}
	var out [][]byte
	buf := make([]byte, 70000)
	_ = c.SetReadDeadline(time.Now().Add(wait))
	for {
		n, err := c.Read(buf)
		if err != nil {
			return out
		}
		out = append(out, append([]byte{}, buf[:n]...))
		_ = c.SetReadDeadline(time.Now().Add(extra))
	}
}

// tcpExchange writes the given raw bytes (already framed by the caller) and
// returns everything the server sent until `want` bytes-frames are complete, the
// peer closes, or the deadline passes. closed reports whether EOF was seen.
func tcpExchange(addr string, raw []byte, wantFrames int, wait, extra time.Duration) (stream []byte, closed bool) {
	return tcpExchangeFrom("", addr, raw, wantFrames, wait, extra)
}

func tcpExchangeFrom(local, addr string, raw []byte, wantFrames int, wait, extra time.Duration) (stream []byte, closed bool) {
	d := net.Dialer{}
	if local != "" {
		d.LocalAddr = &net.TCPAddr{IP: net.ParseIP(local)}
	}
	c, err := d.Dial("tcp", addr)
	if err != nil {
		return nil, true
	}
	defer c.Close()
	if _, err := c.Write(raw); err != nil {
		return nil, true
	}
	buf := make([]byte, 70000)
	_ = c.SetReadDeadline(time.Now().Add(wait))
	for {
		n, err := c.Read(buf)
		stream = append(stream, buf[:n]...)
		if err != nil {
			return stream, err == io.EOF
		}
		if wantFrames > 0 && countFrames(stream) >= wantFrames {
			_ = c.SetReadDeadline(time.Now().Add(extra))
			wantFrames = 0
		}
	}
}

func countFrames(s []byte) int {
	n := 0
	for len(s) >= 2 {
		l := int(binary.BigEndian.Uint16(s))
		if len(s) < 2+l {
			break
		}
		s = s[2+l:]
		n++
	}
	return n
}

func frame(q []byte) []byte {
	b := make([]byte, 2, 2+len(q))
	binary.BigEndian.PutUint16(b, uint16(len(q)))
	return append(b, q...)
}

// upstream message for a query: echo id + question, response flags, then filler up to r bytes
func upstreamMsg(q []byte, qlen int, r int, seed int, flags int) (prefix []byte, fill int) {
	// header + question copied from the query (qlen = 12 + question length)
	h := append([]byte{}, q[:qlen]...)
	h[2] = byte(flags >> 8)
	h[3] = byte(flags)
	h[4], h[5] = 0, 1
	h[6], h[7], h[8], h[9], h[10], h[11] = 0, 0, 0, 0, 0, 0
	if r <= len(h) {
		return h[:r], 0
	}
	return h, r - len(h)
}

func init() { register("reply", replyEngine) }

type replyCase struct {
	id      string
	proto   string
	q       []byte
	kind    string
	upPre   []byte
	upFill  int
	upSeed  int
	expectSilence bool
	adv     int // advertised EDNS size intended by the generator: -1 absent, -2 unknown
}

func (c replyCase) upMsg() []byte { return append(append([]byte{}, c.upPre...), filler(c.upFill, c.upSeed)...) }

var noReplyCount int32

func runSeq(w *world, c replyCase, timeout time.Duration) {
	b := &behaviour{kind: c.kind, msg: c.upMsg()}
	w.up.mu.Lock()
	w.up.cur = b
	w.up.mu.Unlock()
	w.up.takeCalls()
	wait := timeout + 1500*time.Millisecond
	if c.expectSilence {
		wait = 150 * time.Millisecond
	}
	var nrep int
	var rep []byte
	closed := false
	if c.proto == "udp" {
		rs := udpExchange(w.addr, c.q, wait, 15*time.Millisecond)
		nrep = len(rs)
		if nrep > 0 {
			rep = rs[0]
		}
	} else {
		var s []byte
		s, closed = tcpExchange(w.addr, frame(c.q), 1, wait, 15*time.Millisecond)
		nrep = countFrames(s)
		rep = s // whole stream, prefix included
	}
	if nrep == 0 && !c.expectSilence && c.kind != "panic" {
		atomic.AddInt32(&noReplyCount, 1)
	}
	calls := w.up.takeCalls()
	saw := "none"
	if len(calls) == 1 {
		saw = hxo(calls[0].payload)
	} else if len(calls) > 1 {
		saw = fmt.Sprintf("multi%d", len(calls))
	}
	head := rep
	if len(head) > 16 {
		head = head[:16]
	}
	emit("reply", c.id, c.proto, hx(c.q), c.kind, hxfill(c.upPre, c.upFill, c.upSeed), itoa(c.adv), "=>",
		itoa(nrep), hxo(rep), b2s(closed), saw, itoa(len(rep)), hx(head))
}

func replyEngine(args []string) error {
	dottedLabels = true
	c := parseCommon("reply", args)
	port := c.fs.Lookup("seed") // placeholder to keep flag set used
	_ = port
	r := newRng(c.seed)
	if c.extra != "" {
		c.mode = "replay"
	}
	base := 5300
	timeout := 400 * time.Millisecond
	switch c.mode {
	case "c05":
		return replyC05(r, c.n, base, timeout)
	case "seq":
		return replySeq(r, c.n, base, timeout)
	case "seqecs":
		ecsHeavy = true
		return replySeq(r, c.n, base, timeout)
	case "conc":
		return replyConc(r, c.n, base)
	case "tcpstorm":
		return replyTCPStorm(r, c.n, base)
	case "tcpstall":
		return replyTCPStall(r, c.n, base)
	case "storm":
		return replyStorm(r, c.n, base)
	case "replay":
		t := strings.Fields(c.extra)
		if len(t) < 5 {
			return errors.New("replay: need <proto> <qhex> <kind> <upspec> <adv>")
		}
		rc := replyCase{id: "replay", proto: t[0], q: unhx(t[1]), kind: t[2]}
		rc.upPre, rc.upFill, rc.upSeed = parseFill(t[3])
		rc.adv, _ = strconv.Atoi(t[4])
		rc.expectSilence = len(rc.q) <= 14
		return parallelWorlds(1, base, 16, timeout, []replyCase{rc})
	}
	return fmt.Errorf("reply: unknown mode %q", c.mode)
}

func parallelWorlds(nw int, base int, k uint, timeout time.Duration, cases []replyCase) error {
	var wg sync.WaitGroup
	errc := make(chan error, nw)
	for i := 0; i < nw; i++ {
		w, err := newWorld(base+i, k, timeout)
		if err != nil {
			return err
		}
		wg.Add(1)
		go func(i int, w *world) {
			defer wg.Done()
			defer w.stop()
			for j := i; j < len(cases); j += nw {
				if atomic.LoadInt32(&noReplyCount) >= 8 {
					note("reply: 8 unanswered queries: stopping early")
					break
				}
				runSeq(w, cases[j], timeout)
			}
		}(i, w)
	}
	wg.Wait()
	close(errc)
	return nil
}

// ---- mode c05: boundary lattice of (advertised size, upstream length) ----
func replyC05(r *rng, n int, base int, timeout time.Duration) error {
	adv := []int{-1, 0, 1, 511, 512, 513, 1232, 4093, 4094, 4095, 8000, 65506, 65507, 65508, 65520, 65535}
	var pairs [][2]int
	seen := map[[2]int]bool{}
	add := func(m, l int) {
		if l < 15 {
			l = 15
		}
		if l > 65535 {
			l = 65535
		}
		p := [2]int{m, l}
		if !seen[p] {
			seen[p] = true
			pairs = append(pairs, p)
		}
	}
	for _, m := range adv {
		for _, b := range []int{15, 100, 511, 512, 513, 1232, 4094, 4095, 8000, 65507, 65535, m} {
			if b < 0 {
				continue
			}
			for d := -1; d <= 1; d++ {
				add(m, b+d)
			}
		}
	}
	for i := 0; i < n; i++ {
		m := -1
		switch r.intn(4) {
		case 0:
			m = r.rng(0, 65535)
		case 1:
			m = r.rng(400, 5000)
		case 2:
			m = adv[r.intn(len(adv))]
		}
		l := r.rng(15, 65535)
		if r.coin(60) {
			l = r.rng(15, 6000)
		}
		if m > 0 && r.coin(30) {
			l = m + r.rng(-2, 2)
		}
		add(m, l)
	}
	var cases []replyCase
	for i, p := range pairs {
		m, l := p[0], p[1]
		name := encodeLabels([][]byte{[]byte(fmt.Sprintf("c%d", i)), []byte("test")})
		ms := msgSpec{id: r.intn(65536), flags: 0x0100, qs: [][]byte{question(name, 1, 1)}}
		if m >= 0 {
			// the OPT TTL field (extended rcode, version, DO and Z bits) and further options must not move the limit
			ttl := uint32(0)
			switch i % 4 {
			case 1:
				ttl = 0x8000 // DNSSEC OK
			case 2:
				ttl = uint32(r.intn(1<<16))<<16 | uint32(r.intn(1<<16))
			case 3:
				ttl = 0x8000 | uint32(r.intn(256))<<16
			}
			var opts []opt
			if i%5 == 4 {
				opts = []opt{{[]int{10, 12, 15, 3}[r.intn(4)], r.bytes(r.intn(12))}}
			}
			ms.ar = []rr{optRR(m, ttl, opts)}
		}
		q := ms.encode()
		flags := 0x8180
		if r.coin(10) {
			flags |= 0x0200 // upstream already flagged TC
		}
		pre, fill := upstreamMsg(q, 12+len(name)+4, l, r.intn(256), flags)
		for _, proto := range []string{"udp", "tcp"} {
			cases = append(cases, replyCase{id: fmt.Sprintf("%d/%d/%s", m, l, proto), proto: proto, q: q, kind: "up",
				upPre: pre, upFill: fill, upSeed: i & 0xff, adv: m})
		}
	}
	if err := parallelWorlds(8, base, 16, timeout, cases); err != nil {
		return err
	}
	// the same lattice with the real plain-DNS resolver between the proxy and the upstream (what a UDP upstream
	// can send: at most 65507 bytes): the limit the client gets must not depend on the transport to the upstream
	w, stop, err := newWorldReal(base+40, 16, timeout, nil)
	if err != nil {
		return err
	}
	defer stop()
	for _, c := range cases {
		if len(c.upPre)+c.upFill > 65507 {
			continue
		}
		if atomic.LoadInt32(&noReplyCount) >= 8 {
			break
		}
		c.id += "/dns53"
		runSeq(w, c, timeout)
	}
	return nil
}

// genResponse: an upstream message for query bytes q (echoing id and, when the
// generator knows it, the question), with random records, length skewed around
// the truncation boundaries.
func genResponse(r *rng, qc qcase) (pre []byte, fill int) {
	q := qc.q
	var b []byte
	if len(q) >= 12 && qc.kind == "wf" {
		// find end of first question with a plain label walk (generator-side knowledge only)
		off := 12
		for off < len(q) && q[off] != 0 && q[off]&0xc0 == 0 {
			off += 1 + int(q[off])
		}
		off += 5
		if off <= len(q) {
			ms := msgSpec{id: int(q[0])<<8 | int(q[1]), flags: []int{0x8180, 0x8183, 0x8580, 0x8380}[r.intn(4)]}
			b = ms.encode()
			b[4], b[5] = 0, 1
			b = append(b, q[12:off]...)
			nrr := r.intn(6)
			cnt := 0
			for i := 0; i < nrr; i++ {
				b = append(b, encodeRR(randRR(r, -1))...)
				cnt++
			}
			b[6], b[7] = byte(cnt>>8), byte(cnt)
		}
	}
	if b == nil {
		b = r.bytes(r.rng(1, 60))
		if len(q) >= 2 && len(b) >= 2 && r.coin(70) {
			b[0], b[1] = q[0], q[1]
		}
	}
	target := len(b)
	switch r.intn(10) {
	case 0:
		target = r.rng(500, 520)
	case 1:
		if qc.adv > 0 {
			target = qc.adv + r.rng(-3, 3)
		}
	case 2:
		target = r.rng(4090, 4100)
	case 3:
		target = r.rng(1, 14)
	case 4:
		target = r.rng(600, 3000)
	}
	if target < 1 {
		target = 1
	}
	if target > 65535 {
		target = 65535
	}
	if target <= len(b) {
		return b[:target], 0
	}
	return b, target - len(b)
}

// ---- mode seq: random queries (well-formed, damaged, junk) x upstream outcomes x proto,
// one at a time per proxy instance (8 instances in parallel) ----
func replySeq(r *rng, n int, base int, timeout time.Duration) error {
	var cases []replyCase
	for i := 0; i < n; i++ {
		qc := genQueryCase(r, "")
		if qc.kind == "big" && r.coin(70) {
			qc = genQueryCase(r, "")
		}
		kind := "up"
		switch x := r.intn(100); {
		case x < 60:
		case x < 75:
			kind = "err"
		case x < 85:
			kind = "empty"
		case x < 93:
			kind = "errn"
		default:
			kind = "hang"
		}
		proto := "udp"
		if r.coin(40) {
			proto = "tcp"
		}
		c := replyCase{id: fmt.Sprintf("%s%d", qc.kind, i), proto: proto, q: qc.q, kind: kind, adv: qc.adv}
		if kind == "up" || kind == "errn" {
			c.upPre, c.upFill = genResponse(r, qc)
			c.upSeed = r.intn(256)
		}
		if len(qc.q) <= 14 {
			c.expectSilence = true
		}
		if len(qc.q) > 65535 {
			continue
		}
		if c.proto == "udp" && len(qc.q) > 65507 {
			c.proto = "tcp" // not sendable as one datagram on loopback
		}
		cases = append(cases, c)
	}
	return parallelWorlds(8, base, 16, timeout, cases)
}

// ---- mode conc: concurrent UDP clients and pipelined TCP clients against one proxy;
// the upstream makes the handlers of a batch rendezvous and releases them together so
// their replies are written concurrently.
func replyConc(r *rng, n int, base int) error {
	// one wildcard (dual-stack) listener, as on a router: the same sockets serve several local addresses, and
	// every reply has to leave from the address its query was sent to (clients use connected sockets, which
	// drop a datagram from any other source)
	w, err := newWorldAddrs([]string{fmt.Sprintf(":%d", base)}, 64, 1500*time.Millisecond)
	if err != nil {
		return err
	}
	defer w.stop()
	locals := []string{"127.0.0.1", "127.0.0.2", "127.0.0.3"}
	if c, err := net.DialTimeout("tcp", fmt.Sprintf("[::1]:%d", base), 200*time.Millisecond); err == nil {
		c.Close()
		locals = append(locals, "[::1]")
	}
	dst := func() string { return fmt.Sprintf("%s:%d", locals[r.intn(len(locals))], base) }
	type item struct {
		c    replyCase
		name string
	}
	emitCase := func(c replyCase, nrep int, rep []byte, closed bool, saw string) {
		head := rep
		if len(head) > 16 {
			head = head[:16]
		}
		emit("reply", c.id, c.proto, hx(c.q), c.kind, hxfill(c.upPre, c.upFill, c.upSeed), itoa(c.adv), "=>",
			itoa(nrep), hxo(rep), b2s(closed), saw, itoa(len(rep)), hx(head))
	}
	serial := 0
	mk := func(proto string, g *group, usedIDs map[int]bool) item {
		serial++
		uniq := fmt.Sprintf("c%d", serial)
		var q []byte
		var adv int
		for {
			q, adv = genQuery(r, uniq)
			id := int(q[0])<<8 | int(q[1])
			if !usedIDs[id] {
				usedIDs[id] = true
				break
			}
		}
		if adv > 65507 {
			adv = -3 // outside C01's quantifier: still compared with the model, not judged by the C01 spec
		}
		qc := qcase{q, adv, "wf"}
		kind := "up"
		switch x := r.intn(100); {
		case x < 70:
		case x < 85:
			kind = "err"
		default:
			kind = "empty"
		}
		c := replyCase{id: fmt.Sprintf("%s%d", proto, serial), proto: proto, q: q, kind: kind, adv: adv}
		if kind == "up" {
			for {
				c.upPre, c.upFill = genResponse(r, qc)
				if len(c.upPre)+c.upFill >= 12 {
					break // frames are matched to queries by ID: keep a full header
				}
			}
			c.upSeed = r.intn(256)
			if adv == -3 {
				c.upFill = 0
			}
		}
		// q.Name as the proxy will see it
		name := ""
		off := 12
		for q[off] != 0 {
			name += string(q[off+1:off+1+int(q[off])]) + "."
			off += 1 + int(q[off])
		}
		b := &behaviour{kind: c.kind, msg: c.upMsg(), grp: g, delay: time.Duration(r.intn(1500)) * time.Microsecond}
		w.up.mu.Lock()
		w.up.script[name] = b
		w.up.mu.Unlock()
		return item{c, name}
	}
	sawOf := func(calls []upCall, name string) string {
		cnt := 0
		s := "none"
		for _, c := range calls {
			if c.name == name {
				cnt++
				s = hxo(c.payload)
			}
		}
		if cnt > 1 {
			return fmt.Sprintf("multi%d", cnt)
		}
		return s
	}
	done := 0
	for done < n {
		w.up.takeCalls()
		var wg sync.WaitGroup
		// one batch: 1..3 TCP connections pipelining 2..6 queries + 4..12 UDP clients, all sharing one group
		ntcp := r.rng(1, 3)
		nudp := r.rng(4, 12)
		var tcpItems [][]item
		total := nudp
		ks := make([]int, ntcp)
		for i := range ks {
			ks[i] = r.rng(2, 6)
			total += ks[i]
		}
		g := newGroup(total)
		for i := 0; i < ntcp; i++ {
			ids := map[int]bool{}
			var its []item
			for j := 0; j < ks[i]; j++ {
				its = append(its, mk("tcp", g, ids))
			}
			tcpItems = append(tcpItems, its)
		}
		var udpItems []item
		for i := 0; i < nudp; i++ {
			udpItems = append(udpItems, mk("udp", g, map[int]bool{}))
		}
		type tcpRes struct {
			stream []byte
			closed bool
		}
		tres := make([]tcpRes, ntcp)
		ures := make([][][]byte, nudp)
		tdst := make([]string, ntcp)
		for i := range tdst {
			tdst[i] = dst()
		}
		udst := make([]string, nudp)
		for i := range udst {
			udst[i] = dst()
		}
		for i, its := range tcpItems {
			wg.Add(1)
			go func(i int, its []item) {
				defer wg.Done()
				var raw []byte
				for _, it := range its {
					raw = append(raw, frame(it.c.q)...)
				}
				st, cl := tcpExchange(tdst[i], raw, len(its), 3*time.Second, 30*time.Millisecond)
				tres[i] = tcpRes{st, cl}
			}(i, its)
		}
		for i, it := range udpItems {
			wg.Add(1)
			go func(i int, it item) {
				defer wg.Done()
				ures[i] = udpExchange(udst[i], it.c.q, 3*time.Second, 30*time.Millisecond)
			}(i, it)
		}
		wg.Wait()
		calls := w.up.takeCalls()
		for k, m := range w.up.takeMutated() {
			emit("qmut", fmt.Sprintf("%d.%d", done, k), "=>", m)
		}
		for i, it := range udpItems {
			var rep []byte
			if len(ures[i]) > 0 {
				rep = ures[i][0]
			}
			emitCase(it.c, len(ures[i]), rep, false, sawOf(calls, it.name))
		}
		for i, its := range tcpItems {
			// split the stream into frames by the length prefixes as a client would
			var frames [][]byte
			st := tres[i].stream
			for len(st) >= 2 {
				l := int(binary.BigEndian.Uint16(st))
				if len(st) < 2+l {
					break
				}
				frames = append(frames, st[:2+l])
				st = st[2+l:]
			}
			leftover := len(st)
			for _, it := range its {
				id0, id1 := it.c.q[0], it.c.q[1]
				var rep []byte
				cnt := 0
				for _, f := range frames {
					if len(f) >= 4 && f[2] == id0 && f[3] == id1 {
						cnt++
						rep = f
					}
				}
				if leftover > 0 && cnt == 1 {
					cnt = 100 + leftover // stream has trailing garbage: not a clean sequence of frames
				}
				emitCase(it.c, cnt, rep, false, sawOf(calls, it.name))
			}
		}
		w.up.mu.Lock()
		w.up.script = map[string]*behaviour{}
		w.up.mu.Unlock()
		done += total
	}
	return nil
}

// ---- mode tcpstorm: many pipelined queries on ONE TCP connection, all handlers released
// at the same instant, so that their replies are written concurrently on that connection.
// Each reply must arrive as one intact frame (F15: prefix and body were two writes).
func replyTCPStorm(r *rng, n int, base int) error {
	w, err := newWorld(base, 256, 3*time.Second)
	if err != nil {
		return err
	}
	defer w.stop()
	serial := 0
	corrupted := 0
	for round := 0; round < n; round++ {
		k := r.rng(40, 120)
		g := newGroup(k)
		ids := map[int]bool{}
		type it struct {
			c    replyCase
			name string
		}
		var items []it
		var raw []byte
		for j := 0; j < k; j++ {
			serial++
			uniq := fmt.Sprintf("s%d", serial)
			var q []byte
			for {
				ms := msgSpec{id: r.intn(65536), flags: 0x0100, qs: [][]byte{question(encodeLabels([][]byte{[]byte(uniq), []byte("storm")}), 1, 1)}}
				q = ms.encode()
				id := int(q[0])<<8 | int(q[1])
				if !ids[id] {
					ids[id] = true
					break
				}
			}
			qc := qcase{q, -1, "wf"}
			c := replyCase{id: fmt.Sprintf("storm%d", serial), proto: "tcp", q: q, kind: "up", adv: -1}
			for {
				c.upPre, c.upFill = genResponse(r, qc)
				if len(c.upPre)+c.upFill >= 12 {
					break
				}
			}
			c.upFill += r.intn(3) * 700 // a mix of body sizes
			c.upSeed = r.intn(256)
			name := uniq + ".storm."
			w.up.mu.Lock()
			w.up.script[name] = &behaviour{kind: "up", msg: c.upMsg(), grp: g}
			w.up.mu.Unlock()
			items = append(items, it{c, name})
			raw = append(raw, frame(q)...)
		}
		w.up.takeCalls()
		st, _ := tcpExchange(w.addr, raw, k, 1500*time.Millisecond, 50*time.Millisecond)
		var frames [][]byte
		rest := st
		for len(rest) >= 2 {
			l := int(binary.BigEndian.Uint16(rest))
			if len(rest) < 2+l {
				break
			}
			frames = append(frames, rest[:2+l])
			rest = rest[2+l:]
		}
		if len(frames) < k {
			corrupted++
		}
		for _, x := range items {
			var rep []byte
			cnt := 0
			for _, f := range frames {
				if len(f) >= 4 && f[2] == x.c.q[0] && f[3] == x.c.q[1] {
					cnt++
					rep = f
				}
			}
			head := rep
			if len(head) > 16 {
				head = head[:16]
			}
			emit("reply", x.c.id, "tcp", hx(x.c.q), "up", hxfill(x.c.upPre, x.c.upFill, x.c.upSeed), "-1", "=>",
				itoa(cnt), hxo(rep), "0", hxo(x.c.q), itoa(len(rep)), hx(head))
		}
		w.up.mu.Lock()
		w.up.script = map[string]*behaviour{}
		w.up.mu.Unlock()
		if corrupted >= 3 {
			note("tcpstorm: %d rounds lost framing: stopping early", corrupted)
			break
		}
	}
	return nil
}

// ---- mode storm (C04): a storm of requests ending in every listed way against a proxy of
// small capacity K, then K+2 slow queries: how many are inside the resolver together?
// stormReal: a storm against the proxy in front of the REAL resolver stack (endpoint manager with a low error
// threshold, a short test interval and a slow endpoint test): the upstream is silent, so queries fail while a test of
// the endpoint is running, and the error threshold is reached during that test.  Afterwards the upstream answers
// again and the rendezvous of K+2 slow queries must find all K units of capacity.
func stormReal(r *rng, sidx int, base int) error {
	k := 3
	timeout := 150 * time.Millisecond
	var slowTest int32 = 1
	var lastTestEnd int64 // unix nanoseconds of the end of the latest endpoint test
	mgr := &endpoint.Manager{
		EndpointTester: func(e endpoint.Endpoint) endpoint.Tester {
			return func(ctx context.Context, d string) error {
				if atomic.LoadInt32(&slowTest) == 1 {
					time.Sleep(300 * time.Millisecond)
				}
				atomic.StoreInt64(&lastTestEnd, time.Now().UnixNano())
				return nil
			}
		},
		ErrorThreshold:  3,
		MinTestInterval: 100 * time.Millisecond,
	}
	w, stop, err := newWorldReal(base+60+sidx%20, uint(k), timeout, mgr)
	if err != nil {
		return err
	}
	defer stop()
	mkq := func(name string) []byte {
		return msgSpec{id: r.intn(65536), flags: 0x0100, qs: [][]byte{question(encodeName(name), 1, 1)}}.encode()
	}
	// the first query elects the endpoint (slow test), is answered
	w.up.cur = &behaviour{kind: "up", msg: nil}
	w.up.mu.Lock()
	w.up.cur = nil
	w.up.mu.Unlock()
	warm := mkq("warm.storm")
	resp := append([]byte{}, warm...)
	resp[2] |= 0x80
	w.up.mu.Lock()
	w.up.script["warm.storm."] = &behaviour{kind: "up", msg: resp}
	w.up.cur = &behaviour{kind: "hang"}
	w.up.mu.Unlock()
	udpExchange(w.addr, warm, 900*time.Millisecond, time.Millisecond)
	time.Sleep(30 * time.Millisecond)
	// silent upstream: waves of queries that time out; each wave starts an opportunistic endpoint test (interval 10 ms)
	// and its errors arrive while that test is still running
	// and the history that matters for the manager's bookkeeping: queries already in flight when a later query starts
	// an endpoint test (the test interval has passed), which then fail while that test is running
	nq := 0
	for wave := 0; wave < 3; wave++ {
		var wg sync.WaitGroup
		send := func(name string) {
			nq++
			q := mkq(name)
			if !strings.HasPrefix(name, "dead") {
				// answered at once (a success puts the endpoint's consecutive-error count back to zero)
				rp := append([]byte{}, q...)
				rp[2] |= 0x80
				w.up.mu.Lock()
				w.up.script[name+"."] = &behaviour{kind: "up", msg: rp}
				w.up.mu.Unlock()
			}
			wg.Add(1)
			go func() { defer wg.Done(); udpExchange(w.addr, q, 400*time.Millisecond, time.Millisecond) }()
		}
		// shortly after a test has ended: these are sent without starting a new one
		for kicks := 0; kicks < 3 && time.Since(time.Unix(0, atomic.LoadInt64(&lastTestEnd))) > 40*time.Millisecond; kicks++ {
			send(fmt.Sprintf("kick%d-%d.storm", wave, kicks)) // starts a test: wait for its end (polling)
			for t := 0; t < 100 && time.Since(time.Unix(0, atomic.LoadInt64(&lastTestEnd))) > 40*time.Millisecond; t++ {
				time.Sleep(5 * time.Millisecond)
			}
		}
		for j := 0; j < 4; j++ {
			send(fmt.Sprintf("dead%d-%d.storm", wave, j))
			time.Sleep(3 * time.Millisecond)
		}
		// the interval passes; this one starts the test while the four are still waiting for the silent upstream
		if d := 112*time.Millisecond - time.Since(time.Unix(0, atomic.LoadInt64(&lastTestEnd))); d > 0 {
			time.Sleep(d)
		}
		send(fmt.Sprintf("trig%d.storm", wave))
		wg.Wait()
		time.Sleep(350 * time.Millisecond)
	}
	// (the scripted upstream sits behind a UDP socket here: a query that the proxy has given up on is still "inside"
	// it; what is counted is the number of rendezvous queries that the proxy has let through)
	maxDuring := 0
	atomic.StoreInt32(&slowTest, 0) // endpoint tests are instant from here on; the ones still running end within 300 ms
	time.Sleep(400 * time.Millisecond)
	w.up.takeCalls()
	gate := make(chan struct{})
	var wg2 sync.WaitGroup
	for j := 0; j < k+2; j++ {
		name := fmt.Sprintf("b%d.storm.", j)
		q := mkq(strings.TrimSuffix(name, "."))
		rp := append([]byte{}, q...)
		rp[2] |= 0x80
		w.up.mu.Lock()
		w.up.script[name] = &behaviour{kind: "up", msg: rp, gate: gate}
		w.up.mu.Unlock()
		wg2.Add(1)
		go func() { defer wg2.Done(); udpExchange(w.addr, q, 500*time.Millisecond, time.Millisecond) }()
	}
	time.Sleep(90 * time.Millisecond)
	barrier := 0
	w.up.mu.Lock()
	for _, c := range w.up.calls {
		if strings.HasPrefix(c.name, "b") {
			barrier++
		}
	}
	w.up.mu.Unlock()
	close(gate)
	wg2.Wait()
	emit("storm", itoa(sidx), itoa(k), fmt.Sprintf("real_resolver=1,udp_timeout=%d", nq), "=>", itoa(maxDuring), itoa(barrier))
	return nil
}

func replyStorm(r *rng, n int, base int) error {
	for sidx := 0; sidx < n; sidx++ {
		if sidx%12 == 9 {
			if err := stormReal(r, sidx, base); err != nil {
				return err
			}
			continue
		}
		k := []int{2, 3, 5}[r.intn(3)]
		timeout := 150 * time.Millisecond
		// every third storm: the proxy listens on two addresses, which share the capacity
		addrs := []string{fmt.Sprintf("127.0.0.1:%d", base+sidx%50)}
		if sidx%3 == 1 {
			addrs = append(addrs, fmt.Sprintf("127.0.0.2:%d", base+sidx%50))
		}
		// one storm in twelve starts with a long hold: every slot is taken by a query that hangs for longer than any
		// waiting limit found in the proxy's source, while a TCP connection and a UDP datagram wait for a slot
		longHold := sidx%12 == 5
		hold := time.Duration(0)
		if longHold {
			hold = holdLongerThan(time.Second, 12*time.Second, "proxy")
			timeout = hold
			k = 2
		}
		w, err := newWorldAddrs(addrs, uint(k), timeout)
		if err != nil {
			return err
		}
		w.up.cur = &behaviour{kind: "err"}
		counts := map[string]int{}
		nev := r.rng(10, 40)
		var wg sync.WaitGroup
		if longHold {
			counts[fmt.Sprintf("long_hold_ms_%d", hold.Milliseconds())] = 1
			nev = r.rng(4, 10)
			mkq := func(name string) ([]byte, []byte) {
				q := msgSpec{id: r.intn(65536), flags: 0x0100, qs: [][]byte{question(encodeName(strings.TrimSuffix(name, ".")), 1, 1)}}.encode()
				resp := append([]byte{}, q...)
				resp[2] |= 0x80
				return q, resp
			}
			for j := 0; j < k; j++ {
				name := fmt.Sprintf("hold%d.storm.", j)
				q, _ := mkq(name)
				w.up.mu.Lock()
				w.up.script[name] = &behaviour{kind: "hang"}
				w.up.mu.Unlock()
				wg.Add(1)
				go func() { defer wg.Done(); udpExchange(w.addr, q, hold+300*time.Millisecond, time.Millisecond) }()
			}
			time.Sleep(60 * time.Millisecond)
			for j := 0; j < 2; j++ {
				name := fmt.Sprintf("wait%d.storm.", j)
				q, resp := mkq(name)
				w.up.mu.Lock()
				w.up.script[name] = &behaviour{kind: "up", msg: resp}
				w.up.mu.Unlock()
				wg.Add(1)
				go func(tcp bool) {
					defer wg.Done()
					if tcp {
						tcpExchange(w.addr, frame(q), 1, hold+500*time.Millisecond, time.Millisecond)
					} else {
						udpExchange(w.addr, q, hold+500*time.Millisecond, time.Millisecond)
					}
				}(j == 0)
			}
			time.Sleep(hold + 100*time.Millisecond)
			timeout = 150 * time.Millisecond // the events that follow are short ones
		}
		for e := 0; e < nev; e++ {
			kind := []string{"udp_small", "udp_junk", "udp_ok", "udp_uperr", "udp_timeout", "udp_panic",
				"tcp_half", "tcp_small", "tcp_ok_then_close", "tcp_close_before_reply", "tcp_panic", "tcp_pipeline"}[r.intn(12)]
			if longHold && (kind == "udp_timeout" || kind == "tcp_close_before_reply") {
				kind = "udp_ok" // this proxy's request timeout is the long one: no further hangs
			}
			counts[kind]++
			name := fmt.Sprintf("e%d.storm.", e)
			ms := msgSpec{id: r.intn(65536), flags: 0x0100, qs: [][]byte{question(encodeName(strings.TrimSuffix(name, ".")), 1, 1)}}
			q := ms.encode()
			resp := append([]byte{}, q...)
			resp[2] |= 0x80
			set := func(b *behaviour) {
				w.up.mu.Lock()
				w.up.script[name] = b
				w.up.mu.Unlock()
			}
			wg.Add(1)
			go func(kind string) {
				defer wg.Done()
				switch kind {
				case "udp_small":
					udpExchange(w.addr, r2bytes(14), 30*time.Millisecond, time.Millisecond)
				case "udp_junk":
					udpExchange(w.addr, append([]byte{0xff, 0xff, 0x01, 0x00, 0xff, 0xff, 0xff, 0xff, 0, 0, 0, 0}, r2bytes(20)...), 400*time.Millisecond, time.Millisecond)
				case "udp_ok":
					set(&behaviour{kind: "up", msg: resp})
					udpExchange(w.addr, q, 600*time.Millisecond, time.Millisecond)
				case "udp_uperr":
					set(&behaviour{kind: "err"})
					udpExchange(w.addr, q, 600*time.Millisecond, time.Millisecond)
				case "udp_timeout":
					set(&behaviour{kind: "hang"})
					udpExchange(w.addr, q, 600*time.Millisecond, time.Millisecond)
				case "udp_panic":
					set(&behaviour{kind: "panic"})
					udpExchange(w.addr, q, 100*time.Millisecond, time.Millisecond)
				case "tcp_half":
					if c, err := net.Dial("tcp", w.addr); err == nil {
						_, _ = c.Write([]byte{0, 40, 1, 2, 3})
						time.Sleep(5 * time.Millisecond)
						c.Close()
					}
				case "tcp_small":
					tcpExchange(w.addr, frame(r2bytes(10)), 1, 200*time.Millisecond, time.Millisecond)
				case "tcp_ok_then_close":
					set(&behaviour{kind: "up", msg: resp})
					tcpExchange(w.addr, frame(q), 1, 600*time.Millisecond, time.Millisecond)
				case "tcp_close_before_reply":
					set(&behaviour{kind: "hang"})
					if c, err := net.Dial("tcp", w.addr); err == nil {
						_, _ = c.Write(frame(q))
						time.Sleep(3 * time.Millisecond)
						c.Close()
					}
				case "tcp_panic":
					set(&behaviour{kind: "panic"})
					tcpExchange(w.addr, frame(q), 1, 100*time.Millisecond, time.Millisecond)
				case "tcp_pipeline":
					// one connection, K+2 complete queries in ONE segment, each held inside the upstream for a while:
					// every one of them needs a unit of capacity of its own
					gate := make(chan struct{})
					var raw []byte
					for j := 0; j < k+2; j++ {
						pn := fmt.Sprintf("p%d.%s", j, name)
						pq := msgSpec{id: 4096*j + e, flags: 0x0100, qs: [][]byte{question(encodeName(strings.TrimSuffix(pn, ".")), 1, 1)}}.encode()
						pr := append([]byte{}, pq...)
						pr[2] |= 0x80
						w.up.mu.Lock()
						w.up.script[pn] = &behaviour{kind: "up", msg: pr, gate: gate}
						w.up.mu.Unlock()
						raw = append(raw, frame(pq)...)
					}
					go func() { time.Sleep(50 * time.Millisecond); close(gate) }()
					tcpExchange(w.addr, raw, k+2, 600*time.Millisecond, time.Millisecond)
				}
			}(kind)
			if r.coin(60) {
				time.Sleep(time.Duration(r.intn(3000)) * time.Microsecond)
			}
		}
		wg.Wait()
		time.Sleep(2*timeout + 50*time.Millisecond) // every handler has ended by now (timeout bound)
		maxDuring := int(atomic.LoadInt32(&w.up.maxActive))
		// barrier phase: K+2 slow queries over UDP from distinct sockets
		atomic.StoreInt32(&w.up.maxActive, 0)
		gate := make(chan struct{})
		var wg2 sync.WaitGroup
		for j := 0; j < k+2; j++ {
			name := fmt.Sprintf("b%d.storm.", j)
			ms := msgSpec{id: r.intn(65536), flags: 0x0100, qs: [][]byte{question(encodeName(strings.TrimSuffix(name, ".")), 1, 1)}}
			q := ms.encode()
			resp := append([]byte{}, q...)
			resp[2] |= 0x80
			w.up.mu.Lock()
			w.up.script[name] = &behaviour{kind: "up", msg: resp, gate: gate}
			w.up.mu.Unlock()
			wg2.Add(1)
			to := addrs[j%len(addrs)]
			go func() {
				defer wg2.Done()
				udpExchange(to, q, 500*time.Millisecond, time.Millisecond)
			}()
		}
		time.Sleep(90 * time.Millisecond) // all that can enter the resolver have entered (well within the timeout)
		barrier := int(atomic.LoadInt32(&w.up.active))
		close(gate)
		wg2.Wait()
		w.stop()
		var parts []string
		for kd, c := range counts {
			parts = append(parts, fmt.Sprintf("%s=%d", kd, c))
		}
		sort.Strings(parts)
		if len(addrs) > 1 {
			parts = append(parts, "two_addresses=1")
		}
		emit("storm", itoa(sidx), itoa(k), strings.Join(parts, ","), "=>", itoa(maxDuring), itoa(barrier))
	}
	return nil
}

func r2bytes(n int) []byte {
	b := make([]byte, n)
	for i := range b {
		b[i] = byte(i*37 + 11)
	}
	return b
}

// ---- mode tcpstall (C05, C01): one TCP connection, many pipelined queries with large answers, and a client that
// stops reading for several request timeouts while the replies pile up in the socket buffers, then reads on.
// However long the proxy had to wait with a reply half written, what finally arrives is a sequence of whole
// messages, each delimited by its length prefix.   tcpstall <id> <k> <answer bytes> => <whole> <foreign> <leftover>
func replyTCPStall(r *rng, n int, base int) error {
	for round := 0; round < n; round++ {
		w, err := newWorld(base+round%20, 64, 250*time.Millisecond)
		if err != nil {
			return err
		}
		k := r.rng(150, 260)
		size := []int{60000, 40000, 65000}[r.intn(3)]
		want := map[int]int{}
		var raw []byte
		for j := 0; j < k; j++ {
			name := fmt.Sprintf("s%d.stall.", j)
			q := msgSpec{id: 1000 + j, flags: 0x0100, qs: [][]byte{question(encodeName(strings.TrimSuffix(name, ".")), 16, 1)}}.encode()
			resp := append([]byte{}, q...)
			resp[2] |= 0x80
			resp = append(resp, filler(size-len(resp), j&0xff)...)
			want[1000+j] = len(resp)
			w.up.mu.Lock()
			w.up.script[name] = &behaviour{kind: "up", msg: resp}
			w.up.mu.Unlock()
			raw = append(raw, frame(q)...)
		}
		whole, foreign, leftover := 0, 0, 0
		if c, err := net.Dial("tcp", w.addr); err == nil {
			if tc, ok := c.(*net.TCPConn); ok {
				_ = tc.SetReadBuffer(64 << 10)
			}
			go func() { _, _ = c.Write(raw) }()
			time.Sleep(time.Duration(r.rng(900, 1400)) * time.Millisecond) // not reading: several request timeouts long
			var st []byte
			buf := make([]byte, 1<<20)
			for {
				_ = c.SetReadDeadline(time.Now().Add(1500 * time.Millisecond))
				m, err := c.Read(buf)
				st = append(st, buf[:m]...)
				if err != nil {
					break
				}
				if len(st) >= k*(size+2) {
					break
				}
			}
			c.Close()
			for len(st) >= 2 {
				l := int(st[0])<<8 | int(st[1])
				if len(st) < 2+l {
					break
				}
				if l >= 12 && want[int(st[2])<<8|int(st[3])] == l && st[4]&0x80 != 0 {
					whole++
					delete(want, int(st[2])<<8|int(st[3]))
				} else {
					foreign++
				}
				st = st[2+l:]
			}
			leftover = len(st)
		}
		w.stop()
		emit("tcpstall", itoa(round), itoa(k), itoa(size), "=>", itoa(whole), itoa(foreign), itoa(leftover))
	}
	return nil
}
