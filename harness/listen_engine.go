package main

// Engine "listen" (C16): the real Proxy.ListenAndServe over address lists with
// busy ports in every subset position and cancellation at various times.

import (
	"context"
	"errors"
	"fmt"
	"net"
	"strings"
	"time"

	"github.com/nextdns/nextdns/proxy"
)

func init() { register("listen", listenEngine) }

func listenEngine(args []string) error {
	c := parseCommon("listen", args)
	r := newRng(c.seed)
	port := 7000
	hangs := 0
	for i := 0; i < c.n; i++ {
		na := r.rng(1, 4)
		var addrs []string
		type la struct {
			host string
			port int
		}
		var las []la
		for j := 0; j < na; j++ {
			port++
			if port > 60000 {
				port = 7000
			}
			host := "127.0.0.1"
			switch r.intn(5) {
			case 0:
				host = "::1"
			case 1:
				host = "127.0.0.2"
			}
			las = append(las, la{host, port})
			addrs = append(addrs, net.JoinHostPort(host, itoa(port)))
		}
		// the same address listed twice (a name and the address it maps to, a repeated -listen): the second
		// bind fails on the first one's sockets, which is a bind failure like any other
		dup := false
		if i%9 == 4 {
			k := r.intn(len(las))
			las = append(las, las[k])
			addrs = append(addrs, addrs[k])
			na++
			dup = true
		}
		// busy subset: per address none / udp / tcp / both
		var holders []interface{ Close() error }
		var busyTok []string
		anyBusy := false
		for _, a := range las {
			b := 0
			if r.coin(35) {
				b = r.rng(1, 3)
			}
			if i%4 == 0 {
				b = 0
			}
			hp := net.JoinHostPort(a.host, itoa(a.port))
			if b&1 != 0 {
				if u, err := net.ListenPacket("udp", hp); err == nil {
					holders = append(holders, u)
				}
			}
			if b&2 != 0 {
				if t, err := net.Listen("tcp", hp); err == nil {
					holders = append(holders, t)
				}
			}
			if b != 0 {
				anyBusy = true
			}
			busyTok = append(busyTok, itoa(b))
		}
		if dup {
			anyBusy = true
		}
		cancelKind := []string{"none", "immediate", "1ms", "ready", "random"}[r.intn(5)]
		if !anyBusy && cancelKind == "none" {
			cancelKind = "ready"
		}
		if cancelKind == "ready" && r.coin(50) {
			cancelKind = "ready+clients" // clients hold TCP connections (idle, or in the middle of a query) when serving stops
		}
		var clientConns []net.Conn
		// every query hangs in the upstream until the request timeout (5 s, run.go's default): serving must not wait for them
		p := proxy.Proxy{Addrs: addrs, Upstream: &fakeUp{script: map[string]*behaviour{}, cur: &behaviour{kind: "hang"}}, MaxInflightRequests: 8, Timeout: 5 * time.Second}
		ctx, cancel := context.WithCancel(context.Background())
		done := make(chan error, 1)
		start := time.Now()
		go func() { done <- p.ListenAndServe(ctx) }()
		ext := true
		switch cancelKind {
		case "none":
			ext = false
		case "immediate":
			cancel()
		case "1ms":
			time.Sleep(time.Millisecond)
			cancel()
		case "ready":
			time.Sleep(40 * time.Millisecond)
			cancel()
		case "ready+clients":
			time.Sleep(40 * time.Millisecond)
			for _, a := range las {
				for k := r.rng(1, 2); k > 0; k-- {
					if cn, err := net.DialTimeout("tcp", net.JoinHostPort(a.host, itoa(a.port)), 200*time.Millisecond); err == nil {
						switch r.intn(3) {
						case 1:
							cn.Write([]byte{0}) // half a length prefix
						case 2:
							cn.Write([]byte{0, 40, 1, 2, 1, 0}) // a length prefix and part of the message
						}
						clientConns = append(clientConns, cn)
					}
				}
				// ... and a datagram whose query is still waiting for the upstream
				if r.coin(60) {
					if uc, err := net.Dial("udp", net.JoinHostPort(a.host, itoa(a.port))); err == nil {
						q := msgSpec{id: r.intn(65536), flags: 0x0100, qs: [][]byte{question(encodeName("inflight.example"), 1, 1)}}.encode()
						_, _ = uc.Write(q)
						clientConns = append(clientConns, uc)
					}
				}
			}
			time.Sleep(10 * time.Millisecond)
			cancel()
		case "random":
			time.Sleep(time.Duration(r.intn(3000)) * time.Microsecond)
			cancel()
		}
		returned := false
		var err error
		select {
		case err = <-done:
			returned = true
		case <-time.After(2 * time.Second):
		}
		ms := time.Since(start).Milliseconds()
		cancel()
		for _, h := range holders {
			h.Close()
		}

		// a restart must be able to bind every address at once
		rebind := true
		if returned {
			for _, a := range las {
				hp := net.JoinHostPort(a.host, itoa(a.port))
				u, e1 := net.ListenPacket("udp", hp)
				if e1 != nil {
					rebind = false
				} else {
					u.Close()
				}
				t, e2 := net.Listen("tcp", hp)
				if e2 != nil {
					rebind = false
				} else {
					t.Close()
				}
			}
		} else {
			rebind = false
		}
		for _, cn := range clientConns { // held until after the re-bind test
			cn.Close()
		}
		class := 3
		switch {
		case err == nil:
			class = 0
		case strings.Contains(err.Error(), "address already in use"):
			class = 2
		case errors.Is(err, context.Canceled) || strings.Contains(err.Error(), "operation was canceled"):
			class = 1
		}
		if !returned {
			class = -1
		}
		emit("listen", itoa(i), itoa(na), strings.Join(busyTok, ","), cancelKind, b2s(anyBusy), b2s(ext), "=>", b2s(returned), fmt.Sprint(ms), itoa(class), b2s(rebind))
		if !returned {
			// the goroutines of a hung ListenAndServe keep their sockets: move on to fresh ports
			port += 50
			hangs++
			if hangs >= 4 {
				note("listen: %d runs did not return: stopping early", hangs)
				break
			}
		}
	}
	return nil
}
