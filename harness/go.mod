module nxverif

go 1.20

require github.com/nextdns/nextdns v0.0.0

require (
	github.com/hashicorp/golang-lru v1.0.2 // indirect
	golang.org/x/net v0.33.0 // indirect
	golang.org/x/sys v0.28.0 // indirect
)

replace github.com/nextdns/nextdns => /repo
