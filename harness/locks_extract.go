package main

// Translator for C15: Go AST -> table of lock / access event paths (Coq source).
// For every configured shared type, every method that is an entry point (not a
// "...Locked" helper, not exempt) is turned into the set of its control-flow paths;
// each path is the sequence of lock operations and reads/writes of the guarded
// fields, with calls to other methods of tracked objects inlined.  Trusted: this
// file (see DESIGN.md section 7); Coq computes the lock sets and checks the
// discipline itself.

import (
	"bytes"
	"fmt"
	"go/ast"
	"go/parser"
	"go/printer"
	"go/token"
	"os"
	"path/filepath"
	"sort"
	"strings"
)

func init() { register("locks-extract", locksExtract) }

type sharedType struct {
	name    string
	dir     string            // package directory under the repo root
	files   []string
	vars    []string          // expressions (printed) that denote an object of this type inside its package
	locks   []string          // mutex field names
	fields  []string          // guarded plain fields
	atomics []string          // fields accessed through sync/atomic
	exempt  []string          // methods not analysed as entry points nor inlined (construct fresh objects)
	helpers []string          // methods only ever called with the lock held: inlined, not entry points
	fresh   map[string][]string // method -> lhs expressions that write an object not yet published
}

var sharedTypes = []sharedType{
	{name: "Hosts", dir: "discovery", files: []string{"hosts.go"}, vars: []string{"r"}, locks: []string{"mu"}, fields: []string{"addrs", "names", "fileInfo", "expires"}},
	{name: "DHCP", dir: "discovery", files: []string{"dhcp.go"}, vars: []string{"r"}, locks: []string{"mu"}, fields: []string{"macs", "addrs", "names", "fileInfo", "expires"}},
	{name: "Merlin", dir: "discovery", files: []string{"merlin_linux.go"}, vars: []string{"r"}, locks: []string{"mu"}, fields: []string{"macs", "expires"}},
	{name: "Ubios", dir: "discovery", files: []string{"ubios_linux.go"}, vars: []string{"r"}, locks: []string{"mu"}, fields: []string{"macs", "expires"}},
	{name: "Firewalla", dir: "discovery", files: []string{"firewalla_linux.go"}, vars: []string{"r"}, locks: []string{"mu"}, fields: []string{"macs", "expires"}},
	{name: "MDNS", dir: "discovery", files: []string{"mdns.go"}, vars: []string{"r"}, locks: []string{"mu"}, fields: []string{"addrs", "names"}, exempt: []string{"Start", "probe"}, helpers: []string{"removeOldestEntry"}},
	{name: "DOH", dir: "resolver", files: []string{"doh.go"}, vars: []string{"r"}, locks: []string{"mu"}, fields: []string{"lastModified"}},
	{name: "Manager", dir: "resolver/endpoint", files: []string{"manager.go"}, vars: []string{"m", "e.manager"}, locks: []string{"mu"}, fields: []string{"activeEndpoint"},
		exempt: []string{"newActiveEndpointLocked", "debug", "debugf"},
		// getActiveEndpoint: ae was just built by newActiveEndpointLocked while m.activeEndpoint == nil (checked
		// under m.mu), and is published only by the m.activeEndpoint = ae that follows
		fresh: map[string][]string{"getActiveEndpoint": {"ae.lastTest"}}},
	{name: "activeEnpoint", dir: "resolver/endpoint", files: []string{"manager.go"}, vars: []string{"e", "ae", "m.activeEndpoint"}, locks: []string{"mu"},
		fields: []string{"lastTest", "testInterval", "testing"}, atomics: []string{"consecutiveErrors"}},
}

// functions that mutate the map they are given; true: they also update the element values in place
var mutators = map[string]bool{"addEntry": true, "delete": false, "removeEntry": true}

// Three locations per guarded field f: "f" the field cell, "f*" the map / slice it points to,
// "f**" the backing arrays of that container's elements.

type lev struct {
	kind string // acqR acqW rel rd wr ard awr
	name string // Type.field
}
type lpath struct {
	evs    []lev
	defers [][]lev
	done   bool
}

type extractor struct {
	fset    *token.FileSet
	methods map[string]*ast.FuncDecl // "Type.method"
	types   map[string]*sharedType
	varType map[string]map[string]string // dir -> printed expr -> type name
	warn    []string
	fresh   []string
	// frame mode: a call of a tracked method is expanded only when the callee takes no lock at all (a helper
	// run under the caller's lock) or is an accessor (one critical section and nothing else); any other callee
	// is a frame of its own.  Used for the check-then-act rule (Model/Rmw.v), which is about one function body.
	frameMode bool
}

func exprString(fset *token.FileSet, e ast.Expr) string {
	var b bytes.Buffer
	_ = printer.Fprint(&b, fset, e)
	return b.String()
}

func (x *extractor) typeOfExpr(dir string, e ast.Expr) *sharedType {
	s := exprString(x.fset, e)
	if t, ok := x.varType[dir][s]; ok {
		return x.types[t]
	}
	return nil
}

func isMutator(n string) bool { _, ok := mutators[n]; return ok }

func contains(l []string, s string) bool {
	for _, x := range l {
		if x == s {
			return true
		}
	}
	return false
}

const maxPaths = 8192

// events of an expression evaluated as an r-value
func (x *extractor) exprEvents(dir string, e ast.Expr, depth int, out *[][]lev) {
	// out is a set of alternative event sequences (calls with several paths multiply them)
	appendAll := func(evs []lev) {
		for i := range *out {
			(*out)[i] = append(append([]lev{}, (*out)[i]...), evs...)
		}
	}
	switch v := e.(type) {
	case nil:
	case *ast.SelectorExpr:
		if t := x.typeOfExpr(dir, v.X); t != nil {
			if contains(t.fields, v.Sel.Name) {
				n := t.name + "." + v.Sel.Name
				appendAll([]lev{{"rd", n}, {"rd", n + "*"}, {"rd", n + "**"}})
				return
			}
			if contains(t.atomics, v.Sel.Name) {
				appendAll([]lev{{"rd", t.name + "." + v.Sel.Name}}) // plain read of an atomic field
				return
			}
		}
		x.exprEvents(dir, v.X, depth, out)
	case *ast.CallExpr:
		x.callEvents(dir, v, depth, out)
	case *ast.UnaryExpr:
		x.exprEvents(dir, v.X, depth, out)
	case *ast.BinaryExpr:
		if x.frameMode && (v.Op == token.EQL || v.Op == token.NEQ) {
			// `X.f == nil` looks at the field cell only, not at what it points to (the check-then-act rule needs
			// reads that are not over-approximated)
			for _, pr := range [][2]ast.Expr{{v.X, v.Y}, {v.Y, v.X}} {
				if id, ok := pr[1].(*ast.Ident); ok && id.Name == "nil" {
					if se, ok := pr[0].(*ast.SelectorExpr); ok {
						if t := x.typeOfExpr(dir, se.X); t != nil && contains(t.fields, se.Sel.Name) {
							appendAll([]lev{{"rd", t.name + "." + se.Sel.Name}})
							return
						}
					}
				}
			}
		}
		x.exprEvents(dir, v.X, depth, out)
		x.exprEvents(dir, v.Y, depth, out)
	case *ast.ParenExpr:
		x.exprEvents(dir, v.X, depth, out)
	case *ast.IndexExpr:
		x.exprEvents(dir, v.X, depth, out)
		x.exprEvents(dir, v.Index, depth, out)
	case *ast.StarExpr:
		x.exprEvents(dir, v.X, depth, out)
	case *ast.TypeAssertExpr:
		x.exprEvents(dir, v.X, depth, out)
	case *ast.CompositeLit:
		for _, el := range v.Elts {
			if kv, ok := el.(*ast.KeyValueExpr); ok {
				x.exprEvents(dir, kv.Value, depth, out)
			} else {
				x.exprEvents(dir, el, depth, out)
			}
		}
	case *ast.SliceExpr:
		x.exprEvents(dir, v.X, depth, out)
	case *ast.FuncLit:
		// a closure value: its body runs when called; bodies of `go func(){...}()` are handled by the statement walker
	}
}

func (x *extractor) callEvents(dir string, c *ast.CallExpr, depth int, out *[][]lev) {
	appendAll := func(evs []lev) {
		for i := range *out {
			(*out)[i] = append(append([]lev{}, (*out)[i]...), evs...)
		}
	}
	// lock operations:  X.mu.Lock()
	if sel, ok := c.Fun.(*ast.SelectorExpr); ok {
		if inner, ok2 := sel.X.(*ast.SelectorExpr); ok2 {
			if t := x.typeOfExpr(dir, inner.X); t != nil && contains(t.locks, inner.Sel.Name) {
				id := t.name + "." + inner.Sel.Name
				switch sel.Sel.Name {
				case "Lock":
					appendAll([]lev{{"acqW", id}})
					return
				case "RLock":
					appendAll([]lev{{"acqR", id}})
					return
				case "Unlock", "RUnlock":
					appendAll([]lev{{"rel", id}})
					return
				case "TryRLock", "TryLock":
					x.warn = append(x.warn, "Try*Lock not modelled")
				}
			}
		}
		// sync/atomic on a tracked field: atomic.F(&X.f, ...)
		if pk, ok2 := sel.X.(*ast.Ident); ok2 && pk.Name == "atomic" && len(c.Args) > 0 {
			if u, ok3 := c.Args[0].(*ast.UnaryExpr); ok3 && u.Op == token.AND {
				if fs, ok4 := u.X.(*ast.SelectorExpr); ok4 {
					if t := x.typeOfExpr(dir, fs.X); t != nil && (contains(t.atomics, fs.Sel.Name) || contains(t.fields, fs.Sel.Name)) {
						k := "awr"
						if strings.HasPrefix(sel.Sel.Name, "Load") {
							k = "ard"
						}
						for _, a := range c.Args[1:] {
							x.exprEvents(dir, a, depth, out)
						}
						appendAll([]lev{{k, t.name + "." + fs.Sel.Name}})
						return
					}
				}
			}
		}
		// method of a tracked object: inline
		if t := x.typeOfExpr(dir, sel.X); t != nil {
			for _, a := range c.Args {
				x.exprEvents(dir, a, depth, out)
			}
			if contains(t.exempt, sel.Sel.Name) {
				return
			}
			if fd, ok2 := x.methods[t.name+"."+sel.Sel.Name]; ok2 && depth < 6 {
				sub := x.funcPaths(t.dir, fd, depth+1)
				if x.frameMode && !frameInlinable(sub) {
					return
				}
				var next [][]lev
				for _, base := range *out {
					for _, sp := range sub {
						next = append(next, append(append([]lev{}, base...), sp...))
						if len(next) > maxPaths {
							x.warn = append(x.warn, "path cap reached in "+t.name+"."+sel.Sel.Name)
							break
						}
					}
				}
				*out = next
				return
			}
			return
		}
	}
	// mutators given a tracked field:  addEntry(r.addrs, ...) / delete(r.names, k)
	if id, ok := c.Fun.(*ast.Ident); ok && len(c.Args) > 0 && isMutator(id.Name) {
		if fs, ok2 := c.Args[0].(*ast.SelectorExpr); ok2 {
			if t := x.typeOfExpr(dir, fs.X); t != nil && contains(t.fields, fs.Sel.Name) {
				for _, a := range c.Args[1:] {
					x.exprEvents(dir, a, depth, out)
				}
				n := t.name + "." + fs.Sel.Name
				appendAll([]lev{{"rd", n}, {"wr", n + "*"}})
				if mutators[id.Name] {
					appendAll([]lev{{"wr", n + "**"}})
				}
				return
			}
		}
	}
	// &X.f handed to a call (json Decode, ...): the callee may replace the field and fill the container
	for _, a := range c.Args {
		if u, ok := a.(*ast.UnaryExpr); ok && u.Op == token.AND {
			if fs, ok2 := u.X.(*ast.SelectorExpr); ok2 {
				if t := x.typeOfExpr(dir, fs.X); t != nil && contains(t.fields, fs.Sel.Name) {
					n := t.name + "." + fs.Sel.Name
					appendAll([]lev{{"wr", n}, {"wr", n + "*"}})
				}
			}
		}
	}
	x.exprEvents(dir, c.Fun, depth, out)
	for _, a := range c.Args {
		x.exprEvents(dir, a, depth, out)
	}
}

// frameInlinable: no lock operation on any path, or every path is exactly one critical section
func frameInlinable(sub [][]lev) bool {
	lockFree, accessor := true, true
	for _, p := range sub {
		nacq, nrel := 0, 0
		for _, e := range p {
			switch e.kind {
			case "acqR", "acqW":
				nacq++
			case "rel":
				nrel++
			}
		}
		if nacq+nrel > 0 {
			lockFree = false
		}
		if len(p) == 0 {
			continue
		}
		// one critical section from the first event on; after its release only reads through a returned alias
		tailOK := true
		relSeen := false
		for _, e := range p {
			if relSeen && e.kind != "rd" {
				tailOK = false
			}
			if e.kind == "rel" {
				relSeen = true
			}
		}
		if !(nacq == 1 && nrel == 1 && strings.HasPrefix(p[0].kind, "acq") && tailOK) {
			accessor = false
		}
	}
	return lockFree || accessor
}

// escapes: e is a selector / index chain rooted at a guarded field (no copy in between)
func (x *extractor) escapes(dir string, e ast.Expr) []string {
	indexed := false
	for {
		switch v := e.(type) {
		case *ast.ParenExpr:
			e = v.X
		case *ast.IndexExpr:
			indexed = true
			e = v.X
		case *ast.SliceExpr:
			e = v.X
		case *ast.SelectorExpr:
			if t := x.typeOfExpr(dir, v.X); t != nil && contains(t.fields, v.Sel.Name) {
				n := t.name + "." + v.Sel.Name
				if indexed {
					return []string{n + "**"}
				}
				return []string{n + "*", n + "**"}
			}
			e = v.X
		default:
			return nil
		}
	}
}

// lhsEvents: writes for assignment targets
func (x *extractor) lhsEvents(dir string, e ast.Expr, depth int, out *[][]lev) {
	appendAll := func(evs []lev) {
		for i := range *out {
			(*out)[i] = append(append([]lev{}, (*out)[i]...), evs...)
		}
	}
	if contains(x.fresh, exprString(x.fset, e)) {
		return
	}
	switch v := e.(type) {
	case *ast.SelectorExpr:
		if t := x.typeOfExpr(dir, v.X); t != nil && (contains(t.fields, v.Sel.Name) || contains(t.atomics, v.Sel.Name)) {
			appendAll([]lev{{"wr", t.name + "." + v.Sel.Name}})
			return
		}
		x.exprEvents(dir, v.X, depth, out)
	case *ast.IndexExpr: // r.f[k] = v  writes the map held in the field
		if fs, ok := v.X.(*ast.SelectorExpr); ok {
			if t := x.typeOfExpr(dir, fs.X); t != nil && contains(t.fields, fs.Sel.Name) {
				x.exprEvents(dir, v.Index, depth, out)
				appendAll([]lev{{"rd", t.name + "." + fs.Sel.Name}, {"wr", t.name + "." + fs.Sel.Name + "*"}})
				return
			}
		}
		x.exprEvents(dir, v.X, depth, out)
		x.exprEvents(dir, v.Index, depth, out)
	case *ast.StarExpr:
		x.exprEvents(dir, v.X, depth, out)
	}
}

// stmtPaths extends every live path with the statement's alternatives
func (x *extractor) stmtPaths(dir string, st ast.Stmt, paths []lpath, depth int) []lpath {
	var live, dead []lpath
	for _, p := range paths {
		if p.done {
			dead = append(dead, p)
		} else {
			live = append(live, p)
		}
	}
	if len(live) == 0 || st == nil {
		return paths
	}
	ext := func(ps []lpath, f func(out *[][]lev)) []lpath {
		var res []lpath
		for _, p := range ps {
			alts := [][]lev{{}}
			f(&alts)
			for _, a := range alts {
				np := lpath{evs: append(append([]lev{}, p.evs...), a...), defers: p.defers}
				res = append(res, np)
			}
		}
		return dedupPaths(res)
	}
	switch v := st.(type) {
	case *ast.ExprStmt:
		live = ext(live, func(o *[][]lev) { x.exprEvents(dir, v.X, depth, o) })
	case *ast.AssignStmt:
		live = ext(live, func(o *[][]lev) {
			for _, r := range v.Rhs {
				x.exprEvents(dir, r, depth, o)
			}
			for _, l := range v.Lhs {
				x.lhsEvents(dir, l, depth, o)
			}
		})
	case *ast.IncDecStmt:
		live = ext(live, func(o *[][]lev) { x.exprEvents(dir, v.X, depth, o); x.lhsEvents(dir, v.X, depth, o) })
	case *ast.DeclStmt:
		if gd, ok := v.Decl.(*ast.GenDecl); ok {
			for _, sp := range gd.Specs {
				if vs, ok2 := sp.(*ast.ValueSpec); ok2 {
					live = ext(live, func(o *[][]lev) {
						for _, val := range vs.Values {
							x.exprEvents(dir, val, depth, o)
						}
					})
				}
			}
		}
	case *ast.DeferStmt:
		alts := [][]lev{{}}
		x.callEvents(dir, v.Call, depth, &alts)
		if fl, ok := v.Call.Fun.(*ast.FuncLit); ok {
			sub := x.blockPaths(dir, fl.Body.List, []lpath{{}}, depth)
			alts = nil
			for _, sp := range sub {
				alts = append(alts, sp.evs)
			}
		}
		var res []lpath
		for _, p := range live {
			for _, a := range alts {
				np := lpath{evs: p.evs, defers: append(append([][]lev{}, p.defers...), a)}
				res = append(res, np)
			}
		}
		live = res
	case *ast.GoStmt:
		// the goroutine body is a separate thread: collected by collectGoBodies
	case *ast.ReturnStmt:
		live = ext(live, func(o *[][]lev) {
			for _, r := range v.Results {
				x.exprEvents(dir, r, depth, o)
			}
		})
		// a result that is (part of) the data behind a guarded field escapes: the caller reads it after
		// the deferred unlocks have run
		for _, r := range v.Results {
			for _, loc := range x.escapes(dir, r) {
				for i := range live {
					live[i].defers = append([][]lev{{{"rd", loc}}}, live[i].defers...)
				}
			}
		}
		for i := range live {
			live[i].done = true
		}
	case *ast.BlockStmt:
		live = x.blockPaths(dir, v.List, live, depth)
	case *ast.IfStmt:
		if v.Init != nil {
			live = x.stmtPaths(dir, v.Init, live, depth)
		}
		live = ext(live, func(o *[][]lev) { x.exprEvents(dir, v.Cond, depth, o) })
		thenP := x.blockPaths(dir, v.Body.List, cloneLive(live), depth)
		var elseP []lpath
		if v.Else != nil {
			elseP = x.stmtPaths(dir, v.Else, cloneLive(live), depth)
		} else {
			elseP = cloneLive(live)
		}
		live = append(thenP, elseP...)
	case *ast.ForStmt:
		if v.Init != nil {
			live = x.stmtPaths(dir, v.Init, live, depth)
		}
		if v.Cond != nil {
			live = ext(live, func(o *[][]lev) { x.exprEvents(dir, v.Cond, depth, o) })
		}
		body := x.blockPaths(dir, v.Body.List, cloneLive(live), depth)
		for i := range body { // break/continue end the iteration, not the function
			if body[i].done && !endsInReturn(body[i]) {
				body[i].done = false
			}
		}
		live = append(body, cloneLive(live)...)
	case *ast.RangeStmt:
		live = ext(live, func(o *[][]lev) { x.exprEvents(dir, v.X, depth, o) })
		body := x.blockPaths(dir, v.Body.List, cloneLive(live), depth)
		live = append(body, cloneLive(live)...)
	case *ast.SwitchStmt:
		if v.Init != nil {
			live = x.stmtPaths(dir, v.Init, live, depth)
		}
		if v.Tag != nil {
			live = ext(live, func(o *[][]lev) { x.exprEvents(dir, v.Tag, depth, o) })
		}
		var all []lpath
		hasDefault := false
		for _, cc := range v.Body.List {
			cl := cc.(*ast.CaseClause)
			if cl.List == nil {
				hasDefault = true
			}
			all = append(all, x.blockPaths(dir, cl.Body, cloneLive(live), depth)...)
		}
		if !hasDefault {
			all = append(all, cloneLive(live)...)
		}
		live = all
	case *ast.TypeSwitchStmt:
		var all []lpath
		for _, cc := range v.Body.List {
			all = append(all, x.blockPaths(dir, cc.(*ast.CaseClause).Body, cloneLive(live), depth)...)
		}
		all = append(all, cloneLive(live)...)
		live = all
	case *ast.SelectStmt:
		var all []lpath
		for _, cc := range v.Body.List {
			all = append(all, x.blockPaths(dir, cc.(*ast.CommClause).Body, cloneLive(live), depth)...)
		}
		live = all
	case *ast.BranchStmt, *ast.LabeledStmt, *ast.EmptyStmt, *ast.SendStmt:
	}
	all := dedupPaths(append(dead, live...))
	if len(all) > maxPaths {
		x.warn = append(x.warn, "path cap reached")
		all = all[:maxPaths]
	}
	return all
}

func dedupPaths(ps []lpath) []lpath {
	seen := map[string]bool{}
	var out []lpath
	for _, p := range ps {
		k := fmt.Sprint(p.evs, "|", p.defers, "|", p.done)
		if !seen[k] {
			seen[k] = true
			out = append(out, p)
		}
	}
	return out
}

func endsInReturn(p lpath) bool { return p.done }

func cloneLive(ps []lpath) []lpath {
	var out []lpath
	for _, p := range ps {
		out = append(out, lpath{evs: append([]lev{}, p.evs...), defers: append([][]lev{}, p.defers...), done: p.done})
	}
	return out
}

func (x *extractor) blockPaths(dir string, list []ast.Stmt, paths []lpath, depth int) []lpath {
	for _, st := range list {
		paths = x.stmtPaths(dir, st, paths, depth)
	}
	return paths
}

// funcPaths: event sequences of every control-flow path of fd (defers appended in LIFO order)
func (x *extractor) funcPaths(dir string, fd *ast.FuncDecl, depth int) [][]lev {
	if fd.Body == nil {
		return [][]lev{{}}
	}
	saved := x.fresh
	x.fresh = nil
	for _, t := range sharedTypes {
		if x.methods[t.name+"."+fd.Name.Name] == fd {
			x.fresh = t.fresh[fd.Name.Name]
		}
	}
	defer func() { x.fresh = saved }()
	ps := x.blockPaths(dir, fd.Body.List, []lpath{{}}, depth)
	var out [][]lev
	seen := map[string]bool{}
	for _, p := range ps {
		evs := append([]lev{}, p.evs...)
		for i := len(p.defers) - 1; i >= 0; i-- {
			evs = append(evs, p.defers[i]...)
		}
		k := fmt.Sprint(evs)
		if !seen[k] {
			seen[k] = true
			out = append(out, evs)
		}
	}
	return out
}

// goroutine bodies started inside a method are threads of their own
func (x *extractor) goBodies(dir string, fd *ast.FuncDecl) [][]lev {
	var out [][]lev
	if fd.Body == nil {
		return nil
	}
	ast.Inspect(fd.Body, func(n ast.Node) bool {
		if g, ok := n.(*ast.GoStmt); ok {
			if fl, ok2 := g.Call.Fun.(*ast.FuncLit); ok2 {
				for _, p := range x.blockPaths(dir, fl.Body.List, []lpath{{}}, 0) {
					evs := append([]lev{}, p.evs...)
					for i := len(p.defers) - 1; i >= 0; i-- {
						evs = append(evs, p.defers[i]...)
					}
					out = append(out, evs)
				}
			} else {
				alts := [][]lev{{}}
				x.callEvents(dir, g.Call, 0, &alts)
				out = append(out, alts...)
			}
		}
		return true
	})
	return out
}

func locksExtract(args []string) error {
	repo := os.Getenv("NX_REPO")
	if repo == "" {
		repo = "/repo"
	}
	x := &extractor{fset: token.NewFileSet(), methods: map[string]*ast.FuncDecl{}, types: map[string]*sharedType{}, varType: map[string]map[string]string{}}
	for i := range sharedTypes {
		t := &sharedTypes[i]
		x.types[t.name] = t
		if x.varType[t.dir] == nil {
			x.varType[t.dir] = map[string]string{}
		}
	}
	parsed := map[string]*ast.File{}
	for i := range sharedTypes {
		t := &sharedTypes[i]
		for _, f := range t.files {
			p := filepath.Join(repo, t.dir, f)
			if parsed[p] == nil {
				af, err := parser.ParseFile(x.fset, p, nil, 0)
				if err != nil {
					return err
				}
				parsed[p] = af
			}
			for _, d := range parsed[p].Decls {
				fd, ok := d.(*ast.FuncDecl)
				if !ok || fd.Recv == nil || len(fd.Recv.List) == 0 {
					continue
				}
				rt := fd.Recv.List[0].Type
				if st, ok2 := rt.(*ast.StarExpr); ok2 {
					rt = st.X
				}
				if id, ok2 := rt.(*ast.Ident); ok2 && id.Name == t.name {
					x.methods[t.name+"."+fd.Name.Name] = fd
				}
			}
		}
	}
	// variable names denote a type only inside the methods of that type's package; receiver names come from config
	var tbl [][]lev
	var labels []string
	names := make([]string, 0, len(x.methods))
	for n := range x.methods {
		names = append(names, n)
	}
	sort.Strings(names)
	for _, n := range names {
		fd := x.methods[n]
		tn := strings.SplitN(n, ".", 2)[0]
		t := x.types[tn]
		// scope the variable->type map to this type's configuration plus the other types of the same directory
		x.varType[t.dir] = map[string]string{}
		for _, u := range sharedTypes {
			if u.dir == t.dir {
				for _, v := range u.vars {
					if _, dup := x.varType[t.dir][v]; !dup || u.name == tn {
						x.varType[t.dir][v] = u.name
					}
				}
			}
		}
		// the receiver name of this method denotes this type
		if len(fd.Recv.List[0].Names) > 0 {
			x.varType[t.dir][fd.Recv.List[0].Names[0].Name] = tn
		}
		mname := fd.Name.Name
		if strings.HasSuffix(mname, "Locked") || contains(t.exempt, mname) || contains(t.helpers, mname) {
			// helper called with the lock held / constructor of fresh objects: only its goroutines are threads
		} else {
			for _, p := range x.funcPaths(t.dir, fd, 0) {
				tbl = append(tbl, p)
				labels = append(labels, n)
			}
		}
		for _, p := range x.goBodies(t.dir, fd) {
			tbl = append(tbl, p)
			labels = append(labels, n+"/go")
		}
	}
	// second pass, frame mode: every method body on its own (helpers and accessors expanded)
	x.frameMode = true
	var frames [][]lev
	var flabels []string
	for _, n := range names {
		fd := x.methods[n]
		tn := strings.SplitN(n, ".", 2)[0]
		t := x.types[tn]
		x.varType[t.dir] = map[string]string{}
		for _, u := range sharedTypes {
			if u.dir == t.dir {
				for _, v := range u.vars {
					if _, dup := x.varType[t.dir][v]; !dup || u.name == tn {
						x.varType[t.dir][v] = u.name
					}
				}
			}
		}
		if len(fd.Recv.List[0].Names) > 0 {
			x.varType[t.dir][fd.Recv.List[0].Names[0].Name] = tn
		}
		if contains(t.exempt, fd.Name.Name) {
			continue
		}
		for _, p := range x.funcPaths(t.dir, fd, 0) {
			frames = append(frames, p)
			flabels = append(flabels, n)
		}
		for _, p := range x.goBodies(t.dir, fd) {
			frames = append(frames, p)
			flabels = append(flabels, n+"/go")
		}
	}
	x.frameMode = false
	// ids
	ids := map[string]int{}
	var keys []string
	for _, p := range append(append([][]lev{}, tbl...), frames...) {
		for _, e := range p {
			if _, ok := ids[e.name]; !ok {
				ids[e.name] = 0
				keys = append(keys, e.name)
			}
		}
	}
	sort.Strings(keys)
	for i, k := range keys {
		ids[k] = i + 1
	}
	var b strings.Builder
	b.WriteString("(* GENERATED by `nxh locks-extract` from /repo on every run of the C15 check -- do not edit. *)\n")
	b.WriteString("From NX Require Import Bytes Locks.\nOpen Scope Z_scope.\n\n(* ids:\n")
	for _, k := range keys {
		fmt.Fprintf(&b, "   %d = %s\n", ids[k], k)
	}
	b.WriteString("*)\n\nDefinition table : list path :=\n  [")
	first := true
	nonEmpty := 0
	for i, p := range tbl {
		if len(p) == 0 {
			continue
		}
		nonEmpty++
		if !first {
			b.WriteString(";\n   ")
		}
		first = false
		fmt.Fprintf(&b, "(* %s *) [", labels[i])
		for j, e := range p {
			if j > 0 {
				b.WriteString("; ")
			}
			id := ids[e.name]
			switch e.kind {
			case "acqR":
				fmt.Fprintf(&b, "Acq %d MR", id)
			case "acqW":
				fmt.Fprintf(&b, "Acq %d MW", id)
			case "rel":
				fmt.Fprintf(&b, "Rel %d", id)
			case "rd":
				fmt.Fprintf(&b, "Rd %d", id)
			case "wr":
				fmt.Fprintf(&b, "Wr %d", id)
			case "ard":
				fmt.Fprintf(&b, "ARd %d", id)
			case "awr":
				fmt.Fprintf(&b, "AWr %d", id)
			}
		}
		b.WriteString("]")
	}
	b.WriteString("].\n")
	// frames: de-duplicated, only those with a plain write (the rule is vacuous on the others)
	b.WriteString("\n(* one entry per control-flow path of each method body taken on its own *)\nDefinition frames : list path :=\n  [")
	first = true
	nframes := 0
	seenF := map[string]bool{}
	for i, p := range frames {
		hasWr := false
		for _, e := range p {
			if e.kind == "wr" {
				hasWr = true
			}
		}
		k := fmt.Sprint(p)
		if !hasWr || seenF[k] {
			continue
		}
		seenF[k] = true
		nframes++
		if !first {
			b.WriteString(";\n   ")
		}
		first = false
		fmt.Fprintf(&b, "(* %s *) [", flabels[i])
		for j, e := range p {
			if j > 0 {
				b.WriteString("; ")
			}
			id := ids[e.name]
			switch e.kind {
			case "acqR":
				fmt.Fprintf(&b, "Acq %d MR", id)
			case "acqW":
				fmt.Fprintf(&b, "Acq %d MW", id)
			case "rel":
				fmt.Fprintf(&b, "Rel %d", id)
			case "rd":
				fmt.Fprintf(&b, "Rd %d", id)
			case "wr":
				fmt.Fprintf(&b, "Wr %d", id)
			case "ard":
				fmt.Fprintf(&b, "ARd %d", id)
			case "awr":
				fmt.Fprintf(&b, "AWr %d", id)
			}
		}
		b.WriteString("]")
	}
	b.WriteString("].\n")
	fmt.Fprintf(&b, "\n(* %d frames with a plain write *)\n", nframes)
	fmt.Fprintf(&b, "\n(* %d paths, %d non-empty; warnings: %s *)\n", len(tbl), nonEmpty, strings.Join(x.warn, "; "))
	if len(x.warn) > 0 { // fail closed: an incomplete table must not be checked
		return fmt.Errorf("locks-extract: %s", strings.Join(x.warn, "; "))
	}
	fmt.Print(b.String())
	return nil
}
