package main

// Engine "config" (C17): config.Config.Parse / Save through a config file, one
// sub-process per step (Parse exits the process on errors).

import (
	"context"
	"fmt"
	"net"
	"os"
	"os/exec"
	"path/filepath"
	"sort"
	"strings"
	"time"

	"github.com/nextdns/nextdns/config"
	"github.com/nextdns/nextdns/resolver"
	"github.com/nextdns/nextdns/resolver/query"
)

func init() {
	register("config", configEngine)
	register("config-child", configChild)
}

type probeRes struct{}

func (probeRes) Resolve(ctx context.Context, q query.Query, buf []byte) (int, resolver.ResolveInfo, error) {
	return 0, resolver.ResolveInfo{}, nil
}

var cfgProbeClients = [][3]string{
	{"10.1.2.3", "127.0.0.1", "00:11:22:33:44:55"}, {"10.2.0.1", "10.9.0.1", ""}, {"192.168.1.5", "", "aa:bb:cc:dd:ee:ff"},
	{"fd00:1:2::5", "::1", ""}, {"", "", ""}, {"8.8.8.8", "10.9.0.1", "00:11:22:33:44:56"},
}
var cfgProbeNames = []string{"host.corp.", "Host.Corp.", "corp.", "notcorp.", "x.lan.", "lan.", "www.example.com.", "."}

// effective renders the effective configuration: scalars, lists, and the decisions
// of Profiles.Get / Forwarders.Get on fixed probes.
func effective(c *config.Config) string {
	var p []string
	p = append(p, "listen="+strings.Join(c.Listens, ","))
	p = append(p, "control="+c.Control, fmt.Sprintf("log=%v", c.LogQueries), "cache="+c.CacheSize,
		fmt.Sprintf("maxage=%d", int64(c.CacheMaxAge)), fmt.Sprintf("maxttl=%d", int64(c.MaxTTL)),
		fmt.Sprintf("report=%v", c.ReportClientInfo), "ddns="+c.DiscoveryDNS, "mdns="+c.MDNS,
		fmt.Sprintf("captive=%v", c.DetectCaptivePortals), fmt.Sprintf("bogus=%v", c.BogusPriv),
		fmt.Sprintf("hosts=%v", c.UseHosts), fmt.Sprintf("timeout=%d", int64(c.Timeout)),
		fmt.Sprintf("inflight=%d", c.MaxInflightRequests), fmt.Sprintf("router=%v", c.SetupRouter),
		fmt.Sprintf("auto=%v", c.AutoActivate), fmt.Sprintf("debug=%v", c.Debug))
	var pg []string
	for _, pc := range cfgProbeClients {
		var src, dst net.IP
		var mac net.HardwareAddr
		if pc[0] != "" {
			src = net.ParseIP(pc[0])
		}
		if pc[1] != "" {
			dst = net.ParseIP(pc[1])
		}
		if pc[2] != "" {
			mac, _ = net.ParseMAC(pc[2])
		}
		pg = append(pg, c.Profile.Get(src, dst, mac))
	}
	p = append(p, "pget="+strings.Join(pg, ","))
	var fg []string
	for _, n := range cfgProbeNames {
		r := c.Forwarders.Get(n)
		idx := "-"
		for i, f := range c.Forwarders {
			if f.Resolver == r && r != nil {
				idx = fmt.Sprint(i)
				break
			}
		}
		fg = append(fg, idx)
	}
	p = append(p, "fget="+strings.Join(fg, ","))
	p = append(p, "profiles="+strings.Join(c.Profile.Strings(), ","), "forwarders="+strings.Join(c.Forwarders.Strings(), ","))
	return strings.Join(p, ";")
}

// config-child <save|load> args...   prints EFFECTIVE <hex>
func configChild(args []string) error {
	setupVeth()
	mode := args[0]
	var c config.Config
	c.Parse("nxh config-child", args[1:], false)
	if mode == "save" {
		if err := c.Save(); err != nil {
			return err
		}
	}
	fmt.Println("EFFECTIVE " + sx(effective(&c)))
	return nil
}

func runCfgChild(mode string, args []string) (string, bool) {
	cmd := exec.Command(os.Args[0], append([]string{"config-child", mode}, args...)...)
	out, err := cmd.Output()
	if err != nil {
		return "", false
	}
	for _, l := range strings.Split(string(out), "\n") {
		if strings.HasPrefix(l, "EFFECTIVE ") {
			return strings.TrimPrefix(l, "EFFECTIVE "), true
		}
	}
	return "", false
}

func fileLines(p string) string {
	b, err := os.ReadFile(p)
	if err != nil {
		return "missing"
	}
	ls := strings.Split(strings.TrimRight(string(b), "\n"), "\n")
	// options are written in map order: sort by option name, keeping the order inside one option
	sort.SliceStable(ls, func(i, j int) bool { return strings.SplitN(ls[i], " ", 2)[0] < strings.SplitN(ls[j], " ", 2)[0] })
	return sx(strings.Join(ls, "\n"))
}

// short printable literals of config/*.go without the separators of the option syntax
var cfgDomTokens = func() []string {
	out := []string{"-", "_"}
	for _, t := range sourceDict("config/forwarder.go", "config/profile.go", "config/config.go").strs {
		ok := len(t) <= 3
		for _, c := range []byte(t) {
			if c <= 32 || c >= 127 || c == '=' || c == ',' || c == '%' {
				ok = false
			}
		}
		if ok {
			out = append(out, t)
		}
	}
	return out
}()

func configEngine(args []string) error {
	c := parseCommon("config", args)
	r := newRng(c.seed)
	dir, err := os.MkdirTemp("", "nxcfg")
	if err != nil {
		return err
	}
	defer os.RemoveAll(dir)
	setupVeth()
	ifs := []string{"lo"}
	if ifc, _ := net.InterfaceByName("nxv0"); ifc != nil {
		ifs = append(ifs, "nxv0")
	}
	genArgs := func() []string {
		var a []string
		add := func(k, v string) { a = append(a, "-"+k, v) }
		if r.coin(60) {
			for i := r.rng(1, 3); i > 0; i-- {
				add("listen", []string{"localhost:53", "127.0.0.1:5353", ":53", "[::1]:53", "0.0.0.0:5300"}[r.intn(5)])
			}
		}
		if r.coin(20) {
			add("control", "/tmp/nx-"+string(randLabel(r, 5))+".sock")
		}
		for i := r.intn(5); i > 0; i-- {
			id := string(randLabel(r, 6))
			switch r.intn(5) {
			case 0:
				add("profile", id)
			case 1:
				add("profile", []string{"10.0.0.0/8", "10.1.0.0/16", "10.1.2.77/24", "fd00:1::/32", "192.168.0.0/16"}[r.intn(5)]+"="+id)
			case 2:
				add("profile", []string{"00:11:22:33:44:55", "AA:BB:CC:DD:EE:FF", "00-11-22-33-44-56"}[r.intn(3)]+"="+id)
			case 3:
				add("profile", ifs[r.intn(len(ifs))]+"="+id)
			case 4:
				add("config", id) // deprecated spelling
			}
		}
		for i := r.intn(4); i > 0; i-- {
			dom := []string{"corp", "Corp.", "lan", "example.com", "x.lan."}[r.intn(5)]
			if r.coin(35) {
				// unusual but printable domains: short tokens that appear as literals in the option parsers
				// (read from the current source), repeated, in front of an ordinary domain
				tok := cfgDomTokens[r.intn(len(cfgDomTokens))]
				dom = strings.Repeat(tok, r.rng(1, 3)) + []string{"corp", "corp.example", "Lan."}[r.intn(3)]
			}
			addr := []string{"10.0.0.1", "10.0.0.2:5353", "https://doh.example/dns#1.2.3.4", "10.0.0.1,10.0.0.3"}[r.intn(4)]
			if r.coin(15) {
				add("forwarder", addr)
			} else {
				add("forwarder", dom+"="+addr)
			}
		}
		for _, b := range []string{"log-queries", "report-client-info", "detect-captive-portals", "setup-router", "auto-activate", "debug"} {
			if r.coin(25) {
				a = append(a, "-"+b)
			}
		}
		for _, b := range []string{"bogus-priv", "use-hosts"} {
			if r.coin(25) {
				a = append(a, "-"+b+"=false")
			}
		}
		if r.coin(40) {
			add("cache-size", []string{"0", "10MB", "1.5 GB", "4096", "10mb"}[r.intn(5)])
		}
		if r.coin(30) {
			add("cache-max-age", []string{"0s", "30s", "1h", "1h30m", "1500ms", "24h0m0s"}[r.intn(6)])
		}
		if r.coin(30) {
			add("max-ttl", []string{"5s", "1m", "0", "90s"}[r.intn(4)])
		}
		if r.coin(30) {
			add("timeout", []string{"5s", "2s", "750ms", "1m"}[r.intn(4)])
		}
		if r.coin(40) {
			add("max-inflight-requests", []string{"256", "1", "65535", "65536", "100000", "1000000"}[r.intn(6)])
		}
		if r.coin(20) {
			add("discovery-dns", []string{"192.168.1.1", "10.0.0.1:53"}[r.intn(2)])
		}
		if r.coin(20) {
			add("mdns", []string{"all", "disabled", "lo"}[r.intn(3)])
		}
		return a
	}
	setOpts := [][]string{{"-debug"}, {"-log-queries"}, {"-cache-size", "7MB"}, {"-timeout", "3s"}, {"-max-ttl", "11s"}, {"-mdns", "disabled"},
		{"-bogus-priv=false"}, {"-max-inflight-requests", "300"}, {"-discovery-dns", "10.9.9.9"}}
	for i := 0; i < c.n; i++ {
		f := filepath.Join(dir, fmt.Sprintf("c%d.conf", i))
		a := genArgs()
		if i%2 == 1 {
			// history: the file already holds a (much) longer configuration; the save under test must replace it
			long := "/tmp/" + strings.Repeat("very-long-control-socket-directory-name/", 12) + "nextdns.sock"
			if _, ok := runCfgChild("save", append(append([]string{"-config-file", f}, a...), "-control", long)); ok {
				a = append(a, "-control", "/tmp/n.sock")
			}
		}
		e1, ok1 := runCfgChild("save", append([]string{"-config-file", f}, a...))
		if !ok1 {
			continue // not accepted from the command line: outside the property
		}
		lines1 := fileLines(f)
		e2, ok2 := runCfgChild("load", []string{"-config-file", f})
		// config set of one option, then load
		so := setOpts[r.intn(len(setOpts))]
		e3, ok3 := runCfgChild("save", append([]string{"-config-file", f}, so...))
		e4, ok4 := runCfgChild("load", []string{"-config-file", f})
		tok := func(s string, ok bool) string {
			if !ok {
				return "FAILED"
			}
			return s
		}
		emit("cfg", itoa(i), sx(strings.Join(a, " ")), sx(strings.Join(so, " ")), "=>", tok(e1, ok1), lines1, tok(e2, ok2), tok(e3, ok3), tok(e4, ok4))
		_ = time.Now
	}
	return nil
}
