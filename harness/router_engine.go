package main

// Engine "router" (C20): the real router.New() / Configure / Setup / Restore of every
// firmware package, run inside a chroot jail whose uci, nvram, uname, service,
// init scripts ... are this binary under other names (multi-call shim) working on
// fake stores.  The shim's "restart dnsmasq" records what dnsmasq would load at that
// moment; the observation after every call is the managed file, the stores and that
// snapshot.

import (
	"bytes"
	"fmt"
	"io"
	"os"
	"os/exec"
	"path/filepath"
	"sort"
	"strings"
	"sync"
	"syscall"

	"github.com/nextdns/nextdns/config"
	"github.com/nextdns/nextdns/router"
	"github.com/nextdns/nextdns/router/firewalla"
)

func init() {
	register("router", routerEngine)
	register("router-child", routerChild)
}

var shimNames = []string{"uci", "nvram", "uname", "service", "stopservice", "startservice", "ubus", "kill", "sudo",
	"systemctl", "ubnt-device-info"}

var fwKinds = []string{"openwrt", "merlin", "ddwrt", "edgeos", "synology", "ubios", "firewalla", "generic"}

var uciKeys = []string{"dhcp.@dnsmasq[0].port", "dhcp.@dnsmasq[0].server", "dhcp.lan.dhcp_option", "network.lan.ipaddr"}
var nvNames = []string{"dns_dnsmasq", "dnsmasq_options", "dns_crypt", "dnssec", "dnsmasq_no_dns_rebind", "dnsmasq_add_mac"}

func confPath(fw string, variant int) string {
	switch fw {
	case "openwrt":
		if variant == 1 {
			return "/tmp/dnsmasq.cfg01411c.d/nextdns.conf"
		}
		return "/tmp/dnsmasq.d/nextdns.conf"
	case "merlin":
		return "/jffs/scripts/dnsmasq.postconf"
	case "edgeos":
		return "/etc/dnsmasq.d/nextdns.conf"
	case "synology":
		return "/etc/dhcpd/dhcpd-vendor-nextdns.conf"
	case "ubios":
		return "/run/dnsmasq.conf.d/nextdns.conf"
	case "firewalla":
		return "/home/pi/.firewalla/config/dnsmasq_local/nextdns.conf"
	}
	return "/shim/none"
}

// ---------- stores on disk (inside the jail, /shim) ----------

type kv struct {
	k string
	v []string
}

func readStore(path string) []kv {
	b, err := os.ReadFile(path)
	if err != nil {
		return nil
	}
	var out []kv
	for _, l := range strings.Split(string(b), "\n") {
		if l == "" {
			continue
		}
		f := strings.SplitN(l, " ", 2)
		e := kv{k: string(unhx(f[0]))}
		if len(f) > 1 && f[1] != "" {
			for _, x := range strings.Split(f[1], ",") {
				e.v = append(e.v, string(unhx(x)))
			}
		}
		out = append(out, e)
	}
	return out
}

func writeStore(path string, s []kv) {
	var b strings.Builder
	for _, e := range s {
		var vs []string
		for _, x := range e.v {
			vs = append(vs, hx([]byte(x)))
		}
		fmt.Fprintf(&b, "%s %s\n", hx([]byte(e.k)), strings.Join(vs, ","))
	}
	_ = os.WriteFile(path, []byte(b.String()), 0644)
}

func storeGet(s []kv, k string) ([]string, bool) {
	for _, e := range s {
		if e.k == k {
			return e.v, true
		}
	}
	return nil, false
}
func storeDel(s []kv, k string) []kv {
	var out []kv
	for _, e := range s {
		if e.k != k {
			out = append(out, e)
		}
	}
	return out
}
func storeSet(s []kv, k string, v []string) []kv {
	for i, e := range s {
		if e.k == k {
			s[i].v = v
			return s
		}
	}
	return append(s, kv{k, v})
}

func copyFile(src, dst string) {
	b, err := os.ReadFile(src)
	if err != nil {
		_ = os.Remove(dst)
		return
	}
	_ = os.WriteFile(dst, b, 0644)
}

// the shim's "dnsmasq restarts now": record what it reads
func shimRestart() {
	// fault injection: the next "restart dnsmasq" command fails, once, without restarting anything
	if _, err := os.Stat("/shim/failrestart"); err == nil {
		_ = os.Remove("/shim/failrestart")
		os.Exit(1)
	}
	cp, _ := os.ReadFile("/shim/confpath")
	copyFile(strings.TrimSpace(string(cp)), "/shim/loaded_conf")
	copyFile("/shim/uci_c", "/shim/loaded_uci")
	copyFile("/shim/nvram", "/shim/loaded_nvram")
	n := 0
	if b, err := os.ReadFile("/shim/restarts"); err == nil {
		fmt.Sscan(string(b), &n)
	}
	_ = os.WriteFile("/shim/restarts", []byte(itoa(n+1)), 0644)
}

// shimMain: called from main() when the binary runs under another name. Returns true if handled.
func shimMain(name string, args []string) bool {
	known := name == "dnsmasq" || name == "rc.network"
	for _, n := range shimNames {
		if n == name {
			known = true
		}
	}
	if !known {
		return false
	}
	if _, err := os.Stat("/shim/fw"); err != nil {
		fmt.Fprintln(os.Stderr, "shim: not inside the jail")
		os.Exit(97)
	}
	fwb, _ := os.ReadFile("/shim/fw")
	fw := strings.TrimSpace(string(fwb))
	if f, err := os.OpenFile("/shim/log", os.O_APPEND|os.O_CREATE|os.O_WRONLY, 0644); err == nil {
		fmt.Fprintf(f, "%s %s\n", name, strings.Join(args, " "))
		f.Close()
	}
	arg := func(i int) string {
		if i < len(args) {
			return args[i]
		}
		return ""
	}
	switch name {
	case "uci":
		s := readStore("/shim/uci_s")
		switch arg(0) {
		case "get":
			v, ok := storeGet(s, arg(1))
			if !ok || len(v) == 0 {
				fmt.Fprintln(os.Stderr, "uci: Entry not found")
				os.Exit(1)
			}
			fmt.Println(strings.Join(v, " "))
		case "delete":
			if _, ok := storeGet(s, arg(1)); !ok {
				fmt.Fprintln(os.Stderr, "uci: Entry not found")
				os.Exit(1)
			}
			writeStore("/shim/uci_s", storeDel(s, arg(1)))
		case "commit":
			copyFile("/shim/uci_s", "/shim/uci_c")
		case "add_list":
			p := strings.SplitN(arg(1), "=", 2)
			if len(p) != 2 {
				fmt.Fprintln(os.Stderr, "uci: Invalid argument")
				os.Exit(1)
			}
			v, _ := storeGet(s, p[0])
			writeStore("/shim/uci_s", storeSet(s, p[0], append(append([]string{}, v...), p[1])))
		case "del_list":
			p := strings.SplitN(arg(1), "=", 2)
			if len(p) != 2 {
				fmt.Fprintln(os.Stderr, "uci: Invalid argument")
				os.Exit(1)
			}
			if v, ok := storeGet(s, p[0]); ok {
				var nv []string
				for _, x := range v {
					if x != p[1] {
						nv = append(nv, x)
					}
				}
				if len(nv) == 0 {
					s = storeDel(s, p[0])
				} else {
					s = storeSet(s, p[0], nv)
				}
				writeStore("/shim/uci_s", s)
			}
		default:
			fmt.Fprintln(os.Stderr, "uci: unsupported in the shim:", arg(0))
			os.Exit(2)
		}
	case "nvram":
		s := readStore("/shim/nvram")
		one := func(e kv) string {
			if len(e.v) == 0 {
				return ""
			}
			return e.v[0]
		}
		switch arg(0) {
		case "show":
			for _, e := range s {
				fmt.Printf("%s=%s\n", e.k, one(e))
			}
		case "get":
			if v, ok := storeGet(s, arg(1)); ok && len(v) > 0 {
				fmt.Println(v[0])
			}
		case "set":
			p := strings.SplitN(arg(1), "=", 2)
			if len(p) == 2 {
				writeStore("/shim/nvram", storeSet(s, p[0], []string{p[1]}))
			}
		case "unset":
			writeStore("/shim/nvram", storeDel(s, arg(1))) // the argument is the variable's name, taken literally
		case "commit":
		default:
			os.Exit(2)
		}
	case "uname":
		switch arg(0) {
		case "-o":
			switch fw {
			case "merlin":
				fmt.Println("ASUSWRT-Merlin")
			case "ddwrt":
				fmt.Println("DD-WRT")
			default:
				fmt.Println("GNU/Linux")
			}
		case "-u":
			if fw == "synology" {
				fmt.Println("synology_ipq806x_rt2600ac")
			} else {
				fmt.Fprintln(os.Stderr, "uname: invalid option -- 'u'")
				os.Exit(1)
			}
		default:
			fmt.Println("Linux")
		}
	case "ubus":
		b, err := os.ReadFile("/shim/ubus.json")
		if err != nil {
			os.Exit(1)
		}
		os.Stdout.Write(b)
	case "ubnt-device-info":
		if fw != "ubios" {
			os.Exit(1)
		}
	case "service":
		if arg(0) == "restart_dnsmasq" {
			shimRestart()
		}
	case "dnsmasq": // /etc/init.d/dnsmasq restart
		if arg(0) == "restart" {
			shimRestart()
		}
	case "sudo":
		if arg(0) == "/etc/init.d/dnsmasq" && arg(1) == "restart" {
			shimRestart()
		} else {
			os.Exit(1)
		}
	case "rc.network":
		if arg(0) == "nat-restart-dhcp" {
			shimRestart()
		}
	case "stopservice":
	case "startservice":
		if arg(0) == "dnsmasq" {
			shimRestart()
		}
	case "kill":
		b, _ := os.ReadFile("/run/dnsmasq.pid")
		if strings.TrimSpace(string(b)) == arg(0) && arg(0) != "" {
			shimRestart() // dnsmasq is supervised: killing it restarts it
		} else {
			os.Exit(1)
		}
	case "systemctl":
		if arg(0) == "restart" && arg(1) == "firerouter_dns.service" {
			shimRestart()
		} else {
			os.Exit(1)
		}
	}
	os.Exit(0)
	return true
}

// ---------- environment encoding (shared with the OCaml driver) ----------

func optFile(p string) string {
	b, err := os.ReadFile(p)
	if err != nil {
		return "N"
	}
	return "F" + hx(b)
}

func encUci(s []kv) string {
	var parts []string
	for _, k := range uciKeys {
		v, ok := storeGet(s, k)
		if !ok || len(v) == 0 {
			parts = append(parts, "N")
			continue
		}
		var vs []string
		for _, x := range v {
			vs = append(vs, hx([]byte(x)))
		}
		parts = append(parts, strings.Join(vs, ","))
	}
	return strings.Join(parts, ";")
}
func encNv(s []kv) string {
	var parts []string
	for _, k := range nvNames {
		v, ok := storeGet(s, k)
		if !ok {
			parts = append(parts, "N")
		} else if len(v) == 0 {
			parts = append(parts, "F-")
		} else {
			parts = append(parts, "F"+hx([]byte(v[0])))
		}
	}
	return strings.Join(parts, ";")
}

type rEnv struct {
	conf, info        string // "N" or "F<hex>"
	uciS, uciC, nv    []kv
	dhcpOn, filterOn  bool
	lconf             string
	luci, lnv         []kv
	restarts          int
	confVariant       int
}

func (e *rEnv) enc() string {
	return fmt.Sprintf("c:%s/i:%s/us:%s/uc:%s/nv:%s/d:%s/f:%s/lc:%s/lu:%s/ln:%s/r:%d",
		e.conf, e.info, encUci(e.uciS), encUci(e.uciC), encNv(e.nv), b2s(e.dhcpOn), b2s(e.filterOn),
		e.lconf, encUci(e.luci), encNv(e.lnv), e.restarts)
}

// observe the jail (called inside it)
func observeJail(fw string, variant int) string {
	e := rEnv{}
	e.conf = optFile(confPath(fw, variant))
	e.info = optFile("/etc/dhcpd/dhcpd-vendor-nextdns.info")
	e.uciS, e.uciC, e.nv = readStore("/shim/uci_s"), readStore("/shim/uci_c"), readStore("/shim/nvram")
	if b, err := os.ReadFile("/etc/dhcpd/dhcpd.info"); err == nil && bytes.HasPrefix(b, []byte(`enable="yes"`)) {
		e.dhcpOn = true
	}
	if _, err := os.Stat("/run/dnsfilter/dnsfilter"); err == nil {
		e.filterOn = true
	}
	e.lconf = optFile("/shim/loaded_conf")
	e.luci, e.lnv = readStore("/shim/loaded_uci"), readStore("/shim/loaded_nvram")
	if b, err := os.ReadFile("/shim/restarts"); err == nil {
		fmt.Sscan(string(b), &e.restarts)
	}
	return e.enc()
}

// populate the jail (called outside, paths relative to root)
func populateJail(root, fw string, e *rEnv) error {
	for _, d := range []string{"/tmp/dnsmasq.d", "/tmp/dnsmasq.cfg01411c.d", "/jffs/scripts", "/etc/dnsmasq.d", "/etc/dhcpd",
		"/run/dnsmasq.conf.d", "/run/dnsfilter", "/home/pi/.firewalla/config/dnsmasq_local", "/config/scripts/post-config.d",
		"/data/unifi", "/shim", "/etc/ubnt/init"} {
		_ = os.RemoveAll(filepath.Join(root, d))
	}
	for _, f := range []string{"/etc/os-release", "/etc/firewalla_release", "/run/dnsmasq.pid"} {
		_ = os.Remove(filepath.Join(root, f))
	}
	mk := func(d string) { _ = os.MkdirAll(filepath.Join(root, d), 0755) }
	wr := func(p, s string) { _ = os.WriteFile(filepath.Join(root, p), []byte(s), 0644) }
	mk("/shim")
	mk("/tmp")
	mk("/etc")
	mk("/run")
	wr("/shim/fw", fw)
	wr("/shim/confpath", confPath(fw, e.confVariant))
	wr("/shim/restarts", "0")
	mk(filepath.Dir(confPath(fw, e.confVariant)))
	mk("/etc/dhcpd")
	if e.dhcpOn {
		wr("/etc/dhcpd/dhcpd.info", "enable=\"yes\"\nsomething=\"else\"\n")
	} else {
		wr("/etc/dhcpd/dhcpd.info", "enable=\"no\"\n")
	}
	switch fw {
	case "openwrt":
		wr("/etc/os-release", "NAME=\"OpenWrt\"\nID=\"openwrt\"\nVERSION=\"23.05\"\n")
		if e.confVariant == 1 {
			wr("/shim/ubus.json", `{"dnsmasq":{"instances":{"cfg01411c":{"running":true,"mount":{"/tmp/dnsmasq.cfg01411c.d":"0","/etc/dnsmasq.conf":"0","/usr/share/dnsmasq/dhcpbogushostname.conf":"0"}}}}}`)
		}
	case "edgeos":
		mk("/config/scripts/post-config.d")
	case "synology":
	case "ubios":
		mk("/data/unifi")
		wr("/run/dnsmasq.pid", "4242\n")
		if e.filterOn {
			mk("/run/dnsfilter")
			wr("/run/dnsfilter/dnsfilter", "x")
		}
	case "firewalla":
		wr("/etc/firewalla_release", "1\n")
	}
	if strings.HasPrefix(e.conf, "F") {
		wr(confPath(fw, e.confVariant), string(unhx(e.conf[1:])))
	}
	writeStore(filepath.Join(root, "/shim/uci_s"), e.uciS)
	writeStore(filepath.Join(root, "/shim/uci_c"), e.uciC)
	writeStore(filepath.Join(root, "/shim/nvram"), e.nv)
	// dnsmasq is running with the configuration as it is now
	copyFile(filepath.Join(root, confPath(fw, e.confVariant)), filepath.Join(root, "/shim/loaded_conf"))
	copyFile(filepath.Join(root, "/shim/uci_c"), filepath.Join(root, "/shim/loaded_uci"))
	copyFile(filepath.Join(root, "/shim/nvram"), filepath.Join(root, "/shim/loaded_nvram"))
	return nil
}

func buildJail(root string) error {
	self, err := os.Executable()
	if err != nil {
		return err
	}
	for _, d := range []string{"/bin", "/etc/init.d", "/dev", "/tmp", "/shim"} {
		if err := os.MkdirAll(filepath.Join(root, d), 0755); err != nil {
			return err
		}
	}
	first := filepath.Join(root, "/bin/nxh")
	in, err := os.Open(self)
	if err != nil {
		return err
	}
	out, err := os.OpenFile(first, os.O_CREATE|os.O_WRONLY|os.O_TRUNC, 0755)
	if err != nil {
		return err
	}
	if _, err = io.Copy(out, in); err != nil {
		return err
	}
	in.Close()
	out.Close()
	targets := []string{"/etc/init.d/dnsmasq", "/etc/rc.network"}
	for _, n := range shimNames {
		targets = append(targets, "/bin/"+n)
	}
	for _, t := range targets {
		if err := os.Link(first, filepath.Join(root, t)); err != nil {
			return err
		}
	}
	// os/exec opens /dev/null for a nil Stdin
	if err := syscall.Mknod(filepath.Join(root, "/dev/null"), syscall.S_IFCHR|0666, 1<<8|3); err != nil {
		return fmt.Errorf("mknod /dev/null in the jail: %v", err)
	}
	return nil
}

// ---------- child: inside the jail ----------

type lifecycle struct {
	report, cache bool
	cacheStr      string
	restore       bool
	fault         bool
}

func parseScript(s string) []lifecycle {
	var out []lifecycle
	for _, t := range strings.Split(s, ",") {
		if len(t) < 4 {
			continue
		}
		lc := lifecycle{report: t[0] == '1', cache: t[1] == '1', restore: t[3] == 'R', fault: len(t) >= 5 && t[4] == 'f'}
		switch t[2] {
		case 'z':
			lc.cacheStr = "0"
		case 'e':
			lc.cacheStr = ""
		case 'm':
			lc.cacheStr = "10MB"
		case 'k':
			lc.cacheStr = "512kB"
		}
		out = append(out, lc)
	}
	return out
}

func listensTag(l []string) string {
	if len(l) == 1 {
		switch l[0] {
		case ":53":
			return "L53"
		case "127.0.0.1:5342":
			return "LLoop"
		case "localhost:5342":
			return "LLocalhost"
		}
	}
	if len(l) == 1 && l[0] == "untouched:1" {
		return "LKeep"
	}
	return "L?" + sx(strings.Join(l, "|"))
}

type routerLike interface {
	Configure(c *config.Config) error
	Setup() error
	Restore() error
}

// router-child <root> <fw> <variant> <script>
func routerChild(args []string) error {
	if len(args) < 4 {
		return fmt.Errorf("router-child: root fw variant script")
	}
	root, fw, script := args[0], args[1], args[3]
	variant := 0
	fmt.Sscan(args[2], &variant)
	if err := syscall.Chroot(root); err != nil {
		return fmt.Errorf("chroot: %v", err)
	}
	if err := os.Chdir("/"); err != nil {
		return err
	}
	os.Setenv("PATH", "/bin")
	os.Setenv("TMPDIR", "/tmp")
	e2s := func(err error) string {
		if err == nil {
			return "ok"
		}
		return "err"
	}
	var outs []string
	for _, lc := range parseScript(script) {
		var r routerLike
		name := ""
		if fw == "firewalla" {
			fr, ok := firewalla.New()
			if !ok {
				return fmt.Errorf("firewalla not detected in the jail")
			}
			r, name = fr, "firewalla"
		} else {
			rr := router.New()
			r, name = rr, rr.String()
		}
		if name != fw {
			return fmt.Errorf("jail for %s detected as %s", fw, name)
		}
		c := config.Config{ReportClientInfo: lc.report, CacheSize: lc.cacheStr, Listens: []string{"untouched:1"}}
		err := r.Configure(&c)
		outs = append(outs, "c:"+e2s(err)+":"+listensTag(c.Listens)+":"+observeJail(fw, variant))
		if lc.fault {
			_ = os.WriteFile("/shim/failrestart", []byte("1"), 0644)
		}
		err = r.Setup()
		_ = os.Remove("/shim/failrestart")
		outs = append(outs, "s:"+e2s(err)+":-:"+observeJail(fw, variant))
		if lc.restore {
			err = r.Restore()
			outs = append(outs, "r:"+e2s(err)+":-:"+observeJail(fw, variant))
		}
	}
	fmt.Println(strings.Join(outs, " "))
	return nil
}

// ---------- parent: generator ----------

func genUserScript(r *rng) string {
	lines := []string{"#!/bin/sh", "CONFIG=$1", ". /usr/sbin/helper.sh", "pc_append \"server=/lan/192.168.1.1\" $CONFIG",
		"pc_delete \"dnssec\" $CONFIG", "", "# my tweaks", "pc_append \"server=127.0.0.1#5342\" $CONFIG", "logger postconf done",
		"\tpc_append \"add-mac\" \"$CONFIG\"", "exit 0"}
	var b strings.Builder
	for i := r.intn(3); i > 0; i-- {
		b.WriteString("\n")
	}
	n := r.rng(1, 5)
	for i := 0; i < n; i++ {
		if r.coin(3) {
			// one very long line (a generated block list entry), around and beyond the usual reader buffer sizes
			l := []int{4095, 4096, 4097, 8200, 12000}[r.intn(5)]
			pre := "pc_append \"address=/"
			b.WriteString(pre + strings.Repeat("a.example/", (l-len(pre)-20)/10) + strings.Repeat("x", (l-len(pre)-20)%10) + "/0.0.0.0\" $CONFIG ")
		} else {
			b.WriteString(lines[r.intn(len(lines))])
		}
		if r.coin(15) {
			b.WriteString("\r")
		}
		if i < n-1 || r.coin(75) {
			b.WriteString("\n")
		}
	}
	return b.String()
}

func merlinHead(cache, rep bool) string {
	s := "#!/bin/sh\n# Configuration generated by NextDNS\n\nCONFIG=\"$1\"\n. /usr/sbin/helper.sh\n\nif [ -f /tmp/nextdns.pid ]; then\n\tpc_append \"no-resolv\" \"$CONFIG\"\n\tpc_append \"server=127.0.0.1#5342\" \"$CONFIG\"\n"
	if rep {
		s += "\tpc_append \"add-mac\" \"$CONFIG\"\n"
	}
	return s + "\texit 0\nfi\n\n## NextDNS END\n"
}

const dropinRemnant = "# Configuration generated by NextDNS\nno-resolv\nserver=127.0.0.1#5342\nadd-subnet=32,128\n"

func genRouterCase(r *rng, fw string) (e *rEnv, script string, pristine bool) {
	e = &rEnv{conf: "N", info: "N", lconf: "N", dhcpOn: true}
	pristine = true
	pick := func(opts ...[]string) []string { return opts[r.intn(len(opts))] }
	switch fw {
	case "openwrt":
		e.confVariant = r.intn(2)
		var s []kv
		if p := pick(nil, []string{"53"}, []string{"5353"}, nil); p != nil {
			s = append(s, kv{uciKeys[0], p})
		}
		if p := pick(nil, []string{"1.1.1.1"}, []string{"8.8.8.8", "9.9.9.9"}, []string{"/lan/192.168.1.1", "10.0.0.53#5353"}); p != nil {
			s = append(s, kv{uciKeys[1], p})
		}
		if p := pick(nil, nil, []string{"6,192.168.1.1"}, []string{"3,192.168.1.254"}, []string{"6,192.168.1.10"},
			[]string{"3,192.168.1.254", "6,192.168.1.1", "42,192.168.1.1"}); p != nil {
			s = append(s, kv{uciKeys[2], p})
		}
		if !r.coin(6) {
			s = append(s, kv{uciKeys[3], []string{"192.168.1.1"}})
		}
		e.uciS = s
		e.uciC = append([]kv{}, s...)
		if r.coin(12) {
			e.conf, pristine = "F"+sx(dropinRemnant), false
		}
	case "merlin":
		switch r.intn(6) {
		case 0:
		case 1, 2, 3:
			e.conf = "F" + sx(genUserScript(r))
		case 4:
			e.conf, pristine = "F"+sx(merlinHead(false, r.coin(50))+genUserScript(r)), false
		case 5:
			e.conf, pristine = "F"+sx(merlinHead(false, true)), false
		}
	case "ddwrt":
		var s []kv
		vals := map[string][][]string{
			"dns_dnsmasq":           {nil, {"1"}, {"0"}},
			"dnsmasq_options":       {nil, {}, {"cache-size=1000"}, {"server=/lan/192.168.1.1\nlog-queries\ndhcp-option=6,192.168.1.1"}, {"dhcp-host=aa:bb:cc:dd:ee:ff,laptop\nno-negcache\n"}},
			"dns_crypt":             {nil, {"0"}, {"1"}},
			"dnssec":                {nil, {"0"}, {"1"}, {}},
			"dnsmasq_no_dns_rebind": {nil, {"1"}, {"0"}},
			"dnsmasq_add_mac":       {nil, {"0"}, {"1"}},
		}
		// unrelated variables around them, one with a look-alike name
		s = append(s, kv{"lan_ipaddr", []string{"192.168.1.1"}})
		for _, n := range nvNames {
			o := vals[n]
			v := o[r.intn(len(o))]
			if v != nil {
				s = append(s, kv{n, v})
			}
			if r.coin(20) {
				s = append(s, kv{n + "_extra", []string{"zz"}})
			}
		}
		if r.coin(12) {
			s = storeSet(s, "dnsmasq_options", []string{dropinRemnant})
			s = storeSet(s, "dns_dnsmasq", []string{"1"})
			pristine = false
		}
		e.nv = s
	case "edgeos", "ubios", "firewalla":
		if r.coin(12) {
			e.conf, pristine = "F"+sx(dropinRemnant), false
		}
		if fw == "ubios" && r.coin(8) {
			e.filterOn = true
		}
	case "synology":
		e.dhcpOn = !r.coin(20)
		if r.coin(10) {
			e.conf, pristine = "F"+sx(dropinRemnant), false
		}
	}
	e.lconf, e.luci, e.lnv = e.conf, e.uciC, e.nv
	n := 1
	if r.coin(45) {
		n = r.rng(2, 3)
	}
	var parts []string
	for i := 0; i < n; i++ {
		rep, cache := r.coin(50), r.coin(50)
		cs := "ze"[r.intn(2)]
		if cache {
			cs = "mk"[r.intn(2)]
		}
		end := "R"
		if r.coin(25) && i < n-1 {
			end = "C"
		}
		flt := ""
		if end == "R" && r.coin(12) {
			flt = "f" // the restart of dnsmasq during setup fails once; the stop that follows must still undo everything
		}
		parts = append(parts, b2s(rep)+b2s(cache)+string(cs)+end+flt)
	}
	return e, strings.Join(parts, ","), pristine
}

func routerEngine(args []string) error {
	c := parseCommon("router", args)
	r := newRng(c.seed ^ 0xC20)
	self, err := os.Executable()
	if err != nil {
		return err
	}
	type job struct {
		id       int
		fw       string
		e        *rEnv
		script   string
		pristine bool
	}
	var jobs []job
	if c.extra != "" { // replay: <fw> <pristine> <env> <script>
		f := strings.Fields(c.extra)
		if len(f) != 4 {
			return fmt.Errorf("router replay: <fw> <pristine> <env> <script>")
		}
		e, err := decEnv(f[2])
		if err != nil {
			return err
		}
		jobs = append(jobs, job{0, f[0], e, f[3], f[1] == "1"})
	} else {
		for i := 0; i < c.n; i++ {
			fw := fwKinds[i%len(fwKinds)]
			e, script, pristine := genRouterCase(r.fork(), fw)
			jobs = append(jobs, job{i, fw, e, script, pristine})
		}
	}
	const workers = 8
	results := make([]string, len(jobs))
	errs := make([]error, workers)
	var wg sync.WaitGroup
	for w := 0; w < workers; w++ {
		wg.Add(1)
		go func(w int) {
			defer wg.Done()
			root, err := os.MkdirTemp("", "nxjail")
			if err != nil {
				errs[w] = err
				return
			}
			defer os.RemoveAll(root)
			if err := buildJail(root); err != nil {
				errs[w] = err
				return
			}
			for i := w; i < len(jobs); i += workers {
				j := jobs[i]
				if err := populateJail(root, j.fw, j.e); err != nil {
					errs[w] = err
					return
				}
				cmd := exec.Command(self, "router-child", root, j.fw, itoa(j.e.confVariant), j.script)
				var so, se bytes.Buffer
				cmd.Stdout, cmd.Stderr = &so, &se
				out := ""
				if err := cmd.Run(); err != nil {
					out = "CHILDFAIL:" + sx(strings.TrimSpace(se.String()))
				} else {
					out = strings.TrimSpace(so.String())
				}
				results[i] = strings.Join([]string{"router", itoa(j.id), j.fw, b2s(j.pristine), j.e.enc() + "/v:" + itoa(j.e.confVariant), j.script, "=>", out}, " ")
			}
		}(w)
	}
	wg.Wait()
	for _, e := range errs {
		if e != nil {
			return e
		}
	}
	for _, l := range results {
		fmt.Println(l)
	}
	return nil
}

// decEnv: inverse of enc (for replays)
func decEnv(s string) (*rEnv, error) {
	e := &rEnv{}
	decStore := func(x string, keys []string) []kv {
		var out []kv
		for i, p := range strings.Split(x, ";") {
			if p == "N" || i >= len(keys) {
				continue
			}
			var vs []string
			for _, h := range strings.Split(p, ",") {
				vs = append(vs, string(unhx(h)))
			}
			out = append(out, kv{keys[i], vs})
		}
		return out
	}
	decNv := func(x string) []kv {
		var out []kv
		for i, p := range strings.Split(x, ";") {
			if p == "N" || i >= len(nvNames) {
				continue
			}
			out = append(out, kv{nvNames[i], []string{string(unhx(p[1:]))}})
		}
		return out
	}
	for _, part := range strings.Split(s, "/") {
		kvp := strings.SplitN(part, ":", 2)
		if len(kvp) != 2 {
			return nil, fmt.Errorf("bad env part %q", part)
		}
		switch kvp[0] {
		case "c":
			e.conf = kvp[1]
		case "i":
			e.info = kvp[1]
		case "us":
			e.uciS = decStore(kvp[1], uciKeys)
		case "uc":
			e.uciC = decStore(kvp[1], uciKeys)
		case "nv":
			e.nv = decNv(kvp[1])
		case "d":
			e.dhcpOn = kvp[1] == "1"
		case "f":
			e.filterOn = kvp[1] == "1"
		case "lc":
			e.lconf = kvp[1]
		case "lu":
			e.luci = decStore(kvp[1], uciKeys)
		case "ln":
			e.lnv = decNv(kvp[1])
		case "r":
			fmt.Sscan(kvp[1], &e.restarts)
		case "v":
			fmt.Sscan(kvp[1], &e.confVariant)
		}
	}
	return e, nil
}

var _ = sort.Strings
