package main

// Engines "forwarder" (C10) and "profile" (C11): config.Forwarders / config.Profiles
// built with their exported Set methods, queried through Resolve / Get.

import (
	"context"
	"fmt"
	"net"
	"os/exec"
	"sort"
	"strings"
	"sync"
	"sync/atomic"
	"time"

	"github.com/nextdns/nextdns/config"
	"github.com/nextdns/nextdns/resolver"
	"github.com/nextdns/nextdns/resolver/query"
)

func init() {
	register("forwarder", forwarderEngine)
	register("profile", profileEngine)
}

// ---- a tiny UDP DNS server that records the question names it is asked ----
type udpUp struct {
	id   int
	conn *net.UDPConn
	mu   sync.Mutex
	seen []string // raw question name bytes (wire labels joined by '.'), non-probe only
	// probeDelay: how long the answer to a probe is held back (an upstream that is slow to become usable:
	// queries for it queue in the daemon meanwhile)
	probeDelay int32 // ms, atomic
}

func startUDPUp(id, port int) (*udpUp, error) {
	c, err := net.ListenUDP("udp", &net.UDPAddr{IP: net.IP{127, 0, 0, 1}, Port: port})
	if err != nil {
		return nil, err
	}
	u := &udpUp{id: id, conn: c}
	go func() {
		buf := make([]byte, 65535)
		for {
			n, addr, err := c.ReadFromUDP(buf)
			if err != nil {
				return
			}
			if n < 12 {
				continue
			}
			name := wireName(buf[12:n])
			if !strings.HasPrefix(strings.ToLower(name), "probe-test.") {
				u.mu.Lock()
				u.seen = append(u.seen, name)
				u.mu.Unlock()
			}
			resp := append([]byte{}, buf[:n]...)
			resp[2] |= 0x80
			if d := atomic.LoadInt32(&u.probeDelay); d > 0 && strings.HasPrefix(strings.ToLower(name), "probe-test.") {
				go func(resp []byte, addr *net.UDPAddr) {
					time.Sleep(time.Duration(d) * time.Millisecond)
					_, _ = c.WriteToUDP(resp, addr)
				}(resp, addr)
				continue
			}
			_, _ = c.WriteToUDP(resp, addr)
		}
	}()
	return u, nil
}

func wireName(b []byte) string {
	var sb strings.Builder
	off := 0
	for off < len(b) && b[off] != 0 && b[off]&0xc0 == 0 {
		l := int(b[off])
		if off+1+l > len(b) {
			break
		}
		sb.Write(b[off+1 : off+1+l])
		sb.WriteByte('.')
		off += 1 + l
	}
	if sb.Len() == 0 {
		return "."
	}
	return sb.String()
}

func (u *udpUp) take() []string {
	u.mu.Lock()
	s := u.seen
	u.seen = nil
	u.mu.Unlock()
	return s
}

type countingResolver struct {
	mu   sync.Mutex
	seen []string
}

func (c *countingResolver) Resolve(ctx context.Context, q query.Query, buf []byte) (int, resolver.ResolveInfo, error) {
	c.mu.Lock()
	c.seen = append(c.seen, q.Name)
	c.mu.Unlock()
	n := copy(buf, q.Payload)
	if n > 2 {
		buf[2] |= 0x80
	}
	return n, resolver.ResolveInfo{}, nil
}
func (c *countingResolver) take() []string {
	c.mu.Lock()
	s := c.seen
	c.seen = nil
	c.mu.Unlock()
	return s
}

func randCase(r *rng, s string) string {
	b := []byte(s)
	for i := range b {
		if r.coin(40) {
			if b[i] >= 'a' && b[i] <= 'z' {
				b[i] -= 32
			} else if b[i] >= 'A' && b[i] <= 'Z' {
				b[i] += 32
			}
		}
	}
	return string(b)
}

func forwarderEngine(args []string) error {
	c := parseCommon("forwarder", args)
	r := newRng(c.seed)
	const nup = 4
	var ups []*udpUp
	for i := 0; i < nup; i++ {
		u, err := startUDPUp(i+1, 6001+i)
		if err != nil {
			return err
		}
		ups = append(ups, u)
	}
	domPool := []string{"corp", "corp.", "example.corp", "a.example.corp.", "local", "notcorp", "rp", "example", "x.y.z", "internal.lan.", "lan",
		"dev-1.corp", "_svc.corp.", "db1.corp", "my_host-2.lan", "0.corp"}
	for i := 0; i < c.n; i++ {
		// forwarder list
		nf := r.rng(1, 5)
		var fwds config.Forwarders
		var toks []string
		var usedDoms []string
		for j := 0; j < nf; j++ {
			up := r.rng(1, nup)
			if r.coin(22) {
				up = nup + r.rng(1, 2) // nothing listens there: the lookup fails at once (connection refused)
			}
			addr := fmt.Sprintf("127.0.0.1:%d", 6000+up)
			if r.coin(12) {
				// domain-less entry
				if err := fwds.Set(addr); err != nil {
					return err
				}
				toks = append(toks, "-", itoa(up))
				continue
			}
			dom := randCase(r, domPool[r.intn(len(domPool))])
			if r.coin(20) {
				dom = string(randLabel(r, 6)) + "." + dom
			}
			if err := fwds.Set(dom + "=" + addr); err != nil {
				return err
			}
			toks = append(toks, "d"+sx(dom), itoa(up))
			usedDoms = append(usedDoms, strings.TrimSuffix(dom, "."))
		}
		def := &countingResolver{}
		full := make(config.Forwarders, 0, len(fwds)+1)
		full = append(full, fwds...)
		full = append(full, config.Resolver{Resolver: def})
		// a few query names per list
		for k := 0; k < 4; k++ {
			base := domPool[r.intn(len(domPool))]
			if len(usedDoms) > 0 && r.coin(65) {
				base = usedDoms[r.intn(len(usedDoms))]
			}
			var name string
			switch r.intn(8) {
			case 0:
				name = base
			case 1:
				name = string(randLabel(r, 5)) + "." + base
			case 2:
				name = string(randLabel(r, 3)) + base // shares only a string suffix
			case 3:
				name = string(randLabel(r, 4)) + "." + string(randLabel(r, 4)) + "." + base
			case 4:
				name = string(randLabel(r, 8)) + ".com"
			case 5:
				if len(base) > 2 {
					name = base[1:] // suffix of the domain itself
				} else {
					name = base
				}
			case 6:
				name = "."
			default:
				name = "www." + base
			}
			name = randCase(r, strings.TrimSuffix(name, "."))
			if r.coin(25) && len(name) > 0 {
				// a near miss: one byte of the name differs from the rule's in a single bit (digits, hyphens,
				// underscores and the dots between labels included); the result stays ASCII
				b := []byte(name)
				p := r.intn(len(b))
				if nb := b[p] ^ []byte{0x20, 0x20, 0x01, 0x40, 0x10}[r.intn(5)]; nb < 0x80 && nb != '.' {
					b[p] = nb
				}
				name = string(b)
			}
			ms := msgSpec{id: r.intn(65536), flags: 0x0100, qs: [][]byte{question(encodeName(name), 1, 1)}}
			payload := ms.encode()
			q, err := query.New(payload, net.IP{127, 0, 0, 9}, net.IP{127, 0, 0, 1})
			if err != nil {
				continue
			}
			ctx, cancel := context.WithTimeout(context.Background(), 2*time.Second)
			buf := make([]byte, 65535)
			_, _, rerr := full.Resolve(ctx, q, buf)
			cancel()
			var saw []string
			for _, u := range ups {
				for _, s := range u.take() {
					if s == q.Name {
						saw = append(saw, itoa(u.id))
					} else {
						saw = append(saw, "x"+itoa(u.id))
					}
				}
			}
			for range def.take() {
				saw = append(saw, "0")
			}
			sort.Strings(saw)
			out := strings.Join(saw, ",")
			if out == "" {
				out = "none"
			}
			emit(append(append([]string{"fwd", fmt.Sprintf("%d.%d", i, k), itoa(len(toks) / 2)}, toks...), sx(q.Name), "=>", out, b2s(rerr == nil))...)
		}
	}
	return nil
}

// ---- profiles ----
func ipNorm(ip net.IP) []byte {
	if ip == nil {
		return nil
	}
	if v4 := ip.To4(); v4 != nil {
		return v4
	}
	return ip.To16()
}

func setupVeth() {
	// best effort: an interface with known addresses for the interface condition
	_ = exec.Command("ip", "link", "add", "nxv0", "type", "veth", "peer", "name", "nxv1").Run()
	_ = exec.Command("ip", "addr", "add", "10.9.0.1/24", "dev", "nxv0").Run()
	_ = exec.Command("ip", "addr", "add", "fd00:9::1/64", "dev", "nxv0", "nodad").Run()
	_ = exec.Command("ip", "link", "set", "nxv0", "up").Run()
	_ = exec.Command("ip", "link", "set", "nxv1", "up").Run()
}

func profileEngine(args []string) error {
	c := parseCommon("profile", args)
	r := newRng(c.seed)
	setupVeth()
	ifaces := []string{"lo"}
	if ifc, _ := net.InterfaceByName("nxv0"); ifc != nil {
		ifaces = append(ifaces, "nxv0", "nxv1")
	}
	cidrs := []string{"10.0.0.0/8", "10.1.0.0/16", "10.1.2.0/24", "10.1.2.3/32", "192.168.0.0/16", "192.168.1.0/25", "0.0.0.0/0",
		"fd00::/8", "fd00:1::/32", "fd00:1:2::/48", "::/0", "10.1.2.77/24", "172.16.5.4/12", "2001:db8::1/64",
		// nested subnets sharing their network address, and a v4 / v4-mapped pair
		"10.0.0.0/16", "10.0.0.0/24", "10.1.2.0/28", "192.168.0.0/24", "fd00::/48", "fd00::/64", "0.0.0.0/8", "::ffff:10.0.0.0/104"}
	macs := []string{"00:11:22:33:44:55", "00:11:22:33:44:56", "aa:bb:cc:dd:ee:ff", "AA:BB:CC:DD:EE:00", "00-11-22-33-44-55", "0011.2233.4455"}
	srcs := []string{"10.1.2.3", "10.1.2.4", "10.1.3.1", "10.2.0.1", "192.168.1.5", "192.168.1.200", "172.16.0.1", "172.20.1.1", "8.8.8.8",
		"fd00:1:2::5", "fd00:1:3::1", "fd01::1", "2001:db8::5", "::ffff:10.1.2.3", "127.0.0.1", "::1",
		"10.0.0.5", "10.0.9.9", "10.77.1.9", "10.1.2.9", "10.1.2.200", "192.168.0.7", "fd00::5", "fd00:0:0:1::5", "fd77::1", "0.1.2.3"}
	dsts := []string{"127.0.0.1", "::1", "10.9.0.1", "fd00:9::1", "10.9.0.2", "192.168.1.1"}
	for i := 0; i < c.n; i++ {
		var ps config.Profiles
		var toks []string
		np := r.rng(0, 6)
		for j := 0; j < np; j++ {
			id := fmt.Sprintf("p%d%s", j, string(randLabel(r, 3)))
			switch r.intn(5) {
			case 0:
				if err := ps.Set(id); err != nil {
					return err
				}
				toks = append(toks, "D", sx(id))
			case 1, 2:
				cs := cidrs[r.intn(len(cidrs))]
				if err := ps.Set(cs + "=" + id); err != nil {
					return err
				}
				_, n, _ := net.ParseCIDR(cs)
				ones, bits := n.Mask.Size()
				if n.IP.To4() != nil && bits == 128 && ones >= 96 {
					ones -= 96 // net.IPNet.Contains reads a v4-mapped prefix as the IPv4 prefix
				}
				toks = append(toks, fmt.Sprintf("P%s/%d", hx(ipNorm(n.IP)), ones), sx(id))
			case 3:
				m := macs[r.intn(len(macs))]
				if err := ps.Set(m + "=" + id); err != nil {
					return err
				}
				hw, _ := net.ParseMAC(m)
				toks = append(toks, "M"+hx(hw), sx(id))
			case 4:
				ifn := ifaces[r.intn(len(ifaces))]
				if err := ps.Set(ifn + "=" + id); err != nil {
					return err
				}
				ifc, _ := net.InterfaceByName(ifn)
				var ips []string
				if ifc != nil {
					addrs, _ := ifc.Addrs()
					for _, a := range addrs {
						if n, ok := a.(*net.IPNet); ok {
							ips = append(ips, hx(ipNorm(n.IP)))
						}
					}
				}
				toks = append(toks, "I"+strings.Join(ips, ","), sx(id))
			}
		}
		for k := 0; k < 5; k++ {
			var src, dst net.IP
			var mac net.HardwareAddr
			if !r.coin(10) {
				src = net.ParseIP(srcs[r.intn(len(srcs))])
			}
			if !r.coin(15) {
				dst = net.ParseIP(dsts[r.intn(len(dsts))])
			}
			if r.coin(60) {
				mac, _ = net.ParseMAC(macs[r.intn(len(macs))])
			} else if r.coin(20) {
				mac = net.HardwareAddr{}
			}
			got := ps.Get(src, dst, mac)
			st := func(b []byte, isnil bool) string {
				if isnil {
					return "nil"
				}
				return hx(b)
			}
			emit(append(append([]string{"prof", fmt.Sprintf("%d.%d", i, k), itoa(len(toks) / 2)}, toks...),
				st(ipNorm(src), src == nil), st(ipNorm(dst), dst == nil), st(mac, mac == nil), "=>", sx(got))...)
		}
	}
	return nil
}

// Engine "fwdtext" (C17): config.Forwarders.Set / Resolver.String at the level of text against
// Model/FwdText.v.  fwt <id> <value> => <err> <Domain> <String()> <Domain after re-Set of String()> <String() after re-Set> <len>
func init() { register("fwdtext", fwdTextEngine) }

func fwdTextEngine(args []string) error {
	c := parseCommon("fwdtext", args)
	r := newRng(c.seed)
	doms := []string{"corp", "Corp.", "lan", "example.com", "x.lan.", "", ".", "a b", "corp..", "_svc.corp", "xn--p1ai"}
	addrs := []string{"10.0.0.1", "10.0.0.2:5353", "https://doh.example/dns#1.2.3.4", "10.0.0.1,10.0.0.3", "https://doh.example/q?a=b", "https://doh.example/dns-query?x=1#1.1.1.1,2.2.2.2", "::1", "[::1]:53"}
	ws := []string{"", "", "", " ", "\t", "  ", " \t ", "\n", "\r", "\v", "\f"}
	pad := func(s string) string { return ws[r.intn(len(ws))] + s + ws[r.intn(len(ws))] }
	for i := 0; i < c.n; i++ {
		var v string
		a := addrs[r.intn(len(addrs))]
		d := doms[r.intn(len(doms))]
		if r.coin(30) && len(cfgDomTokens) > 0 {
			d = strings.Repeat(cfgDomTokens[r.intn(len(cfgDomTokens))], r.rng(1, 3)) + d
		}
		switch r.intn(10) {
		case 0:
			v = a
		case 1:
			v = pad(a)
		case 2:
			v = d + "=" + a
		case 3, 4, 5:
			v = pad(d) + "=" + pad(a)
		case 6:
			v = "=" + pad(a)
		case 7:
			v = pad(d) + "=" + pad(d) + "=" + a
		case 8:
			v = pad(d) + pad("=") + a + "="
		default:
			v = pad(pad(d) + "=" + pad(a))
		}
		var f config.Forwarders
		err := f.Set(v)
		if err != nil {
			emit("fwt", itoa(i), sx(v), "=>", "1", "-", "-", "-", "-", "0")
			continue
		}
		s1 := f[0].String()
		var g config.Forwarders
		err2 := g.Set(s1)
		d2, s2 := "ERR", "ERR"
		if err2 == nil {
			d2, s2 = sx(g[0].Domain), sx(g[0].String())
		}
		// the list after setting the printed form on top of the original: one element (replacement by Domain)
		_ = f.Set(s1)
		emit("fwt", itoa(i), sx(v), "=>", "0", sx(f[0].Domain), sx(s1), d2, s2, itoa(len(f)))
	}
	return nil
}

// Engine "proftext" (C17, C11): config.Profiles.Set / profile.String at the level of text against Model/ProfText.v.
//   pft <id> <value> => <err> <kind> <canonical condition> <ID> <String()> <String() after re-Set> <rules after re-Set on top>
func init() { register("proftext", profTextEngine) }

func profTextEngine(args []string) error {
	c := parseCommon("proftext", args)
	r := newRng(c.seed)
	conds := []string{"10.0.0.0/8", "10.1.2.77/24", "192.168.1.0/24", "fd00:1::/32", "FD00:0001:0:0::/64", "::ffff:10.0.0.0/104", "0.0.0.0/0",
		"00:11:22:33:44:55", "AA:BB:CC:DD:EE:FF", "00-11-22-33-44-56", "aabb.ccdd.eeff", "lo", "nosuchif0", "10.0.0.1", "", "lo0"}
	ids := []string{"abc123", "fedcba", "a", "x=y", "p-with-long-identifier-0123456789", "A1B2C3"}
	ws := []string{"", "", "", " ", "\t", "  ", " \t "}
	pad := func(s string) string { return ws[r.intn(len(ws))] + s + ws[r.intn(len(ws))] }
	for i := 0; i < c.n; i++ {
		id := ids[r.intn(len(ids))]
		cd := conds[r.intn(len(conds))]
		var v string
		switch r.intn(6) {
		case 0:
			v = id
		case 1, 2:
			v = cd + "=" + id
		case 3, 4:
			v = pad(cd) + "=" + pad(id)
		default:
			v = pad(cd) + "=" + pad(id) + "=" + id
		}
		var ps config.Profiles
		if err := ps.Set(v); err != nil {
			emit("pft", itoa(i), sx(v), "=>", "1", "-", "-", "-", "-", "-", "0")
			continue
		}
		s1 := ps[0].String()
		kind, canon := "none", ""
		switch {
		case ps[0].MAC != nil:
			kind, canon = "mac", ps[0].MAC.String()
		case ps[0].Prefix != nil:
			kind, canon = "cidr", ps[0].Prefix.String()
		case strings.IndexByte(v, '=') >= 0:
			kind, canon = "iface", strings.TrimSpace(v[:strings.IndexByte(v, '=')])
		}
		var g config.Profiles
		s2 := "ERR"
		if g.Set(s1) == nil {
			s2 = sx(g[0].String())
		}
		_ = ps.Set(s1)
		emit("pft", itoa(i), sx(v), "=>", "0", kind, sx(canon), sx(ps[0].ID), sx(s1), s2, itoa(len(ps)))
	}
	return nil
}
