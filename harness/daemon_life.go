package main

// Engine "daemon", modes svc and act: the real binary through a service life cycle in a scratch /etc
// (private mount and network namespaces).
//   svc (C17): a configuration is stored with `nextdns config set ...`; the daemon started as a service
//        (SERVICE_RUN_MODE=1, no arguments) must run on exactly that configuration: it listens on the stored
//        address and sends a query to the stored forwarder; one more option is set, the daemon restarted: same.
//   act (C19): `nextdns run -auto-activate`: activation rewrites resolv.conf a few seconds after the start;
//        the daemon is stopped (SIGTERM) or killed (SIGKILL) and started again, then stopped: the original
//        resolv.conf must be back byte for byte, and must have existed on disk all along.
//   dsvc <id> <listen> <upstream> <setopt> => <listening> <saw> <listening2> <saw2>
//   dact <id> <scenario> <orighex> => <activated> <orig_on_disk_while_active> <restored>

import (
	"bytes"
	"fmt"
	"os"
	"os/exec"
	"path/filepath"
	"strings"
	"syscall"
	"time"
)

func cleanEtc() {
	ents, _ := os.ReadDir("/etc")
	for _, e := range ents {
		os.RemoveAll(filepath.Join("/etc", e.Name()))
	}
}

func stopDaemon(cmd *exec.Cmd, sig os.Signal) {
	_ = cmd.Process.Signal(sig)
	done := make(chan struct{})
	go func() { _ = cmd.Wait(); close(done) }()
	select {
	case <-done:
	case <-time.After(4 * time.Second):
		_ = cmd.Process.Kill()
		<-done
	}
}

func daemonSvc(r *rng, n int) error {
	dir, err := os.MkdirTemp("", "nxsvc")
	if err != nil {
		return err
	}
	defer os.RemoveAll(dir)
	if err := bindOver(dir, "/etc"); err != nil {
		return err
	}
	const nup = 3
	var ups []*udpUp
	for i := 0; i < nup; i++ {
		u, err := startUDPUp(i+1, 6001+i)
		if err != nil {
			return err
		}
		ups = append(ups, u)
	}
	for i := 0; i < n; i++ {
		cleanEtc()
		port := 5500 + i%40
		listen := fmt.Sprintf("127.0.0.%d:%d", 1+r.intn(2), port)
		up := r.rng(1, nup)
		ctl := fmt.Sprintf("/tmp/nxsvc-%d-%d.sock", os.Getpid(), i)
		args := []string{"config", "set", "-listen", listen, "-forwarder", fmt.Sprintf("127.0.0.1:%d", 6000+up), "-control", ctl,
			"-report-client-info=false", "-auto-activate=false", "-timeout", "400ms"}
		if r.coin(50) {
			args = append(args, "-cache-size", "1MB")
		}
		if out, err := exec.Command(daemonBin(), args...).CombinedOutput(); err != nil {
			emit("dsvc", itoa(i), sx(listen), itoa(up), "-", "=>", "CONFIGFAIL:"+sx(string(out)), "-", "0", "-")
			continue
		}
		setopt := [][]string{{"-max-ttl", "11s"}, {"-log-queries"}, {"-bogus-priv=false"}, {"-timeout", "450ms"}}[r.intn(4)]
		res := make([]string, 0, 4)
		for round := 0; round < 2; round++ {
			if round == 1 {
				_, _ = exec.Command(daemonBin(), append([]string{"config", "set"}, setopt...)...).CombinedOutput()
			}
			cmd := exec.Command(daemonBin(), "run")
			cmd.Env = append(os.Environ(), "SERVICE_RUN_MODE=1")
			var lg bytes.Buffer
			cmd.Stdout, cmd.Stderr = &lg, &lg
			if err := cmd.Start(); err != nil {
				return err
			}
			listening := waitUDP(listen, 2500*time.Millisecond)
			saw := "-"
			if listening {
				time.Sleep(30 * time.Millisecond)
				for _, u := range ups {
					u.take()
				}
				name := fmt.Sprintf("svc%d-%d.example", i, round)
				q := msgSpec{id: r.intn(65536), flags: 0x0100, qs: [][]byte{question(encodeName(name), 1, 1)}}.encode()
				udpExchange(listen, q, 900*time.Millisecond, time.Millisecond)
				var s []string
				for _, u := range ups {
					for _, nm := range u.take() {
						if strings.HasPrefix(nm, "svc") {
							s = append(s, itoa(u.id))
						}
					}
				}
				if len(s) > 0 {
					saw = strings.Join(s, ",")
				}
			}
			stopDaemon(cmd, syscall.SIGTERM)
			res = append(res, b2s(listening), saw)
			_ = os.Remove(ctl)
		}
		emit("dsvc", itoa(i), sx(listen), itoa(up), sx(strings.Join(setopt, " ")), "=>", res[0], res[1], res[2], res[3])
	}
	return nil
}

func daemonAct(r *rng, n int) error {
	dir, err := os.MkdirTemp("", "nxact")
	if err != nil {
		return err
	}
	defer os.RemoveAll(dir)
	if err := bindOver(dir, "/etc"); err != nil {
		return err
	}
	readAll := func() map[string]string {
		m := map[string]string{}
		ents, _ := os.ReadDir("/etc")
		for _, e := range ents {
			if b, err := os.ReadFile(filepath.Join("/etc", e.Name())); err == nil {
				m[e.Name()] = string(b)
			}
		}
		return m
	}
	for i := 0; i < n; i++ {
		cleanEtc()
		orig := genResolvConf(r)
		if !strings.Contains(orig, "nameserver") {
			orig += "nameserver 10.0.0.1\n"
		}
		_ = os.WriteFile("/etc/resolv.conf", []byte(orig), 0644)
		scenario := []string{"term", "kill-restart-term", "term-restart-term"}[i%3]
		ctl := fmt.Sprintf("/tmp/nxact-%d-%d.sock", os.Getpid(), i)
		start := func() *exec.Cmd {
			cmd := exec.Command(daemonBin(), "run", "-listen", "127.0.0.1:53", "-control", ctl, "-auto-activate", "-report-client-info=false",
				"-forwarder", "127.0.0.1:6001", "-timeout", "400ms")
			var lg bytes.Buffer
			cmd.Stdout, cmd.Stderr = &lg, &lg
			_ = cmd.Start()
			return cmd
		}
		activeNow := func() (bool, bool) {
			// activated: resolv.conf names the proxy; and the original content is somewhere in /etc
			files := readAll()
			act := strings.Contains(files["resolv.conf"], "nameserver 127.0.0.1")
			have := false
			for _, c := range files {
				if c == orig {
					have = true
				}
			}
			return act, have
		}
		waitActive := func() bool {
			dl := time.Now().Add(9 * time.Second)
			for time.Now().Before(dl) {
				if a, _ := activeNow(); a {
					return true
				}
				time.Sleep(100 * time.Millisecond)
			}
			return false
		}
		cmd := start()
		activated := waitActive()
		_, origOnDisk := activeNow()
		switch scenario {
		case "term":
			stopDaemon(cmd, syscall.SIGTERM)
		case "kill-restart-term":
			stopDaemon(cmd, syscall.SIGKILL)
			_ = os.Remove(ctl)
			cmd = start()
			time.Sleep(6500 * time.Millisecond) // past the second activation
			_, h := activeNow()
			origOnDisk = origOnDisk && h
			stopDaemon(cmd, syscall.SIGTERM)
		case "term-restart-term":
			stopDaemon(cmd, syscall.SIGTERM)
			_ = os.Remove(ctl)
			cmd = start()
			waitActive()
			_, h := activeNow()
			origOnDisk = origOnDisk && h
			stopDaemon(cmd, syscall.SIGTERM)
		}
		_ = os.Remove(ctl)
		b, _ := os.ReadFile("/etc/resolv.conf")
		emit("dact", itoa(i), scenario, sx(orig), "=>", b2s(activated), b2s(origOnDisk), b2s(string(b) == orig))
	}
	return nil
}
