package main

// A world whose upstream is the real plain-DNS resolver stack (resolver.DNS -> endpoint.Manager ->
// DNSEndpoint -> DNS53.resolve over a UDP socket), as the daemon runs with -forwarder IP or on its
// system-DNS fallback.  The scripting object is the same fakeUp: a UDP front end turns every datagram
// the resolver sends into a call of fakeUp.Resolve and sends back what it returns.

import (
	"context"
	"fmt"
	"net"
	"sync/atomic"
	"time"

	"github.com/nextdns/nextdns/discovery"
	"github.com/nextdns/nextdns/proxy"
	"github.com/nextdns/nextdns/resolver"
	"github.com/nextdns/nextdns/resolver/endpoint"
	"github.com/nextdns/nextdns/resolver/query"
)

func startUDPFront(port int, up *fakeUp, holdFor time.Duration) (*net.UDPConn, error) {
	c, err := net.ListenUDP("udp", &net.UDPAddr{IP: net.IP{127, 0, 0, 1}, Port: port})
	if err != nil {
		return nil, err
	}
	go func() {
		buf := make([]byte, 65535)
		for {
			n, addr, err := c.ReadFromUDP(buf)
			if err != nil {
				return
			}
			dg := append([]byte{}, buf[:n]...)
			go func() {
				q, err := query.New(dg, net.IP{127, 0, 0, 1}, net.IP{127, 0, 0, 1})
				if err != nil {
					return
				}
				ctx, cancel := context.WithTimeout(context.Background(), holdFor)
				defer cancel()
				out := make([]byte, 65535)
				m, _, rerr := up.Resolve(ctx, q, out)
				if rerr != nil || m <= 0 || m > 65507 {
					return // an upstream that does not answer
				}
				_, _ = c.WriteToUDP(out[:m], addr)
			}()
		}
	}()
	return c, nil
}

// newWorldReal: proxy on 127.0.0.1:port, UDP front end of the scripted upstream on port+2000
func newWorldReal(port int, k uint, timeout time.Duration, mgr *endpoint.Manager) (*world, func(), error) {
	w := &world{addr: fmt.Sprintf("127.0.0.1:%d", port), up: &fakeUp{script: map[string]*behaviour{}}}
	front, err := startUDPFront(port+2000, w.up, timeout+time.Second)
	if err != nil {
		return nil, nil, err
	}
	if mgr == nil {
		mgr = &endpoint.Manager{
			EndpointTester: func(e endpoint.Endpoint) endpoint.Tester {
				return func(ctx context.Context, d string) error { return nil }
			},
			ErrorThreshold:  1 << 30,
			MinTestInterval: 1000 * time.Hour,
		}
	}
	mgr.Providers = []endpoint.Provider{endpoint.StaticProvider([]endpoint.Endpoint{&endpoint.DNSEndpoint{Addr: fmt.Sprintf("127.0.0.1:%d", port+2000)}})}
	res := &resolver.DNS{Manager: mgr}
	p := proxy.Proxy{
		Addrs:               []string{w.addr},
		Upstream:            res,
		Timeout:             timeout,
		MaxInflightRequests: k,
		ErrorLog:            func(error) { atomic.AddInt32(&w.errs, 1) },
		LocalResolver:       discovery.Resolver{&discovery.Hosts{}},
	}
	ctx, cancel := context.WithCancel(context.Background())
	w.cancel = cancel
	w.done = make(chan error, 1)
	go func() { w.done <- p.ListenAndServe(ctx) }()
	deadline := time.Now().Add(3 * time.Second)
	for {
		c, err := net.DialTimeout("tcp", w.addr, 200*time.Millisecond)
		if err == nil {
			c.Close()
			break
		}
		if time.Now().After(deadline) {
			cancel()
			front.Close()
			return nil, nil, fmt.Errorf("proxy did not start on %s: %v", w.addr, err)
		}
		time.Sleep(10 * time.Millisecond)
	}
	time.Sleep(30 * time.Millisecond)
	return w, func() { w.stop(); front.Close() }, nil
}
