(* Gen/C15Diag.v -- printed when C15_table_ok fails: the offending paths / access pairs *)
From NX Require Import Bytes Locks Rmw AccessTable.
Definition bad_wb := filter (fun p => negb (well_bracketed p [])) table.
Definition allacc := dedup_acc (flat_map (fun p => accesses p []) table) [].
Definition bad_pairs := flat_map (fun a1 => map (fun a2 => (a1,a2)) (filter (fun a2 => negb (pair_ok a1 a2)) allacc)) allacc.
Eval vm_compute in (length bad_wb, firstn 2 bad_wb).
Eval vm_compute in (length bad_pairs, firstn 8 bad_pairs).
(* frames that write a location read earlier without a read of it in force (check-then-act) *)
Definition bad_frames := filter (fun p => negb (recheck p)) frames.
Eval vm_compute in (length bad_frames, firstn 4 bad_frames).
