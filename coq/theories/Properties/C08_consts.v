(* Properties/C08_consts.v -- the endpoint manager's constants in the model are the ones in /repo's
   source now (Gen/SrcConsts.v, regenerated on every run).  Compiled by bin/check C08 / C09. *)
From NX Require Import Bytes Manager SrcConsts.
Open Scope Z_scope.

(* durations are nanoseconds in the source, seconds in the model *)
Example C08_consts_agree :
  src_DefaultErrorThreshold = eff_threshold (mkMcfg 0 0 (fun _ => 0) None) /\
  src_minTestIntervalFailed = failed_interval * 1000000000 /\
  src_DefaultMinTestInterval = interval_of (mkMcfg 0 0 (fun _ => 0) None) 0 * 1000000000.
Proof. repeat split; reflexivity. Qed.
