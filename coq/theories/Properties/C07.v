(* C07 -- cached answers age correctly and are never served stale.
   Theorems only.  (The serve/re-ask decision over histories is C07_serve in the
   resolver section below, added with Model/Resolver.v.) *)
From NX Require Import Bytes CacheTTL CacheFacts.
Open Scope Z_scope.

(* (a) for every well-formed message tree (any RR mix, names ended by root or a
   compression pointer, OPT anywhere, TTLs over the whole 32-bit range), any age,
   max-age and max-ttl: updateTTL on its encoding yields the encoding of the same
   tree with every non-OPT TTL aged and capped -- nothing else changes -- and
   returns the smallest aged TTL of the non-OPT answer+authority records (0 when
   there is none or the entry is older than max-age) *)
Theorem C07_spec : forall m age maxAge maxTTL,
  wf_msg m -> 0 <= age -> 0 <= maxTTL < two32 ->
  update_ttl (encode_msg m) age maxAge maxTTL = (encode_msg (map_ttl age maxTTL m), min_ttl m age maxAge).
Proof. exact update_ttl_spec. Qed.
Print Assumptions C07_spec.

(* (b) a record's absolute expiry never moves later by passing through the cache,
   and max-ttl is respected *)
Theorem C07_mono : forall ttl age maxTTL, 0 <= ttl -> 0 <= age ->
  ttl_ok ttl (capped (aged ttl age) maxTTL) age maxTTL = true.
Proof. exact ttl_mono. Qed.
Print Assumptions C07_mono.

(* (d) on arbitrary bytes the rewriting keeps the length (it is in place) and a
   message shorter than a header is left alone with minTTL 0 *)
Theorem C07_len : forall msg age maxAge maxTTL, len (fst (update_ttl msg age maxAge maxTTL)) = len msg.
Proof. exact update_ttl_len. Qed.
Print Assumptions C07_len.
Theorem C07_short : forall msg age maxAge maxTTL, len msg < 12 -> update_ttl msg age maxAge maxTTL = (msg, 0).
Proof. exact update_ttl_early. Qed.
Print Assumptions C07_short.

(* non-vacuity: the message of the repository's own test (test.com A, pointer
   name, OPT additional), aged 10 s *)
Definition happy : msg_ast :=
  mkMsg 42733 33152 [mkQ (enc_name [[116;101;115;116];[99;111;109]] EndRoot) 1 1]
        [mkRR (enc_name [] (EndPtr 192 12)) 1 1 3600 [69;172;200;235]] []
        [mkRR (enc_name [] EndRoot) 41 1452 0 []].
Example happy_aged :
  update_ttl (encode_msg happy) 10 0 0 = (encode_msg (map_ttl 10 0 happy), 3590)
  /\ new_ttl (mkRR [] 1 1 3600 []) 10 0 = 3590 /\ new_ttl (mkRR [] 1 1 3600 []) 10 60 = 60
  /\ new_ttl (mkRR [] 41 1452 32768 []) 10 60 = 32768.
Proof. vm_compute. repeat split. Qed.

(* (c) the serve / re-ask decision, for every state reachable in any history *)
From NX Require Import Resolver ResolverFacts.

(* served from cache exactly under [doh_serves]: type is not PTR, an entry exists
   under the query's key, its smallest aged answer/authority TTL is still positive
   (0 once older than max-age), and it was fetched after the latest announced
   profile change.  Then the upstream is not consulted and nothing is stored. *)
Theorem C07_serve_hit : forall cfg st now q url up,
  doh_serves cfg st now q url = true ->
  exists v, cget (st_cache st) (key_of_doh q url) = Some v /\
    doh_resolve cfg st now q url up =
      (st, mkRes (fst (adjusted_response (v_msg v) (rq_id q) ((now - v_time v) / second) (max_age cfg) (max_ttl cfg))) true false).
Proof. exact doh_serve_true. Qed.
Print Assumptions C07_serve_hit.

(* otherwise the upstream is asked: its complete answer is relayed, anything else
   is an error (which the proxy turns into SERVFAIL: stale bytes never reach the client) *)
Theorem C07_serve_miss : forall cfg st now q url up,
  doh_serves cfg st now q url = false ->
  match up with
  | DBody b lm => 0 < len b < 65535 ->
      snd (doh_resolve cfg st now q url up) = mkRes (cap_ttl cfg b) false false
  | _ => rs_err (snd (doh_resolve cfg st now q url up)) = true
  end.
Proof. exact doh_serve_false. Qed.
Print Assumptions C07_serve_miss.

(* PTR answers are never served from the cache, over either transport *)
Theorem C07_ptr_doh : forall cfg st now q url up,
  rq_type q = tPTRq -> rs_from_cache (snd (doh_resolve cfg st now q url up)) = false.
Proof. exact ptr_never_cached_doh. Qed.
Print Assumptions C07_ptr_doh.
Theorem C07_ptr_dns : forall cfg st now q d ds,
  rq_type q = tPTRq -> rs_from_cache (snd (dns_resolve cfg st now q d ds)) = false.
Proof. exact ptr_never_cached_dns. Qed.
Print Assumptions C07_ptr_dns.
