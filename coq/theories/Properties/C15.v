(* Properties/C15.v -- the query path is free of data races (lock-set half).
   The instance for the table regenerated from /repo on every run is Properties/C15_instance.v. *)
From NX Require Import Bytes Locks LockFacts Resolver LastModFacts Rmw RmwFacts RmwEmbed.
From Coq Require Import Permutation.
Open Scope Z_scope.

(* generic: a table that passes the lock-set check admits no racy schedule, for any
   number of threads each running any path of the table *)
Theorem C15_lockset_sound : forall tbl, table_ok tbl = true ->
  forall ps sched ts, (forall p, In p ps -> In p tbl) -> trun (start ps) sched = Some ts -> ~ race ts.
Proof. exact table_ok_sound. Qed.
Print Assumptions C15_lockset_sound.


(* "every reply is one that some sequential order of the same queries could have produced", for the
   state that concurrent responses share -- the per-profile last-modified register: every sequential
   order of the same announcements leaves the same value, their maximum; the register never moves
   backwards and covers every announced stamp.  The concurrent engine compares the implementation's
   value after a burst of simultaneous responses with this one. *)
Theorem C15_lastmod_any_order : forall l url ts ts', Permutation ts ts' ->
  lastmod (apply_stamps l url ts') url = max_stamp (lastmod l url) ts.
Proof. exact lastmod_order_independent. Qed.
Print Assumptions C15_lastmod_any_order.
Theorem C15_lastmod_monotone : forall l url ts, lastmod l url <= lastmod (apply_stamps l url ts) url.
Proof. exact lastmod_monotone. Qed.
Print Assumptions C15_lastmod_monotone.
Theorem C15_lastmod_covers : forall l url ts t, In t ts -> t <= lastmod (apply_stamps l url ts) url.
Proof. exact lastmod_covers. Qed.
Print Assumptions C15_lastmod_covers.

(* ---- no lost update (check-then-act) ---- *)
(* (A) in every reachable state, while a plain read of x by thread i is in force (made under locks i still
   holds), no other thread is about to write x *)
Theorem C15_rmw_exclusive : forall tbl, table_ok tbl = true ->
  forall ps sched ts i ti x hr,
  (forall p, In p ps -> In p tbl) -> trun (start ps) sched = Some ts ->
  nth_error ts i = Some ti -> In (x, hr) (cur_reads (rev (done_rev ti))) ->
  forall j tj, j <> i -> nth_error ts j = Some tj -> next_access tj <> Some (x, KWrite).
Proof. exact rmw_exclusive_ok. Qed.
Print Assumptions C15_rmw_exclusive.

(* (B) on a path that passes the syntactic rule, a plain write of a location the path has read before
   happens while a read of it is in force *)
Theorem C15_recheck_meaning : forall p pre x post,
  recheck p = true -> p = pre ++ Wr x :: post -> In x (reads_of pre) -> in_force x (cur_reads pre) = true.
Proof. exact recheck_write_in_force. Qed.
Print Assumptions C15_recheck_meaning.

(* (C) from a method body taken on its own (a frame) to an entry-point path that contains it: the path is the
   frame's events in order with blocks in between -- the events of callees that give back every lock they take.
   A frame that passes the rule writes, in the path too, a location read before only while a read of it is in
   force (to which (A) applies) *)
Theorem C15_frame_rule_transfers : forall fr p, embeds fr p -> recheck fr = true -> well_bracketed p [] = true ->
  forall pre x post, fr = pre ++ Wr x :: post -> In x (reads_of pre) ->
  exists prep postp, p = prep ++ Wr x :: postp /\ in_force x (cur_reads prep) = true.
Proof. exact frame_rule_transfers. Qed.
Print Assumptions C15_frame_rule_transfers.
