(* Properties/C15.v -- the query path is free of data races (lock-set half).
   The instance for the table regenerated from /repo on every run is Properties/C15_instance.v. *)
From NX Require Import Bytes Locks LockFacts.

(* generic: a table that passes the lock-set check admits no racy schedule, for any
   number of threads each running any path of the table *)
Theorem C15_lockset_sound : forall tbl, table_ok tbl = true ->
  forall ps sched ts, (forall p, In p ps -> In p tbl) -> trun (start ps) sched = Some ts -> ~ race ts.
Proof. exact table_ok_sound. Qed.
Print Assumptions C15_lockset_sound.

