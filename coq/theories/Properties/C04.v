(* C04 -- request capacity is bounded and always given back.  Theorems only. *)
From NX Require Import Bytes Handler HandlerFacts HandlerLeak.
Open Scope Z_scope.

(* for every capacity, every set of readers (the UDP loop and any number of TCP
   connection loops) and every interleaving of reads (timeouts, errors, undersized
   and accepted messages), handler endings (normal, upstream error, timeout, panic)
   and pool activity: the units in use are exactly the readers holding one plus the
   live handlers, never more than the capacity *)
Theorem C04_inv : forall k rs s, hreach k rs s ->
  tokens s = (count r_holds (readers s) + count h_live (handlers s))%nat /\ (tokens s <= cap s)%nat.
Proof. exact capacity_bounded. Qed.
Print Assumptions C04_inv.

(* nothing leaks: with no handler alive all capacity is back (each reader blocked
   in a read keeps the unit it will hand to the next request) *)
Theorem C04_noleak : forall k rs s, hreach k rs s -> count h_live (handlers s) = 0%nat ->
  tokens s = count r_holds (readers s).
Proof. exact no_leak. Qed.
Print Assumptions C04_noleak.

(* ... and free capacity is usable: an idle reader can take a unit whenever one is free *)
Theorem C04_usable : forall s i k0, nth_error (readers s) i = Some (mkR k0 RIdle) -> (tokens s < cap s)%nat ->
  exists s', hstep s (RAcquire i) = Some s' /\ tokens s' = S (tokens s).
Proof. exact acquire_enabled. Qed.
Print Assumptions C04_usable.

(* every ending of a request runs the deferred cleanup, which releases exactly one unit *)
Theorem C04_release : forall s j s' h, hinv s -> nth_error (handlers s) j = Some h ->
  hstep s (HFinish j) = Some s' -> tokens s' = pred (tokens s) /\ (1 <= tokens s)%nat.
Proof. exact finish_releases. Qed.
Print Assumptions C04_release.

(* C01 (concurrent half): pooled buffers are never shared -- no buffer is at once in
   the pool and in use, or used by two threads -- so a reply is never built from
   another request's bytes; and a handler writes its reply at most once *)
Theorem C01_own : forall k rs s, hreach k rs s -> NoDup (free s ++ owned s).
Proof. exact buffers_unshared. Qed.
Print Assumptions C01_own.
Theorem C01_one_write : forall k rs s j h, hreach k rs s -> nth_error (handlers s) j = Some h -> (hwrites h <= 1)%nat.
Proof. exact writes_at_most_once. Qed.
Print Assumptions C01_one_write.

(* non-vacuity: the slip "no release on the undersized-datagram path" is refuted by
   `cap` small datagrams *)
Theorem C04_leak_refuted :
  exists s, hrun_leak (hinit 2 [RUDP])
              [RAcquire 0; RGet 0; RRead 0 RdSmall; RAcquire 0; RGet 0; RRead 0 RdSmall] = Some s /\
    tokens s = 2%nat /\ count r_holds (readers s) = 0%nat /\ handlers s = [] /\
    hstep_leak s (RAcquire 0) = None.
Proof. exact small_datagram_leak_refuted. Qed.
Print Assumptions C04_leak_refuted.
