(* Properties/C16_instance.v -- the start wrapper with the channel capacity that `nxh start-extract`
   reads from /repo's run.go on every run (Gen/StartParams.v).  Compiled by bin/check C16, not part
   of the static project. *)
From NX Require Import Bytes Start StartFacts Slots SlotsFacts StartParams.

(* the code as it is now: the listener's error is handed over with a non-blocking send (every send
   on the channel in start is a case of a select with a default -- what Start.v's step models) ... *)
Example C16_start_send_nonblocking : start_nonblocking_send = true.
Proof. reflexivity. Qed.

(* ... on a channel of the capacity found in the source: a start that could not bind is never
   reported as a success, whatever the schedule *)
Theorem C16_start_instance : forall ls s, srun start_cap1 sinit ls = Some s -> false_success s = false.
Proof.
  assert (H : start_cap1 = true) by (vm_compute; reflexivity). rewrite H. exact start_reports_failure.
Qed.
Print Assumptions C16_start_instance.

(* the UDP read loop obtains its request slot the way the source says now (udp_slot_select): once the socket
   is closed it ends by steps of its own, whatever the handlers that hold the slots do (F25) *)
Theorem C16_stop_instance : forall k ls s,
  sruns udp_slot_select k (sinit0 k) ls = Some s -> s_closed s = true ->
  exists own, (own = [] \/ own = [SNotice] \/ own = [SAcquire; SNotice]) /\
    exists s', sruns udp_slot_select k s own = Some s' /\ s_loop s' = LStopped.
Proof.
  assert (H : udp_slot_select = true) by (vm_compute; reflexivity). rewrite H. exact stop_does_not_wait.
Qed.
Print Assumptions C16_stop_instance.
