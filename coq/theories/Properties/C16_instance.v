(* Properties/C16_instance.v -- the start wrapper with the channel capacity that `nxh start-extract`
   reads from /repo's run.go on every run (Gen/StartParams.v).  Compiled by bin/check C16, not part
   of the static project. *)
From NX Require Import Bytes Start StartFacts StartParams.

(* the code as it is now: the listener's error is handed over with a non-blocking send (every send
   on the channel in start is a case of a select with a default -- what Start.v's step models) ... *)
Example C16_start_send_nonblocking : start_nonblocking_send = true.
Proof. reflexivity. Qed.

(* ... on a channel of the capacity found in the source: a start that could not bind is never
   reported as a success, whatever the schedule *)
Theorem C16_start_instance : forall ls s, srun start_cap1 sinit ls = Some s -> false_success s = false.
Proof.
  assert (H : start_cap1 = true) by (vm_compute; reflexivity). rewrite H. exact start_reports_failure.
Qed.
Print Assumptions C16_start_instance.
