(* C16 -- serving stops cleanly and bind failures are reported, not swallowed.
   Theorems only.  n = number of listener goroutines (two per address). *)
From NX Require Import Bytes Listen ListenFacts ListenRace Start StartFacts Slots SlotsFacts.
Open Scope Z_scope.

(* every reachable state, for every n, every bind outcome, every cancellation
   time and every interleaving, satisfies the invariant *)
Theorem C16_inv : forall n s, greach n s -> ginv s.
Proof. exact greach_inv. Qed.
Print Assumptions C16_inv.

(* once serving is stopped or a listener failed, something can always move until
   ListenAndServe has returned: no deadlock ... *)
Theorem C16_progress : forall s, ginv s -> cancelled s = true -> mainpc s <> MReturned ->
  exists lb s', gstep s lb = Some s'.
Proof. exact progress. Qed.
Print Assumptions C16_progress.

(* ... and every step strictly decreases a natural number: every run is finite,
   so every maximal run after cancellation ends with main returned *)
Theorem C16_finite : forall s lb s', ginv s -> gstep s lb = Some s' -> (gmeasure s' < gmeasure s)%nat.
Proof. exact step_decreases. Qed.
Print Assumptions C16_finite.

(* at return no socket is left bound *)
Theorem C16_closed : forall s, ginv s -> mainpc s = MReturned ->
  forallb (fun t => match l_sock t with SOpen => false | _ => true end) (ths s) = true.
Proof. exact returned_all_closed. Qed.
Print Assumptions C16_closed.

(* the returned error is never nil, and unless the service was stopped from outside
   it is the bind error (the first value sent), not a consequence of the shutdown *)
Theorem C16_error : forall s, ginv s -> mainpc s = MReturned ->
  result s <> None /\ (ext s = false -> result s = Some EBind).
Proof. exact returned_error. Qed.
Print Assumptions C16_error.

(* the defect this excludes (F3, fixed in /repo): with the old code a listener that
   binds after the close pass keeps its socket and main never returns *)
Theorem C16_hang_refuted :
  exists s, grun_old (ginit 2) witness = Some s /\
    enabled_old s = [] /\ mainpc s = MCollect 2 /\ cancelled s = true /\
    nth_error (ths s) 1 = Some (mkTh LServing SOpen true).
Proof. exact listen_hang_refuted. Qed.
Print Assumptions C16_hang_refuted.

(* ---- the start wrapper (run.go proxySvc.start) ---- *)
(* with room for one error in the channel (F23 repair), whatever the interleaving of the starter and the
   listener goroutine, start never returns nil for a listener that had failed by then *)
Theorem C16_start_reports : forall ls s, srun true sinit ls = Some s -> false_success s = false.
Proof. exact start_reports_failure. Qed.
Print Assumptions C16_start_reports.

(* ---- stopping does not wait for a request slot (proxy/udp.go serveUDP, F25) ---- *)
(* the read loop takes its slot in a select with the serving context: in every reachable state in which the
   socket has been closed it ends within two steps of its own -- no handler has to give a slot back *)
Theorem C16_stop_does_not_wait : forall k ls s,
  sruns true k (sinit0 k) ls = Some s -> s_closed s = true ->
  exists own, (own = [] \/ own = [SNotice] \/ own = [SAcquire; SNotice]) /\
    exists s', sruns true k s own = Some s' /\ s_loop s' = LStopped.
Proof. exact stop_does_not_wait. Qed.
Print Assumptions C16_stop_does_not_wait.

(* the code before the repair (plain channel send): the state "every slot taken, socket closed, loop waiting
   for a slot" is reachable, and nothing but a handler giving its slot back lets the loop end *)
Theorem C16_stop_waited_refuted :
  sruns false 1 (sinit0 1) [SAcquire; SDatagram; SCancel; SClose] = Some stuck_state /\
  forall ls s, no_handler_done ls -> sruns false 1 stuck_state ls = Some s -> s = stuck_state.
Proof. split; [exact stuck_reachable|exact stop_waits_for_a_slot_refuted]. Qed.
Print Assumptions C16_stop_waited_refuted.

(* ---- life cycles of the service object (run.go proxySvc.Start / Stop / Restart; Model/Svc.v) ---- *)
From NX Require Import Svc SvcFacts.
(* what a call has to report over a whole history -- a start on an address somebody else holds reports the
   failure, whatever came before (an earlier failed start, a stop), a start that reports success holds the
   address -- is coherent: a serving service and a foreign occupant never coexist *)
Theorem C16_lifecycle_coherent : forall ops s, svc_inv s -> svc_wf s ops = true -> svc_inv (fst (svc_run s ops)).
Proof. exact svc_run_inv. Qed.
Print Assumptions C16_lifecycle_coherent.
Theorem C16_start_honest : forall s o ok held, (o = SvStart \/ o = SvRestart) ->
  snd (svc_step s o) = Some (ok, held) -> ok = held /\ (ok = true <-> sv_occupied s = false).
Proof. exact svc_start_honest. Qed.
Print Assumptions C16_start_honest.
