(* C11 -- each client is resolved under the first matching profile.
   Theorems only. *)
From NX Require Import Bytes Profile ConfigFacts.
Open Scope Z_scope.

(* Profiles.Get = first conditional match in order, else the last unconditional
   entry, else "" -- for every list and every client tuple *)
Theorem C11_get : forall ps c, pget ps c = pget_spec ps c.
Proof. exact pget_correct. Qed.
Print Assumptions C11_get.

(* an unconditional entry (or anything else before it) never shadows a later
   conditional entry that matches *)
Theorem C11_no_shadow : forall pre p post c,
  conditional_match c p = true ->
  forallb (fun x => negb (conditional_match c x)) pre = true ->
  pget (pre ++ p :: post) c = pr_id p.
Proof. exact default_no_shadow. Qed.
Print Assumptions C11_no_shadow.

(* the DoH URL / cache context determines the profile id and is never empty *)
Theorem C11_url_inj : forall a b, url_of a = url_of b -> a = b.
Proof. exact url_of_inj. Qed.
Print Assumptions C11_url_inj.
Theorem C11_url_nonempty : forall a, url_of a <> [].
Proof. exact url_of_nonempty. Qed.
Print Assumptions C11_url_nonempty.

(* non-vacuity: default first, then a subnet rule: the subnet client gets the rule *)
Example shadow_example :
  let d := mkProfile [100] None [] [] in
  let s := mkProfile [115] (Some (mkCidr [10;1;0;0] 16)) [] [] in
  pget [d; s] (mkClient (Some [10;1;2;3]) None []) = [115]
  /\ pget [d; s] (mkClient (Some [10;2;2;3]) None []) = [100]
  /\ pget [s] (mkClient (Some [10;2;2;3]) None []) = [].
Proof. repeat split. Qed.
