(* Properties/C20.v -- router integration points dnsmasq at the proxy and undoes it on stop.
   Statements are about what the running dnsmasq loaded at its last restart
   (view f (loaded e)), for every firmware, every setting, every pre-existing state. *)
From NX Require Import Bytes Discovery ResolvConf Router RouterFacts RouterOpenwrt.

(* ---- after Configure + Setup the running dnsmasq forwards to exactly the proxy's listen
   address, or has its DNS off port 53 when the proxy takes :53; add-mac iff reporting ---- *)
Theorem C20_setup_dropin : forall f c e r1 e1 ls r2 e2,
  match f with Edgeos | Ubios | Firewalla | Synology | Generic => True | _ => False end ->
  configure (new f e) c e = (r1, e1, ls, true) -> setup r1 e1 = (r2, e2, true) ->
  c20_setup_ok f c ls (nodnsmasq f e) (view f (loaded e2)) = true.
Proof. exact setup_ok_simple. Qed.
Print Assumptions C20_setup_dropin.

Theorem C20_setup_openwrt : forall c e r1 e1 ls r2 e2,
  uci_s e = uci_c e ->
  configure (new Openwrt e) c e = (r1, e1, ls, true) -> setup r1 e1 = (r2, e2, true) ->
  c20_setup_ok Openwrt c ls false (view Openwrt (loaded e2)) = true.
Proof. exact ow_setup_ok. Qed.
Print Assumptions C20_setup_openwrt.

Theorem C20_setup_ddwrt : forall c e r1 e1 ls r2 e2,
  configure (new Ddwrt e) c e = (r1, e1, ls, true) -> setup r1 e1 = (r2, e2, true) ->
  c20_setup_ok Ddwrt c ls false (view Ddwrt (loaded e2)) = true.
Proof. exact dd_setup_ok. Qed.
Print Assumptions C20_setup_ddwrt.

Theorem C20_setup_merlin : forall c e r1 e1 ls r2 e2,
  cr_clean (conf e) ->
  configure (new Merlin e) c e = (r1, e1, ls, true) -> setup r1 e1 = (r2, e2, true) ->
  c20_setup_ok Merlin c ls false (view Merlin (loaded e2)) = true /\
  v_user (view Merlin (loaded e2)) = owner_lines (conf e).
Proof. exact merlin_setup_ok. Qed.
Print Assumptions C20_setup_merlin.

(* ---- after Restore nothing the running dnsmasq loaded points at the proxy; after a
   start/stop cycle from a state without NextDNS remnants the owner's configuration is back.
   The starting state e is arbitrary: in particular the one an unclean stop left ---- *)
Theorem C20_restore_dropin : forall f c e r1 e1 ls ok1 r2 e2 ok2 e3,
  match f with Edgeos | Ubios | Firewalla | Synology | Generic => True | _ => False end ->
  nodnsmasq f e = false ->
  configure (new f e) c e = (r1, e1, ls, ok1) -> setup r1 e1 = (r2, e2, ok2) -> restore r2 e2 = (e3, true) ->
  c20_not_pointing (view f (loaded e3)) = true /\
  (conf e = None -> c20_restored (view f (loaded e3)) (view f (current e)) = true).
Proof. exact restore_simple. Qed.
Print Assumptions C20_restore_dropin.

Theorem C20_restore_openwrt : forall c e r1 e1 ls ok1 r2 e2 ok2 e3,
  configure (new Openwrt e) c e = (r1, e1, ls, ok1) -> setup r1 e1 = (r2, e2, ok2) -> restore r2 e2 = (e3, true) ->
  c20_not_pointing (view Openwrt (loaded e3)) = true.
Proof. exact ow_restore_not_pointing. Qed.
Print Assumptions C20_restore_openwrt.

(* a whole start/stop cycle on OpenWrt: the dnsmasq port, the forwarders and the DHCP options are
   back as dnsmasq reads them (Hopt: the option list as uci prints it has no surrounding white space) *)
Theorem C20_cycle_openwrt : forall c e r1 e1 ls r2 e2 e3,
  conf e = None -> uci_s e = uci_c e ->
  (forall l, sget k_dhcpopt (uci_c e) = Some l -> trim_space (join_sp l) = join_sp l) ->
  configure (new Openwrt e) c e = (r1, e1, ls, true) -> setup r1 e1 = (r2, e2, true) -> restore r2 e2 = (e3, true) ->
  c20_restored (view Openwrt (loaded e3)) (view Openwrt (current e)) = true.
Proof. exact ow_cycle_restores. Qed.
Print Assumptions C20_cycle_openwrt.

Theorem C20_restore_ddwrt : forall c e r1 e1 ls ok1 r2 e2 ok2 e3 ok3,
  configure (new Ddwrt e) c e = (r1, e1, ls, ok1) -> setup r1 e1 = (r2, e2, ok2) -> restore r2 e2 = (e3, ok3) ->
  (has_prefix t_header (trim_space (match nget k_options (nv e) with Some v => v | None => [] end)) = true \/
   c20_not_pointing (view Ddwrt (current e)) = true) ->
  ok3 = true /\ c20_not_pointing (view Ddwrt (loaded e3)) = true.
Proof. exact dd_restore_not_pointing. Qed.
Print Assumptions C20_restore_ddwrt.

Theorem C20_restore_ddwrt_after_unclean_stop :
  forall c e r1 e1 ls ok1 r2 e2 ok2 c' r1' e1' ls' ok1' r2' e2' ok2' e3 ok3,
  configure (new Ddwrt e) c e = (r1, e1, ls, ok1) -> setup r1 e1 = (r2, e2, ok2) ->
  configure (new Ddwrt e2) c' e2 = (r1', e1', ls', ok1') -> setup r1' e1' = (r2', e2', ok2') ->
  restore r2' e2' = (e3, ok3) ->
  ok3 = true /\ c20_not_pointing (view Ddwrt (loaded e3)) = true.
Proof. exact dd_unclean_then_cycle. Qed.
Print Assumptions C20_restore_ddwrt_after_unclean_stop.

Theorem C20_cycle_ddwrt : forall c e r1 e1 ls ok1 r2 e2 ok2 e3 ok3,
  configure (new Ddwrt e) c e = (r1, e1, ls, ok1) -> setup r1 e1 = (r2, e2, ok2) -> restore r2 e2 = (e3, ok3) ->
  has_prefix t_header (trim_space (match nget k_options (nv e) with Some v => v | None => [] end)) = false ->
  c20_restored (view Ddwrt (loaded e3)) (view Ddwrt (current e)) = true.
Proof. exact dd_restore_restores. Qed.
Print Assumptions C20_cycle_ddwrt.

Theorem C20_restore_merlin : forall c e r1 e1 ls ok1 r2 e2 ok2 e3 ok3,
  cr_clean (conf e) ->
  configure (new Merlin e) c e = (r1, e1, ls, ok1) -> setup r1 e1 = (r2, e2, ok2) -> restore r2 e2 = (e3, ok3) ->
  ok3 = true /\ view Merlin (loaded e3) = mkV false t_53 false [] false false (owner_lines (conf e)) false.
Proof. exact merlin_restore. Qed.
Print Assumptions C20_restore_merlin.

Theorem C20_merlin_state_after_setup : forall c e r1 e1 ls ok1 r2 e2 ok2,
  cr_clean (conf e) ->
  configure (new Merlin e) c e = (r1, e1, ls, ok1) -> setup r1 e1 = (r2, e2, ok2) ->
  cr_clean (conf e2) /\ owner_lines (conf e2) = owner_lines (conf e).
Proof. exact merlin_after_setup. Qed.
Print Assumptions C20_merlin_state_after_setup.

Theorem C20_cycle_merlin : forall c e r1 e1 ls ok1 r2 e2 ok2 e3 ok3,
  cr_clean (conf e) -> match conf e with Some b => nomark (split_lines b) | None => True end ->
  configure (new Merlin e) c e = (r1, e1, ls, ok1) -> setup r1 e1 = (r2, e2, ok2) -> restore r2 e2 = (e3, ok3) ->
  c20_not_pointing (view Merlin (loaded e3)) = true /\
  c20_restored (view Merlin (loaded e3)) (view Merlin (current e)) = true.
Proof. exact merlin_restore_restores. Qed.
Print Assumptions C20_cycle_merlin.

(* ---- what is left on disk (round g) ---- *)
From NX Require Import RouterDisk RouterFault.
(* every successful Restore ends with the restart of dnsmasq and writes nothing after it: what is on disk afterwards is
   exactly what the running dnsmasq loaded, so the C20_restore_* statements above also hold for what a dnsmasq
   restarted later (by the owner, by the system) would read *)
Theorem C20_restore_disk : forall r e e3,
  r_fw r <> Generic -> (r_fw r = Synology -> r_disabled r = false) ->
  restore r e = (e3, true) -> loaded e3 = current e3.
Proof. exact restore_loaded_is_disk. Qed.
Print Assumptions C20_restore_disk.

(* the restart at the end of setupDNSMasq fails (the drop-in is written, nothing restarted, Setup returns the error):
   the Restore of the stop that follows still removes the file and restarts dnsmasq; neither what runs nor what is on
   disk points at the proxy *)
Theorem C20_failed_restart_then_restore : forall r e lines,
  match r_fw r with Edgeos | Ubios | Firewalla => True | _ => False end ->
  exists e3, restore r (file_setup_fault lines e) = (e3, true) /\ conf e3 = None /\
    loaded e3 = current e3 /\
    c20_not_pointing (view (r_fw r) (loaded e3)) = true /\
    c20_not_pointing (view (r_fw r) (current e3)) = true.
Proof. exact fault_then_restore. Qed.
Print Assumptions C20_failed_restart_then_restore.
