(* C05 -- UDP replies respect the client's size limit; cuts are flagged with TC.
   Theorems only; proofs are in Proofs/ReplyFacts.v (and Proofs/QueryFacts.v for
   the tie of the advertised size to the wire). *)
From NX Require Import Bytes Reply ReplyFacts.
Open Scope Z_scope.

(* for every advertised size m (512 when the query has no OPT record) and
   every upstream message length r: *)
Theorem C05_len : forall m r, 0 <= m <= 65535 -> 1 <= r <= 65535 ->
  fst (udp_adjust m r) <= limit m.
Proof. exact udp_adjust_len. Qed.
Print Assumptions C05_len.

Theorem C05_tc : forall m r, 0 <= m <= 65535 -> 1 <= r <= 65535 ->
  fst (udp_adjust m r) < r -> snd (udp_adjust m r) = true.
Proof. exact udp_adjust_tc. Qed.
Print Assumptions C05_tc.

Theorem C05_full : forall m r, 0 <= m <= 65535 -> 1 <= r <= 65535 ->
  r <= limit m -> fst (udp_adjust m r) = r.
Proof. exact udp_adjust_full. Qed.
Print Assumptions C05_full.

(* the same on the bytes actually written *)
Theorem C05_datagram_len : forall m msg, 0 <= m <= 65535 -> 1 <= len msg <= 65535 ->
  len (udp_reply m msg) = fst (udp_adjust m (len msg)).
Proof. exact udp_reply_len. Qed.
Print Assumptions C05_datagram_len.

Theorem C05_datagram_tc : forall m msg, 0 <= m <= 65535 -> 3 <= len msg <= 65535 ->
  len (udp_reply m msg) < len msg -> tc_bit (udp_reply m msg) = true.
Proof. exact udp_reply_tc. Qed.
Print Assumptions C05_datagram_tc.

Theorem C05_datagram_bytes : forall m msg i d, 0 <= m <= 65535 -> 1 <= len msg <= 65535 ->
  (i < Z.to_nat (len (udp_reply m msg)))%nat -> i <> 2%nat ->
  nth i (udp_reply m msg) d = nth i msg d.
Proof. exact udp_reply_prefix. Qed.
Print Assumptions C05_datagram_bytes.

Theorem C05_untouched : forall m msg, 0 <= m <= 65535 -> 1 <= len msg <= 65535 ->
  snd (udp_adjust m (len msg)) = false -> udp_reply m msg = msg.
Proof. exact udp_reply_untouched. Qed.
Print Assumptions C05_untouched.

Theorem C05_tcp : forall msg, 1 <= len msg <= 65535 ->
  tcp_frame msg = [len msg / 256; len msg mod 256] ++ msg
  /\ decode_prefix (tcp_frame msg) = len msg
  /\ len (tcp_frame msg) = len msg + 2.
Proof. exact tcp_frame_spec. Qed.
Print Assumptions C05_tcp.

(* the extracted boolean spec used on implementation observations is implied
   by the model *)
Theorem C05_spec_bool : forall m msg, 0 <= m <= 65535 -> 3 <= len msg <= 65535 ->
  c05_udp_ok m (len msg) (len (udp_reply m msg)) (tc_bit (udp_reply m msg)) (tc_bit msg) = true.
Proof. exact c05_udp_ok_model. Qed.
Print Assumptions C05_spec_bool.

(* documented non-requirement: TC may be set without a cut (4094 < r <= m) *)
Example tc_without_cut : udp_adjust 8000 5000 = (5000, true).
Proof. reflexivity. Qed.
(* non-vacuity: a cut really happens *)
Example cut_happens : udp_adjust 512 600 = (512, true) /\ udp_adjust 1232 1300 = (1232, true).
Proof. split; reflexivity. Qed.

(* ---- the stream of a TCP connection (mode tcpstall) ---- *)
From NX Require Import FrameStream.
(* whatever replies are written on a connection, each as one whole frame and nothing in between, a client that reads a
   two-byte length and then that many bytes, again and again, gets back exactly those replies, in order, and is left
   with exactly what follows the last frame *)
Theorem C05_stream_decodes : forall ms tail,
  Forall (fun m => 1 <= len m <= 65535) ms ->
  read_frames (length ms) (stream ms ++ tail) = (ms, tail).
Proof. exact frames_decode. Qed.
Print Assumptions C05_stream_decodes.
