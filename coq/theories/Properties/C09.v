(* C09 -- failover and recovery make progress; the manager never deadlocks.
   Theorems only. *)
From NX Require Import Bytes Manager ManagerFacts ManagerLock.
Open Scope Z_scope.

(* the error threshold starts exactly one background election for the object *)
Theorem C09_threshold : forall c en s q i,
  (i < length (objs s))%nat -> a_testing (get_obj s i) = false ->
  (a_errs (get_obj s i) + 1) mod 4294967296 = eff_threshold c ->
  pending (snd (fst (mstep c en s (QEnd q i false)))) = pending s ++ [i].
Proof. exact threshold_spawns. Qed.
Print Assumptions C09_threshold.

(* once the test interval has elapsed, the next query starts one *)
Theorem C09_interval : forall c en s q i,
  active s = Some i -> (i < length (objs s))%nat -> a_testing (get_obj s i) = false ->
  now en - a_last (get_obj s i) > a_interval (get_obj s i) ->
  pending (snd (fst (mstep c en s (QStart q)))) = pending s ++ [i].
Proof. exact interval_spawns. Qed.
Print Assumptions C09_interval.

(* that election moves to the first healthy candidate (C08_elect), so later
   queries use the alternative / the recovered preferred endpoint *)
Theorem C09_moves : forall c en s e, member_ok c s ->
  (fst (fst (find_best en)) = BOk e \/ fst (fst (find_best en)) = BFallback e) ->
  active_ep (fst (test_locked c en s)) = Some e /\ snd (test_locked c en s) = true.
Proof. exact test_locked_elects. Qed.
Print Assumptions C09_moves.

(* elections never overlap: in every reachable state at most one is pending per
   endpoint object, exactly while that object's testing latch is set (and each runs
   under the manager's write lock: the Elect step is atomic) *)
Theorem C09_single : forall c en s, mreach c en s ->
  NoDup (pending s) /\
  (forall i, In i (pending s) <-> (i < length (objs s))%nat /\ a_testing (get_obj s i) = true).
Proof. exact elections_single. Qed.
Print Assumptions C09_single.

(* no error kind leaves the manager unable to serve: every label has a successor in
   every state (the step function is total), and the write lock is never left held *)
Theorem C09_lock_released : forall boots s, locked s = false ->
  exists s', run_q qstart_fixed s boots = Some s' /\ locked s' = false.
Proof. exact fixed_never_locked. Qed.
Print Assumptions C09_lock_released.

(* the defect this excludes (F2, fixed in /repo): before the repair a failed
   bootstrap election left the lock held and every later query blocked *)
Theorem C09_bootstrap_deadlock_refuted :
  exists s0 b, match qstart_old s0 b with
               | Some (s1, false) => forall b', qstart_old s1 b' = None
               | _ => False end.
Proof. exact bootstrap_deadlock_refuted. Qed.
Print Assumptions C09_bootstrap_deadlock_refuted.

(* non-vacuity: threshold 2, two failures on endpoint 1 (now failing its probe)
   start one election which moves to endpoint 2; a third failure does not start another *)
Example failover_example :
  let c := mkMcfg 2 100 (fun _ => 0) None in
  let en := mkEnv [PEps [1; 2]] [(1, ProbeOk); (2, ProbeOk)] 1000000 in
  let '(en1, s1) := mrun c en m0 [QStart 1; QStart 2; QStart 3; SetHealth 1 ProbeFail; QEnd 1 0%nat false; QEnd 2 0%nat false] in
  let '(en2, s2) := mrun c en1 s1 [QEnd 3 0%nat false; Elect; QStart 4] in
  pending s1 = [0%nat] /\ pending s2 = [] /\ active_ep s2 = Some 2.
Proof. vm_compute. repeat split. Qed.
