(* C17 -- saved configuration reloads to the same effective configuration.
   Theorems only.  The store is generic in the element type of list options and in
   the printing/parsing functions (package net / time: environment); the
   instantiation for listen / profile / forwarder is below. *)
From NX Require Import Bytes Config StoreFacts Forwarder Profile FwdText FwdTextFacts ProfText ProfTextFacts.
Open Scope Z_scope.

Section C17.
  Variable elem : Type.
  Variable same : nat -> elem -> elem -> bool.
  Variable show : nat -> elem -> bytes.
  Variable parse : nat -> bytes -> option elem.
  Variable norm : nat -> bytes -> option bytes.
  (* environment assumption: String() of an element parses back to it -- for the
     elements Set can put into a store ([good]); for the forwarder option this is the
     theorem C17_forwarder_text below, not an assumption *)
  Variable good : nat -> elem -> Prop.
  Hypothesis parse_show : forall j e, good j e -> parse j (show j e) = Some e.

  (* every store in the form Set leaves it (scalars in canonical printed form, list
     options without two elements of the same criteria) is reloaded exactly from
     the lines Save writes: same scalars, same lists in the same order *)
  Theorem C17_roundtrip : forall s defaults,
    wf_store elem same norm good s -> length (scalars defaults) = length (scalars s) ->
    lists defaults = map (fun _ => []) (lists s) ->
    load elem same parse norm defaults (save elem show s) = Some s.
  Proof. exact (save_load elem same show parse norm good parse_show). Qed.

  (* config set of one scalar option (arguments, stored file, arguments again):
     the lists and every other scalar option are what was stored *)
  Theorem C17_set : forall s defaults o v c,
    wf_store elem same norm good s -> length (scalars defaults) = length (scalars s) ->
    lists defaults = map (fun _ => []) (lists s) -> norm o v = Some c -> norm o c = Some c ->
    exists s', parse_cmd elem same parse norm defaults [Scalar o v] (save elem show s) = Some s' /\
      lists s' = lists s /\ forall o', o' <> o -> nth o' (scalars s') [] = nth o' (scalars s) [].
  Proof. exact (set_scalar_others elem same show parse norm good parse_show). Qed.

  (* re-adding the elements of a list that Set produced, in order, reproduces it:
     nothing is replaced, dropped or reordered *)
  Theorem C17_list : forall j l, canonical elem same j l -> fold_left (set_elem elem same j) l [] = l.
  Proof. exact (reload_list elem same). Qed.
End C17.
Print Assumptions C17_roundtrip.
Print Assumptions C17_set.
Print Assumptions C17_list.

(* the Set methods of the real list options are instances of the generic one *)
Theorem C17_forwarders_instance : forall fs f,
  fwd_set fs f = set_elem fwd (fun _ a b => beq_bytes (f_domain a) (f_domain b)) 0 fs f.
Proof. induction fs as [|g r IH]; intros f; cbn; [reflexivity|]. destruct (beq_bytes _ _); [reflexivity|]. rewrite IH. reflexivity. Qed.
Print Assumptions C17_forwarders_instance.
Theorem C17_profiles_instance : forall ps p,
  pset ps p = set_elem profile (fun _ a b => same_criteria a b) 0 ps p.
Proof. induction ps as [|q r IH]; intros p; cbn; [reflexivity|]. destruct (same_criteria p q); [reflexivity|]. rewrite IH. reflexivity. Qed.
Print Assumptions C17_profiles_instance.

(* ---- the forwarder option at the level of text (config/forwarder.go newResolver /
   String, Model/FwdText.v): for every rule newResolver can produce -- whatever
   resolver.New accepts ([valid]) -- String() is read back to the very same rule, so the
   round trip of a store of forwarder lists holds without an environment assumption on
   the element syntax ---- *)
Theorem C17_forwarder_text : forall valid r,
  frule_good valid r -> fwd_text_parse valid (fwd_text_show r) = Some r.
Proof. exact fwd_text_roundtrip. Qed.
Print Assumptions C17_forwarder_text.

(* the replacement criterion of Forwarders.Set (same Domain) is visible in the stored line:
   the text before the first '=' *)
Theorem C17_forwarder_criterion : forall valid r1 r2, frule_good valid r1 -> frule_good valid r2 ->
  (fst r1 = fst r2 <-> printed_cond (fwd_text_show r1) = printed_cond (fwd_text_show r2)).
Proof. exact fwd_text_same. Qed.
Print Assumptions C17_forwarder_criterion.

Theorem C17_roundtrip_forwarders : forall valid norm s defaults,
  wf_store frule (fun _ => frule_same) norm (fun _ => frule_good valid) s ->
  length (scalars defaults) = length (scalars s) ->
  lists defaults = map (fun _ => []) (lists s) ->
  load frule (fun _ => frule_same) (fun _ => fwd_text_parse valid) norm defaults
       (save frule (fun _ => fwd_text_show) s) = Some s.
Proof.
  intros valid norm. apply (C17_roundtrip frule (fun _ => frule_same) (fun _ => fwd_text_show)
    (fun _ => fwd_text_parse valid) norm (fun _ => frule_good valid)).
  intros _ e He. apply fwd_text_roundtrip. exact He.
Qed.
Print Assumptions C17_roundtrip_forwarders.

(* the rule domain the text parser produces is the one the matcher of C10 works on *)
Theorem C17_forwarder_domain : forall d, fqdn_text d = fqdn d.
Proof. reflexivity. Qed.

(* ---- the profile option at the level of text (config/profile.go newConfig / String, Model/ProfText.v): the same
   round trip, under four stated facts about package net -- a printed prefix / hardware address parses to itself,
   contains no '=' and no surrounding white space, and a printed hardware address is not a prefix ---- *)
Theorem C17_profile_text : forall parse_cidr parse_mac is_iface,
  (forall t x, parse_cidr t = Some x -> parse_cidr x = Some x /\ clean x) ->
  (forall t m, parse_mac t = Some m -> parse_mac m = Some m /\ clean m /\ parse_cidr m = None) ->
  forall r, prule_good parse_cidr parse_mac is_iface r ->
    prof_text_parse parse_cidr parse_mac is_iface (prof_text_show r) = Some r.
Proof. exact prof_text_roundtrip. Qed.
Print Assumptions C17_profile_text.

(* non-vacuity: a store holding two rules that newResolver produced is well formed *)
Example C17_forwarders_nonvacuous :
  let r1 := ([97;46], [49]) in let r2 := ([], [50]) in
  wf_store frule (fun _ => frule_same) (fun _ v => Some v) (fun _ => frule_good (fun _ => true))
           (mkStore [] [[r1; r2]]).
Proof.
  split; cbn; [constructor|]. constructor; [|constructor]. split.
  - cbn. split; [constructor; [reflexivity | constructor] | split; [constructor | exact I]].
  - constructor; [exists [97;61;49]; reflexivity | constructor; [exists [50]; reflexivity | constructor]].
Qed.

(* non-vacuity / the defects fixed in /repo:
   F14: a 16-bit parser in the stored-file path rejected values the command line accepts *)
Definition dec_digits (s : bytes) : option Z :=
  match s with [] => None | _ =>
  fold_left (fun acc c => match acc with
                          | Some n => if (48 <=? c) && (c <=? 57) then Some (n * 10 + (c - 48)) else None
                          | None => None end) s (Some 0) end.
Definition norm_uint (bits : Z) (s : bytes) : option bytes :=
  match dec_digits s with Some n => if n <? 2 ^ bits then Some s else None | None => None end.
Example F14_refuted : norm_uint 16 [49;48;48;48;48;48] = None /\ norm_uint 64 [49;48;48;48;48;48] = Some [49;48;48;48;48;48].
Proof. split; reflexivity. Qed.
(* F9: an entry printed without its condition reloads as a different entry *)
Example F9_refuted :
  let p := mkProfile [97] None [] [[127;0;0;1]] in       (* lo=a *)
  let reloaded := mkProfile [97] None [] [] in            (* "profile a" parsed back *)
  pget [p] (mkClient None (Some [10;0;0;1]) []) = [] /\ pget [reloaded] (mkClient None (Some [10;0;0;1]) []) = [97].
Proof. split; reflexivity. Qed.
