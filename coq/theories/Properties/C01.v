(* C01 -- every well-formed query gets exactly one faithful reply.
   Theorems only.  Sequential half here (all inputs, all outcomes); the
   concurrent half (buffer ownership, framing) is in the Handler LTS. *)
From NX Require Import Bytes Wire Reply Query WireFacts QueryFacts ReplyFacts.
Open Scope Z_scope.

(* exactly one reply for every query of more than 14 bytes, for every outcome *)
Theorem C01_one_reply : forall pr b o, okb b -> 14 < len b -> exists w, serve pr b o = Ok (Reply w).
Proof. intros pr b o Hb Hl. exact (proj1 (serve_total pr b o Hb) Hl). Qed.
Print Assumptions C01_one_reply.

(* the reply is determined by the parsed query and the outcome only:
   upstream message (cut to the UDP limit / framed for TCP) when one arrived,
   SERVFAIL for that query otherwise *)
Theorem C01_reply_shape : forall pr b o q okq, parse b = Ok (q, okq) ->
  handle pr b o = Ok (match pr with
                      | UDP => udp_reply (q_msgsize q) (resolved q o)
                      | TCP => tcp_frame (resolved q o) end).
Proof. intros pr b o q okq E. unfold handle. rewrite E. destruct pr; reflexivity. Qed.
Print Assumptions C01_reply_shape.

Theorem C01_failure_is_servfail : forall q, resolved q UpErr = servfail q /\ resolved q UpEmpty = servfail q.
Proof. intros q; split; reflexivity. Qed.
Print Assumptions C01_failure_is_servfail.

Theorem C01_upstream_relayed : forall q msg, 1 <= len msg <= 65535 -> resolved q (Up msg) = msg.
Proof.
  intros q msg H. unfold resolved, maxTCPSize.
  destruct (len msg <=? 0) eqn:E1; [apply Z.leb_le in E1; exfalso; apply (Z.lt_irrefl 0); eapply Z.lt_le_trans; [|exact E1]; apply Z.lt_le_trans with 1; [reflexivity | apply H]|].
  destruct (len msg >? 65535) eqn:E2; [apply Z.gtb_lt in E2; exfalso; apply (Z.lt_irrefl 65535); eapply Z.lt_le_trans; [exact E2 | apply H]|].
  reflexivity.
Qed.
Print Assumptions C01_upstream_relayed.

(* SERVFAIL carries the query's ID, QR=1 and RCODE=2 *)
Theorem C01_servfail_id : forall q, 0 <= q_id q < 65536 ->
  exists a b rest, servfail q = a :: b :: rest /\ u16 a b = q_id q.
Proof. exact servfail_id. Qed.
Print Assumptions C01_servfail_id.

Theorem C01_servfail_rcode : forall q, exists a b c d rest, servfail q = a :: b :: c :: d :: rest /\ c = 128 /\ d = 2.
Proof. exact servfail_rcode. Qed.
Print Assumptions C01_servfail_rcode.

(* on UDP the relayed message is the upstream's except for the cut and byte 2 (TC) *)
Theorem C01_udp_faithful : forall m msg i d, 0 <= m <= 65535 -> 1 <= len msg <= 65535 ->
  (i < Z.to_nat (len (udp_reply m msg)))%nat -> i <> 2%nat ->
  nth i (udp_reply m msg) d = nth i msg d.
Proof. exact udp_reply_prefix. Qed.
Print Assumptions C01_udp_faithful.

(* on TCP it is the whole message behind a correct prefix *)
Theorem C01_tcp_faithful : forall msg, 1 <= len msg <= 65535 ->
  tcp_frame msg = [len msg / 256; len msg mod 256] ++ msg.
Proof. intros msg H. exact (proj1 (tcp_frame_spec msg H)). Qed.
Print Assumptions C01_tcp_faithful.

(* non-vacuity: a concrete query, SERVFAIL echoes id 7 and the question a. A IN *)
Example servfail_example :
  exists q, parse [0;7;1;0;0;1;0;0;0;0;0;0; 1;97;0;0;1;0;1] = Ok (q, true) /\
            servfail q = [0;7;128;2;0;1;0;0;0;0;0;0; 1;97;0;0;1;0;1].
Proof. eexists. split; vm_compute; reflexivity. Qed.
