(* C19 -- system DNS activation is reversible and crash-safe.  Theorems only.
   The file system is the three paths resolv.conf / .nextdns-bak / .nextdns-tmp;
   one model operation per mutating system call. *)
From NX Require Import Bytes Discovery ResolvConf ResolvFacts.
Open Scope Z_scope.

(* for every sequence of activations (any address) and deactivations, each of them
   either completed or interrupted after any number k of its mutations -- including
   interrupted ones followed by further operations -- the original resolver node
   (file or symlink) is intact on disk: at resolv.conf with no backup, or as the backup *)
Theorem C19_crash : forall orig es f, safe orig f -> safe orig (fold_left do_event es f).
Proof. exact any_history_safe. Qed.
Print Assumptions C19_crash.

Theorem C19_crash_activate : forall orig f dns k, safe orig f -> safe orig (crash_activate f dns k).
Proof. exact activate_prefix_safe. Qed.
Print Assumptions C19_crash_activate.
Theorem C19_crash_deactivate : forall orig f k, safe orig f -> safe orig (crash_deactivate f k).
Proof. exact deactivate_prefix_safe. Qed.
Print Assumptions C19_crash_deactivate.

(* ... and a later deactivation puts it back at resolv.conf *)
Theorem C19_recover : forall orig f, safe orig f ->
  resolv (deactivate f) = Some orig /\ bak (deactivate f) = None.
Proof. exact deactivate_restores. Qed.
Print Assumptions C19_recover.

(* activation of an unactivated system: the managed file replaces resolv.conf and
   the original node becomes the backup *)
Theorem C19_activate : forall n dns t0,
  activate (mkFs (Some n) None t0) dns = mkFs (Some (File (managed (content n) dns))) (Some n) None.
Proof. exact activate_first. Qed.
Print Assumptions C19_activate.

(* the managed file: header comments, the non-comment non-nameserver lines of the
   current file in order, and exactly one nameserver line, naming the proxy *)
Theorem C19_managed : forall c dns,
  managed_lines c dns = header_lines ++ kept_lines c ++ [nameserver_line dns] /\
  Forall (fun l => is_nameserver l = false) (header_lines ++ kept_lines c).
Proof. exact managed_shape. Qed.
Print Assumptions C19_managed.

(* deactivation after n >= 1 activations restores the original byte for byte *)
Theorem C19_restore : forall n0 dnss dns,
  deactivate (fold_left activate dnss (activate (mkFs (Some n0) None None) dns)) = mkFs (Some n0) None None.
Proof. exact restore_after_activations. Qed.
Print Assumptions C19_restore.

(* non-vacuity: "search lan\nnameserver\t10.0.0.1\nnameserver 8.8.8.8" (no final newline), proxy 127.0.0.1,
   killed after 7 mutations (backup made, new file not yet in place), then deactivated *)
Definition c0 : bytes :=
  [115;101;97;114;99;104;32;108;97;110;10; 110;97;109;101;115;101;114;118;101;114;9;49;48;46;48;46;48;46;49;10;
   110;97;109;101;115;101;114;118;101;114;32;56;46;56;46;56;46;56].
Example crash_example :
  let f0 := mkFs (Some (File c0)) None None in
  let dns := [49;50;55;46;48;46;48;46;49] in
  nameservers (managed c0 dns) = [dns] /\
  length (activate_ops f0 dns) = 10%nat /\
  crash_activate f0 dns 9 = mkFs None (Some (File c0)) (Some (File (managed c0 dns))) /\
  deactivate (crash_activate f0 dns 9) = mkFs (Some (File c0)) None (Some (File (managed c0 dns))).
Proof. vm_compute. repeat split. Qed.
