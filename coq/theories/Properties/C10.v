(* C10 -- split-horizon: each query goes to exactly the matching forwarder.
   Theorems only. *)
From NX Require Import Bytes Forwarder ConfigFacts ForwarderLabels.
Open Scope Z_scope.

(* exactly one upstream receives every query *)
Theorem C10_exactly_one : forall fs q, exists u, fwd_resolve fs q = [u].
Proof. exact fwd_resolve_one. Qed.
Print Assumptions C10_exactly_one.

(* it is the first forwarder in configuration order that matches, else the default *)
Theorem C10_first_match : forall fs q,
  fwd_resolve fs q = match find (fun f => fwd_match f q) fs with
                     | Some f => [f_up f] | None => [default_up] end.
Proof. exact fwd_resolve_spec. Qed.
Print Assumptions C10_first_match.

Theorem C10_get_first : forall fs q u,
  fwd_get fs q = Some u <->
  exists pre f post, fs = pre ++ f :: post /\ f_up f = u /\ fwd_match f q = true /\
                     forallb (fun g => negb (fwd_match g q)) pre = true.
Proof. exact fwd_get_first. Qed.
Print Assumptions C10_get_first.

(* a conditioned forwarder matches exactly the names equal to its domain or
   below it on a label boundary (".domain" suffix), compared case-insensitively *)
Theorem C10_match_equal : forall d u q, d <> [] -> lower q = lower d -> fwd_match (mkFwd d u) q = true.
Proof. exact fwd_match_equal. Qed.
Print Assumptions C10_match_equal.
Theorem C10_match_child : forall d u pre q, d <> [] -> lower q = pre ++ 46 :: lower d -> fwd_match (mkFwd d u) q = true.
Proof. exact fwd_match_child. Qed.
Print Assumptions C10_match_child.
Theorem C10_match_only : forall d u q, d <> [] -> fwd_match (mkFwd d u) q = true ->
  lower q = lower d \/ exists pre, lower q = pre ++ 46 :: lower d.
Proof. exact fwd_match_only. Qed.
Print Assumptions C10_match_only.

(* in the words of the property: a forwarder for a domain takes the query iff the domain's labels are a
   suffix of the query's labels (compared case-insensitively) - never a name that only shares a string suffix *)
Theorem C10_match_is_label_suffix : forall dl ql u,
  dl <> [] -> Forall wf_label dl -> Forall wf_label ql ->
  fwd_match (mkFwd (name_string dl) u) (name_string ql) = label_suffix dl ql.
Proof. exact fwd_match_labels. Qed.
Print Assumptions C10_match_is_label_suffix.

(* letter case of the query name never changes the decision *)
Theorem C10_case_insensitive : forall f q q', lower q = lower q' -> fwd_match f q = fwd_match f q'.
Proof. exact fwd_match_case. Qed.
Print Assumptions C10_case_insensitive.

(* non-vacuity: nested domains in both orders, a name sharing only a string suffix *)
Example split_horizon :
  let fs := [mkFwd (fqdn [99;111;114;112]) 1;                      (* corp. -> 1 *)
             mkFwd (fqdn [108;97;110;46]) 2] in                     (* lan.  -> 2 *)
  fwd_resolve fs [72;111;115;116;46;67;111;114;112;46] = [1]        (* Host.Corp. *)
  /\ fwd_resolve fs [110;111;116;99;111;114;112;46] = [0]            (* notcorp.   *)
  /\ fwd_resolve fs [99;111;114;112;46] = [1]                        (* corp.      *)
  /\ fwd_resolve fs [120;46;76;65;78;46] = [2].                      (* x.LAN.     *)
Proof. repeat split. Qed.
