(* Properties/C15_instance.v -- C15 for the access table that `nxh locks-extract`
   regenerates from /repo's current source on every run (Gen/AccessTable.v).
   Compiled by bin/check C15, not part of the static project. *)
From NX Require Import Bytes Locks LockFacts AccessTable.

Theorem C15_table_ok : table_ok table = true.
Proof. vm_compute. reflexivity. Qed.
Print Assumptions C15_table_ok.

Theorem C15_no_race : forall ps sched ts,
  (forall p, In p ps -> In p table) -> trun (start ps) sched = Some ts -> ~ race ts.
Proof. exact (table_ok_sound table C15_table_ok). Qed.
Print Assumptions C15_no_race.
