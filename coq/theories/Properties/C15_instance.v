(* Properties/C15_instance.v -- C15 for the access table that `nxh locks-extract`
   regenerates from /repo's current source on every run (Gen/AccessTable.v).
   Compiled by bin/check C15, not part of the static project. *)
From NX Require Import Bytes Locks LockFacts Rmw RmwFacts AccessTable.

Theorem C15_table_ok : table_ok table = true.
Proof. vm_compute. reflexivity. Qed.
Print Assumptions C15_table_ok.

Theorem C15_no_race : forall ps sched ts,
  (forall p, In p ps -> In p table) -> trun (start ps) sched = Some ts -> ~ race ts.
Proof. exact (table_ok_sound table C15_table_ok). Qed.
Print Assumptions C15_no_race.

(* check-then-act: every method body of the shared types, taken on its own (helpers run under the caller's
   lock and one-section accessors expanded), writes a location it has read before only while a read of it is
   still in force -- under locks none of which has been released since (Model/Rmw.v) *)
Theorem C15_frames_ok : frames_ok frames = true.
Proof. vm_compute. reflexivity. Qed.
Print Assumptions C15_frames_ok.

(* and while such a read is in force no other thread can be about to write the location: no lost update,
   for any number of threads running paths of the table, under every schedule *)
Theorem C15_no_lost_update : forall ps sched ts i ti x hr,
  (forall p, In p ps -> In p table) -> trun (start ps) sched = Some ts ->
  nth_error ts i = Some ti -> In (x, hr) (cur_reads (rev (done_rev ti))) ->
  forall j tj, j <> i -> nth_error ts j = Some tj -> next_access tj <> Some (x, KWrite).
Proof. exact (rmw_exclusive_ok table C15_table_ok). Qed.
Print Assumptions C15_no_lost_update.
