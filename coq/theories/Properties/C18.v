(* C18 -- discovery tables hold exactly what the sources say, and stay
   consistent.  Theorems only. *)
From NX Require Import Bytes Discovery Mdns DiscoveryFacts LeaseFacts SortedFacts MdnsFacts Refresh RefreshFacts RefreshHosts RefreshAway.
Open Scope Z_scope.

Section C18_hosts.
  Variable canon : bytes -> option bytes.   (* parseLiteralIP, environment *)

  (* address -> names: exactly the names written next to that address (any line,
     file order, repeats kept), made absolute; nothing lost, nothing invented *)
  Theorem C18_hosts_addr : forall file a,
    aget (ht_addrs (read_hosts canon file)) a =
      map (fun p => abs_name (snd p)) (filter (fun p => beq_bytes a (fst p)) (file_assoc canon file)).
  Proof. exact (hosts_addr_exact canon). Qed.

  (* name -> addresses: exactly the addresses written next to any spelling of that
     name (compared lower-cased and absolute) *)
  Theorem C18_hosts_name : forall file key,
    beq_bytes key localhost_s = false -> beq_bytes key localdomain_s = false ->
    aget (ht_names (read_hosts canon file)) key =
      map fst (filter (fun p => beq_bytes key (abs_name (lower_ascii (snd p)))) (file_assoc canon file)).
  Proof. exact (hosts_name_exact canon). Qed.

  (* documented built-in: localhost.localdomain. answers 127.0.0.1/::1 only when
     the file defines nothing for it *)
  Theorem C18_hosts_default : forall file,
    (forall p, In p (file_assoc canon file) -> beq_bytes localdomain_s (abs_name (lower_ascii (snd p))) = false) ->
    aget (ht_names (read_hosts canon file)) localdomain_s = [lo4; lo6].
  Proof. exact (hosts_localdomain_default canon). Qed.
End C18_hosts.
Print Assumptions C18_hosts_addr.
Print Assumptions C18_hosts_name.
Print Assumptions C18_hosts_default.

(* generic: a table built by appending under keys returns, for a key, exactly
   the values filed under it, in order *)
Theorem C18_table : forall ps m k,
  aget (fold_left add_pair ps m) k = aget m k ++ map snd (filter (fun p => beq_bytes k (fst p)) ps).
Proof. exact aget_fold_pairs. Qed.
Print Assumptions C18_table.

(* mDNS: for every cap and every sequence of announcements the name table never
   exceeds the cap ... *)
Theorem C18_mdns_cap : forall cap ops s,
  (length (md_names s) <= cap)%nat ->
  (length (md_names (fold_left (fun s p => announce cap s (fst p) (snd p)) ops s)) <= cap)%nat.
Proof. exact announces_bound. Qed.
Print Assumptions C18_mdns_cap.

(* ... and what eviction removes is a least recently updated name *)
Theorem C18_mdns_evicts_oldest : forall s k t,
  oldest (md_names s) None = Some (k, t) -> forall k' e, In (k', e) (md_names s) -> t <= me_stamp e.
Proof. exact evicted_is_oldest. Qed.
Print Assumptions C18_mdns_evicts_oldest.

(* non-vacuity: cap 2, three names, a re-announcement keeps "a" alive; the two
   views agree afterwards.  Names: "A.local", "b.local", "c.local" *)
Example mdns_example :
  let a := [65;46;108;111;99;97;108] in let b := [98;46;108;111;99;97;108] in let c := [99;46;108;111;99;97;108] in
  let ip1 := [49;48;46;48;46;48;46;49] in let ip2 := [49;48;46;48;46;48;46;50] in
  let s := fold_left (fun s p => announce 2 s (fst p) (snd p)) [(ip1, a); (ip2, b); (ip1, a); (ip2, c)] mdns0 in
  length (md_names s) = 2%nat /\ views_agree s = true /\
  mdns_lookup_host s [97;46;108;111;99;97;108;46] = [ip1] /\ mdns_lookup_host s [98;46;108;111;99;97;108;46] = [] /\
  mdns_lookup_addr s ip2 = [[99;46;108;111;99;97;108;46]].
Proof. vm_compute. repeat split. Qed.

(* appendUniq on a strictly sorted set is sorted insertion (examples; the general
   statement is evaluated per case by the correspondence check against insert_sorted) *)
Example append_uniq_example :
  fold_left append_uniq [[98];[97];[100];[99];[97]] [] = [[97];[98];[99];[100]]
  /\ fold_left (fun acc x => insert_sorted x acc) [[98];[97];[100];[99];[97]] [] = [[97];[98];[99];[100]].
Proof. split; reflexivity. Qed.

(* ---- DHCP lease files: none lost, none invented ---- *)
(* dnsmasq.leases: the table is built from one entry per line (dm_entries); dhcpd.leases: from one
   entry per lease block (dh_entries) *)
Theorem C18_dnsmasq_entries : forall file,
  read_dnsmasq file = fold_left lease_add_e (dm_entries file) (mkLease [] [] []).
Proof. exact read_dnsmasq_entries. Qed.
Print Assumptions C18_dnsmasq_entries.

Theorem C18_dhcpd_entries : forall file,
  read_dhcpd file =
  fold_left lease_add_e (dh_entries (split_lines file) (mkDst (mkLease [] [] []) [] [] [])) (mkLease [] [] []).
Proof. exact read_dhcpd_entries. Qed.
Print Assumptions C18_dhcpd_entries.

(* whatever the entries: a lookup by address / MAC / name (case-insensitive, with the .local alias)
   returns a value iff some entry associates it with the key *)
Theorem C18_lease_addr : forall es a n,
  In n (lease_lookup_addr (fold_left lease_add_e es (mkLease [] [] [])) a) <->
  exists e, In e es /\ le_wip e = true /\ beq_bytes (lower a) (le_ip e) = true /\ n = le_name e.
Proof. exact lookup_addr_exact. Qed.
Print Assumptions C18_lease_addr.

Theorem C18_lease_mac : forall es m n,
  In n (lease_lookup_mac (fold_left lease_add_e es (mkLease [] [] [])) m) <->
  exists e, In e es /\ le_wmac e = true /\ beq_bytes (lower m) (le_mac e) = true /\ n = le_name e.
Proof. exact lookup_mac_exact. Qed.
Print Assumptions C18_lease_mac.

Theorem C18_lease_host : forall es name ip,
  In ip (lease_lookup_host (fold_left lease_add_e es (mkLease [] [] [])) name) <->
  exists e, In e es /\ le_wip e = true /\
    (beq_bytes (abs_name (lower_ascii (lower name))) (le_key e) = true \/
     beq_bytes (abs_name (lower_ascii (lower name))) (le_key e ++ local_s) = true) /\ ip = le_ip e.
Proof. exact lookup_host_exact. Qed.
Print Assumptions C18_lease_host.

(* ---- each association is listed once ---- *)
(* appendUniq (binary search + insert) is sorted insertion without duplicates on a sorted set *)
Theorem C18_append_uniq : forall s x, ssorted s = true -> append_uniq s x = insert_sorted x s.
Proof. exact append_uniq_is_insert_sorted. Qed.
Print Assumptions C18_append_uniq.

Theorem C18_lease_once : forall es a,
  let t := fold_left lease_add_e es (mkLease [] [] []) in
  NoDup (lease_lookup_addr t a) /\ NoDup (lease_lookup_mac t a) /\ NoDup (lease_lookup_host t a).
Proof. exact lease_lookups_nodup. Qed.
Print Assumptions C18_lease_once.

(* ---- the two mDNS views always agree ---- *)
(* after any sequence of announcements (repeated, conflicting, beyond the cap: evictions included) an address is
   listed under a name key iff a spelling of that name is listed under the address *)
Theorem C18_mdns_views : forall cap ops s,
  Agree s -> Agree (fold_left (fun s p => announce cap s (fst p) (snd p)) ops s).
Proof. exact agree_announces. Qed.
Print Assumptions C18_mdns_views.

(* ... in the boolean form that is also evaluated on the implementation's own tables *)
Theorem C18_mdns_views_bool : forall cap ops,
  views_agree (fold_left (fun s p => announce cap s (fst p) (snd p)) ops mdns0) = true.
Proof. exact views_agree_always. Qed.
Print Assumptions C18_mdns_views_bool.

(* ---- over time: the lazily refreshed file tables (hosts, leases) catch up with the file ---- *)
(* For any table type and parser.  s: any state of the table object; evs1: the lookups made up to time tc,
   whatever was on disk then; from then on the file on disk is f (pre, e, post see f); e is a lookup made at
   least one refresh interval (5 s) after tc.  Then after e, and after every later lookup, the table is the one
   parsed from f and f's stamp is the remembered one.  `honest`: should f carry exactly the modification time
   and size the object remembers, the table already is f's (the code compares nothing else). *)
Theorem C18_table_catches_up : forall (T : Type) (parse : bytes -> T) s evs1 tc f pre e post,
  r_expires s <= tc + refresh_interval -> (forall e1, In e1 evs1 -> fst e1 <= tc) ->
  honest T parse (run T parse s evs1) f ->
  (forall e2, In e2 (pre ++ e :: post) -> snd e2 = Some f) ->
  tc + refresh_interval <= fst e ->
  in_sync T parse (run T parse s (evs1 ++ pre ++ [e])) f /\ in_sync T parse (run T parse s (evs1 ++ pre ++ e :: post)) f.
Proof. exact table_catches_up. Qed.
Print Assumptions C18_table_catches_up.

(* the limit of that mechanism, stated rather than hidden: a change that keeps modification time and size
   is never picked up *)
Theorem C18_same_stamp_never_reloaded : forall (T : Type) (parse : bytes -> T) s f g evs,
  in_sync T parse s f -> s_stat g = s_stat f -> (forall e, In e evs -> snd e = Some g) ->
  r_tbl (run T parse s evs) = parse (s_content f).
Proof. exact same_stat_never_reloaded. Qed.
Print Assumptions C18_same_stamp_never_reloaded.

(* ... instantiated with the hosts-file parser: a lookup made one refresh interval after the last lookup that
   preceded the change of the file (and every later one) answers from exactly the table of the file on disk,
   which C18_hosts_addr / C18_hosts_name characterise *)
Theorem C18_hosts_lookup_after_change : forall canon s evs1 tc f pre e post name addr,
  r_expires s <= tc + refresh_interval -> (forall e1, In e1 evs1 -> fst e1 <= tc) ->
  honest hosts_tbl (read_hosts canon) (run hosts_tbl (read_hosts canon) s evs1) f ->
  (forall e2, In e2 (pre ++ e :: post) -> snd e2 = Some f) ->
  tc + refresh_interval <= fst e ->
  let s' := run hosts_tbl (read_hosts canon) s (evs1 ++ pre ++ e :: post) in
  hosts_lookup_host (r_tbl s') name = hosts_lookup_host (read_hosts canon (s_content f)) name /\
  hosts_lookup_addr (r_tbl s') addr = hosts_lookup_addr (read_hosts canon (s_content f)) addr.
Proof. exact hosts_lookup_after_change. Qed.
Print Assumptions C18_hosts_lookup_after_change.

(* the file the table was read from disappears for a while (moved aside) and comes back as it was: through every
   lookup made meanwhile and afterwards -- whenever, however many -- the table stays the one parsed from that file *)
Theorem C18_away_and_back : forall (T : Type) (parse : bytes -> T) evs f s,
  (forall e, In e evs -> snd e = None \/ snd e = Some f) -> in_sync T parse s f -> in_sync T parse (run T parse s evs) f.
Proof. exact away_and_back. Qed.
Print Assumptions C18_away_and_back.
