(* C18 -- discovery tables hold exactly what the sources say, and stay
   consistent.  Theorems only. *)
From NX Require Import Bytes Discovery Mdns DiscoveryFacts.
Open Scope Z_scope.

Section C18_hosts.
  Variable canon : bytes -> option bytes.   (* parseLiteralIP, environment *)

  (* address -> names: exactly the names written next to that address (any line,
     file order, repeats kept), made absolute; nothing lost, nothing invented *)
  Theorem C18_hosts_addr : forall file a,
    aget (ht_addrs (read_hosts canon file)) a =
      map (fun p => abs_name (snd p)) (filter (fun p => beq_bytes a (fst p)) (file_assoc canon file)).
  Proof. exact (hosts_addr_exact canon). Qed.

  (* name -> addresses: exactly the addresses written next to any spelling of that
     name (compared lower-cased and absolute) *)
  Theorem C18_hosts_name : forall file key,
    beq_bytes key localhost_s = false -> beq_bytes key localdomain_s = false ->
    aget (ht_names (read_hosts canon file)) key =
      map fst (filter (fun p => beq_bytes key (abs_name (lower_ascii (snd p)))) (file_assoc canon file)).
  Proof. exact (hosts_name_exact canon). Qed.

  (* documented built-in: localhost.localdomain. answers 127.0.0.1/::1 only when
     the file defines nothing for it *)
  Theorem C18_hosts_default : forall file,
    (forall p, In p (file_assoc canon file) -> beq_bytes localdomain_s (abs_name (lower_ascii (snd p))) = false) ->
    aget (ht_names (read_hosts canon file)) localdomain_s = [lo4; lo6].
  Proof. exact (hosts_localdomain_default canon). Qed.
End C18_hosts.
Print Assumptions C18_hosts_addr.
Print Assumptions C18_hosts_name.
Print Assumptions C18_hosts_default.

(* generic: a table built by appending under keys returns, for a key, exactly
   the values filed under it, in order *)
Theorem C18_table : forall ps m k,
  aget (fold_left add_pair ps m) k = aget m k ++ map snd (filter (fun p => beq_bytes k (fst p)) ps).
Proof. exact aget_fold_pairs. Qed.
Print Assumptions C18_table.

(* mDNS: for every cap and every sequence of announcements the name table never
   exceeds the cap ... *)
Theorem C18_mdns_cap : forall cap ops s,
  (length (md_names s) <= cap)%nat ->
  (length (md_names (fold_left (fun s p => announce cap s (fst p) (snd p)) ops s)) <= cap)%nat.
Proof. exact announces_bound. Qed.
Print Assumptions C18_mdns_cap.

(* ... and what eviction removes is a least recently updated name *)
Theorem C18_mdns_evicts_oldest : forall s k t,
  oldest (md_names s) None = Some (k, t) -> forall k' e, In (k', e) (md_names s) -> t <= me_stamp e.
Proof. exact evicted_is_oldest. Qed.
Print Assumptions C18_mdns_evicts_oldest.

(* non-vacuity: cap 2, three names, a re-announcement keeps "a" alive; the two
   views agree afterwards.  Names: "A.local", "b.local", "c.local" *)
Example mdns_example :
  let a := [65;46;108;111;99;97;108] in let b := [98;46;108;111;99;97;108] in let c := [99;46;108;111;99;97;108] in
  let ip1 := [49;48;46;48;46;48;46;49] in let ip2 := [49;48;46;48;46;48;46;50] in
  let s := fold_left (fun s p => announce 2 s (fst p) (snd p)) [(ip1, a); (ip2, b); (ip1, a); (ip2, c)] mdns0 in
  length (md_names s) = 2%nat /\ views_agree s = true /\
  mdns_lookup_host s [97;46;108;111;99;97;108;46] = [ip1] /\ mdns_lookup_host s [98;46;108;111;99;97;108;46] = [] /\
  mdns_lookup_addr s ip2 = [[99;46;108;111;99;97;108;46]].
Proof. vm_compute. repeat split. Qed.

(* appendUniq on a strictly sorted set is sorted insertion (examples; the general
   statement is evaluated per case by the correspondence check against insert_sorted) *)
Example append_uniq_example :
  fold_left append_uniq [[98];[97];[100];[99];[97]] [] = [[97];[98];[99];[100]]
  /\ fold_left (fun acc x => insert_sorted x acc) [[98];[97];[100];[99];[97]] [] = [[97];[98];[99];[100]].
Proof. split; reflexivity. Qed.
