(* C02 -- no byte sequence can crash or wedge the daemon (the logic that runs on
   client bytes: query.New's parser, the ECS rewriting, the reply path).
   Theorems only. [okb b] = every element of b is a byte (0..255): holds for
   anything that can arrive on a socket. *)
From NX Require Import Bytes Wire Reply Query WireFacts QueryFacts QuerySpin.
Open Scope Z_scope.

(* query.New terminates on every byte string, never panics, and always
   hands the handler a (possibly partially filled) query: no bound on length *)
Theorem C02_parse_total : forall b, okb b -> exists q okq, parse b = Ok (q, okq).
Proof. exact parse_total. Qed.
Print Assumptions C02_parse_total.

(* neither the loop bounds (OutOfFuel) nor a slice index (Panic) can be hit *)
Theorem C02_parse_normal : forall b, okb b -> normal (parse b).
Proof. exact parse_normal. Qed.
Print Assumptions C02_parse_normal.

(* every datagram longer than 14 bytes and every framed TCP message of more than
   14 bytes gets exactly one reply, whatever the resolver layer returned;
   shorter ones are dropped (UDP) or end the connection (TCP) *)
Theorem C02_serve : forall pr b o, okb b ->
  (14 < len b -> exists w, serve pr b o = Ok (Reply w)) /\
  (len b <= 14 -> serve pr b o = Ok (match pr with UDP => Silence | TCP => CloseConn end)).
Proof. exact serve_total. Qed.
Print Assumptions C02_serve.

(* the in-place ECS rewriting is memory safe for any option offset *)
Theorem C02_nutter_safe : forall payload dataoff, normal (nutter payload dataoff).
Proof. exact nutter_normal. Qed.
Print Assumptions C02_nutter_safe.

(* the option walk is bounded by the record length *)
Theorem C02_opts_bounded : forall fuel c left acc,
  okc c -> Z.max left 0 < Z.of_nat fuel -> normal (unpack_opts fuel c left acc).
Proof. exact unpack_opts_normal. Qed.
Print Assumptions C02_opts_bounded.

(* name decompression is bounded by Go's own pointer budget: structural *)
Theorem C02_name_bounded : forall msg c, normal (unpack_name msg c).
Proof. exact unpack_name_normal. Qed.
Print Assumptions C02_name_bounded.

(* non-vacuity / the defect this theorem excludes: before the F1 repair the
   additional-section loop had no bound *)
Theorem C02_spin_refuted :
  exists payload, bytes_ok payload = true /\ 14 < len payload /\
    forall fuel q, additional_loop_old (S fuel) payload p_at_additionals q = OutOfFuel.
Proof. exact spin_refuted. Qed.
Print Assumptions C02_spin_refuted.
