(* C14 -- client metadata is minimal and can never break resolution (PARTIAL: the
   header validation itself lives in net/http; valid_header_value is a transcription
   of its rule, tied by the engine that sends real HTTP/2 requests).  Theorems only. *)
From NX Require Import Bytes ClientInfo ClientFacts ClientMore.
Open Scope Z_scope.

(* reporting off: no device header at all *)
Theorem C14_off : device_headers None = [].
Proof. exact reporting_off_no_headers. Qed.
Print Assumptions C14_off.

(* the device id always has exactly five characters; it is computed from the
   profile id and the device bytes (MAC or IP) only *)
Theorem C14_id : forall conf dev, length (short_id conf dev) = 5%nat.
Proof. exact short_id_length. Qed.
Print Assumptions C14_id.

(* the model depends on the first three MAC bytes only and is at most "mac:"+8 characters *)
Theorem C14_model_vendor : forall mac mac', firstn 3 mac = firstn 3 mac' ->
  (3 <= length mac)%nat -> (3 <= length mac')%nat -> firstn 8 (mac_string mac) = firstn 8 (mac_string mac').
Proof. exact model_vendor_only. Qed.
Print Assumptions C14_model_vendor.
Theorem C14_model_short : forall profile ipt ipr m na nm,
  len (ci_model (lan_client_info profile ipt ipr (Some m) na nm)) <= 12.
Proof. exact model_is_short. Qed.
Print Assumptions C14_model_short.

(* beyond the id, nothing of the last MAC bytes reaches the upstream: two MACs with the same vendor
   prefix and the same id give the very same client info (hence the same headers) *)
Theorem C14_mac_dependence : forall profile ipt ipr m m' na nm,
  firstn 3 m = firstn 3 m' -> (3 <= length m)%nat -> (3 <= length m')%nat ->
  short_id profile m = short_id profile m' ->
  lan_client_info profile ipt ipr (Some m) na nm = lan_client_info profile ipt ipr (Some m') na nm.
Proof. exact client_info_mac_dependence. Qed.
Print Assumptions C14_mac_dependence.

(* the full MAC is never sent: its text has at least 17 characters, the two MAC-derived header
   values (id, model) are shorter *)
Theorem C14_no_full_mac : forall profile ipt ipr m na nm k v,
  (6 <= length m)%nat ->
  In (k, v) (device_headers (Some (lan_client_info profile ipt ipr (Some m) na nm))) ->
  k = 0 \/ k = 2 -> len v < len (mac_string m).
Proof. exact mac_headers_too_short. Qed.
Print Assumptions C14_no_full_mac.

(* the id depends on the profile and the device bytes only *)
Theorem C14_id_inputs : forall profile ipt ipt' ipr ipr' m na na' nm nm',
  ci_id (lan_client_info profile ipt ipr (Some m) na nm) = ci_id (lan_client_info profile ipt' ipr' (Some m) na' nm').
Proof. exact id_depends_on_profile_and_device. Qed.
Print Assumptions C14_id_inputs.

(* whatever name was discovered (any bytes), the X-Device-Name header that is sent
   is a valid header value: a name can never make the request be rejected *)
Theorem C14_valid : forall ci v, In (3, v) (device_headers (Some ci)) -> valid_header_value v = true.
Proof. exact name_header_valid. Qed.
Print Assumptions C14_valid.

(* non-vacuity: a name with a control byte is dropped, the rest is still sent;
   the id of profile "abc123" and MAC 00:11:22:33:44:55 is "58TCK" *)
Example control_name_dropped :
  device_headers (Some (mkCI [65] [49] [109] [100;1;118])) = [(0, [65]); (1, [49]); (2, [109])]
  /\ device_headers (Some (mkCI [65] [49] [109] [100;101;118])) = [(0, [65]); (1, [49]); (2, [109]); (3, [100;101;118])]
  /\ short_id [97;98;99;49;50;51] [0;17;34;51;68;85] = [53;56;84;67;75]
  /\ ci_model (lan_client_info [97] [49] [10;1;2;3] (Some [0;17;34;51;68;85]) [] []) = [109;97;99;58;48;48;58;49;49;58;50;50].
Proof. vm_compute. repeat split. Qed.
