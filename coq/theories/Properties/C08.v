(* C08 -- endpoint election picks the first healthy candidate in preference order.
   Theorems only. *)
From NX Require Import Bytes Manager ManagerFacts.
Open Scope Z_scope.

(* an election elects the first endpoint, in provider then endpoint order, whose
   probe succeeds; if none does, the first listed one (BFallback, with the short
   retry interval); with nothing offered it reports an error (BNone) *)
Theorem C08_elect : forall en,
  forallb (prov_ok (health en)) (provs en) = true -> fst (fst (find_best en)) = spec_best en.
Proof. exact find_best_correct. Qed.
Print Assumptions C08_elect.

(* probes are made strictly in that order and stop at the first success *)
Theorem C08_probe_order : forall en,
  forallb (prov_ok (health en)) (provs en) = true ->
  probes (snd (find_best en)) = until_ok (health en) (all_eps (provs en)).
Proof. exact election_probe_order. Qed.
Print Assumptions C08_probe_order.

(* the change callback fires exactly when the elected endpoint differs from the
   previously active one *)
Theorem C08_change : forall c en s e, member_ok c s ->
  (fst (fst (find_best en)) = BOk e \/ fst (fst (find_best en)) = BFallback e) ->
  changes (evlog (fst (test_locked c en s))) =
    changes (evlog s) ++ (if match active_ep s with Some a => negb (a =? e) | None => true end then [e] else []).
Proof. exact test_locked_change. Qed.
Print Assumptions C08_change.

(* after a successful election the elected endpoint is the active one *)
Theorem C08_elected_active : forall c en s e, member_ok c s ->
  (fst (fst (find_best en)) = BOk e \/ fst (fst (find_best en)) = BFallback e) ->
  active_ep (fst (test_locked c en s)) = Some e /\ snd (test_locked c en s) = true.
Proof. exact test_locked_elects. Qed.
Print Assumptions C08_elected_active.

(* every query is executed exactly once, on the endpoint active when it started
   (or reports an error when the bootstrap election failed) *)
Theorem C08_once : forall c en s q,
  exists ev, used_events (evlog (snd (fst (mstep c en s (QStart q))))) = used_events (evlog s) ++ [ev] /\
    match snd (mstep c en s (QStart q)) with
    | Some i => ev = EvUsed q (a_ep (get_obj (snd (fst (mstep c en s (QStart q)))) i))
    | None => ev = EvQErr q
    end.
Proof. exact qstart_once. Qed.
Print Assumptions C08_once.

(* in every reachable state (any script of queries, clock advances, health flips,
   provider changes, elections) the active endpoint is the init endpoint or one
   offered during the most recent successful election: an endpoint no provider
   offers any more is gone after the next election *)
Theorem C08_member : forall c en s i, mreach c en s -> active s = Some i ->
  Some (a_ep (get_obj s i)) = init_ep c \/ In (a_ep (get_obj s i)) (offered s).
Proof. exact active_is_offered. Qed.
Print Assumptions C08_member.

(* non-vacuity: two providers, first endpoint down: the second is elected, then the
   first again once it is healthy and the interval has elapsed *)
Example failover_and_back :
  let c := mkMcfg 2 100 (fun _ => 0) None in
  let en := mkEnv [PEps [1; 2]; PEps [3]] [(1, ProbeFail); (2, ProbeOk); (3, ProbeOk)] 1000000 in
  let '(en1, s1) := mrun c en m0 [QStart 1] in
  let '(en2, s2) := mrun c en1 s1 [SetHealth 1 ProbeOk; Advance 101; QStart 2; Elect] in
  active_ep s1 = Some 2 /\ active_ep s2 = Some 1 /\ changes (evlog s2) = [2; 1].
Proof. vm_compute. repeat split. Qed.
