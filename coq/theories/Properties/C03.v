(* C03 -- upstream faults cost at most the request timeout (PARTIAL: the logic of
   one exchange under a deadline is proved; that a blocked Read / RoundTrip of the
   Go runtime really returns at the deadline is assumed by the model and measured
   by the correspondence engine).  Theorems only. *)
From NX Require Import Bytes Timed TimedFacts Resolver ResolverFacts Query.
Open Scope Z_scope.

(* DNS53: whatever datagrams arrive (none, short, mismatched IDs, late), the
   exchange completes no later than the deadline ... *)
Theorem C03_dns_bound : forall id events deadline now,
  now <= deadline -> now <= fst (dns_wait id events deadline now) <= deadline.
Proof. exact dns_wait_bound. Qed.
Print Assumptions C03_dns_bound.
(* ... with the first datagram of >= 2 bytes carrying the query's ID among those
   that arrived in time, and an error when there is none *)
Theorem C03_dns_result : forall id events deadline now,
  snd (dns_wait id events deadline now) = first_in_time id events deadline.
Proof. exact dns_wait_result. Qed.
Print Assumptions C03_dns_result.

(* DoH: refuse, reset, hang before or in the middle, trickle, HTTP errors: always
   within the deadline ... *)
Theorem C03_doh_bound : forall s start deadline,
  start <= deadline -> start <= fst (doh_exchange s start deadline) <= deadline.
Proof. exact doh_exchange_bound. Qed.
Print Assumptions C03_doh_bound.
(* ... and a message is relayed exactly when a complete status-200 body arrived in time *)
Theorem C03_doh_complete : forall s start deadline b,
  snd (doh_exchange s start deadline) = Complete b <->
  exists th chunks t, s = Response th 200 chunks (EOF_at t) /\ th <= deadline /\ t <= deadline /\ b = body_until chunks t.
Proof. exact doh_exchange_complete. Qed.
Print Assumptions C03_doh_complete.

(* a failed exchange leaves no trace: nothing is cached, so later queries behave
   as if it had not happened *)
Theorem C03_fault_leaves_state : forall cfg st now q url up st' r,
  doh_resolve cfg st now q url up = (st', r) -> rs_err r = true -> st' = st.
Proof.
  intros cfg st now q url up st' r E He.
  destruct (doh_state _ _ _ _ _ _ _ _ E) as [H|(b & lm & stamp & Hup & H)].
  - revert E. unfold doh_resolve.
    destruct (if negb (rq_type q =? tPTRq) && cache_on cfg then _ else None) as [[[buf m] v]|];
      [destruct ((m >? 0) && _); [intros E; inversion E; reflexivity|]|];
      (destruct up as [| s | | b lm]; try (intros E; inversion E; reflexivity);
       destruct (len b >=? 65535); [intros E; inversion E; reflexivity|];
       destruct ((len b >? 0) && cache_on cfg); intros E; inversion E; subst; cbn in He; discriminate).
  - subst up. revert E. unfold doh_resolve.
    destruct (if negb (rq_type q =? tPTRq) && cache_on cfg then _ else None) as [[[buf m] v]|];
      [destruct ((m >? 0) && _); [intros E; inversion E; reflexivity|]|];
      (destruct (len b >=? 65535); [intros E; inversion E; reflexivity|];
       destruct ((len b >? 0) && cache_on cfg); intros E; inversion E; subst; cbn in He; discriminate).
Qed.
Print Assumptions C03_fault_leaves_state.

(* the client then gets SERVFAIL for its own query (C01_failure_is_servfail) *)
Theorem C03_servfail : forall q, resolved q UpErr = servfail q.
Proof. reflexivity. Qed.

(* documented deviation (F18): a body of 65535 bytes or more is not refused but
   relayed cut to the buffer with TC set *)
Example C03_oversize_refuted :
  let body := repeat 7 (Z.to_nat 65535) in
  rs_err (snd (doh_resolve (mkRcfg false 0 0) rstate0 0 (mkRq 1 1 1 []) [] (DBody body None))) = false.
Proof. vm_compute. reflexivity. Qed.
