(* C06 -- cached answers never cross profiles, transports or question tuples.
   Theorems only. *)
From NX Require Import Bytes CacheTTL Resolver ResolverFacts.
Open Scope Z_scope.

(* over every history of DoH queries (any profile URL), DNS53 queries, clock
   advances and cache evictions: every entry of the shared cache was stored by an
   operation of that history, from the upstream's answer to a query with exactly
   the entry's key (context = profile URL for DoH, "" for DNS53; class; type; name) *)
Theorem C06_inv : forall cfg ops h h' outs,
  rrun cfg h ops = (h', outs) ->
  forall p, In p (entries (st_cache (h_st h'))) ->
    In p (entries (st_cache (h_st h))) \/ In p (stored_log cfg ops).
Proof. exact cache_origin. Qed.
Print Assumptions C06_inv.

(* a reply served from the cache is the aged copy of an entry filed under the
   query's own key -- same name bytes, type, class, and same profile URL ... *)
Theorem C06_nocross_doh : forall cfg st now q url up st' r,
  doh_resolve cfg st now q url up = (st', r) -> rs_from_cache r = true -> rs_err r = false ->
  exists v, cget (st_cache st) (key_of_doh q url) = Some v /\
            rs_buf r = fst (adjusted_response (v_msg v) (rq_id q) ((now - v_time v) / second) (max_age cfg) (max_ttl cfg)) /\
            st' = st.
Proof. exact doh_from_cache. Qed.
Print Assumptions C06_nocross_doh.

(* ... or, over plain DNS, the "" context *)
Theorem C06_nocross_dns : forall cfg st now q d ds st' r,
  dns_resolve cfg st now q d ds = (st', r) -> rs_from_cache r = true -> rs_err r = false ->
  exists v, cget (st_cache st) (key_of_dns q) = Some v /\
            rs_buf r = fst (adjusted_response (v_msg v) (rq_id q) ((now - v_time v) / second) (max_age cfg) (max_ttl cfg)) /\
            st' = st.
Proof. exact dns_from_cache. Qed.
Print Assumptions C06_nocross_dns.

(* a lookup only ever returns the entry of exactly the asked key *)
Theorem C06_lookup_exact : forall c k v, cget c k = Some v -> In (k, v_msg v) (entries c).
Proof. exact cget_in. Qed.
Print Assumptions C06_lookup_exact.

(* keys are equal only when all four components are *)
Theorem C06_key : forall a b, key_eqb a b = true <-> a = b.
Proof. exact key_eqb_eq. Qed.
Print Assumptions C06_key.

(* DoH and DNS53 never share a key: the DoH context is never empty *)
Theorem C06_transports : forall q q' url, key_of_doh q url <> key_of_dns q'.
Proof. exact transports_never_share. Qed.
Print Assumptions C06_transports.

(* non-vacuity: profile A's answer is not served to profile B, nor to the DNS53 path *)
Example no_cross_example :
  let cfg := mkRcfg true 0 0 in
  let q := mkRq 7 1 1 [97;46] in
  let msg := [0;7;129;128;0;1;0;1;0;0;0;0; 1;97;0;0;1;0;1; 192;12;0;1;0;1;0;0;0;60;0;4;1;2;3;4] in
  let '(h1, _) := rstep cfg (mkH rstate0 1000) (OpDoh q [65] (DBody msg None)) in
  let '(_, r2) := rstep cfg h1 (OpDoh q [65] DRtErr) in
  let '(_, r3) := rstep cfg h1 (OpDoh q [66] DRtErr) in
  let '(_, r4) := rstep cfg h1 (OpDns q false []) in
  match r2, r3, r4 with
  | Some a, Some b, Some c => rs_from_cache a = true /\ rs_err a = false /\ rs_from_cache b = false /\ rs_from_cache c = false
  | _, _, _ => False
  end.
Proof. vm_compute. repeat split. Qed.
