(* C12 -- locally answerable names never leave the host.  Theorems only. *)
From NX Require Import Bytes Wire Query Discovery ProxyResolve DiscoveryFacts.
Open Scope Z_scope.

Section C12.
  Variable ip_string : option bytes -> bytes.   (* net.IP.String, environment *)
  Variable ip_bytes : bytes -> option bytes.    (* net.ParseIP, environment *)

  (* a hosts-file answer is returned as is and no upstream is asked *)
  Theorem C12_local : forall c r q up ans,
    local c = Some r -> hosts_resolve ip_string ip_bytes r q = Some ans ->
    proxy_resolve ip_string ip_bytes c q up = (PLocal ans, 0).
  Proof. exact (local_no_upstream ip_string ip_bytes). Qed.

  (* bogus-priv: private reverse lookups are answered NXDOMAIN or from the local /
     discovery tables, never sent upstream *)
  Theorem C12_priv : forall c q up,
    bogus_priv c = true -> q_type q = tPTR -> is_private_reverse (q_name q) = true ->
    snd (proxy_resolve ip_string ip_bytes c q up) = 0 /\
    match fst (proxy_resolve ip_string ip_bytes c q up) with
    | PNX | PLocal _ | PDisc _ => True
    | PUp _ _ => False
    end.
  Proof. exact (bogus_priv_no_upstream ip_string ip_bytes). Qed.

  (* every other query is sent upstream exactly once *)
  Theorem C12_other_once : forall c q up,
    (match local c with Some r => hosts_resolve ip_string ip_bytes r q | None => None end) = None ->
    (bogus_priv c = false \/ (q_type q =? tPTR) && is_private_reverse (q_name q) = false) ->
    snd (proxy_resolve ip_string ip_bytes c q up) = 1.
  Proof. exact (other_once ip_string ip_bytes). Qed.
End C12.
Print Assumptions C12_local.
Print Assumptions C12_priv.
Print Assumptions C12_other_once.

(* letter case of the reverse name never matters *)
Theorem C12_case : forall n n', lower n = lower n' -> ptr_ip n = ptr_ip n'.
Proof. exact ptr_ip_case. Qed.
Print Assumptions C12_case.

Theorem C12_hosts_case : forall t n n', lower n = lower n' -> hosts_lookup_host t n = hosts_lookup_host t n'.
Proof. exact hosts_lookup_case. Qed.
Print Assumptions C12_hosts_case.

(* the code's bit tests are exactly the private / loopback / link-local ranges,
   for every value of the two leading address bytes (256 x 256, by computation) *)
Theorem C12_private_v4 :
  forallb (fun a => forallb (fun b =>
    Bool.eqb (is_private_ip [a; b; 7; 9]) (private_spec [a; b; 7; 9])) bytes256) bytes256 = true.
Proof. exact private_v4_ranges. Qed.
Print Assumptions C12_private_v4.
Theorem C12_private_v6 :
  forallb (fun a => forallb (fun b =>
    Bool.eqb (is_private_ip [a; b; 0;0;0;0;0;0;0;0;0;0;0;0;0;5]) (private_spec [a; b; 0;0;0;0;0;0;0;0;0;0;0;0;0;5])) bytes256) bytes256 = true.
Proof. exact private_v6_ranges. Qed.
Print Assumptions C12_private_v6.

(* non-vacuity: mixed-case and partial reverse names (ASCII: "4.3.2.10.IN-addr.ARPA.") *)
Example reverse_examples :
  ptr_ip [52;46;51;46;50;46;49;48;46;73;78;45;97;100;100;114;46;65;82;80;65;46] = Some [10;2;3;4]
  /\ is_private_reverse [52;46;51;46;50;46;49;48;46;73;78;45;97;100;100;114;46;65;82;80;65;46] = true
  /\ spec_reverse [52;46;51;46;50;46;49;48;46;73;78;45;97;100;100;114;46;65;82;80;65;46] = Some [10;2;3;4]
  /\ is_private_reverse [56;46;56;46;56;46;56;46;105;110;45;97;100;100;114;46;97;114;112;97;46] = false.
Proof. repeat split. Qed.
