(* C13 -- client addresses in ECS are consumed, never forwarded upstream.
   Theorems only. *)
From NX Require Import Bytes Wire Reply Query WireFacts QueryFacts.
Open Scope Z_scope.

(* rewriting an ECS option never changes the length of the query ... *)
Theorem C13_len : forall payload dataoff p', nutter payload dataoff = Ok p' -> len p' = len payload.
Proof. exact nutter_len. Qed.
Print Assumptions C13_len.

(* ... and no byte outside that option (4-byte option header + data, data
   length = the option's length byte) changes *)
Theorem C13_only : forall payload dataoff p' j d, okb payload ->
  nutter payload dataoff = Ok p' ->
  (Z.of_nat j < dataoff - 4 \/ dataoff + nth (Z.to_nat (dataoff - 1)) payload 0 <= Z.of_nat j) ->
  nth j p' d = nth j payload d.
Proof. exact nutter_outside. Qed.
Print Assumptions C13_only.

(* an option lying inside the payload becomes inert: code 0xFFFF, same length
   field, all data bytes zero *)
Theorem C13_inert : forall payload dataoff,
  4 <= dataoff -> dataoff < len payload ->
  let size := nth (Z.to_nat (dataoff - 1)) payload 0 in
  dataoff + size <= len payload ->
  exists p', nutter payload dataoff = Ok p' /\
    nth (Z.to_nat (dataoff - 4)) p' 0 = 255 /\ nth (Z.to_nat (dataoff - 3)) p' 0 = 255 /\
    nth (Z.to_nat (dataoff - 2)) p' 0 = nth (Z.to_nat (dataoff - 2)) payload 0 /\
    nth (Z.to_nat (dataoff - 1)) p' 0 = size /\
    (forall j, dataoff <= Z.of_nat j < dataoff + size -> nth j p' 0 = 0).
Proof. exact nutter_inert. Qed.
Print Assumptions C13_inert.

(* the option loop touches nothing but payload, peer address and MAC; the
   payload keeps its length across any number of options *)
Theorem C13_fields : forall os q q', apply_opts os q = Ok q' ->
  q_id q' = q_id q /\ q_class q' = q_class q /\ q_type q' = q_type q /\ q_rd q' = q_rd q /\
  q_msgsize q' = q_msgsize q /\ q_name q' = q_name q.
Proof. exact apply_opts_fields. Qed.
Print Assumptions C13_fields.

Theorem C13_payload_len : forall os q q', apply_opts os q = Ok q' -> len (q_payload q') = len (q_payload q).
Proof. exact apply_opts_len. Qed.
Print Assumptions C13_payload_len.

(* what the upstream receives is defined for every client byte string *)
Theorem C13_total : forall payload, okb payload -> exists p', upstream_payload payload = Ok p'.
Proof. exact upstream_payload_total. Qed.
Print Assumptions C13_total.

(* non-vacuity: a query with ECS 1.2.3.4/32 -- the address is taken as the
   client's identity and the option leaves the host as code 0xFFFF, zero data *)
Definition ecs_query : bytes :=
  [0;7;1;0;0;1;0;0;0;0;0;1; 1;97;0;0;1;0;1;
   0;0;41;4;208;0;0;0;0;0;12; 0;8;0;8;0;1;32;0;1;2;3;4].
Example ecs_consumed :
  exists q, parse ecs_query = Ok (q, true) /\ q_peer q = Some [1;2;3;4] /\
    q_payload q = [0;7;1;0;0;1;0;0;0;0;0;1; 1;97;0;0;1;0;1;
                   0;0;41;4;208;0;0;0;0;0;12; 255;255;0;8;0;0;0;0;0;0;0;0]
    /\ c13_ok ecs_query (q_payload q) = true.
Proof. eexists. split; [vm_compute; reflexivity|]. repeat split. Qed.
