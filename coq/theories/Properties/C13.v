(* C13 -- client addresses in ECS are consumed, never forwarded upstream.
   Theorems only. *)
From NX Require Import Bytes Wire Reply Query WireFacts QueryFacts EcsWhole EcsParse.
Open Scope Z_scope.

(* rewriting an ECS option never changes the length of the query ... *)
Theorem C13_len : forall payload dataoff p', nutter payload dataoff = Ok p' -> len p' = len payload.
Proof. exact nutter_len. Qed.
Print Assumptions C13_len.

(* ... and no byte outside that option (4-byte option header + data, data
   length = the option's length byte) changes *)
Theorem C13_only : forall payload dataoff p' j d, okb payload ->
  nutter payload dataoff = Ok p' ->
  (Z.of_nat j < dataoff - 4 \/ dataoff + nth (Z.to_nat (dataoff - 1)) payload 0 <= Z.of_nat j) ->
  nth j p' d = nth j payload d.
Proof. exact nutter_outside. Qed.
Print Assumptions C13_only.

(* an option lying inside the payload becomes inert: code 0xFFFF, same length
   field, all data bytes zero *)
Theorem C13_inert : forall payload dataoff,
  4 <= dataoff -> dataoff < len payload ->
  let size := nth (Z.to_nat (dataoff - 1)) payload 0 in
  dataoff + size <= len payload ->
  exists p', nutter payload dataoff = Ok p' /\
    nth (Z.to_nat (dataoff - 4)) p' 0 = 255 /\ nth (Z.to_nat (dataoff - 3)) p' 0 = 255 /\
    nth (Z.to_nat (dataoff - 2)) p' 0 = nth (Z.to_nat (dataoff - 2)) payload 0 /\
    nth (Z.to_nat (dataoff - 1)) p' 0 = size /\
    (forall j, dataoff <= Z.of_nat j < dataoff + size -> nth j p' 0 = 0).
Proof. exact nutter_inert. Qed.
Print Assumptions C13_inert.

(* the option loop touches nothing but payload, peer address and MAC; the
   payload keeps its length across any number of options *)
Theorem C13_fields : forall os q q', apply_opts os q = Ok q' ->
  q_id q' = q_id q /\ q_class q' = q_class q /\ q_type q' = q_type q /\ q_rd q' = q_rd q /\
  q_msgsize q' = q_msgsize q /\ q_name q' = q_name q.
Proof. exact apply_opts_fields. Qed.
Print Assumptions C13_fields.

Theorem C13_payload_len : forall os q q', apply_opts os q = Ok q' -> len (q_payload q') = len (q_payload q).
Proof. exact apply_opts_len. Qed.
Print Assumptions C13_payload_len.

(* what the upstream receives is defined for every client byte string *)
Theorem C13_total : forall payload, okb payload -> exists p', upstream_payload payload = Ok p'.
Proof. exact upstream_payload_total. Qed.
Print Assumptions C13_total.

(* the whole option loop of query.parse on one OPT record: for any number of options in any order
   lying one after the other in the payload (seq_ok), every address-carrying ECS option (code 8,
   family 1 or 2, at least 8 data bytes, shorter than 256) is inert afterwards -- code 0xFFFF, all
   data bytes zero -- and no byte outside those options has changed *)
Theorem C13_whole_record : forall os q q' lo,
  okb (q_payload q) -> 0 <= lo -> seq_ok (q_payload q) lo os ->
  (forall o, In o os -> is_addr_ecs o = true -> len (o_data o) < 256) ->
  apply_opts os q = Ok q' ->
  (forall o, In o os -> is_addr_ecs o = true -> scrubbed (q_payload q') o) /\
  (forall j, outside os j -> nth j (q_payload q') 0 = nth j (q_payload q) 0) /\
  (forall j, Z.of_nat j < lo -> nth j (q_payload q') 0 = nth j (q_payload q) 0).
Proof. exact apply_opts_whole. Qed.
Print Assumptions C13_whole_record.

(* the property on what the upstream receives, for every client byte string: with os the options
   of the OPT record that query.parse reaches (find_opts: header, question, skipped sections, first
   OPT in the additional section -- the layout hypothesis seq_ok is PROVED for them, it is not
   assumed), the payload handed to the upstream has the same length, every address-carrying ECS
   option among them is inert in it, and every byte outside those options is the client's.  The
   one hypothesis left (options shorter than 256 bytes) is the limit of the in-place rewrite in
   the code, which reads the option length from a single byte (reported in DESIGN 11.3). *)
Theorem C13_upstream : forall payload up, okb payload -> upstream_payload payload = Ok up ->
  exists os, find_opts payload = Ok os /\
    len up = len payload /\
    ((forall o, In o os -> is_addr_ecs o = true -> len (o_data o) < 256) ->
     (forall o, In o os -> is_addr_ecs o = true -> scrubbed up o) /\
     (forall j, outside os j -> nth j up 0 = nth j payload 0)).
Proof. exact upstream_payload_scrubbed. Qed.
Print Assumptions C13_upstream.

(* non-vacuity: a query with ECS 1.2.3.4/32 -- the address is taken as the
   client's identity and the option leaves the host as code 0xFFFF, zero data *)
Definition ecs_query : bytes :=
  [0;7;1;0;0;1;0;0;0;0;0;1; 1;97;0;0;1;0;1;
   0;0;41;4;208;0;0;0;0;0;12; 0;8;0;8;0;1;32;0;1;2;3;4].
Example ecs_consumed :
  exists q, parse ecs_query = Ok (q, true) /\ q_peer q = Some [1;2;3;4] /\
    q_payload q = [0;7;1;0;0;1;0;0;0;0;0;1; 1;97;0;0;1;0;1;
                   0;0;41;4;208;0;0;0;0;0;12; 255;255;0;8;0;0;0;0;0;0;0;0]
    /\ c13_ok ecs_query (q_payload q) = true.
Proof. eexists. split; [vm_compute; reflexivity|]. repeat split. Qed.
