(* Model/FwdText.v -- config/forwarder.go at the level of text: newResolver (the value of
   a -forwarder argument or of a `forwarder` line of the stored file -> rule domain and
   server address) and Resolver.String (what SaveConfig writes).  Definitions only.

   Strings are byte lists.  strings.TrimSpace is modelled for ASCII text (the six ASCII
   white-space bytes); on text with bytes >= 128 Go also trims multi-byte Unicode spaces,
   so the model is compared with the code on ASCII values only ([ascii_text]).
   resolver.New (net/url, net.ParseIP) is environment: [valid] says which addresses it
   accepts. *)
From NX Require Export Bytes.
Open Scope Z_scope.

Definition is_space (c : Z) : bool :=
  (c =? 32) || ((9 <=? c) && (c <=? 13)).
Fixpoint trim_left (s : bytes) : bytes :=
  match s with
  | [] => []
  | c :: r => if is_space c then trim_left r else s
  end.
Definition trim_right (s : bytes) : bytes := rev (trim_left (rev s)).
Definition trim_space (s : bytes) : bytes := trim_right (trim_left s).
Definition ascii_text (s : bytes) : bool := forallb (fun c => (0 <=? c) && (c <? 128)) s.

(* strings.IndexByte(v, '='): the text before the first '=' and the text after it *)
Fixpoint cut_eq (s : bytes) : option (bytes * bytes) :=
  match s with
  | [] => None
  | c :: r => if c =? 61 then Some ([], r)
              else match cut_eq r with Some (a, b) => Some (c :: a, b) | None => None end
  end.

Definition fqdn_text (s : bytes) : bytes := if has_suffix [46] s then s else s ++ [46].

(* a parsed rule: domain ([] = unconditional) and address text *)
Definition frule := (bytes * bytes)%type.

Section FwdText.
  Variable valid : bytes -> bool.     (* resolver.New(addr) succeeds *)

  Definition fwd_text_parse (v : bytes) : option frule :=
    let r := match cut_eq v with
             | None => ([], v)
             | Some (d, a) => (fqdn_text (trim_space d), trim_space a)
             end in
    if valid (snd r) then Some r else None.
End FwdText.

Definition fwd_text_show (r : frule) : bytes :=
  match fst r with
  | [] => snd r
  | d => d ++ 61 :: snd r
  end.

(* the condition as it can be read off a printed rule: the text before the first '=' *)
Definition printed_cond (s : bytes) : option bytes := option_map fst (cut_eq s).

(* Forwarders.Set: an element with the same Domain replaces in place *)
Definition frule_same (a b : frule) : bool := beq_bytes (fst a) (fst b).
