(* Model/Start.v -- run.go proxySvc.start: the starter spawns the listener goroutine, then waits
   for its error or five seconds; the listener hands its error over a channel with a non-blocking
   send (select ... default).  cap1 = the channel has room for one error (after the F23 repair);
   cap1 = false is the unbuffered channel the code had before.  Definitions only. *)
From NX Require Export Bytes.

Inductive ppc := PSpawned | PWaiting | PGotErr | PNil.     (* the starter: ... returned the error / returned nil *)
Inductive cpc := CServing | CFailed | CHanded.             (* the listener: running / failed, about to send / send statement done *)
Record sstate := mkSS { sp : ppc; sc : cpc; sbuf : bool; late : bool }.   (* late: the failure came after the starter had returned *)
Definition sinit : sstate := mkSS PSpawned CServing false false.

Inductive slabel := ChildFail | ChildSend | ParentWait | ParentRecv | ParentTimeout.

Definition sstep (cap1 : bool) (s : sstate) (l : slabel) : option sstate :=
  match l with
  | ChildFail =>
    match sc s with
    | CServing => Some (mkSS (sp s) CFailed (sbuf s) (match sp s with PNil | PGotErr => true | _ => late s end))
    | _ => None
    end
  | ChildSend =>
    match sc s with
    | CFailed =>
      match sp s with
      | PWaiting => Some (mkSS PGotErr CHanded (sbuf s) (late s))           (* a receiver is ready: rendezvous *)
      | _ => if cap1 && negb (sbuf s) then Some (mkSS (sp s) CHanded true (late s))   (* room in the buffer *)
             else Some (mkSS (sp s) CHanded (sbuf s) (late s))               (* default: the error is dropped *)
      end
    | _ => None
    end
  | ParentWait => match sp s with PSpawned => Some (mkSS PWaiting (sc s) (sbuf s) (late s)) | _ => None end
  | ParentRecv => match sp s with PWaiting => if sbuf s then Some (mkSS PGotErr (sc s) false (late s)) else None | _ => None end
  | ParentTimeout =>
    (* five seconds pass only while nothing is about to arrive: the listener is serving, or its send statement
       is over and the buffer is empty (a listener that fails does so at once) *)
    match sp s with
    | PWaiting => match sc s, sbuf s with
                  | CServing, _ => Some (mkSS PNil (sc s) (sbuf s) (late s))
                  | CHanded, false => Some (mkSS PNil (sc s) (sbuf s) (late s))
                  | _, _ => None
                  end
    | _ => None
    end
  end.

Fixpoint srun (cap1 : bool) (s : sstate) (ls : list slabel) : option sstate :=
  match ls with [] => Some s | l :: r => match sstep cap1 s l with Some s' => srun cap1 s' r | None => None end end.

(* start reported success although the listener had already failed *)
Definition false_success (s : sstate) : bool :=
  match sp s, sc s with PNil, (CFailed | CHanded) => negb (late s) | _, _ => false end.
