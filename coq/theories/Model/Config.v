(* Model/Config.v -- config/config.go flagSet + host/service/config.go
   ConfigFileStorer: the option store, Save (one line per scalar option, one line
   per element of a list option), LoadConfig (each line goes through the entry's
   Set) and the three-phase Parse (arguments, stored file, arguments again).
   Definitions only.

   Options are identified by an index; list options (listen, profile, forwarder)
   carry a replacement criterion [same] as their Set methods do: an element equal
   (listen) / with the same criteria (profile) / with the same domain (forwarder)
   replaces the existing one in place, anything else is appended.  Values are the
   strings that String() prints and Set() parses; the parsing/printing functions of
   package net and time are environment. *)
From NX Require Export Bytes.
Open Scope Z_scope.

Section Config.
  Variable elem : Type.                       (* a parsed list element *)
  Variable same : nat -> elem -> elem -> bool. (* per list option: replacement criterion *)
  Variable show : nat -> elem -> bytes.       (* String() of one element *)
  Variable parse : nat -> bytes -> option elem.

  (* scalar options hold their canonical printed value; Set normalises through
     the option's parser/printer *)
  Variable norm : nat -> bytes -> option bytes. (* scalar option i: Set(v) succeeded with canonical print *)

  Record store := mkStore {
    scalars : list bytes;             (* scalar option i -> canonical printed value *)
    lists : list (list elem) }.       (* list option j -> elements in order *)

  Fixpoint set_elem (j : nat) (l : list elem) (e : elem) : list elem :=
    match l with
    | [] => [e]
    | x :: r => if same j e x then e :: r else x :: set_elem j r e
    end.

  Fixpoint upd_at {A} (i : nat) (f : A -> A) (l : list A) : list A :=
    match l, i with
    | [], _ => []
    | x :: t, O => f x :: t
    | x :: t, S i' => x :: upd_at i' f t
    end.

  (* a line of the stored file / a command line argument: which option, raw value *)
  Inductive item := Scalar (i : nat) (v : bytes) | Elem (j : nat) (v : bytes).

  (* entry.Set(value): None = the loader / flag package reports an error *)
  Definition apply_item (s : store) (it : item) : option store :=
    match it with
    | Scalar i v => match norm i v with
                    | Some c => Some (mkStore (upd_at i (fun _ => c) (scalars s)) (lists s))
                    | None => None
                    end
    | Elem j v => match parse j v with
                  | Some e => Some (mkStore (scalars s) (upd_at j (fun l => set_elem j l e) (lists s)))
                  | None => None
                  end
    end.
  Fixpoint apply_items (s : store) (its : list item) : option store :=
    match its with
    | [] => Some s
    | it :: r => match apply_item s it with Some s' => apply_items s' r | None => None end
    end.

  (* SaveConfig: every scalar option as one line, every list element as one line
     (Go iterates the options in map order: lines of different options commute,
     see ConfigFacts; the order inside one list option is the list order) *)
  Fixpoint save_scalars (i : nat) (l : list bytes) : list item :=
    match l with [] => [] | v :: r => Scalar i v :: save_scalars (S i) r end.
  Fixpoint save_lists (j : nat) (ls : list (list elem)) : list item :=
    match ls with [] => [] | l :: r => map (fun e => Elem j (show j e)) l ++ save_lists (S j) r end.
  Definition save (s : store) : list item := save_scalars 0 (scalars s) ++ save_lists 0 (lists s).

  (* LoadConfig into a fresh store (defaults, empty lists) *)
  Definition load (defaults : store) (file : list item) : option store := apply_items defaults file.

  (* Parse: arguments, then the stored file, then the arguments again *)
  Definition parse_cmd (defaults : store) (args file : list item) : option store :=
    match apply_items defaults args with
    | Some s1 => match apply_items s1 file with
                 | Some s2 => apply_items s2 args
                 | None => None
                 end
    | None => None
    end.

  (* a list as Set leaves it: no element would replace an earlier one *)
  Fixpoint canonical (j : nat) (l : list elem) : Prop :=
    match l with
    | [] => True
    | x :: r => Forall (fun y => same j y x = false) r /\ canonical j r
    end.
End Config.
Arguments scalars {elem}.
Arguments lists {elem}.
Arguments mkStore {elem}.
