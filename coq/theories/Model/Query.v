(* Model/Query.v -- resolver/query/query.go: New/parse/nutterECSOption, and
   proxy/util.go replyRCode; the per-request function [handle] of
   proxy/udp.go and proxy/tcp.go after the resolver layer delivered an
   outcome.  Definitions only. *)
From NX Require Export Bytes Wire Reply.
Open Scope Z_scope.

Record query := mkQuery {
  q_id : Z; q_class : Z; q_type : Z; q_rd : bool; q_msgsize : Z;
  q_name : bytes;            (* dotted string form, "" when not parsed *)
  q_peer : option bytes;     (* Some ip when an ECS option carried a full address *)
  q_mac : option bytes;      (* Some when the dnsmasq MAC option was present *)
  q_payload : bytes }.       (* payload after in-place ECS rewriting *)

Definition q0 (payload : bytes) : query :=
  mkQuery 0 0 0 false 512 [] None None payload.

(* nutterECSOption(payload, o) *)
Fixpoint zero_range (payload : bytes) (from to : Z) (i : Z) : bytes :=
  match payload with
  | [] => []
  | b :: r => (if (from <=? i) && (i <? to) then 0 else b) :: zero_range r from to (i + 1)
  end.

Definition nutter (payload : bytes) (dataoff : Z) : res bytes :=
  let off := dataoff - 4 in
  if (off <? 0) || (off + 4 >=? len payload) then Ok payload else
  match nth_error payload (Z.to_nat (off + 3)) with
  | None => Panic
  | Some size =>
    let endoff := off + 4 + size in
    if endoff >? len payload then Ok payload else
    (* for i := o.DataOffset; i < endOff; i++ { payload[i] = 0 }  -- in range: endOff <= len *)
    let z := zero_range payload dataoff endoff 0 in
    (* payload[off] = 0xFF; payload[off+1] = 0xFF -- in range: off+4 < len *)
    Ok (set_nth (Z.to_nat off) 255 (set_nth (Z.to_nat (off + 1)) 255 z))
  end.

(* the loop over opt.Options *)
Fixpoint apply_opts (os : list option_) (q : query) : res query :=
  match os with
  | [] => Ok q
  | o :: rest =>
    let code := o_code o in let d := o_data o in
    if code =? 65001 then (* EDNS0_MAC 0xfde9 *)
      apply_opts rest (mkQuery (q_id q) (q_class q) (q_type q) (q_rd q) (q_msgsize q) (q_name q)
                               (q_peer q) (Some d) (q_payload q))
    else if code =? 8 then
      if len d <? 8 then apply_opts rest q else
      match d with
      | _ :: fam :: plen :: _ =>
        if fam =? 1 then
          let peer := if plen =? 32 then Some (takez 4 (dropz 4 d)) else q_peer q in
          do pl <- nutter (q_payload q) (o_off o);
          apply_opts rest (mkQuery (q_id q) (q_class q) (q_type q) (q_rd q) (q_msgsize q) (q_name q)
                                   peer (q_mac q) pl)
        else if fam =? 2 then
          let peer := if (plen =? 128) && (len d >=? 20) then Some (takez 16 (dropz 4 d)) else q_peer q in
          do pl <- nutter (q_payload q) (o_off o);
          apply_opts rest (mkQuery (q_id q) (q_class q) (q_type q) (q_rd q) (q_msgsize q) (q_name q)
                                   peer (q_mac q) pl)
        else apply_opts rest q
      | _ => Panic (* o.Data[1], o.Data[2] with len >= 8: cannot happen *)
      end
    else apply_opts rest q
  end.

(* the `for { AdditionalHeader ... }` loop (after the F1 repair: non-OPT
   records are skipped).  Returns the query and whether an error was returned. *)
Fixpoint additional_loop (fuel : nat) (msg : bytes) (p : parser) (q : query) : res (query * bool) :=
  match fuel with
  | O => OutOfFuel
  | S f =>
    match p_resource_header msg p secAr with
    | (p1, Err e) => if e =? eSectionDone then Ok (q, true) else Ok (q, false)
    | (_, Panic) => Panic
    | (_, OutOfFuel) => OutOfFuel
    | (p1, Ok h) =>
      if negb (rh_type h =? 41) then
        match p_skip_resource p1 secAr with
        | (p2, Ok _) => additional_loop f msg p2 q
        | (_, Err _) => Ok (q, false)
        | (_, Panic) => Panic
        | (_, OutOfFuel) => OutOfFuel
        end
      else
        match p_opt_resource p1 with
        | Err _ => Ok (q, false)
        | Panic => Panic
        | OutOfFuel => OutOfFuel
        | Ok os =>
          let q1 := mkQuery (q_id q) (q_class q) (q_type q) (q_rd q) (rh_class h mod 65536)
                            (q_name q) (q_peer q) (q_mac q) (q_payload q) in
          do q2 <- apply_opts os q1; Ok (q2, true)
        end
    end
  end.
Definition additional_fuel (h : header) : nat := S (S (Z.to_nat (h_ar h))).

(* Query.parse: returns the (possibly partially filled) query and ok? *)
Definition parse (payload : bytes) : res (query * bool) :=
  let q := q0 payload in
  match p_start payload with
  | Err _ => Ok (q, false)
  | Panic => Panic | OutOfFuel => OutOfFuel
  | Ok p0 =>
    match p_question payload p0 with
    | (_, Err _) => Ok (q, false)
    | (_, Panic) => Panic | (_, OutOfFuel) => OutOfFuel
    | (p1, Ok (name, typ, cls)) =>
      let h := p_hdr p0 in
      let q1 := mkQuery (h_id h) cls typ (has_bit (h_bits h) 256) 512 name None None payload in
      do p2 <- skip_all (skip_all_fuel h secQ) p_skip_question p1;
      do p3 <- skip_all (skip_all_fuel h secAn) (fun p => p_skip_resource p secAn) p2;
      do p4 <- skip_all (skip_all_fuel h secNs) (fun p => p_skip_resource p secNs) p3;
      additional_loop (additional_fuel h) payload p4 q1
    end
  end.

(* replyRCode(rcode, q, buf) *)
Definition reply_rcode (rcode : Z) (q : query) : bytes :=
  let bits := 32768 + rcode in
  match pack_name (q_name q) with
  | Ok n => pack16 (q_id q) ++ pack16 bits ++ [0;1;0;0;0;0;0;0] ++ n ++ pack16 (q_type q) ++ pack16 (q_class q)
  | _ => pack16 (q_id q) ++ pack16 bits ++ [0;0;0;0;0;0;0;0]
  end.
Definition servfail (q : query) : bytes := reply_rcode 2 q.

(* what p.Resolve handed back to the handler *)
Inductive outcome :=
| Up (msg : bytes)       (* n = len msg bytes in rbuf, err = nil *)
| UpErr                  (* err != nil (whatever n) *)
| UpEmpty.               (* n = 0, err = nil *)

Definition resolved (q : query) (o : outcome) : bytes :=
  match o with
  | Up msg => if (len msg <=? 0) || (len msg >? maxTCPSize) then servfail q else msg
  | UpErr => servfail q
  | UpEmpty => servfail q
  end.

Inductive proto := UDP | TCP.

(* bytes written to the client for one request of more than 14 bytes *)
Definition handle (pr : proto) (payload : bytes) (o : outcome) : res bytes :=
  do '(q, _) <- parse payload;
  let r := resolved q o in
  match pr with
  | UDP => Ok (udp_reply (q_msgsize q) r)
  | TCP => Ok (tcp_frame r)
  end.

(* payload handed to the upstream (C13) *)
Definition upstream_payload (payload : bytes) : res bytes :=
  do '(q, _) <- parse payload; Ok (q_payload q).

(* ---- the serve loop's size gate: udp.go / tcp.go "if qsize <= 14" ---- *)
Inductive action := Reply (b : bytes) | Silence | CloseConn.
Definition serve (pr : proto) (payload : bytes) (o : outcome) : res action :=
  if len payload <=? 14 then Ok (match pr with UDP => Silence | TCP => CloseConn end)
  else do b <- handle pr payload o; Ok (Reply b).

(* ---- options of the first OPT record reached by query.parse (for the C13 spec) ---- *)
Fixpoint find_opts_loop (fuel : nat) (msg : bytes) (p : parser) : res (list option_) :=
  match fuel with
  | O => OutOfFuel
  | S f =>
    match p_resource_header msg p secAr with
    | (_, Err _) => Ok []
    | (_, Panic) => Panic
    | (_, OutOfFuel) => OutOfFuel
    | (p1, Ok h) =>
      if negb (rh_type h =? 41) then
        match p_skip_resource p1 secAr with
        | (p2, Ok _) => find_opts_loop f msg p2
        | (_, Err _) => Ok []
        | (_, Panic) => Panic
        | (_, OutOfFuel) => OutOfFuel
        end
      else match p_opt_resource p1 with Ok os => Ok os | Err _ => Ok [] | Panic => Panic | OutOfFuel => OutOfFuel end
    end
  end.
Definition find_opts (payload : bytes) : res (list option_) :=
  match p_start payload with
  | Err _ => Ok [] | Panic => Panic | OutOfFuel => OutOfFuel
  | Ok p0 =>
    match p_question payload p0 with
    | (_, Err _) => Ok [] | (_, Panic) => Panic | (_, OutOfFuel) => OutOfFuel
    | (p1, Ok _) =>
      let h := p_hdr p0 in
      do p2 <- skip_all (skip_all_fuel h secQ) p_skip_question p1;
      do p3 <- skip_all (skip_all_fuel h secAn) (fun p => p_skip_resource p secAn) p2;
      do p4 <- skip_all (skip_all_fuel h secNs) (fun p => p_skip_resource p secNs) p3;
      find_opts_loop (additional_fuel h) payload p4
    end
  end.

(* an option that carries a client address: ECS, family 1 or 2, >= 8 bytes, < 256 bytes *)
Definition is_addr_ecs (o : option_) : bool :=
  (o_code o =? 8) && (8 <=? len (o_data o)) &&
  match o_data o with _ :: fam :: _ => (fam =? 1) || (fam =? 2) | _ => false end.

(* C13 boolean spec on (client payload, payload the upstream received):
   no address-carrying ECS option is left, and every byte that differs lies
   inside the span (4-byte option header + data) of an address-carrying ECS
   option of the original. *)
Definition in_span (os : list option_) (i : Z) : bool :=
  existsb (fun o => is_addr_ecs o && (o_off o - 4 <=? i) && (i <? o_off o + len (o_data o))) os.
Fixpoint diff_inside (os : list option_) (a b : bytes) (i : Z) : bool :=
  match a, b with
  | [], [] => true
  | x :: a', y :: b' => ((x =? y) || in_span os i) && diff_inside os a' b' (i + 1)
  | _, _ => false
  end.
Definition c13_ok (payload upsaw : bytes) : bool :=
  match find_opts payload, find_opts upsaw with
  | Ok os, Ok os' =>
      (* premise of C13: ECS options of at most 255 bytes (RFC 7871) *)
      if existsb (fun o => is_addr_ecs o && (255 <? len (o_data o))) os then true
      else negb (existsb is_addr_ecs os') && diff_inside os payload upsaw 0
  | _, _ => false
  end.

(* C01 boolean spec on one exchange: reply observed for query payload with outcome o *)
Definition eq_except_tc (a b : bytes) : bool :=
  match a, b with
  | a0 :: a1 :: a2 :: ar, b0 :: b1 :: b2 :: br =>
      (a0 =? b0) && (a1 =? b1) && (Z.lor a2 2 =? Z.lor b2 2) && beq_bytes ar br
  | _, _ => beq_bytes a b
  end.
Definition c01_ok (pr : proto) (payload : bytes) (o : outcome) (reply : bytes) : bool :=
  match parse payload with
  | Ok (q, _) =>
    match o with
    | Up msg =>
      if (len msg <=? 0) || (len msg >? maxTCPSize) then beq_bytes reply (match pr with UDP => servfail q | TCP => tcp_frame (servfail q) end)
      else match pr with
           | UDP => (len reply <=? len msg) && eq_except_tc (takez (len reply) msg) reply
                    && c05_udp_ok (q_msgsize q) (len msg) (len reply) (tc_bit reply) (tc_bit msg)
           | TCP => beq_bytes reply (tcp_frame msg)
           end
    | _ => beq_bytes reply (match pr with UDP => servfail q | TCP => tcp_frame (servfail q) end)
    end
  | _ => false
  end.
