(* Model/Resolver.v -- resolver/doh.go DOH.resolve, resolver/dns53.go
   DNS53.resolve, resolver/cache.go keys/values, and histories of queries over a
   shared cache (run.go wires one ARC cache into both resolvers).
   Definitions only.  Time is in nanoseconds (Z). *)
From NX Require Export Bytes CacheTTL.
Open Scope Z_scope.

Definition second : Z := 1000000000.
Definition tPTRq : Z := 12.

Record rkey := mkKey { k_ctx : bytes; k_class : Z; k_type : Z; k_name : bytes }.
Definition key_eqb (a b : rkey) : bool :=
  beq_bytes (k_ctx a) (k_ctx b) && (k_class a =? k_class b) && (k_type a =? k_type b) &&
  beq_bytes (k_name a) (k_name b).

Record cval := mkVal { v_time : Z; v_msg : bytes }.
Definition cache := list (rkey * cval).

Fixpoint cget (c : cache) (k : rkey) : option cval :=
  match c with [] => None | (k', v) :: r => if key_eqb k k' then Some v else cget r k end.
Fixpoint cadd (c : cache) (k : rkey) (v : cval) : cache :=
  match c with
  | [] => [(k, v)]
  | (k', v') :: r => if key_eqb k k' then (k', v) :: r else (k', v') :: cadd r k v
  end.
Fixpoint cdel (c : cache) (k : rkey) : cache :=
  match c with [] => [] | (k', v) :: r => if key_eqb k k' then r else (k', v) :: cdel r k end.

Record rcfg := mkRcfg { cache_on : bool; max_age : Z; max_ttl : Z }.
Record rstate := mkRst { st_cache : cache; st_lastmod : list (bytes * Z) }.
Definition rstate0 : rstate := mkRst [] [].

Fixpoint lastmod (l : list (bytes * Z)) (url : bytes) : Z :=
  match l with [] => 0 | (u, t) :: r => if beq_bytes url u then t else lastmod r url end.
Fixpoint set_lastmod (l : list (bytes * Z)) (url : bytes) (t : Z) : list (bytes * Z) :=
  match l with
  | [] => [(url, t)]
  | (u, t') :: r => if beq_bytes url u then (u, t) :: r else (u, t') :: set_lastmod r url t
  end.
(* updateLastMod: only moves forward *)
Definition update_lastmod (l : list (bytes * Z)) (url : bytes) (hdr : option Z) : list (bytes * Z) :=
  match hdr with
  | None => l
  | Some t => if t >? lastmod l url then set_lastmod l url t else l
  end.
(* a batch of announced stamps applied in the given order; the largest of a batch *)
Definition apply_stamps (l : list (bytes * Z)) (url : bytes) (ts : list Z) : list (bytes * Z) :=
  fold_left (fun acc t => update_lastmod acc url (Some t)) ts l.
Definition max_stamp (v0 : Z) (ts : list Z) : Z := fold_left Z.max ts v0.

Record rq := mkRq { rq_id : Z; rq_class : Z; rq_type : Z; rq_name : bytes }.

(* result: bytes left in buf[:n], FromCache flag, error flag *)
Record rres := mkRes { rs_buf : bytes; rs_from_cache : bool; rs_err : bool }.

(* what the HTTP exchange delivered *)
Inductive doh_up :=
| DRtErr                               (* RoundTrip error: refused, reset, deadline before headers *)
| DStatus (s : Z)                      (* status other than 200 *)
| DBodyErr                             (* error (not EOF) while reading the body *)
| DBody (b : bytes) (lm : option Z).   (* status 200, body ended by EOF; X-Conf-Last-Modified *)

Definition zero_url : bytes := [104;116;116;112;115;58;47;47;48;46;48;46;48;46;48]. (* https://0.0.0.0 *)

(* the cache probe shared by both resolvers: Some (bytes, minTTL) when an entry exists *)
Definition probe (cfg : rcfg) (c : cache) (k : rkey) (id now : Z) : option (bytes * Z * cval) :=
  match cget c k with
  | None => None
  | Some v =>
    let age := (now - v_time v) / second in
    let '(buf, m) := adjusted_response (v_msg v) id age (max_age cfg) (max_ttl cfg) in
    Some (buf, m, v)
  end.

Definition cap_ttl (cfg : rcfg) (b : bytes) : bytes :=
  if (max_ttl cfg >? 0) && (len b >? 0) then fst (update_ttl b 0 0 (max_ttl cfg)) else b.

Definition set_tc_ (b : bytes) : bytes :=
  match b with a :: b1 :: c :: r => a :: b1 :: Z.lor c 2 :: r | _ => b end.

Definition doh_resolve (cfg : rcfg) (st : rstate) (now : Z) (q : rq) (url0 : bytes) (up : doh_up)
  : rstate * rres :=
  let url := match url0 with [] => zero_url | _ => url0 end in
  let k := mkKey url (rq_class q) (rq_type q) (rq_name q) in
  let use_cache := negb (rq_type q =? tPTRq) && cache_on cfg in
  let pr := if use_cache then probe cfg (st_cache st) k (rq_id q) now else None in
  let serve := match pr with
               | Some (buf, m, v) => (m >? 0) && (lastmod (st_lastmod st) url <? v_time v)
               | None => false end in
  let stale := match pr with Some (buf, _, _) => buf | None => [] end in
  let fc := match pr with Some _ => true | None => false end in
  if serve then (st, mkRes stale true false)
  else
    match up with
    | DRtErr => (st, mkRes stale fc true)
    | DStatus _ => (st, mkRes stale fc true)
    | DBodyErr => (st, mkRes [] false true)
    | DBody b lm =>
      if len b >=? 65535 then
        (* buffer full: flagged truncated, not cached *)
        (st, mkRes (cap_ttl cfg (set_tc_ (takez 65535 b))) false false)
      else
        let stamp := if use_cache then now else 0 in
        let st' := if (len b >? 0) && cache_on cfg
                   then mkRst (cadd (st_cache st) k (mkVal stamp b)) (update_lastmod (st_lastmod st) url lm)
                   else st in
        (st', mkRes (cap_ttl cfg b) false false)
    end
.

(* DNS53: the datagrams that arrive before the deadline, in order; the first one
   of at least 2 bytes whose ID matches the query is the answer *)
Fixpoint first_match (id : Z) (ds : list bytes) : option bytes :=
  match ds with
  | [] => None
  | d :: r => match d with
              | a :: b :: _ => if u16 a b =? id then Some d else first_match id r
              | _ => first_match id r
              end
  end.

Definition dns_resolve (cfg : rcfg) (st : rstate) (now : Z) (q : rq) (dial_ok : bool) (ds : list bytes)
  : rstate * rres :=
  let k := mkKey [] (rq_class q) (rq_type q) (rq_name q) in
  let use_cache := negb (rq_type q =? tPTRq) && cache_on cfg in
  let pr := if use_cache then probe cfg (st_cache st) k (rq_id q) now else None in
  let serve := match pr with Some (buf, m, v) => m >? 0 | None => false end in
  let stale := match pr with Some (buf, _, _) => buf | None => [] end in
  let fc := match pr with Some _ => true | None => false end in
  if serve then (st, mkRes stale true false)
  else if negb dial_ok then (st, mkRes stale fc true)
  else
    match first_match (rq_id q) ds with
    | None => (st, mkRes [] fc true)          (* read error at the deadline: n = 0 *)
    | Some b =>
      let stamp := if use_cache then now else 0 in
      let st' := if cache_on cfg then mkRst (cadd (st_cache st) k (mkVal stamp b)) (st_lastmod st) else st in
      (st', mkRes (if max_ttl cfg >? 0 then fst (update_ttl b 0 0 (max_ttl cfg)) else b) false false)
    end.

(* ---- histories over one shared state ---- *)
Inductive rop :=
| OpDoh (q : rq) (url : bytes) (up : doh_up)
| OpDns (q : rq) (dial_ok : bool) (ds : list bytes)
| OpAdvance (dt : Z)
| OpForget (k : rkey).      (* the ARC cache may evict any entry at any time *)

Record hstate := mkH { h_st : rstate; h_now : Z }.

Definition rstep (cfg : rcfg) (h : hstate) (o : rop) : hstate * option rres :=
  match o with
  | OpDoh q url up => let '(st', r) := doh_resolve cfg (h_st h) (h_now h) q url up in (mkH st' (h_now h), Some r)
  | OpDns q d ds => let '(st', r) := dns_resolve cfg (h_st h) (h_now h) q d ds in (mkH st' (h_now h), Some r)
  | OpAdvance dt => (mkH (h_st h) (h_now h + Z.max 0 dt), None)
  | OpForget k => (mkH (mkRst (cdel (st_cache (h_st h)) k) (st_lastmod (h_st h))) (h_now h), None)
  end.

Fixpoint rrun (cfg : rcfg) (h : hstate) (ops : list rop) : hstate * list (option rres) :=
  match ops with
  | [] => (h, [])
  | o :: r => let '(h1, out) := rstep cfg h o in
              let '(h2, outs) := rrun cfg h1 r in (h2, out :: outs)
  end.

(* the messages a history stored, with the key they were stored under: what an
   upstream of that key's transport/profile answered to a query with that key *)
Definition url_norm (u : bytes) : bytes := match u with [] => zero_url | _ => u end.
Definition stored_of (cfg : rcfg) (o : rop) : list (rkey * bytes) :=
  match o with
  | OpDoh q url (DBody b _) => [(mkKey (url_norm url) (rq_class q) (rq_type q) (rq_name q), b)]
  | OpDns q true ds => match first_match (rq_id q) ds with
                       | Some b => [(mkKey [] (rq_class q) (rq_type q) (rq_name q), b)]
                       | None => [] end
  | _ => []
  end.
Definition stored_log (cfg : rcfg) (ops : list rop) : list (rkey * bytes) := flat_map (stored_of cfg) ops.

(* boolean spec on one observed step (C06/C07): a reply flagged FromCache and
   served without error must come from an entry stored under the query's own key *)
Definition key_of_doh (q : rq) (url : bytes) : rkey := mkKey (url_norm url) (rq_class q) (rq_type q) (rq_name q).
Definition key_of_dns (q : rq) : rkey := mkKey [] (rq_class q) (rq_type q) (rq_name q).

(* C06 boolean spec on an observed cache-served reply: modulo the message ID and
   the TTLs it must be a message that the history stored under the query's own key *)
Definition zero_id (b : bytes) : bytes := match b with _ :: _ :: r => 0 :: 0 :: r | _ => b end.
Definition strip_volatile (b : bytes) : bytes := fst (update_ttl (zero_id b) maxu32 0 0).
Definition c06_ok (log : list (rkey * bytes)) (k : rkey) (reply : bytes) : bool :=
  existsb (fun p => key_eqb k (fst p) && beq_bytes (strip_volatile (snd p)) (strip_volatile reply)) log.

(* C07 boolean spec on one observed step: a reply served from the cache requires
   the serve condition to hold in the state before the step *)
Definition serves_now (cfg : rcfg) (h : hstate) (o : rop) : bool :=
  match o with
  | OpDoh q url _ =>
    negb (rq_type q =? tPTRq) && cache_on cfg &&
    match cget (st_cache (h_st h)) (key_of_doh q url) with
    | None => false
    | Some v =>
      (snd (adjusted_response (v_msg v) (rq_id q) ((h_now h - v_time v) / second) (max_age cfg) (max_ttl cfg)) >? 0)
      && (lastmod (st_lastmod (h_st h)) (url_norm url) <? v_time v)
    end
  | OpDns q _ _ =>
    negb (rq_type q =? tPTRq) && cache_on cfg &&
    match cget (st_cache (h_st h)) (key_of_dns q) with
    | None => false
    | Some v => snd (adjusted_response (v_msg v) (rq_id q) ((h_now h - v_time v) / second) (max_age cfg) (max_ttl cfg)) >? 0
    end
  | _ => false
  end.
