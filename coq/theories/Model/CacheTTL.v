(* Model/CacheTTL.v -- resolver/cache.go: skipName, updateTTL,
   cacheValue.AdjustedResponse.  Definitions only.

   updateTTL rewrites the message in place while walking it front to back, so it
   is modelled as a stream transformer: each function consumes a prefix of the
   remaining bytes and returns the rewritten prefix together with what is left.
   Early exits ("return 0") keep the part already rewritten, exactly as the
   in-place code does. *)
From NX Require Export Bytes.
Open Scope Z_scope.

Definition two32 : Z := 4294967296.
Definition maxu32 : Z := 4294967295.

(* skipName(msg[off:]): Some (name bytes, rest) ; None = 0 (invalid) *)
Fixpoint skip_name_c (rest : bytes) (k : nat) (racc : bytes) : option (bytes * bytes) :=
  match rest with
  | [] => None
  | c :: r =>
    match k with
    | S k' => skip_name_c r k' (c :: racc)
    | O =>
      let kind := Z.land c 192 in
      if kind =? 0 then
        if c =? 0 then Some (rev (c :: racc), r) else skip_name_c r (Z.to_nat c) (c :: racc)
      else if kind =? 192 then
        (* two-byte pointer, not followed.  The code does not test the bound of the
           second byte, but every caller then needs >= 4 more bytes and returns 0. *)
        match r with c1 :: r' => Some (rev (c1 :: c :: racc), r') | [] => None end
      else None
    end
  end.
(* a label that runs to the very end of the buffer: the code accepts newOff = len
   inside the label and fails at the next length byte (None above: rest = []) *)

(* the TTL arithmetic of one non-OPT record (all uint32) *)
Definition aged (ttl age : Z) : Z := if age >? ttl then 0 else ttl - age.
Definition capped (ttl maxTTL : Z) : Z := if (maxTTL >? 0) && (ttl >? maxTTL) then maxTTL else ttl.
Definition min_step (minTTL ttl age maxAge : Z) : Z :=
  if (maxAge >? 0) && (age >? maxAge) then 0 else if minTTL >? ttl then ttl else minTTL.

(* questions: returns (consumed-as-is, rest) or None (return 0) *)
Fixpoint skip_questions (n : nat) (rest : bytes) : option (bytes * bytes) :=
  match n with
  | O => Some ([], rest)
  | S n' =>
    match skip_name_c rest O [] with
    | None => None
    | Some (nm, r1) =>
      match r1 with
      | a :: b :: c :: d :: r2 =>
        match skip_questions n' r2 with
        | Some (out, r3) => Some (nm ++ [a; b; c; d] ++ out, r3)
        | None => None
        end
      | _ => None
      end
    end
  end.

(* resource records: i = index of this record, idx = additionalsIdx.
   Returns the rewritten bytes of everything from here on and Some minTTL, or None
   when the code returned 0 early. *)
Fixpoint rr_loop (n : nat) (i idx : Z) (rest : bytes) (age maxAge maxTTL minTTL : Z) : bytes * option Z :=
  match n with
  | O => (rest, Some minTTL)
  | S n' =>
    match rest with
    | [] => ([], Some minTTL)                      (* off >= len(msg): break *)
    | _ =>
      match skip_name_c rest O [] with
      | None => (rest, None)
      | Some (nm, r1) =>
        match r1 with
        | t1 :: t2 :: c1 :: c2 :: a :: b :: c :: d :: l1 :: l2 :: r2 =>
          let typ := u16 t1 t2 in
          let ttl := u32 a b c d in
          let '(ttlbytes, minTTL') :=
            if typ =? 41 then ([a; b; c; d], minTTL)
            else let t := aged ttl age in
                 (pack32 (capped t maxTTL), if i <? idx then min_step minTTL t age maxAge else minTTL) in
          let rdlen := u16 l1 l2 in
          let hdr := nm ++ [t1; t2; c1; c2] ++ ttlbytes ++ [l1; l2] in
          if len r2 <? rdlen then (hdr ++ r2, None)
          else
            let '(out, res) := rr_loop n' (i + 1) idx (dropz rdlen r2) age maxAge maxTTL minTTL' in
            (hdr ++ takez rdlen r2 ++ out, res)
        | _ => (rest, None)
        end
      end
    end
  end.

Definition update_ttl (msg : bytes) (age maxAge maxTTL : Z) : bytes * Z :=
  match msg with
  | i1 :: i2 :: f1 :: f2 :: q1 :: q2 :: a1 :: a2 :: n1 :: n2 :: r1 :: r2 :: body =>
    let hdr := [i1; i2; f1; f2; q1; q2; a1; a2; n1; n2; r1; r2] in
    let questions := u16 q1 q2 in
    let answers := u16 a1 a2 in let auths := u16 n1 n2 in let addl := u16 r1 r2 in
    (* "if off >= len(msg) return 0" at the top of each question iteration *)
    match skip_questions (Z.to_nat questions) body with
    | None => (msg, 0)
    | Some (qs, rest) =>
      let rrcount := (answers + auths + addl) mod 65536 in
      let idx := (answers + auths) mod 65536 in
      let '(out, res) := rr_loop (Z.to_nat rrcount) 0 idx rest age maxAge maxTTL maxu32 in
      (hdr ++ qs ++ out,
       match res with
       | None => 0
       | Some m => if m =? maxu32 then 0 else m
       end)
    end
  | _ => (msg, 0)
  end.

(* cacheValue.AdjustedResponse(buf, id, maxAge, maxTTL, now): buf is always the
   64 KiB request buffer, so len(buf) >= n holds for every cached message *)
Definition adjusted_response (msg : bytes) (id age maxAge maxTTL : Z) : bytes * Z :=
  if len msg <? 12 then ([], 0)
  else match msg with
       | _ :: _ :: r => update_ttl ((id / 256) mod 256 :: id mod 256 :: r) (age mod two32) maxAge maxTTL
       | _ => ([], 0)
       end.

(* ---- a tree view of well-formed messages, for the specification ---- *)
Record rrec := mkRR { r_name : bytes; r_type : Z; r_class : Z; r_ttl : Z; r_rdata : bytes }.
Record quest := mkQ { qn_name : bytes; qn_type : Z; qn_class : Z }.
Record msg_ast := mkMsg { m_id : Z; m_flags : Z; m_qs : list quest;
                          m_an : list rrec; m_ns : list rrec; m_ar : list rrec }.

Definition enc_q (q : quest) : bytes := qn_name q ++ pack16 (qn_type q) ++ pack16 (qn_class q).
Definition enc_rr (r : rrec) : bytes :=
  r_name r ++ pack16 (r_type r) ++ pack16 (r_class r) ++ pack32 (r_ttl r) ++ pack16 (len (r_rdata r)) ++ r_rdata r.
Definition encode_msg (m : msg_ast) : bytes :=
  pack16 (m_id m) ++ pack16 (m_flags m) ++ pack16 (len (m_qs m)) ++ pack16 (len (m_an m)) ++
  pack16 (len (m_ns m)) ++ pack16 (len (m_ar m)) ++
  concat (map enc_q (m_qs m)) ++ concat (map enc_rr (m_an m ++ m_ns m ++ m_ar m)).

(* a wire name: labels of 1..63 bytes ended by 0, or by a 2-byte pointer *)
Fixpoint wf_labels (ls : list bytes) : bool :=
  match ls with
  | [] => true
  | l :: r => (1 <=? len l) && (len l <=? 63) && bytes_ok l && wf_labels r
  end.
Inductive name_end := EndRoot | EndPtr (p1 p2 : Z).
Definition enc_name (ls : list bytes) (e : name_end) : bytes :=
  concat (map (fun l => len l :: l) ls) ++
  match e with EndRoot => [0] | EndPtr p1 p2 => [p1; p2] end.
Definition wf_end (e : name_end) : bool :=
  match e with EndRoot => true | EndPtr p1 p2 => (192 <=? p1) && (p1 <=? 255) && (0 <=? p2) && (p2 <=? 255) end.

(* the specification of the rewriting on the tree *)
Definition new_ttl (r : rrec) (age maxTTL : Z) : Z :=
  if r_type r =? 41 then r_ttl r else capped (aged (r_ttl r) age) maxTTL.
Definition map_rr (age maxTTL : Z) (r : rrec) : rrec :=
  mkRR (r_name r) (r_type r) (r_class r) (new_ttl r age maxTTL) (r_rdata r).
Definition map_ttl (age maxTTL : Z) (m : msg_ast) : msg_ast :=
  mkMsg (m_id m) (m_flags m) (m_qs m) (map (map_rr age maxTTL) (m_an m))
        (map (map_rr age maxTTL) (m_ns m)) (map (map_rr age maxTTL) (m_ar m)).
(* smallest aged TTL over non-OPT answer+authority records; 0 when there is none
   or when the entry is older than maxAge *)
Definition spec_min (rs : list rrec) (age maxAge : Z) : Z :=
  let ts := map (fun r => aged (r_ttl r) age) (filter (fun r => negb (r_type r =? 41)) rs) in
  match ts with
  | [] => 0
  | _ => if (maxAge >? 0) && (age >? maxAge) then 0
         else let m := fold_left Z.min ts maxu32 in if m =? maxu32 then 0 else m
  end.
Definition min_ttl (m : msg_ast) (age maxAge : Z) : Z := spec_min (m_an m ++ m_ns m) age maxAge.

(* boolean spec on one observed rewriting (C07 (b)): per record, the expiry seen
   by clients never moves later and the cap is respected *)
(* boolean spec on the freshness value that decides whether the entry is served (C07 (c)): it is
   positive only while every answer / authority TTL of the rewritten message is *)
Definition min_serves_ok (minttl : Z) (anns_ttls : list Z) : bool :=
  implb (0 <? minttl) (forallb (fun t => 0 <? t) anns_ttls).

Definition ttl_ok (ttl ttl' age maxTTL : Z) : bool :=
  (ttl' + age <=? Z.max ttl age) && (implb (maxTTL >? 0) (ttl' <=? maxTTL)).
