(* Model/Locks.v -- lock-set discipline for shared state guarded by
   sync.RWMutex / sync.Mutex, and the machine it is sound for.
   Threads are straight-line event paths (the translator emits one path per
   control-flow path of each entry point); a table is a list of paths.
   Definitions only. *)
From NX Require Export Bytes.
Open Scope Z_scope.

Inductive mode := MR | MW.
Inductive ev :=
| Acq (l : Z) (m : mode)
| Rel (l : Z)
| Rd (x : Z)
| Wr (x : Z)
| ARd (x : Z)          (* sync/atomic load *)
| AWr (x : Z).         (* sync/atomic store / add *)
Definition path := list ev.

(* locks held after a prefix, with their modes (last acquisition first) *)
Fixpoint remove_lock (l : Z) (h : list (Z * mode)) : list (Z * mode) :=
  match h with
  | [] => []
  | (l', m) :: r => if l =? l' then r else (l', m) :: remove_lock l r
  end.
Fixpoint held (p : path) (h : list (Z * mode)) : list (Z * mode) :=
  match p with
  | [] => h
  | Acq l m :: r => held r ((l, m) :: h)
  | Rel l :: r => held r (remove_lock l h)
  | _ :: r => held r h
  end.

(* accesses of a path with the locks held at that point *)
Inductive akind := KRead | KWrite | KARead | KAWrite.
Fixpoint accesses (p : path) (h : list (Z * mode)) : list (Z * akind * list (Z * mode)) :=
  match p with
  | [] => []
  | Acq l m :: r => accesses r ((l, m) :: h)
  | Rel l :: r => accesses r (remove_lock l h)
  | Rd x :: r => (x, KRead, h) :: accesses r h
  | Wr x :: r => (x, KWrite, h) :: accesses r h
  | ARd x :: r => (x, KARead, h) :: accesses r h
  | AWr x :: r => (x, KAWrite, h) :: accesses r h
  end.

Definition is_write (k : akind) : bool := match k with KWrite | KAWrite => true | _ => false end.
Definition is_atomic (k : akind) : bool := match k with KARead | KAWrite => true | _ => false end.
Definition conflicting (k1 k2 : akind) : bool :=
  (is_write k1 || is_write k2) && negb (is_atomic k1 && is_atomic k2).

(* a common lock that excludes the two holders: held by both, by at least one in write mode *)
Definition mode_w (m : mode) : bool := match m with MW => true | MR => false end.
Definition excl (h1 h2 : list (Z * mode)) : bool :=
  existsb (fun '(l1, m1) => existsb (fun '(l2, m2) => (l1 =? l2) && (mode_w m1 || mode_w m2)) h2) h1.

Definition pair_ok (a1 a2 : Z * akind * list (Z * mode)) : bool :=
  let '(x1, k1, h1) := a1 in let '(x2, k2, h2) := a2 in
  negb ((x1 =? x2) && conflicting k1 k2) || excl h1 h2.

(* every two accesses of any two threads (two instances of one path included) *)
Definition discipline (tbl : list path) : bool :=
  let all := flat_map (fun p => accesses p []) tbl in
  forallb (fun a1 => forallb (fun a2 => pair_ok a1 a2) all) all.

(* no path acquires a lock it already holds (Go mutexes are not reentrant) and
   every release matches a held lock *)
Fixpoint well_bracketed (p : path) (h : list (Z * mode)) : bool :=
  match p with
  | [] => true
  | Acq l m :: r => negb (existsb (fun '(l', _) => l =? l') h) && well_bracketed r ((l, m) :: h)
  | Rel l :: r => existsb (fun '(l', _) => l =? l') h && well_bracketed r (remove_lock l h)
  | _ :: r => well_bracketed r h
  end.

(* ---- the machine ---- *)
(* a thread: the events it has executed (reversed) and the events still to run *)
Record thread := mkT { done_rev : list ev; todo : path }.
Definition thread_held (t : thread) : list (Z * mode) := held (rev (done_rev t)) [].

Definition holds (t : thread) (l : Z) : option mode :=
  match find (fun '(l', _) => l =? l') (thread_held t) with Some (_, m) => Some m | None => None end.

(* thread i may take its next step *)
Definition can_step (ts : list thread) (i : nat) : bool :=
  match nth_error ts i with
  | Some t =>
    match todo t with
    | [] => false
    | Acq l MW :: _ => forallb (fun t' => match holds t' l with None => true | Some _ => false end) ts
    | Acq l MR :: _ => forallb (fun t' => match holds t' l with Some MW => false | _ => true end) ts
    | _ => true
    end
  | None => false
  end.

Fixpoint updt {A} (i : nat) (x : A) (l : list A) : list A :=
  match l, i with
  | [], _ => []
  | _ :: t, O => x :: t
  | h :: t, S i' => h :: updt i' x t
  end.

Definition tstep (ts : list thread) (i : nat) : option (list thread) :=
  if can_step ts i then
    match nth_error ts i with
    | Some (mkT d (e :: r)) => Some (updt i (mkT (e :: d) r) ts)
    | _ => None
    end
  else None.

Fixpoint trun (ts : list thread) (sched : list nat) : option (list thread) :=
  match sched with
  | [] => Some ts
  | i :: r => match tstep ts i with Some ts' => trun ts' r | None => None end
  end.

(* a data race: two different threads whose next events are conflicting accesses
   to the same location *)
Definition next_access (t : thread) : option (Z * akind) :=
  match todo t with
  | Rd x :: _ => Some (x, KRead) | Wr x :: _ => Some (x, KWrite)
  | ARd x :: _ => Some (x, KARead) | AWr x :: _ => Some (x, KAWrite)
  | _ => None
  end.
Definition race (ts : list thread) : Prop :=
  exists i j ti tj x k1 k2, i <> j /\ nth_error ts i = Some ti /\ nth_error ts j = Some tj /\
    next_access ti = Some (x, k1) /\ next_access tj = Some (x, k2) /\ conflicting k1 k2 = true.

(* the same check on the de-duplicated access list (what the instance theorem evaluates) *)
Definition mode_eqb (a b : mode) : bool := match a, b with MR, MR | MW, MW => true | _, _ => false end.
Definition akind_eqb (a b : akind) : bool :=
  match a, b with KRead, KRead | KWrite, KWrite | KARead, KARead | KAWrite, KAWrite => true | _, _ => false end.
Fixpoint held_eqb (a b : list (Z * mode)) : bool :=
  match a, b with
  | [], [] => true
  | (l1, m1) :: r1, (l2, m2) :: r2 => (l1 =? l2) && mode_eqb m1 m2 && held_eqb r1 r2
  | _, _ => false
  end.
Definition acc_eqb (a b : Z * akind * list (Z * mode)) : bool :=
  let '(x1, k1, h1) := a in let '(x2, k2, h2) := b in (x1 =? x2) && akind_eqb k1 k2 && held_eqb h1 h2.
Fixpoint dedup_acc (l acc : list (Z * akind * list (Z * mode))) : list (Z * akind * list (Z * mode)) :=
  match l with
  | [] => acc
  | a :: r => if existsb (acc_eqb a) acc then dedup_acc r acc else dedup_acc r (a :: acc)
  end.
Definition discipline_fast (tbl : list path) : bool :=
  let all := dedup_acc (flat_map (fun p => accesses p []) tbl) [] in
  forallb (fun a1 => forallb (fun a2 => pair_ok a1 a2) all) all.
Definition table_ok (tbl : list path) : bool :=
  forallb (fun p => well_bracketed p []) tbl && discipline_fast tbl.
