(* Model/Discovery.v -- discovery/util.go (appendUniq, absDomainName,
   lowerASCIIBytes), hosts.go readHostsFile, dhcp.go readDNSMasqLease /
   readDHCPDLease, merlin readClientList, and the lookups.  Definitions only.

   Maps are association lists in insertion order (Go map iteration order is
   never observed by the lookups).  The textual IP functions of package net
   (ParseIP / IP.String) are environment: [canon] maps an address token to its
   canonical string, None when net.ParseIP rejects it. *)
From NX Require Export Bytes.
Open Scope Z_scope.

Definition amap := list (bytes * list bytes).

Fixpoint aget (m : amap) (k : bytes) : list bytes :=
  match m with
  | [] => []
  | (k', v) :: r => if beq_bytes k k' then v else aget r k
  end.
Fixpoint aupd (m : amap) (k : bytes) (f : list bytes -> list bytes) : amap :=
  match m with
  | [] => [(k, f [])]
  | (k', v) :: r => if beq_bytes k k' then (k', f v) :: r else (k', v) :: aupd r k f
  end.

(* ---- strings ---- *)
Definition lower_ascii (s : bytes) : bytes := lower s.
Definition abs_name (b : bytes) : bytes :=
  match b with [] => [46] | _ => if last b 0 =? 46 then b else b ++ [46] end.

(* string order as Go compares strings: bytewise lexicographic *)
Fixpoint str_lt (a b : bytes) : bool :=
  match a, b with
  | _, [] => false
  | [], _ :: _ => true
  | x :: a', y :: b' => if x <? y then true else if y <? x then false else str_lt a' b'
  end.

(* appendUniq(set, add) for a single add, after the F5 repair:
   pos = sort.SearchStrings(set, add) (first index with set[i] >= add, by binary
   search -- on a sorted set this is the insertion point); present -> unchanged;
   else insert at pos. *)
(* sort.SearchStrings: binary search for the smallest i in [0,n) with set[i] >= x *)
Fixpoint bsearch (fuel : nat) (set : list bytes) (x : bytes) (lo hi : nat) : nat :=
  match fuel with
  | O => lo
  | S f =>
    if Nat.ltb lo hi then
      let h := Nat.div (lo + hi) 2 in
      if str_lt (nth h set []) x then bsearch f set x (S h) hi else bsearch f set x lo h
    else lo
  end.
Definition search_strings (set : list bytes) (x : bytes) : nat :=
  bsearch (S (length set)) set x 0 (length set).

Definition append_uniq (set : list bytes) (x : bytes) : list bytes :=
  let pos := search_strings set x in
  if Nat.ltb pos (length set) && beq_bytes (nth pos set []) x then set
  else firstn pos set ++ x :: skipn pos set.

(* sorted insertion into a strictly sorted list: the specification *)
Fixpoint insert_sorted (x : bytes) (l : list bytes) : list bytes :=
  match l with
  | [] => [x]
  | y :: r => if str_lt x y then x :: l else if beq_bytes x y then l else y :: insert_sorted x r
  end.

(* ---- file splitting ---- *)
(* bufio.Scanner with ScanLines: split on \n, drop one trailing \r per line,
   a final line without newline counts, an empty final line does not *)
(* list reversal in linear time (List.rev is quadratic when run); frev l = rev l is List.rev_alt *)
Definition frev {A} (l : list A) : list A := rev_append l [].
(* cur: the bytes of the line being read, latest first (linear time on long lines) *)
Fixpoint split_lines_go (s : bytes) (cur : bytes) : list bytes :=
  match s with
  | [] => match cur with [] => [] | _ => [frev cur] end
  | c :: r => if c =? 10 then frev cur :: split_lines_go r [] else split_lines_go r (c :: cur)
  end.
Definition drop_cr (l : bytes) : bytes :=
  match frev l with 13 :: r => frev r | _ => l end.
Definition split_lines (s : bytes) : list bytes := map drop_cr (split_lines_go s []).

(* strings.Fields for ASCII input: split on \t \n \v \f \r and space *)
Definition is_space (c : Z) : bool := (c =? 32) || ((9 <=? c) && (c <=? 13)).
Fixpoint fields_go (s : bytes) (cur : bytes) : list bytes :=
  match s with
  | [] => match cur with [] => [] | _ => [cur] end
  | c :: r => if is_space c then (match cur with [] => fields_go r [] | _ => cur :: fields_go r [] end)
              else fields_go r (cur ++ [c])
  end.
Definition fields (s : bytes) : list bytes := fields_go s [].

Fixpoint strip_comment (s : bytes) : bytes :=
  match s with [] => [] | c :: r => if c =? 35 then [] else c :: strip_comment r end.

(* ---- hosts file ---- *)
Record hosts_tbl := mkHosts { ht_names : amap; ht_addrs : amap }.

Section Hosts.
  Variable canon : bytes -> option bytes.   (* parseLiteralIP *)

  Definition hosts_add_line (t : hosts_tbl) (line : bytes) : hosts_tbl :=
    match fields (strip_comment line) with
    | a :: n1 :: nrest =>
      match canon a with
      | None => t
      | Some addr =>
        fold_left (fun t f =>
          let name := abs_name f in
          let key := abs_name (lower_ascii f) in
          mkHosts (aupd (ht_names t) key (fun v => v ++ [addr]))
                  (aupd (ht_addrs t) addr (fun v => v ++ [name])))
          (n1 :: nrest) t
      end
    | _ => t
    end.

  Definition localhost_s : bytes := [108;111;99;97;108;104;111;115;116].
  Definition localdomain_s : bytes := localhost_s ++ [46;108;111;99;97;108;100;111;109;97;105;110;46].
  Definition lo4 : bytes := [49;50;55;46;48;46;48;46;49].   (* 127.0.0.1 *)
  Definition lo6 : bytes := [58;58;49].                      (* ::1 *)

  Definition add_default (m : amap) (k : bytes) : amap :=
    match aget m k with [] => aupd m k (fun _ => [lo4; lo6]) | _ => m end.

  Definition read_hosts (file : bytes) : hosts_tbl :=
    let t := fold_left hosts_add_line (split_lines file) (mkHosts [] []) in
    (* the code uses the keys "localhost" (no trailing dot: never reachable by a
       lookup, whose keys always end in '.') and "localhost.localdomain." *)
    mkHosts (add_default (add_default (ht_names t) localhost_s) localdomain_s) (ht_addrs t).
End Hosts.

(* prepareHostLookup + map access; Resolver.LookupHost lower-cases first *)
Definition hosts_lookup_host (t : hosts_tbl) (name : bytes) : list bytes :=
  aget (ht_names t) (abs_name (lower_ascii (lower name))).
Definition hosts_lookup_addr (t : hosts_tbl) (addr : bytes) : list bytes :=
  aget (ht_addrs t) (lower addr).

(* ---- dnsmasq lease file ---- *)
Record lease_tbl := mkLease { lt_macs : amap; lt_addrs : amap; lt_names : amap }.
Definition local_s : bytes := [108;111;99;97;108;46].

Definition lease_add (t : lease_tbl) (name mac ip : bytes) (with_ip with_mac : bool) : lease_tbl :=
  let key := abs_name (lower_ascii name) in
  let t1 := if with_ip then
              mkLease (lt_macs t)
                      (aupd (lt_addrs t) ip (fun v => append_uniq v name))
                      (aupd (aupd (lt_names t) key (fun v => append_uniq v ip)) (key ++ local_s) (fun v => append_uniq v ip))
            else t in
  if with_mac then mkLease (aupd (lt_macs t1) mac (fun v => append_uniq v name)) (lt_addrs t1) (lt_names t1) else t1.

Definition dnsmasq_add_line (t : lease_tbl) (line : bytes) : lease_tbl :=
  match fields line with
  | _ :: mac :: ip :: host :: _ :: _ =>
    if beq_bytes host [42] then t
    else lease_add t (abs_name host) (lower mac) (lower ip) true true
  | _ => t
  end.
Definition read_dnsmasq (file : bytes) : lease_tbl :=
  fold_left dnsmasq_add_line (split_lines file) (mkLease [] [] []).

(* ---- isc-dhcpd lease file ---- *)
Fixpoint trim_left_set (cut : Z -> bool) (s : bytes) : bytes :=
  match s with [] => [] | c :: r => if cut c then trim_left_set cut r else s end.
Definition trim_right_set (cut : Z -> bool) (s : bytes) : bytes := rev (trim_left_set cut (rev s)).
Definition trim_set (cut : Z -> bool) (s : bytes) : bytes := trim_right_set cut (trim_left_set cut s).

Record dhcpd_st := mkDst { ds_tbl : lease_tbl; ds_name : bytes; ds_ip : bytes; ds_mac : bytes }.
Definition kw_lease : bytes := [108;101;97;115;101].
Definition kw_hardware : bytes := [104;97;114;100;119;97;114;101].
Definition kw_hostname : bytes := [99;108;105;101;110;116;45;104;111;115;116;110;97;109;101].

Definition dhcpd_add_line (s : dhcpd_st) (line : bytes) : dhcpd_st :=
  match line with
  | 125 :: _ =>   (* "}" *)
    let t := match ds_name s with
             | [] => ds_tbl s
             | n => lease_add (ds_tbl s) (abs_name n) (ds_mac s) (ds_ip s)
                      (negb (beq_bytes (ds_ip s) [])) (negb (beq_bytes (ds_mac s) []))
             end in
    mkDst t [] [] []
  | _ =>
    match fields line with
    | k :: v :: rest =>
      if beq_bytes k kw_lease then mkDst (ds_tbl s) (ds_name s) (lower v) (ds_mac s)
      else if beq_bytes k kw_hardware then
        match rest with
        | m :: _ => mkDst (ds_tbl s) (ds_name s) (ds_ip s) (lower (trim_right_set (fun c => c =? 59) m))
        | [] => s
        end
      else if beq_bytes k kw_hostname then
        mkDst (ds_tbl s) (trim_set (fun c => (c =? 34) || (c =? 59)) v) (ds_ip s) (ds_mac s)
      else s
    | _ => s
    end
  end.
Definition read_dhcpd (file : bytes) : lease_tbl :=
  ds_tbl (fold_left dhcpd_add_line (split_lines file) (mkDst (mkLease [] [] []) [] [] [])).

Definition lease_lookup_host (t : lease_tbl) (name : bytes) : list bytes :=
  aget (lt_names t) (abs_name (lower_ascii (lower name))).
Definition lease_lookup_addr (t : lease_tbl) (addr : bytes) : list bytes := aget (lt_addrs t) (lower addr).
Definition lease_lookup_mac (t : lease_tbl) (mac : bytes) : list bytes := aget (lt_macs t) (lower mac).

(* ---- merlin custom_clientlist: <name>MAC(17)>...<name>MAC>... ---- *)
Fixpoint index_of (c : Z) (s : bytes) (i : Z) : Z :=
  match s with [] => -1 | x :: r => if x =? c then i else index_of c r (i + 1) end.

Fixpoint read_client_list_go (fuel : nat) (b : bytes) (m : amap) : option amap :=
  match fuel with
  | O => Some m   (* unreachable: every iteration consumes at least one byte *)
  | S f =>
    match b with
    | [] => Some m
    | c :: b1 =>
      if (c =? 10) || (c =? 13) then read_client_list_go f b1 m
      else if negb (c =? 60) then None
      else
        let eol := let e := index_of 60 b1 0 in if e =? -1 then len b1 else e in
        let idx := index_of 62 b1 0 in
        if idx =? -1 then None else
        let idx2 := idx + 18 in
        if (idx2 >? eol) || (len b1 <=? idx2) || negb (nth (Z.to_nat idx2) b1 0 =? 62) then None
        else
          let m' := if idx >? 0 then
                      let name := takez idx b1 in
                      let mac := lower (takez 17 (dropz (idx + 1) b1)) in
                      aupd m mac (fun v => append_uniq v name)
                    else m in
          read_client_list_go f (dropz eol b1) m'
    end
  end.
Definition read_client_list (b : bytes) : option amap := read_client_list_go (S (length b)) b [].
