(* Model/ClientInfo.v -- run.go setupClientReporting / shortID / normalizeName
   and the device headers of resolver/doh.go (after the F4 repair: a name that is
   not a valid header value is not sent).  xxhash64 (seed 0) is transcribed from
   the algorithm github.com/cespare/xxhash implements.  Definitions only. *)
From NX Require Export Bytes.
Open Scope Z_scope.

Definition m64 : Z := 18446744073709551616.
Definition w64 (x : Z) : Z := x mod m64.
Definition rotl (x r : Z) : Z := w64 (Z.lor (Z.shiftl x r) (Z.shiftr x (64 - r))).
Definition P1 : Z := 11400714785074694791.
Definition P2 : Z := 14029467366897019727.
Definition P3 : Z := 1609587929392839161.
Definition P4 : Z := 9650029242287828579.
Definition P5 : Z := 2870177450012600261.

Fixpoint le_bytes (l : bytes) : Z :=   (* little endian *)
  match l with [] => 0 | b :: r => b + 256 * le_bytes r end.

Definition xround (acc inp : Z) : Z := w64 (rotl (w64 (acc + inp * P2)) 31 * P1).
Definition merge_round (acc v : Z) : Z := w64 (Z.lxor acc (xround 0 v) * P1 + P4).

(* 32-byte stripes *)
Fixpoint stripes (fuel : nat) (l : bytes) (v1 v2 v3 v4 : Z) : Z * Z * Z * Z * bytes :=
  match fuel with
  | O => (v1, v2, v3, v4, l)
  | S f =>
    if (length l <? 32)%nat then (v1, v2, v3, v4, l)
    else stripes f (skipn 32 l)
           (xround v1 (le_bytes (firstn 8 l))) (xround v2 (le_bytes (firstn 8 (skipn 8 l))))
           (xround v3 (le_bytes (firstn 8 (skipn 16 l)))) (xround v4 (le_bytes (firstn 8 (skipn 24 l))))
  end.

Fixpoint tail8 (fuel : nat) (l : bytes) (h : Z) : Z * bytes :=
  match fuel with
  | O => (h, l)
  | S f => if (length l <? 8)%nat then (h, l)
           else tail8 f (skipn 8 l) (w64 (rotl (Z.lxor h (xround 0 (le_bytes (firstn 8 l)))) 27 * P1 + P4))
  end.
Fixpoint tail1 (l : bytes) (h : Z) : Z :=
  match l with [] => h | b :: r => tail1 r (w64 (rotl (Z.lxor h (w64 (b * P5))) 11 * P1)) end.

Definition xxhash64 (input : bytes) : Z :=
  let n := Z.of_nat (length input) in
  let '(h0, rest) :=
    if (length input <? 32)%nat then (P5, input)
    else let '(v1, v2, v3, v4, rest) := stripes (length input) input (w64 (P1 + P2)) P2 0 (w64 (0 - P1)) in
         let h := w64 (rotl v1 1 + rotl v2 7 + rotl v3 12 + rotl v4 18) in
         (merge_round (merge_round (merge_round (merge_round h v1) v2) v3) v4, rest) in
  let h1 := w64 (h0 + n) in
  let '(h2, rest2) := tail8 (length rest) rest h1 in
  let '(h3, rest3) :=
    if (length rest2 <? 4)%nat then (h2, rest2)
    else (w64 (rotl (Z.lxor h2 (w64 (le_bytes (firstn 4 rest2) * P1))) 23 * P2 + P3), skipn 4 rest2) in
  let h4 := tail1 rest3 h3 in
  let a := Z.lxor h4 (Z.shiftr h4 33) in
  let b := w64 (a * P2) in
  let c := Z.lxor b (Z.shiftr b 29) in
  let d := w64 (c * P3) in
  Z.lxor d (Z.shiftr d 32).

(* strconv.AppendUint(.., 32) *)
Definition digit32 (d : Z) : Z := if d <? 10 then 48 + d else 87 + d.
Fixpoint base32_go (fuel : nat) (n : Z) (acc : bytes) : bytes :=
  match fuel with
  | O => acc
  | S f => if n <? 32 then digit32 n :: acc else base32_go f (n / 32) (digit32 (n mod 32) :: acc)
  end.
Definition base32 (n : Z) : bytes := base32_go 14 n [].

(* shortID(confID, deviceID): the digits overwrite the start of the buffer that
   held confID ++ deviceID (capacity >= 13, zero beyond its length) *)
Definition short_id (conf dev : bytes) : bytes :=
  let buf0 := conf ++ dev in
  let digits := base32 (xxhash64 buf0) in
  let padded := buf0 ++ repeat 0 (13 - length buf0) in
  let buf := digits ++ skipn (length digits) padded in
  map (fun c => if c >=? 97 then Z.lxor c 32 else c) (firstn 5 buf).

(* net.HardwareAddr.String(): lower-case hex pairs separated by ':' *)
Definition hexdig (d : Z) : Z := if d <? 10 then 48 + d else 87 + d.
Fixpoint mac_string (mac : bytes) : bytes :=
  match mac with
  | [] => []
  | [b] => [hexdig (b / 16); hexdig (b mod 16)]
  | b :: r => hexdig (b / 16) :: hexdig (b mod 16) :: 58 :: mac_string r
  end.

(* normalizeName: first name, cut at the first '.' *)
Fixpoint before_dot (s : bytes) : bytes :=
  match s with [] => [] | c :: r => if c =? 46 then [] else c :: before_dot r end.
Definition normalize_name (names : list bytes) : bytes :=
  match names with [] => [] | n :: _ => before_dot n end.

Record client_info := mkCI { ci_id : bytes; ci_ip : bytes; ci_model : bytes; ci_name : bytes }.

Definition str_mac_prefix : bytes := [109;97;99;58].  (* "mac:" *)

(* ClientInfo for a LAN (non-loopback) client.  profile = conf.Get(...) for this
   client; ip_text = PeerIP.String(); ip_raw = the PeerIP byte slice handed to
   shortID; names_by_addr / names_by_mac = discovery lookups *)
Definition lan_client_info (profile ip_text ip_raw : bytes) (mac : option bytes)
                           (names_by_addr : list bytes) (names_by_mac : list bytes) : client_info :=
  let name0 := normalize_name names_by_addr in
  match mac with
  | Some m =>
    let hex := mac_string m in
    let model := if (8 <=? len hex) then str_mac_prefix ++ firstn 8 hex else [] in
    let name := match names_by_mac with [] => name0 | _ => normalize_name names_by_mac end in
    mkCI (short_id profile m) ip_text model name
  | None => mkCI (short_id profile ip_raw) ip_text [] name0
  end.

(* header value validity as net/http checks it (no control bytes but tab) *)
Definition valid_header_value (v : bytes) : bool :=
  forallb (fun b => negb (((b <? 32) && negb (b =? 9)) || (b =? 127))) v.

(* the X-Device-* headers doh.resolve adds: (header index, value); 0 Id 1 Ip 2 Model 3 Name *)
Definition device_headers (ci : option client_info) : list (Z * bytes) :=
  match ci with
  | None => []
  | Some c =>
    (match ci_id c with [] => [] | v => [(0, v)] end) ++
    (match ci_ip c with [] => [] | v => [(1, v)] end) ++
    (match ci_model c with [] => [] | v => [(2, v)] end) ++
    (match ci_name c with [] => [] | v => if valid_header_value v then [(3, v)] else [] end)
  end.
