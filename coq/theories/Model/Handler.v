(* Model/Handler.v -- the concurrent layer of proxy/udp.go serveUDP and
   proxy/tcp.go serveTCP / serveTCPConn: the inflight semaphore, the buffer pool
   and the per-request handler goroutines, as a labelled transition system.
   Readers are the UDP read loop and one loop per TCP connection; each accepted
   message spawns a handler which inherits the reader's token and query buffer.
   Definitions only. *)
From NX Require Export Bytes.
Open Scope Z_scope.

Inductive rproto := RUDP | RTCP.
Inductive rpc_t := RIdle | RAcq | RBuf (b : nat) | RClosed.
Record rthread := mkR { rk : rproto; rpc : rpc_t }.

Inductive hpc_t := HStart | HGot (rb : nat) | HResolved (rb : nat) (wrote : bool) | HDone.
(* wrote = false after HResolved means the handler panicked inside Resolve (recovered):
   it skips the write but still runs the deferred cleanup *)
Record hthread := mkHt { hconn : nat; hq : nat; hpc : hpc_t; hwrites : nat }.

Record hstate := mkHs {
  cap : nat;                 (* MaxInflightRequests *)
  tokens : nat;              (* items in the inflightRequests channel *)
  free : list nat;           (* buffers in the sync.Pool *)
  next : nat;                (* next fresh buffer id (Pool.New) *)
  readers : list rthread;
  handlers : list hthread }.

Definition hinit (k : nat) (rs : list rproto) : hstate :=
  mkHs k 0 [] 0 (map (fun p => mkR p RIdle) rs) [].

Inductive read_res := RdTimeout | RdErr | RdSmall | RdMsg.
Inductive end_kind := EndNormal | EndUpErr | EndTimeout | EndPanic.

Inductive hlabel :=
| RAcquire (i : nat)                 (* inflightRequests <- struct{}{} *)
| RGet (i : nat)                     (* buf := bpool.Get() *)
| RRead (i : nat) (r : read_res)     (* readUDP / readTCP returned *)
| HGetR (j : nat)                    (* rbuf := bpool.Get() *)
| HResolve (j : nat) (e : end_kind)  (* p.Resolve returned / timed out / panicked *)
| HWrite (j : nat)                   (* WriteMsgUDP / writeTCP *)
| HFinish (j : nat)                  (* deferred: Put(buf); Put(rbuf); <-inflightRequests *)
| PoolDrop.                          (* the runtime may drop pooled buffers at any time *)

Fixpoint updl {A} (i : nat) (x : A) (l : list A) : list A :=
  match l, i with
  | [], _ => []
  | _ :: t, O => x :: t
  | h :: t, S i' => h :: updl i' x t
  end.

Definition pool_get (s : hstate) : nat * list nat * nat :=
  match free s with
  | b :: f => (b, f, next s)
  | [] => (next s, [], S (next s))
  end.

Definition hstep (s : hstate) (l : hlabel) : option hstate :=
  match l with
  | RAcquire i =>
    match nth_error (readers s) i with
    | Some (mkR k RIdle) =>
      if Nat.ltb (tokens s) (cap s)
      then Some (mkHs (cap s) (S (tokens s)) (free s) (next s) (updl i (mkR k RAcq) (readers s)) (handlers s))
      else None                                     (* channel full: the send blocks *)
    | _ => None
    end
  | RGet i =>
    match nth_error (readers s) i with
    | Some (mkR k RAcq) =>
      let '(b, f, nx) := pool_get s in
      Some (mkHs (cap s) (tokens s) f nx (updl i (mkR k (RBuf b)) (readers s)) (handlers s))
    | _ => None
    end
  | RRead i r =>
    match nth_error (readers s) i with
    | Some (mkR k (RBuf b)) =>
      match r, k with
      | RdTimeout, RUDP =>   (* <-inflight; bpool.Put(&buf); continue *)
        Some (mkHs (cap s) (pred (tokens s)) (b :: free s) (next s) (updl i (mkR k RIdle) (readers s)) (handlers s))
      | RdTimeout, RTCP => None
      | RdErr, _ =>          (* <-inflight; return (the buffer is left to the GC) *)
        Some (mkHs (cap s) (pred (tokens s)) (free s) (next s) (updl i (mkR k RClosed) (readers s)) (handlers s))
      | RdSmall, RUDP =>     (* bpool.Put(&buf); <-inflight; continue *)
        Some (mkHs (cap s) (pred (tokens s)) (b :: free s) (next s) (updl i (mkR k RIdle) (readers s)) (handlers s))
      | RdSmall, RTCP =>     (* <-inflight; return error *)
        Some (mkHs (cap s) (pred (tokens s)) (free s) (next s) (updl i (mkR k RClosed) (readers s)) (handlers s))
      | RdMsg, _ =>          (* go func(){...}: the handler inherits token and buffer *)
        Some (mkHs (cap s) (tokens s) (free s) (next s) (updl i (mkR k RIdle) (readers s))
                   (handlers s ++ [mkHt i b HStart 0]))
      end
    | _ => None
    end
  | HGetR j =>
    match nth_error (handlers s) j with
    | Some (mkHt c q HStart w) =>
      let '(b, f, nx) := pool_get s in
      Some (mkHs (cap s) (tokens s) f nx (readers s) (updl j (mkHt c q (HGot b) w) (handlers s)))
    | _ => None
    end
  | HResolve j e =>
    match nth_error (handlers s) j with
    | Some (mkHt c q (HGot rb) w) =>
      Some (mkHs (cap s) (tokens s) (free s) (next s) (readers s)
                 (updl j (mkHt c q (HResolved rb (match e with EndPanic => true | _ => false end)) w) (handlers s)))
    | _ => None
    end
  | HWrite j =>
    match nth_error (handlers s) j with
    | Some (mkHt c q (HResolved rb false) w) =>
      Some (mkHs (cap s) (tokens s) (free s) (next s) (readers s)
                 (updl j (mkHt c q (HResolved rb true) (S w)) (handlers s)))
    | _ => None
    end
  | HFinish j =>
    match nth_error (handlers s) j with
    | Some (mkHt c q (HResolved rb true) w) =>
      Some (mkHs (cap s) (pred (tokens s)) (q :: rb :: free s) (next s) (readers s)
                 (updl j (mkHt c q HDone w) (handlers s)))
    | _ => None
    end
  | PoolDrop =>
    match free s with
    | _ :: f => Some (mkHs (cap s) (tokens s) f (next s) (readers s) (handlers s))
    | [] => None
    end
  end.

Fixpoint hrun (s : hstate) (ls : list hlabel) : option hstate :=
  match ls with
  | [] => Some s
  | l :: r => match hstep s l with Some s' => hrun s' r | None => None end
  end.
Definition hreach (k : nat) (rs : list rproto) (s : hstate) : Prop := exists ls, hrun (hinit k rs) ls = Some s.

(* who holds a unit of capacity / which buffers are in use *)
Definition r_holds (r : rthread) : nat := match rpc r with RAcq | RBuf _ => 1 | _ => 0 end.
Definition h_live (h : hthread) : nat := match hpc h with HDone => 0 | _ => 1 end.
Definition r_bufs (r : rthread) : list nat := match rpc r with RBuf b => [b] | _ => [] end.
Definition h_bufs (h : hthread) : list nat :=
  match hpc h with
  | HStart => [hq h]
  | HGot rb | HResolved rb _ => [hq h; rb]
  | HDone => []
  end.
Definition count {A} (f : A -> nat) (l : list A) : nat := fold_right (fun t a => (f t + a)%nat) 0%nat l.
Definition owned (s : hstate) : list nat := flat_map r_bufs (readers s) ++ flat_map h_bufs (handlers s).

(* C04 boolean spec on one observed storm: never more than cap requests inside the
   resolver at once, and afterwards exactly cap slow requests can be inside together *)
Definition c04_ok (k max_during barrier : Z) : bool := (max_during <=? k) && (barrier =? k).
(* with several listen addresses every other UDP read loop may sit idle holding the unit it took before
   reading: between k - (addresses - 1) and k slow requests can be inside together, never more than k *)
Definition c04_ok_multi (k addrs max_during barrier : Z) : bool :=
  (max_during <=? k) && (k - (addrs - 1) <=? barrier) && (barrier <=? k).
