(* Model/Refresh.v -- the lazily refreshed file tables of discovery/hosts.go and discovery/dhcp.go
   (refreshLocked / readHostsLocked / fileInfo.Equal): a lookup first re-checks the file when the
   table has expired (every five seconds), and re-reads it only when its modification time or size
   differ from the ones remembered.  Generic in the table type and the parser.  Definitions only. *)
From NX Require Export Bytes.
Open Scope Z_scope.

Definition refresh_interval : Z := 5000000000.      (* 5 s in ns, as time.Duration *)

Record fstat := mkStat { f_mtime : Z; f_size : Z }.
Definition stat_eqb (a b : fstat) : bool := (f_mtime a =? f_mtime b) && (f_size a =? f_size b).

(* what a lookup finds on disk: nothing, or a file with its stat and content *)
Record fsnap := mkSnapF { s_stat : fstat; s_content : bytes }.

Section Table.
  Variable T : Type.
  Variable parse : bytes -> T.

  Record rstate := mkRS { r_tbl : T; r_info : option fstat; r_expires : Z }.

  Definition remembered (s : rstate) (st : fstat) : bool :=
    match r_info s with Some i => stat_eqb i st | None => false end.

  (* refreshLocked at time now *)
  Definition refresh (s : rstate) (now : Z) (file : option fsnap) : rstate :=
    if now <? r_expires s then s
    else match file with
         | None => mkRS (r_tbl s) (r_info s) (now + refresh_interval)
         | Some f =>
           if remembered s (s_stat f) then mkRS (r_tbl s) (r_info s) (now + refresh_interval)
           else mkRS (parse (s_content f)) (Some (s_stat f)) (now + refresh_interval)
         end.

  (* a history of lookups: (time, what is on disk then) *)
  Definition run (s : rstate) (evs : list (Z * option fsnap)) : rstate :=
    fold_left (fun acc e => refresh acc (fst e) (snd e)) evs s.

  (* the table agrees with the file f: it was parsed from f's content, and f's stat is remembered *)
  Definition in_sync (s : rstate) (f : fsnap) : Prop :=
    r_tbl s = parse (s_content f) /\ remembered s (s_stat f) = true.
End Table.
Arguments mkRS {T}.
Arguments r_tbl {T}.
Arguments r_info {T}.
Arguments r_expires {T}.
