(* Model/Wire.v -- transcription of the parts of internal/dnsmessage (Parser,
   Name.unpackCompressed, skipName, skipResource, unpackOPTResource) that
   resolver/query uses.  Definitions only.

   Conventions: msg : bytes, offsets are Z.  Every Go slice index that the
   code guards with an explicit length test is modelled by the same test;
   reads go through [rd], which yields None when out of range -- callers that
   would index out of range in Go return [Panic]. *)
From NX Require Export Bytes.
Open Scope Z_scope.

(* error enum *)
Definition eBaseLen := 1.    Definition eCalcLen := 2.   Definition eReserved := 3.
Definition eTooManyPtr := 4. Definition eInvalidPtr := 5. Definition eResourceLen := 6.
Definition eNotStarted := 7. Definition eSectionDone := 8. Definition eSegTooLong := 9.
Definition eZeroSegLen := 10. Definition eNonCanonical := 11. Definition eNameTooLong := 12.

Definition rd (msg : bytes) (off : Z) : option Z :=
  if off <? 0 then None else nth_error msg (Z.to_nat off).

(* unpackUint16(msg, off): if off+2 > len(msg) error *)
Definition unpack16 (msg : bytes) (off : Z) : res (Z * Z) :=
  if off + 2 >? len msg then Err eBaseLen else
  match dropz off msg with
  | a :: b :: _ => Ok (u16 a b, off + 2)
  | _ => Panic
  end.

Definition unpack32 (msg : bytes) (off : Z) : res (Z * Z) :=
  if off + 4 >? len msg then Err eBaseLen else
  match dropz off msg with
  | a :: b :: c :: d :: _ => Ok (u32 a b c d, off + 4)
  | _ => Panic
  end.

Definition skip16 (msg : bytes) (off : Z) : res Z :=
  if off + 2 >? len msg then Err eBaseLen else Ok (off + 2).
Definition skip32 (msg : bytes) (off : Z) : res Z :=
  if off + 4 >? len msg then Err eBaseLen else Ok (off + 4).

(* skipName(msg, off) *)
Fixpoint skip_name_loop (fuel : nat) (msg : bytes) (off : Z) : res Z :=
  match fuel with
  | O => OutOfFuel
  | S f =>
    if off >=? len msg then Err eBaseLen else
    match rd msg off with
    | None => Panic
    | Some c =>
      let off1 := off + 1 in
      let k := Z.land c 192 in
      if k =? 0 then
        if c =? 0 then Ok off1
        else let off2 := off1 + c in
             if off2 >? len msg then Err eCalcLen else skip_name_loop f msg off2
      else if k =? 192 then Ok (off1 + 1)
      else Err eReserved
    end
  end.
Definition name_fuel (msg : bytes) : nat := S (length msg).
Definition skip_name (msg : bytes) (off : Z) : res Z := skip_name_loop (name_fuel msg) msg off.

(* Name.unpackCompressed(msg, off, true): returns (name string, newOff) *)
Fixpoint unpack_name_loop (fuel : nat) (msg : bytes) (cur ptr newoff : Z) (name : bytes)
  : res (bytes * Z) :=
  match fuel with
  | O => OutOfFuel
  | S f =>
    if cur >=? len msg then Err eBaseLen else
    match rd msg cur with
    | None => Panic
    | Some c =>
      let cur1 := cur + 1 in
      let k := Z.land c 192 in
      if k =? 0 then
        if c =? 0 then
          let name' := match name with [] => [46] | _ => name end in
          if len name' >? 255 then Err eCalcLen
          else Ok (name', if ptr =? 0 then cur1 else newoff)
        else
          let e := cur1 + c in
          if e >? len msg then Err eCalcLen
          else unpack_name_loop f msg e ptr newoff
                 (name ++ takez c (dropz cur1 msg) ++ [46])
      else if k =? 192 then
        if cur1 >=? len msg then Err eInvalidPtr else
        match rd msg cur1 with
        | None => Panic
        | Some c1 =>
          let cur2 := cur1 + 1 in
          let newoff' := if ptr =? 0 then cur2 else newoff in
          if ptr + 1 >? 10 then Err eTooManyPtr
          else unpack_name_loop f msg (Z.lor (Z.shiftl (Z.lxor c 192) 8) c1) (ptr + 1) newoff' name
        end
      else Err eReserved
    end
  end.
(* every iteration either consumes a label (cur grows by >= 2, stays <= len)
   or follows one of at most 10 pointers: 11 * (len+1) + 1 iterations suffice *)
Definition unpack_fuel (msg : bytes) : nat := S (11 * S (length msg)).
Definition unpack_name (msg : bytes) (off : Z) : res (bytes * Z) :=
  unpack_name_loop (unpack_fuel msg) msg off 0 off [].

(* header *)
Record header := mkHeader {
  h_id : Z; h_bits : Z; h_qd : Z; h_an : Z; h_ns : Z; h_ar : Z }.

Definition unpack_header (msg : bytes) : res (header * Z) :=
  do '(id, o1) <- unpack16 msg 0;
  do '(bits, o2) <- unpack16 msg o1;
  do '(qd, o3) <- unpack16 msg o2;
  do '(an, o4) <- unpack16 msg o3;
  do '(ns, o5) <- unpack16 msg o4;
  do '(ar, o6) <- unpack16 msg o5;
  Ok (mkHeader id bits qd an ns ar, o6).

(* sections: 1 questions, 2 answers, 3 authorities, 4 additionals, 5 done *)
Definition secQ := 1. Definition secAn := 2. Definition secNs := 3. Definition secAr := 4.
Definition count (h : header) (sec : Z) : Z :=
  if sec =? 1 then h_qd h else if sec =? 2 then h_an h else
  if sec =? 3 then h_ns h else if sec =? 4 then h_ar h else 0.

Record rheader := mkRH { rh_name : bytes; rh_type : Z; rh_class : Z; rh_ttl : Z; rh_len : Z }.
Definition rh0 := mkRH [] 0 0 0 0.

Record parser := mkParser {
  p_hdr : header; p_sec : Z; p_off : Z; p_idx : Z; p_hv : bool; p_rh : rheader }.

Definition p_start (msg : bytes) : res parser :=
  do '(h, off) <- unpack_header msg;
  Ok (mkParser h secQ off 0 false rh0).

(* checkAdvance: returns the new parser state and nil (None) or an error *)
Definition check_advance (p : parser) (sec : Z) : parser * option Z :=
  if p_sec p <? sec then (p, Some eNotStarted)
  else if p_sec p >? sec then (p, Some eSectionDone)
  else
    let p1 := mkParser (p_hdr p) (p_sec p) (p_off p) (p_idx p) false (p_rh p) in
    if p_idx p =? count (p_hdr p) sec then
      (mkParser (p_hdr p) (p_sec p + 1) (p_off p) 0 false (p_rh p), Some eSectionDone)
    else (p1, None).

(* Parser.Question *)
Definition p_question (msg : bytes) (p : parser) : parser * res (bytes * Z * Z) :=
  match check_advance p secQ with
  | (p1, Some e) => (p1, Err e)
  | (p1, None) =>
    let r :=
      do '(name, o1) <- unpack_name msg (p_off p1);
      do '(typ, o2) <- unpack16 msg o1;
      do '(cls, o3) <- unpack16 msg o2;
      Ok (name, typ, cls, o3) in
    match r with
    | Ok (name, typ, cls, o3) =>
        (mkParser (p_hdr p1) (p_sec p1) o3 (p_idx p1 + 1) (p_hv p1) (p_rh p1), Ok (name, typ, cls))
    | Err e => (p1, Err e) | Panic => (p1, Panic) | OutOfFuel => (p1, OutOfFuel)
    end
  end.

Definition p_skip_question (msg : bytes) (p : parser) : parser * res unit :=
  match check_advance p secQ with
  | (p1, Some e) => (p1, Err e)
  | (p1, None) =>
    let r := do o1 <- skip_name msg (p_off p1); do o2 <- skip16 msg o1; skip16 msg o2 in
    match r with
    | Ok o3 => (mkParser (p_hdr p1) (p_sec p1) o3 (p_idx p1 + 1) (p_hv p1) (p_rh p1), Ok tt)
    | Err e => (p1, Err e) | Panic => (p1, Panic) | OutOfFuel => (p1, OutOfFuel)
    end
  end.

(* skipResource(msg, off) *)
Definition skip_resource (msg : bytes) (off : Z) : res Z :=
  do o1 <- skip_name msg off;
  do o2 <- skip16 msg o1;
  do o3 <- skip16 msg o2;
  do o4 <- skip32 msg o3;
  do '(l, o5) <- unpack16 msg o4;
  if o5 + l >? len msg then Err eResourceLen else Ok (o5 + l).

(* Parser.skipResource(sec) *)
Definition p_skip_resource (msg : bytes) (p : parser) (sec : Z) : parser * res unit :=
  if p_hv p then
    let newoff := p_off p + rh_len (p_rh p) in
    if newoff >? len msg then (p, Err eResourceLen)
    else (mkParser (p_hdr p) (p_sec p) newoff (p_idx p + 1) false (p_rh p), Ok tt)
  else
    match check_advance p sec with
    | (p1, Some e) => (p1, Err e)
    | (p1, None) =>
      match skip_resource msg (p_off p1) with
      | Ok o => (mkParser (p_hdr p1) (p_sec p1) o (p_idx p1 + 1) (p_hv p1) (p_rh p1), Ok tt)
      | Err e => (p1, Err e) | Panic => (p1, Panic) | OutOfFuel => (p1, OutOfFuel)
      end
    end.

(* SkipAllQuestions / SkipAllAnswers / SkipAllAuthorities: loop until an error;
   ErrSectionDone means nil.  The result error is discarded by query.parse, only
   the parser state matters. *)
Fixpoint skip_all (fuel : nat) (step : parser -> parser * res unit) (p : parser) : res parser :=
  match fuel with
  | O => OutOfFuel
  | S f =>
    match step p with
    | (p1, Ok _) => skip_all f step p1
    | (p1, Err _) => Ok p1
    | (_, Panic) => Panic
    | (_, OutOfFuel) => OutOfFuel
    end
  end.
(* each successful step increments index, which started <= count <= 65535 *)
Definition skip_all_fuel (h : header) (sec : Z) : nat := S (S (Z.to_nat (count h sec))).

(* ResourceHeader.unpack *)
Definition unpack_rheader (msg : bytes) (off : Z) : res (rheader * Z) :=
  do '(name, o1) <- unpack_name msg off;
  do '(typ, o2) <- unpack16 msg o1;
  do '(cls, o3) <- unpack16 msg o2;
  do '(ttl, o4) <- unpack32 msg o3;
  do '(l, o5) <- unpack16 msg o4;
  Ok (mkRH name typ cls ttl l, o5).

(* Parser.resourceHeader(sec) *)
Definition p_resource_header (msg : bytes) (p : parser) (sec : Z) : parser * res rheader :=
  if p_hv p then (p, Ok (p_rh p))
  else
    match check_advance p sec with
    | (p1, Some e) => (p1, Err e)
    | (p1, None) =>
      match unpack_rheader msg (p_off p1) with
      | Ok (h, o) => (mkParser (p_hdr p1) (p_sec p1) o (p_idx p1) true h, Ok h)
      | Err e => (p1, Err e) | Panic => (p1, Panic) | OutOfFuel => (p1, OutOfFuel)
      end
    end.

(* unpackOPTResource(msg, off, length) -> list of (code, data, dataOffset) *)
Record option_ := mkOpt { o_code : Z; o_data : bytes; o_off : Z }.

Fixpoint unpack_opts (fuel : nat) (msg : bytes) (off stop : Z) (acc : list option_)
  : res (list option_) :=
  match fuel with
  | O => OutOfFuel
  | S f =>
    if off <? stop then
      do '(code, o1) <- unpack16 msg off;
      do '(l, o2) <- unpack16 msg o1;
      (* o.Data = make([]byte, l); copy(o.Data, msg[off:]) != int(l) -> error.
         msg[off:] needs off <= len(msg), guaranteed by unpack16's check. *)
      if o2 >? len msg then Panic else
      if len msg - o2 <? l then Err eCalcLen
      else unpack_opts f msg (o2 + l) stop (acc ++ [mkOpt code (takez l (dropz o2 msg)) o2])
    else Ok acc
  end.
Definition opts_fuel (msg : bytes) : nat := S (length msg).

(* Parser.OPTResource *)
Definition p_opt_resource (msg : bytes) (p : parser) : parser * res (list option_) :=
  if negb (p_hv p) || negb (rh_type (p_rh p) =? 41) then (p, Err eNotStarted)
  else
    match unpack_opts (opts_fuel msg) msg (p_off p) (p_off p + rh_len (p_rh p)) [] with
    | Ok os => (mkParser (p_hdr p) (p_sec p) (p_off p + rh_len (p_rh p)) (p_idx p + 1) false (p_rh p), Ok os)
    | Err e => (p, Err e) | Panic => (p, Panic) | OutOfFuel => (p, OutOfFuel)
    end.

(* ---- Name.pack (no compression) as used by replyRCode's Builder.Question ---- *)
(* n = q.Name as string (bytes). Returns the wire form or an error. *)
Fixpoint pack_segments (s : bytes) (seg : bytes) (acc : bytes) : res bytes :=
  match s with
  | [] => Ok (acc ++ [0])
  | c :: s' =>
    if c =? 46 then
      if len seg >=? 64 then Err eSegTooLong
      else if len seg =? 0 then Err eZeroSegLen
      else pack_segments s' [] (acc ++ [len seg] ++ seg)
    else pack_segments s' (seg ++ [c]) acc
  end.

Definition pack_name (n : bytes) : res bytes :=
  if len n >? 255 then Err eNameTooLong (* NewName fails: Name{} -> Length 0 -> non canonical *)
  else match n with
  | [] => Err eNonCanonical
  | _ =>
    if negb (last n 0 =? 46) then Err eNonCanonical
    else match n with
    | [46] => Ok [0]
    | _ => pack_segments n [] []
    end
  end.
