(* Model/Wire.v -- transcription of the parts of internal/dnsmessage (Parser,
   Name.unpackCompressed, skipName, skipResource, unpackOPTResource, Name.pack)
   that resolver/query and proxy/util use.  Definitions only.

   Representation: the parser's position is a cursor (off, rest) with the
   invariant rest = skipn off msg; sequential reads pattern-match on [rest]
   (Go's "if off+k > len(msg) { return err }" followed by msg[off..] is one
   match), compression pointers re-enter the whole message with [dropz].
   Name walking is structural recursion on the remaining bytes, and the
   pointer budget is Go's own "ptr > 10" test, so no artificial fuel is needed
   for names.  Loops bounded by a 16-bit count use that count as fuel. *)
From NX Require Export Bytes.
Open Scope Z_scope.

Definition eBaseLen := 1.    Definition eCalcLen := 2.   Definition eReserved := 3.
Definition eTooManyPtr := 4. Definition eInvalidPtr := 5. Definition eResourceLen := 6.
Definition eNotStarted := 7. Definition eSectionDone := 8. Definition eSegTooLong := 9.
Definition eZeroSegLen := 10. Definition eNonCanonical := 11. Definition eNameTooLong := 12.

Definition cur := (Z * bytes)%type.

Definition get16 (c : cur) : res (Z * cur) :=
  match snd c with
  | a :: b :: r => Ok (u16 a b, (fst c + 2, r))
  | _ => Err eBaseLen
  end.
Definition get32 (c : cur) : res (Z * cur) :=
  match snd c with
  | a :: b :: c' :: d :: r => Ok (u32 a b c' d, (fst c + 4, r))
  | _ => Err eBaseLen
  end.

(* advance exactly k bytes; None when fewer remain *)
Fixpoint drop_exact (k : nat) (l : bytes) : option bytes :=
  match k with
  | O => Some l
  | S k' => match l with [] => None | _ :: r => drop_exact k' r end
  end.
Fixpoint take_exact (k : nat) (l : bytes) : option bytes :=
  match k with
  | O => Some []
  | S k' => match l with [] => None | x :: r =>
              match take_exact k' r with Some t => Some (x :: t) | None => None end end
  end.
Definition advance (k : Z) (c : cur) : option cur :=
  match drop_exact (Z.to_nat k) (snd c) with
  | Some r => Some (fst c + k, r)
  | None => None
  end.

(* skipName(msg, off).  k = bytes of the current label still to skip. *)
Fixpoint skip_name_go (rest : bytes) (k : nat) (off : Z) : res cur :=
  match rest with
  | [] => Err (match k with O => eBaseLen | _ => eCalcLen end)
  | c :: r =>
    match k with
    | S k' => skip_name_go r k' (off + 1)
    | O =>
      let kind := Z.land c 192 in
      if kind =? 0 then
        if c =? 0 then Ok (off + 1, r) else skip_name_go r (Z.to_nat c) (off + 1)
      else if kind =? 192 then
        (* newOff++ without a bounds test: when the pointer's second byte is
           missing every later read fails, as it does on an empty suffix *)
        Ok (off + 2, match r with [] => [] | _ :: r' => r' end)
      else Err eReserved
    end
  end.
Definition skip_name (c : cur) : res cur := skip_name_go (snd c) O (fst c).

(* Name.unpackCompressed: the label walk up to the end of the name or the
   next pointer.  The name is accumulated reversed. *)
Inductive lbl_res :=
| LEnd (rname : bytes) (c : cur)
| LPtr (target : Z) (rname : bytes) (c : cur)
| LErr (e : Z).

Fixpoint labels (rest : bytes) (k : nat) (off : Z) (rname : bytes) : lbl_res :=
  match rest with
  | [] => LErr (match k with O => eBaseLen | _ => eCalcLen end)
  | c :: r =>
    match k with
    | S k' => labels r k' (off + 1) (match k' with O => 46 :: c :: rname | _ => c :: rname end)
    | O =>
      let kind := Z.land c 192 in
      if kind =? 0 then
        if c =? 0 then LEnd rname (off + 1, r) else labels r (Z.to_nat c) (off + 1) rname
      else if kind =? 192 then
        match r with
        | [] => LErr eInvalidPtr
        | c1 :: r' => LPtr (Z.lor (Z.shiftl (Z.lxor c 192) 8) c1) rname (off + 2, r')
        end
      else LErr eReserved
    end
  end.

(* budget = pointers still allowed (Go: "if ptr++; ptr > 10 { errTooManyPtr }") *)
Fixpoint unpack_name_go (budget : nat) (msg : bytes) (c : cur) (first : bool) (rname : bytes) (newc : cur)
  : res (bytes * cur) :=
  match labels (snd c) O (fst c) rname with
  | LErr e => Err e
  | LEnd rn c' =>
    let name := match rn with [] => [46] | _ => rev rn end in
    if len name >? 255 then Err eCalcLen
    else Ok (name, if first then c' else newc)
  | LPtr tgt rn c' =>
    match budget with
    | O => Err eTooManyPtr
    | S b => unpack_name_go b msg (tgt, dropz tgt msg) false rn (if first then c' else newc)
    end
  end.
Definition unpack_name (msg : bytes) (c : cur) : res (bytes * cur) :=
  unpack_name_go 10 msg c true [] c.

(* header *)
Record header := mkHeader {
  h_id : Z; h_bits : Z; h_qd : Z; h_an : Z; h_ns : Z; h_ar : Z }.

Definition unpack_header (msg : bytes) : res (header * cur) :=
  do '(id, c1) <- get16 (0, msg);
  do '(bits, c2) <- get16 c1;
  do '(qd, c3) <- get16 c2;
  do '(an, c4) <- get16 c3;
  do '(ns, c5) <- get16 c4;
  do '(ar, c6) <- get16 c5;
  Ok (mkHeader id bits qd an ns ar, c6).

(* sections: 1 questions, 2 answers, 3 authorities, 4 additionals, 5 done *)
Definition secQ := 1. Definition secAn := 2. Definition secNs := 3. Definition secAr := 4.
Definition count (h : header) (sec : Z) : Z :=
  if sec =? 1 then h_qd h else if sec =? 2 then h_an h else
  if sec =? 3 then h_ns h else if sec =? 4 then h_ar h else 0.

Record rheader := mkRH { rh_name : bytes; rh_type : Z; rh_class : Z; rh_ttl : Z; rh_len : Z }.
Definition rh0 := mkRH [] 0 0 0 0.

Record parser := mkParser {
  p_hdr : header; p_sec : Z; p_cur : cur; p_idx : Z; p_hv : bool; p_rh : rheader }.

Definition p_start (msg : bytes) : res parser :=
  do '(h, c) <- unpack_header msg;
  Ok (mkParser h secQ c 0 false rh0).

Definition set_cur (p : parser) (c : cur) (idx : Z) (hv : bool) (rh : rheader) : parser :=
  mkParser (p_hdr p) (p_sec p) c idx hv rh.

(* checkAdvance *)
Definition check_advance (p : parser) (sec : Z) : parser * option Z :=
  if p_sec p <? sec then (p, Some eNotStarted)
  else if p_sec p >? sec then (p, Some eSectionDone)
  else
    if p_idx p =? count (p_hdr p) sec then
      (mkParser (p_hdr p) (p_sec p + 1) (p_cur p) 0 false (p_rh p), Some eSectionDone)
    else (set_cur p (p_cur p) (p_idx p) false (p_rh p), None).

Definition lift {A B} (p : parser) (r : res A) (k : A -> parser * res B) : parser * res B :=
  match r with
  | Ok a => k a
  | Err e => (p, Err e) | Panic => (p, Panic) | OutOfFuel => (p, OutOfFuel)
  end.

(* Parser.Question *)
Definition p_question (msg : bytes) (p : parser) : parser * res (bytes * Z * Z) :=
  match check_advance p secQ with
  | (p1, Some e) => (p1, Err e)
  | (p1, None) =>
    lift p1 (do '(name, c1) <- unpack_name msg (p_cur p1);
             do '(typ, c2) <- get16 c1;
             do '(cls, c3) <- get16 c2;
             Ok (name, typ, cls, c3))
      (fun '(name, typ, cls, c3) => (set_cur p1 c3 (p_idx p1 + 1) (p_hv p1) (p_rh p1), Ok (name, typ, cls)))
  end.

(* common shape of SkipQuestion and (unlatched) skipResource: checkAdvance, run
   a reader from the current offset, on success store the offset and count *)
Definition generic_skip (reader : cur -> res cur) (p : parser) (sec : Z) : parser * res unit :=
  match check_advance p sec with
  | (p1, Some e) => (p1, Err e)
  | (p1, None) =>
    lift p1 (reader (p_cur p1))
      (fun c => (set_cur p1 c (p_idx p1 + 1) (p_hv p1) (p_rh p1), Ok tt))
  end.

Definition skip_question_body (c : cur) : res cur :=
  do c1 <- skip_name c; do '(_, c2) <- get16 c1; do '(_, c3) <- get16 c2; Ok c3.

Definition p_skip_question (p : parser) : parser * res unit :=
  generic_skip skip_question_body p secQ.

(* skipResource(msg, off) *)
Definition skip_resource (c : cur) : res cur :=
  do c1 <- skip_name c;
  do '(_, c2) <- get16 c1;
  do '(_, c3) <- get16 c2;
  do '(_, c4) <- get32 c3;
  do '(l, c5) <- get16 c4;
  match advance l c5 with Some c6 => Ok c6 | None => Err eResourceLen end.

(* Parser.skipResource(sec) *)
Definition p_skip_resource (p : parser) (sec : Z) : parser * res unit :=
  if p_hv p then
    match advance (rh_len (p_rh p)) (p_cur p) with
    | None => (p, Err eResourceLen)
    | Some c => (set_cur p c (p_idx p + 1) false (p_rh p), Ok tt)
    end
  else generic_skip skip_resource p sec.

(* SkipAllQuestions / SkipAllAnswers / SkipAllAuthorities: loop until an error;
   query.parse discards the error, only the parser state matters.  Each
   successful step increments the index, bounded by the 16-bit section count. *)
Fixpoint skip_all (fuel : nat) (step : parser -> parser * res unit) (p : parser) : res parser :=
  match fuel with
  | O => OutOfFuel
  | S f =>
    match step p with
    | (p1, Ok _) => skip_all f step p1
    | (p1, Err _) => Ok p1
    | (_, Panic) => Panic
    | (_, OutOfFuel) => OutOfFuel
    end
  end.
Definition skip_all_fuel (h : header) (sec : Z) : nat := S (S (Z.to_nat (count h sec))).

(* ResourceHeader.unpack *)
Definition unpack_rheader (msg : bytes) (c : cur) : res (rheader * cur) :=
  do '(name, c1) <- unpack_name msg c;
  do '(typ, c2) <- get16 c1;
  do '(cls, c3) <- get16 c2;
  do '(ttl, c4) <- get32 c3;
  do '(l, c5) <- get16 c4;
  Ok (mkRH name typ cls ttl l, c5).

(* Parser.resourceHeader(sec) *)
Definition p_resource_header (msg : bytes) (p : parser) (sec : Z) : parser * res rheader :=
  if p_hv p then (p, Ok (p_rh p))
  else
    match check_advance p sec with
    | (p1, Some e) => (p1, Err e)
    | (p1, None) =>
      lift p1 (unpack_rheader msg (p_cur p1))
        (fun '(h, c) => (set_cur p1 c (p_idx p1) true h, Ok h))
    end.

(* unpackOPTResource(msg, off, length): options as (code, data, dataOffset).
   left = oldOff + length - off; each iteration consumes >= 4 of it. *)
Record option_ := mkOpt { o_code : Z; o_data : bytes; o_off : Z }.

Fixpoint unpack_opts (fuel : nat) (c : cur) (left : Z) (acc : list option_) : res (list option_) :=
  match fuel with
  | O => OutOfFuel
  | S f =>
    if 0 <? left then
      do '(code, c1) <- get16 c;
      do '(l, c2) <- get16 c1;
      match take_exact (Z.to_nat l) (snd c2), advance l c2 with
      | Some d, Some c3 => unpack_opts f c3 (left - 4 - l) (acc ++ [mkOpt code d (fst c2)])
      | _, _ => Err eCalcLen
      end
    else Ok acc
  end.
Definition opts_fuel (rdlen : Z) : nat := S (Z.to_nat rdlen).

(* Parser.OPTResource (the parser is not used afterwards by query.parse) *)
Definition p_opt_resource (p : parser) : res (list option_) :=
  if negb (p_hv p) || negb (rh_type (p_rh p) =? 41) then Err eNotStarted
  else unpack_opts (opts_fuel (rh_len (p_rh p))) (p_cur p) (rh_len (p_rh p)) [].

(* ---- Name.pack (no compression) as used by replyRCode's Builder.Question ---- *)
Fixpoint pack_segments (s : bytes) (seg : bytes) (acc : bytes) : res bytes :=
  match s with
  | [] => Ok (acc ++ [0])
  | c :: s' =>
    if c =? 46 then
      if len seg >=? 64 then Err eSegTooLong
      else if len seg =? 0 then Err eZeroSegLen
      else pack_segments s' [] (acc ++ [len seg] ++ seg)
    else pack_segments s' (seg ++ [c]) acc
  end.

Definition pack_name (n : bytes) : res bytes :=
  if len n >? 255 then Err eNameTooLong (* NewName fails: Name{} has Length 0 *)
  else match n with
  | [] => Err eNonCanonical
  | _ =>
    if negb (last n 0 =? 46) then Err eNonCanonical
    else match n with
    | [46] => Ok [0]
    | _ => pack_segments n [] []
    end
  end.
