(* Model/Svc.v -- the life cycle of the daemon's service object (run.go: proxySvc.Start /
   Stop / Restart) on one listen address that somebody else may occupy: what every call has
   to report and whether the service holds the address afterwards.  Definitions only.
   This is the specification side of C16 over histories ("bind failures are reported, not
   swallowed": also on the second start, also after a stop); the start wrapper itself is
   Model/Start.v, the listeners Model/Listen.v. *)
From Coq Require Import List Bool.
Import ListNotations.

Inductive svc_op := SvOccupy | SvFree | SvStart | SvStop | SvRestart.
Record svc_st := mkSvc { sv_serving : bool; sv_occupied : bool }.
Definition svc0 : svc_st := mkSvc false false.

(* expected observation of a call: Some (reported success, holds the address afterwards) *)
Definition svc_step (s : svc_st) (o : svc_op) : svc_st * option (bool * bool) :=
  match o with
  | SvOccupy => (mkSvc (sv_serving s) true, None)
  | SvFree => (mkSvc (sv_serving s) false, None)
  | SvStart | SvRestart =>
      if sv_occupied s then (mkSvc false true, Some (false, false))
      else (mkSvc true false, Some (true, true))
  | SvStop => (mkSvc false (sv_occupied s), Some (true, false))
  end.

Fixpoint svc_run (s : svc_st) (ops : list svc_op) : svc_st * list (bool * bool) :=
  match ops with
  | [] => (s, [])
  | o :: r => let (s1, out) := svc_step s o in
              let (s2, outs) := svc_run s1 r in
              (s2, match out with Some x => x :: outs | None => outs end)
  end.

(* histories the harness generates: nobody can take an address the service holds, and
   Start is not called on a running service *)
Fixpoint svc_wf (s : svc_st) (ops : list svc_op) : bool :=
  match ops with
  | [] => true
  | o :: r =>
    (match o with
     | SvOccupy => negb (sv_serving s)
     | SvStart => negb (sv_serving s)
     | _ => true
     end) && svc_wf (fst (svc_step s o)) r
  end.
