(* Model/Profile.v -- config/profile.go: profile.Match, isDefault, Profiles.Get,
   and the URL/context derived from the chosen id (run.go, resolver/doh.go).
   Definitions only.  Addresses are byte lists already normalised as Go's
   To4()/Equal do: 4 bytes for IPv4 (also v4-mapped), 16 for IPv6. *)
From NX Require Export Bytes.
Open Scope Z_scope.

Record cidr := mkCidr { c_ip : bytes; c_bits : Z }.   (* c_ip already masked, as ParseCIDR returns it *)

Record profile := mkProfile {
  pr_id : bytes;
  pr_prefix : option cidr;
  pr_mac : bytes;              (* [] = no MAC condition *)
  pr_dest : list bytes }.      (* [] = no interface condition *)

Record client := mkClient { cl_src : option bytes; cl_dst : option bytes; cl_mac : bytes }.

(* mask byte i of a /bits prefix *)
Definition mask_byte (bits i : Z) : Z :=
  let k := bits - 8 * i in
  if k >=? 8 then 255 else if k <=? 0 then 0 else 256 - 2 ^ (8 - k).

Fixpoint masked (ip : bytes) (bits i : Z) : bytes :=
  match ip with [] => [] | b :: r => Z.land b (mask_byte bits i) :: masked r bits (i + 1) end.

(* IPNet.Contains *)
Definition contains (c : cidr) (ip : bytes) : bool :=
  (Nat.eqb (length ip) (length (c_ip c))) && beq_bytes (masked ip (c_bits c) 0) (c_ip c).

(* profile.Match *)
Definition pmatch (p : profile) (c : client) : bool :=
  (match pr_prefix p with
   | None => true
   | Some n => match cl_src c with None => false | Some ip => contains n ip end
   end) &&
  (match pr_mac p with
   | [] => true
   | m => match cl_mac c with [] => false | cm => beq_bytes m cm end
   end) &&
  (match pr_dest p with
   | [] => true
   | ds => match cl_dst c with None => false | Some ip => existsb (beq_bytes ip) ds end
   end).

Definition is_default (p : profile) : bool :=
  match pr_prefix p, pr_mac p, pr_dest p with None, [], [] => true | _, _, _ => false end.

(* Profiles.Get *)
Fixpoint pget_go (ps : list profile) (c : client) (def : bytes) : bytes :=
  match ps with
  | [] => def
  | p :: r =>
    if pmatch p c then
      if is_default p then pget_go r c (pr_id p) else pr_id p
    else pget_go r c def
  end.
Definition pget (ps : list profile) (c : client) : bytes := pget_go ps c [].

(* independent spec: first conditional match, else the last unconditional entry, else "" *)
Definition conditional_match (c : client) (p : profile) : bool := negb (is_default p) && pmatch p c.
Definition last_default (ps : list profile) : bytes :=
  fold_left (fun acc p => if is_default p then pr_id p else acc) ps [].
Definition pget_spec (ps : list profile) (c : client) : bytes :=
  match find (conditional_match c) ps with
  | Some p => pr_id p
  | None => last_default ps
  end.

(* run.go: "https://dns.nextdns.io/" + profile ; doh.go: "" would become https://0.0.0.0 *)
Definition url_prefix : bytes :=
  [104;116;116;112;115;58;47;47;100;110;115;46;110;101;120;116;100;110;115;46;105;111;47].
Definition url_of (id : bytes) : bytes := url_prefix ++ id.

(* ---- Profiles.Set: replace an entry with the same criteria, else append ---- *)
Definition same_criteria (p q : profile) : bool :=
  (match pr_mac p, pr_mac q with [], _ => false | _, [] => false | a, b => beq_bytes a b end) ||
  (match pr_dest p, pr_dest q with
   | [], _ => false | _, [] => false
   | a, b => (Nat.eqb (length a) (length b)) && forallb (fun x => beq_bytes (fst x) (snd x)) (combine a b)
   end) ||
  (match pr_prefix p, pr_prefix q with
   | Some a, Some b => beq_bytes (c_ip a) (c_ip b) && (c_bits a =? c_bits b)
   | _, _ => false
   end) ||
  (is_default p && is_default q).
Fixpoint pset (ps : list profile) (p : profile) : list profile :=
  match ps with
  | [] => [p]
  | q :: r => if same_criteria p q then p :: r else q :: pset r p
  end.
