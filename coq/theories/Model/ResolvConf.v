(* Model/ResolvConf.v -- host/dns_resolvconf.go setupResolvConf /
   writeTempResolvConf and host/dns_linux.go ResetDNS (after the F10 repair: a
   line is a nameserver line when its first field is "nameserver").  The three
   paths involved and the file-system mutations performed on them, one model op
   per system call.  Definitions only. *)
From NX Require Export Bytes Discovery.
Open Scope Z_scope.

(* a directory entry: a regular file with its content, or a symbolic link (with
   the content of the file it points to, which lives elsewhere and never changes) *)
Inductive node := File (c : bytes) | Link (target_content : bytes).
Definition content (n : node) : bytes := match n with File c => c | Link c => c end.

Record fs := mkFs { resolv : option node; bak : option node; tmp : option node }.

Inductive path := PResolv | PBak | PTmp.
Inductive fs_op :=
| Remove (p : path)
| Create (p : path)                 (* O_CREATE|O_TRUNC *)
| Append (p : path) (line : bytes)  (* one write(2): a line and its newline *)
| Rename (a b : path).

Definition get (f : fs) (p : path) : option node :=
  match p with PResolv => resolv f | PBak => bak f | PTmp => tmp f end.
Definition set (f : fs) (p : path) (n : option node) : fs :=
  match p with
  | PResolv => mkFs n (bak f) (tmp f)
  | PBak => mkFs (resolv f) n (tmp f)
  | PTmp => mkFs (resolv f) (bak f) n
  end.

Definition apply_op (f : fs) (o : fs_op) : fs :=
  match o with
  | Remove p => set f p None
  | Create p => set f p (Some (File []))
  | Append p l => match get f p with
                  | Some (File c) => set f p (Some (File (c ++ l ++ [10])))
                  | _ => f
                  end
  | Rename a b => match get f a with
                  | Some n => set (set f a None) b (Some n)
                  | None => f
                  end
  end.
Definition apply_ops (f : fs) (ops : list fs_op) : fs := fold_left apply_op ops f.

(* strings.TrimSpace for ASCII *)
Definition trim_space (s : bytes) : bytes := trim_set is_space s.

Definition str_nameserver : bytes := [110;97;109;101;115;101;114;118;101;114].
Definition is_comment (l : bytes) : bool := match l with 35 :: _ => true | _ => false end.
Definition is_nameserver (l : bytes) : bool :=
  match fields l with f :: _ => beq_bytes f str_nameserver | [] => false end.

(* the lines kept from the current resolv.conf *)
Definition kept_lines (c : bytes) : list bytes :=
  filter (fun l => negb (beq_bytes l []) && negb (is_comment l) && negb (is_nameserver l))
         (map trim_space (split_lines c)).

Definition header_lines : list bytes :=
  [ [35;32;84;104;105;115;32;102;105;108;101;32;105;115;32;109;97;110;97;103;101;100;32;98;121;32;110;101;120;116;100;110;115;46];
    [35];
    [35;32;82;117;110;32;34;110;101;120;116;100;110;115;32;100;101;97;99;116;105;118;97;116;101;34;32;116;111;32;114;101;115;116;111;114;101;32;112;114;101;118;105;111;117;115;32;99;111;110;102;105;103;117;114;97;116;105;111;110;46];
    [] ].
Definition nameserver_line (dns : bytes) : bytes := str_nameserver ++ [32] ++ dns.

Definition managed_lines (c dns : bytes) : list bytes := header_lines ++ kept_lines c ++ [nameserver_line dns].
Definition managed (c dns : bytes) : bytes := concat (map (fun l => l ++ [10]) (managed_lines c dns)).

(* setupResolvConf: the mutations it performs, in order (none when resolv.conf
   cannot be opened) *)
Definition activate_ops (f : fs) (dns : bytes) : list fs_op :=
  match resolv f with
  | None => []
  | Some n =>
    [Remove PTmp; Create PTmp] ++ map (Append PTmp) (managed_lines (content n) dns) ++
    (match bak f with None => [Rename PResolv PBak] | Some _ => [] end) ++
    [Rename PTmp PResolv]
  end.
Definition deactivate_ops (f : fs) : list fs_op :=
  match bak f with Some _ => [Rename PBak PResolv] | None => [] end.

Definition activate (f : fs) (dns : bytes) : fs := apply_ops f (activate_ops f dns).
Definition deactivate (f : fs) : fs := apply_ops f (deactivate_ops f).

(* the process dies after k of the mutations *)
Definition crash_activate (f : fs) (dns : bytes) (k : nat) : fs := apply_ops f (firstn k (activate_ops f dns)).
Definition crash_deactivate (f : fs) (k : nat) : fs := apply_ops f (firstn k (deactivate_ops f)).

(* the original resolver configuration is safe: it is at resolv.conf with no
   backup present, or it is the backup *)
Definition safe (orig : node) (f : fs) : Prop :=
  (resolv f = Some orig /\ bak f = None) \/ bak f = Some orig.

(* nameserver addresses / other directives of a file *)
Definition nameservers (c : bytes) : list bytes :=
  flat_map (fun l => match fields l with f :: a :: _ => if beq_bytes f str_nameserver then [a] else [] | _ => [] end)
           (map trim_space (split_lines c)).
