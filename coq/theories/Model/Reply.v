(* Model/Reply.v -- what the proxy writes back to a client once the resolver
   layer delivered `rsize` bytes in rbuf: proxy/udp.go:120-131 (truncation),
   proxy/tcp.go writeTCP (length prefix). Definitions only. *)
From NX Require Export Bytes.
Open Scope Z_scope.

Definition maxUDPSize  : Z := 512.
Definition maxDNS0Size : Z := 4094.
Definition maxTCPSize  : Z := 65535.
Definition maxUDPPayload : Z := 65507.   (* what one datagram can carry *)

(* udp.go:
     if rsize > maxUDPSize && (rsize > int(q.MsgSize) || rsize > maxDNS0Size) {
        if q.MsgSize > maxUDPSize { if rsize > int(q.MsgSize) { rsize = int(q.MsgSize) } }
        else { rsize = maxUDPSize }
        rbuf[2] |= 0x2 }
     if rsize > maxUDPPayload { rsize = maxUDPPayload; rbuf[2] |= 0x2 }
   returns the new size and whether the TC bit was OR-ed in. *)
Definition udp_adjust0 (msgsize rsize : Z) : Z * bool :=
  if (rsize >? maxUDPSize) && ((rsize >? msgsize) || (rsize >? maxDNS0Size)) then
    if msgsize >? maxUDPSize then
      ((if rsize >? msgsize then msgsize else rsize), true)
    else (maxUDPSize, true)
  else (rsize, false).
Definition udp_adjust (msgsize rsize : Z) : Z * bool :=
  let '(n, tc) := udp_adjust0 msgsize rsize in
  if n >? maxUDPPayload then (maxUDPPayload, true) else (n, tc).

(* OR 0x2 into byte 2 (the TC bit of the flags' high byte) *)
Definition set_tc (msg : bytes) : bytes :=
  match msg with
  | a :: b :: c :: r => a :: b :: Z.lor c 2 :: r
  | _ => msg
  end.

Definition tc_bit (msg : bytes) : bool :=
  match msg with
  | _ :: _ :: c :: _ => negb (Z.land c 2 =? 0)
  | _ => false
  end.

(* the datagram written for a resolver result `msg` (1 <= len <= 65535) *)
Definition udp_reply (msgsize : Z) (msg : bytes) : bytes :=
  let '(n, tc) := udp_adjust msgsize (len msg) in
  takez n (if tc then set_tc msg else msg).

(* writeTCP: uint16(len(buf)) big-endian, then buf *)
Definition tcp_frame (msg : bytes) : bytes :=
  pack16 (len msg mod 65536) ++ msg.

Definition decode_prefix (frame : bytes) : Z :=
  match frame with a :: b :: _ => u16 a b | _ => -1 end.

(* boolean specification of C05, applied to implementation observations:
   m = advertised size used by the proxy (512 when absent), r = length of the
   upstream message, n = length of the datagram sent, tc = TC bit of it,
   tc0 = TC bit of the upstream message. *)
Definition limit (m : Z) : Z := Z.min 65507 (Z.max 512 m).
Definition c05_udp_ok (m r n : Z) (tc tc0 : bool) : bool :=
  (n <=? limit m) && (implb (n <? r) tc) && (implb (r <=? limit m) (n =? r))
  && (implb tc0 tc).
Definition c05_tcp_ok (r prefix framelen : Z) : bool :=
  (prefix =? r) && (framelen =? r + 2).
