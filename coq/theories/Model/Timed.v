(* Model/Timed.v -- the timing skeleton of one upstream exchange (C03).
   Assumption made explicit in the model: a blocked network operation returns at
   its deadline at the latest (Go runtime / kernel); everything else -- which
   datagram is accepted, when a DoH body counts as complete -- is the code's logic.
   Times are nanoseconds since an arbitrary origin.  Definitions only. *)
From NX Require Export Bytes.
Open Scope Z_scope.

(* ---- DNS53: datagrams as (arrival time, bytes), in arrival order ---- *)
Definition dg_matches (id : Z) (d : bytes) : bool :=
  match d with a :: b :: _ => u16 a b =? id | _ => false end.

(* the read loop of DNS53.resolve under SetDeadline(deadline): returns
   (completion time, Some accepted datagram | None = read error at the deadline) *)
Fixpoint dns_wait (id : Z) (events : list (Z * bytes)) (deadline now : Z) : Z * option bytes :=
  match events with
  | [] => (Z.max now deadline, None)
  | (t, d) :: r =>
    if t >? deadline then (Z.max now deadline, None)
    else
      let now' := Z.max now t in
      if dg_matches id d then (now', Some d) else dns_wait id r deadline now'
  end.

(* ---- DoH: what the server does and when ---- *)
Inductive body_end := EOF_at (t : Z) | Reset_at (t : Z) | Hang.
Inductive doh_script :=
| ConnFail (t : Z)                                   (* refused / reset while dialing, at time t *)
| NoHeaders (e : body_end)                           (* headers never come: reset at t or hang *)
| Response (t_hdr : Z) (status : Z) (chunks : list (Z * bytes)) (e : body_end).

Inductive doh_result := Complete (body : bytes) | Failed.

Definition end_time (e : body_end) (deadline : Z) : Z :=
  match e with EOF_at t => Z.min t deadline | Reset_at t => Z.min t deadline | Hang => deadline end.

(* bytes of the chunks that arrived up to time t *)
Definition body_until (chunks : list (Z * bytes)) (t : Z) : bytes :=
  concat (map snd (filter (fun c => fst c <=? t) chunks)).

Definition doh_exchange (s : doh_script) (start deadline : Z) : Z * doh_result :=
  match s with
  | ConnFail t => (Z.max start (Z.min t deadline), Failed)
  | NoHeaders e => (Z.max start (end_time e deadline), Failed)
  | Response th status chunks e =>
    if th >? deadline then (Z.max start deadline, Failed)
    else if negb (status =? 200) then (Z.max start th, Failed)
    else
      match e with
      | EOF_at t => if t <=? deadline then (Z.max start (Z.max th t), Complete (body_until chunks t))
                    else (Z.max start deadline, Failed)
      | Reset_at t => (Z.max start (Z.max th (Z.min t deadline)), Failed)
      | Hang => (Z.max start deadline, Failed)
      end
  end.
