(* Model/Slots.v -- the UDP read loop of proxy/udp.go (serveUDP) and the request slots it shares with
   the handlers, at the moment serving is stopped.  The loop obtains a slot BEFORE every read; with
   every slot taken by a slow handler it waits there.  `sel` says how it waits: true = a select on the
   slot channel and the serving context (the code after the repair F25), false = a plain channel send
   (the code before).  Handlers may never give their slot back (a query stuck in the upstream with no
   request timeout): the loop's stop must not depend on them.  Definitions only. *)
From NX Require Export Bytes.
Open Scope Z_scope.

Inductive lstate := LAcquiring | LReading | LStopped.
Record sstate := mkSS { s_loop : lstate; s_free : Z; s_cancelled : bool; s_closed : bool }.

Inductive slabel :=
| SAcquire          (* the loop gets a slot *)
| SDatagram         (* a datagram arrives: a handler takes the loop's slot over, the loop acquires again *)
| SHandlerDone      (* some handler gives its slot back *)
| SCancel           (* the serving context is cancelled; the main goroutine then closes the socket *)
| SClose
| SNotice.          (* the loop notices: read error on the closed socket, or the context case of its select *)

Definition sstep (sel : bool) (k : Z) (s : sstate) (l : slabel) : option sstate :=
  match l with
  | SAcquire =>
    match s_loop s with
    | LAcquiring => if 0 <? s_free s then Some (mkSS LReading (s_free s - 1) (s_cancelled s) (s_closed s)) else None
    | _ => None
    end
  | SDatagram =>
    match s_loop s with
    | LReading => if s_closed s then None else Some (mkSS LAcquiring (s_free s) (s_cancelled s) (s_closed s))
    | _ => None
    end
  | SHandlerDone => if s_free s <? k then Some (mkSS (s_loop s) (s_free s + 1) (s_cancelled s) (s_closed s)) else None
  | SCancel => Some (mkSS (s_loop s) (s_free s) true (s_closed s))
  | SClose => if s_cancelled s then Some (mkSS (s_loop s) (s_free s) true true) else None
  | SNotice =>
    match s_loop s with
    | LReading => if s_closed s then Some (mkSS LStopped (s_free s + 1) (s_cancelled s) true) else None
    | LAcquiring => if sel && s_cancelled s then Some (mkSS LStopped (s_free s) true (s_closed s)) else None
    | LStopped => None
    end
  end.

Fixpoint sruns (sel : bool) (k : Z) (s : sstate) (ls : list slabel) : option sstate :=
  match ls with
  | [] => Some s
  | l :: r => match sstep sel k s l with Some s' => sruns sel k s' r | None => None end
  end.

Definition sinit0 (k : Z) : sstate := mkSS LAcquiring k false false.

(* the loop can finish on its own: some step of the LOOP (not of a handler) is enabled, or it has stopped *)
Definition loop_can_move (sel : bool) (k : Z) (s : sstate) : bool :=
  match s_loop s with
  | LStopped => true
  | LReading => s_closed s
  | LAcquiring => (0 <? s_free s) || (sel && s_cancelled s)
  end.
