(* Model/Mdns.v -- discovery/mdns.go table maintenance: addEntry,
   removeOldestEntry (after the F7 repair), the per-record part of read(), the
   lookups.  Time is a logical stamp that grows with every addEntry.
   Definitions only. *)
From NX Require Export Bytes Discovery.
Open Scope Z_scope.

Record mentry := mkME { me_stamp : Z; me_vals : list bytes }.
Definition mmap := list (bytes * mentry).

Fixpoint mget (m : mmap) (k : bytes) : option mentry :=
  match m with [] => None | (k', e) :: r => if beq_bytes k k' then Some e else mget r k end.
Fixpoint mset (m : mmap) (k : bytes) (e : mentry) : mmap :=
  match m with
  | [] => [(k, e)]
  | (k', e') :: r => if beq_bytes k k' then (k', e) :: r else (k', e') :: mset r k e
  end.
Fixpoint mdel (m : mmap) (k : bytes) : mmap :=
  match m with [] => [] | (k', e) :: r => if beq_bytes k k' then r else (k', e) :: mdel r k end.
Definition mvals (m : mmap) (k : bytes) : list bytes :=
  match mget m k with Some e => me_vals e | None => [] end.

Record mdns := mkMdns { md_names : mmap; md_addrs : mmap; md_clock : Z }.
Definition mdns0 : mdns := mkMdns [] [] 0.

(* addEntry(entries, key, value) at time t *)
Definition add_entry (m : mmap) (k v : bytes) (t : Z) : mmap :=
  mset m k (mkME t (append_uniq (mvals m k) v)).

Definition name_key (name : bytes) : bytes := abs_name (lower_ascii (abs_name name)).

(* the key with the smallest stamp (first one among equals in list order; Go's
   map order makes ties arbitrary, the harness never creates ties) *)
Fixpoint oldest (m : mmap) (best : option (bytes * Z)) : option (bytes * Z) :=
  match m with
  | [] => best
  | (k, e) :: r =>
    match best with
    | None => oldest r (Some (k, me_stamp e))
    | Some (_, t) => if me_stamp e <? t then oldest r (Some (k, me_stamp e)) else oldest r best
    end
  end.

(* removeOldestEntry *)
Definition remove_oldest (s : mdns) : mdns :=
  match oldest (md_names s) None with
  | None => s
  | Some (k, _) =>
    let addrs := mvals (md_names s) k in
    let names' := mdel (md_names s) k in
    let addrs' := fold_left (fun am a =>
        match mget am a with
        | None => am
        | Some e =>
          let vs := filter (fun v => negb (beq_bytes (name_key v) k)) (me_vals e) in
          match vs with [] => mdel am a | _ => mset am a (mkME (me_stamp e) vs) end
        end) addrs (md_addrs s) in
    mkMdns names' addrs' (md_clock s)
  end.

Fixpoint evict (fuel : nat) (cap : nat) (s : mdns) : mdns :=
  match fuel with
  | O => s
  | S f => if Nat.ltb cap (length (md_names s)) then evict f cap (remove_oldest s) else s
  end.

(* isValidName *)
Definition all_in (set : Z -> bool) (s : bytes) : bool := forallb set s.
Definition is_digit (c : Z) : bool := (48 <=? c) && (c <=? 57).
Definition is_valid_name (n : bytes) : bool :=
  match n with
  | [] => false
  | [42] => false
  | _ =>
    let l := length n in
    let at_ := (fun i => nth i n 0) in
    if Nat.eqb l 36 && (at_ 8%nat =? 45) && (at_ 13%nat =? 45) && (at_ 18%nat =? 45) && (at_ 23%nat =? 45)
       && all_in (fun c => is_digit c || ((97 <=? c) && (c <=? 102)) || (c =? 45)) n then false
    else if Nat.eqb l 17 && (at_ 2%nat =? 95) && (at_ 5%nat =? 95) && (at_ 8%nat =? 95) && (at_ 11%nat =? 95) && (at_ 14%nat =? 95)
       && all_in (fun c => is_digit c || ((65 <=? c) && (c <=? 70)) || (c =? 95)) n then false
    else if Nat.leb 7 l && Nat.leb l 15 && all_in (fun c => is_digit c || (c =? 45)) n then false
    else true
  end.

(* one (addr, name) pair of a packet, as processed under the lock in read() *)
Definition announce (cap : nat) (s : mdns) (addr name : bytes) : mdns :=
  if negb (is_valid_name name) then s else
  let nm := abs_name name in
  let key := name_key name in
  let t1 := md_clock s + 1 in
  let t2 := md_clock s + 2 in
  let s1 := mkMdns (add_entry (md_names s) key addr t2) (add_entry (md_addrs s) addr nm t1) t2 in
  evict (S (length (md_names s1))) cap s1.

Definition mdns_lookup_host (s : mdns) (name : bytes) : list bytes :=
  mvals (md_names s) (abs_name (lower_ascii (lower name))).
Definition mdns_lookup_addr (s : mdns) (addr : bytes) : list bytes := mvals (md_addrs s) (lower addr).

(* the two views agree: a listed under key k  <->  some spelling with key k listed under a *)
Definition views_agree (s : mdns) : bool :=
  forallb (fun '(k, e) => forallb (fun a => existsb (fun n => beq_bytes (name_key n) k) (mvals (md_addrs s) a)) (me_vals e)) (md_names s)
  && forallb (fun '(a, e) => forallb (fun n => existsb (beq_bytes a) (mvals (md_names s) (name_key n))) (me_vals e)) (md_addrs s).
