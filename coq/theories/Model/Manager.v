(* Model/Manager.v -- resolver/endpoint/manager.go: elections
   (findBestEndpointLocked / testLocked / newActiveEndpointLocked), the active
   endpoint's bookkeeping (shouldTest / setTesting / do) and Manager.Do, as a
   labelled transition system.  An election runs under Manager.mu from start to
   end (queries that try to start meanwhile wait on RLock), so it is one atomic
   step; the environment (providers, probe health, clock) changes by explicit
   steps.  After the F2 repair (unlock on bootstrap error) and the F16 repair
   (no endpoint offered is an error, not a nil endpoint).  Definitions only.
   Time unit: seconds. *)
From NX Require Export Bytes.
Open Scope Z_scope.

Definition ep := Z.                       (* Endpoint.Equal is equality of contents *)
Inductive perr := PPlain | PUnreach.
Inductive presult := PEps (l : list ep) | PFail (e : perr).
Inductive probe := ProbeOk | ProbeFail | ProbeUnreach.

Record mcfg := mkMcfg {
  threshold : Z;                (* ErrorThreshold (0 = 10) *)
  def_interval : Z;             (* MinTestInterval (0 = 2h) *)
  ep_interval : ep -> Z;        (* GetMinTestInterval (0 = use default) *)
  init_ep : option ep }.

Definition eff_threshold (c : mcfg) : Z := if threshold c =? 0 then 10 else threshold c.
Definition interval_of (c : mcfg) (e : ep) : Z :=
  if ep_interval c e =? 0 then (if def_interval c =? 0 then 7200 else def_interval c) else ep_interval c e.
Definition failed_interval : Z := 10.

Record ae := mkAe { a_ep : ep; a_last : Z; a_interval : Z; a_testing : bool; a_errs : Z }.

Inductive event :=
| EvProbe (e : ep) | EvChange (e : ep) | EvError (e : ep) | EvProvErr (j : Z)
| EvUsed (q : Z) (e : ep) | EvQErr (q : Z).

Record env := mkEnv { provs : list presult; health : list (ep * probe); now : Z }.
Fixpoint probe_of (h : list (ep * probe)) (e : ep) : probe :=
  match h with [] => ProbeFail | (e', p) :: r => if e =? e' then p else probe_of r e end.

Record mstate := mkM {
  objs : list ae;               (* every activeEnpoint object ever made, by index *)
  active : option nat;
  pending : list nat;           (* background elections spawned and not yet run: originating object *)
  offered : list ep;            (* ghost: endpoints offered during the last successful election *)
  evlog : list event }.

Definition m0 : mstate := mkM [] None [] [] [].

Definition get_obj (s : mstate) (i : nat) : ae := nth i (objs s) (mkAe 0 0 0 false 0).
Fixpoint upd_nth {A} (i : nat) (x : A) (l : list A) : list A :=
  match l, i with
  | [], _ => []
  | _ :: t, O => x :: t
  | h :: t, S i' => h :: upd_nth i' x t
  end.
Definition set_obj (s : mstate) (i : nat) (a : ae) : mstate :=
  mkM (upd_nth i a (objs s)) (active s) (pending s) (offered s) (evlog s).
Definition add_log (s : mstate) (evs : list event) : mstate :=
  mkM (objs s) (active s) (pending s) (offered s) (evlog s ++ evs).

(* ---- findBestEndpointLocked ---- *)
Inductive best := BOk (e : ep) | BFallback (e : ep) | BErr | BNone.

(* probe the endpoints of one provider in order *)
Fixpoint try_eps (h : list (ep * probe)) (eps : list ep) (evs : list event) : option (option ep) * list event :=
  (* Some (Some e) = elected e; Some None = net-unreachable bubbled up; None = none passed *)
  match eps with
  | [] => (None, evs)
  | e :: r =>
    match probe_of h e with
    | ProbeOk => (Some (Some e), evs ++ [EvProbe e])
    | ProbeUnreach => (Some None, evs ++ [EvProbe e])
    | ProbeFail => try_eps h r (evs ++ [EvProbe e; EvError e])
    end
  end.

Fixpoint find_best_go (h : list (ep * probe)) (ps : list presult) (j : Z) (first : option ep)
                      (seen : list ep) (evs : list event) : best * list ep * list event :=
  match ps with
  | [] => (match first with Some e => BFallback e | None => BNone end, seen, evs)
  | PFail PUnreach :: _ => (BErr, seen, evs)
  | PFail PPlain :: r => find_best_go h r (j + 1) first seen (evs ++ [EvProvErr j])
  | PEps eps :: r =>
    let first' := match first with Some _ => first | None => hd_error eps end in
    match try_eps h eps evs with
    | (Some (Some e), evs') => (BOk e, seen ++ eps, evs')
    | (Some None, evs') => (BErr, seen ++ eps, evs')
    | (None, evs') => find_best_go h r (j + 1) first' (seen ++ eps) evs'
    end
  end.
Definition find_best (en : env) : best * list ep * list event :=
  find_best_go (health en) (provs en) 0 None [] [].

(* newActiveEndpointLocked: reuse the active object when the endpoint is Equal *)
Definition new_active (c : mcfg) (en : env) (s : mstate) (e : ep) : mstate * nat :=
  match active s with
  | Some i => if a_ep (get_obj s i) =? e then (s, i)
              else (mkM (objs s ++ [mkAe e (now en) (interval_of c e) false 0]) (active s) (pending s) (offered s) (evlog s),
                    length (objs s))
  | None => (mkM (objs s ++ [mkAe e (now en) (interval_of c e) false 0]) (active s) (pending s) (offered s) (evlog s),
             length (objs s))
  end.

(* testLocked: returns the new state and whether it succeeded *)
Definition test_locked (c : mcfg) (en : env) (s : mstate) : mstate * bool :=
  let '(b, seen, evs) := find_best en in
  let s0 := add_log s evs in
  match b with
  | BErr => (s0, false)
  | BNone => (s0, false)
  | BOk e | BFallback e =>
    let '(s1, i) := new_active c en s0 e in
    let s2 := match b with
              | BFallback _ => let a := get_obj s1 i in set_obj s1 i (mkAe (a_ep a) (a_last a) failed_interval (a_testing a) (a_errs a))
              | _ => s1 end in
    let changed := match active s2 with Some k => negb (a_ep (get_obj s2 k) =? e) | None => true end in
    let s3 := if changed
              then mkM (objs s2) (Some i) (pending s2) seen (evlog s2 ++ [EvChange e])
              else mkM (objs s2) (active s2) (pending s2) seen (evlog s2) in
    (s3, true)
  end.

(* activeEnpoint.test(): latch testing, spawn one background election *)
Definition spawn (s : mstate) (i : nat) : mstate :=
  let a := get_obj s i in
  if a_testing a then s
  else let s1 := set_obj s i (mkAe (a_ep a) (a_last a) (a_interval a) true (a_errs a)) in
       mkM (objs s1) (active s1) (pending s1 ++ [i]) (offered s1) (evlog s1).

(* ---- labels ---- *)
Inductive label :=
| QStart (q : Z)                     (* Manager.Do up to the call of action *)
| QEnd (q : Z) (i : nat) (ok : bool) (* action returned on the object captured at QStart *)
| Elect                              (* the oldest pending background election runs *)
| ForceTest                          (* Manager.Test called from outside (network change) *)
| Advance (dt : Z)
| SetHealth (e : ep) (p : probe)
| SetProvs (ps : list presult).

Definition set_health (h : list (ep * probe)) (e : ep) (p : probe) : list (ep * probe) := (e, p) :: h.

(* one step: new environment, new state, and for QStart the captured object *)
Definition mstep (c : mcfg) (en : env) (s : mstate) (l : label) : env * mstate * option nat :=
  match l with
  | QStart q =>
    (* getActiveEndpoint *)
    let '(s1, okb) :=
      match active s with
      | Some _ => (s, true)
      | None =>
        match init_ep c with
        | Some e0 =>
          let '(s', i) := new_active c en s e0 in
          let a := get_obj s' i in
          let s'' := set_obj s' i (mkAe (a_ep a) 0 (a_interval a) (a_testing a) (a_errs a)) in
          (mkM (objs s'') (Some i) (pending s'') (offered s'') (evlog s''), true)
        | None => test_locked c en s
        end
      end in
    match active s1, okb with
    | Some i, true =>
      let a := get_obj s1 i in
      (* shouldTest: one thread wins and re-arms the timer, then test() *)
      let s2 := if negb (a_testing a) && (now en - a_last a >? a_interval a)
                then spawn (set_obj s1 i (mkAe (a_ep a) (now en) (a_interval a) (a_testing a) (a_errs a))) i
                else s1 in
      (en, add_log s2 [EvUsed q (a_ep a)], Some i)
    | _, _ => (en, add_log s1 [EvQErr q], None)
    end
  | QEnd q i ok =>
    let a := get_obj s i in
    if ok then (en, set_obj s i (mkAe (a_ep a) (a_last a) (a_interval a) (a_testing a) 0), None)
    else
      let n := (a_errs a + 1) mod 4294967296 in
      let s1 := set_obj s i (mkAe (a_ep a) (a_last a) (a_interval a) (a_testing a) n) in
      (en, if n =? eff_threshold c then spawn s1 i else s1, None)
  | Elect =>
    match pending s with
    | [] => (en, s, None)
    | i :: rest =>
      let s0 := mkM (objs s) (active s) rest (offered s) (evlog s) in
      let '(s1, okb) := test_locked c en s0 in
      (* setTesting(false, reset) on the originating object *)
      let a := get_obj s1 i in
      let s2 := if a_testing a
                then set_obj s1 i (mkAe (a_ep a) (if okb then now en else a_last a) (a_interval a) false (a_errs a))
                else s1 in
      (en, s2, None)
    end
  | ForceTest => let '(s1, _) := test_locked c en s in (en, s1, None)
  | Advance dt => (mkEnv (provs en) (health en) (now en + Z.max 0 dt), s, None)
  | SetHealth e p => (mkEnv (provs en) (set_health (health en) e p) (now en), s, None)
  | SetProvs ps => (mkEnv ps (health en) (now en), s, None)
  end.

Fixpoint mrun (c : mcfg) (en : env) (s : mstate) (ls : list label) : env * mstate :=
  match ls with
  | [] => (en, s)
  | l :: r => let '(en1, s1, _) := mstep c en s l in mrun c en1 s1 r
  end.

(* ---- specification side ---- *)
(* all endpoints offered, in provider then endpoint order (no unreachable errors) *)
Fixpoint all_eps (ps : list presult) : list ep :=
  match ps with [] => [] | PEps l :: r => l ++ all_eps r | PFail _ :: r => all_eps r end.
Definition no_unreach (en : env) : bool :=
  forallb (fun p => match p with PFail PUnreach => false | _ => true end) (provs en) &&
  forallb (fun e => match probe_of (health en) e with ProbeUnreach => false | _ => true end) (all_eps (provs en)).
Definition spec_best (en : env) : best :=
  match find (fun e => match probe_of (health en) e with ProbeOk => true | _ => false end) (all_eps (provs en)) with
  | Some e => BOk e
  | None => match all_eps (provs en) with e :: _ => BFallback e | [] => BNone end
  end.
