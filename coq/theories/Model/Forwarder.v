(* Model/Forwarder.v -- config/forwarder.go: Resolver.Match, Forwarders.Get,
   Forwarders.Resolve (after the F8 repair: comparison is case-insensitive),
   and the catch-all default appended by run.go.  Definitions only. *)
From NX Require Export Bytes.
Open Scope Z_scope.

(* a forwarder: its Domain ("" = no condition, otherwise a name ending in ".")
   and the identity of the upstream it forwards to *)
Record fwd := mkFwd { f_domain : bytes; f_up : Z }.

(* isSubDomain(sub, domain) = strings.HasSuffix(sub, "."+domain) *)
Definition is_subdomain (sub dom : bytes) : bool := has_suffix (46 :: dom) sub.

(* Resolver.Match *)
Definition fwd_match (f : fwd) (qname : bytes) : bool :=
  match f_domain f with
  | [] => true
  | d => let q := lower qname in let dl := lower d in
         beq_bytes q dl || is_subdomain q dl
  end.

(* Forwarders.Get: first match in order *)
Fixpoint fwd_get (fs : list fwd) (qname : bytes) : option Z :=
  match fs with
  | [] => None
  | f :: r => if fwd_match f qname then Some (f_up f) else fwd_get r qname
  end.

(* run.go appends the default (domain-less) NextDNS resolver last *)
Definition default_up : Z := 0.
Definition with_default (fs : list fwd) : list fwd := fs ++ [mkFwd [] default_up].

(* Forwarders.Resolve: the list of upstreams that receive the query *)
Definition fwd_resolve (fs : list fwd) (qname : bytes) : list Z :=
  match fwd_get (with_default fs) qname with Some u => [u] | None => [] end.

(* ---- independent specification over label lists ---- *)
Definition name_string (ls : list bytes) : bytes :=
  match ls with [] => [46] | _ => concat (map (fun l => l ++ [46]) ls) end.

Fixpoint label_suffix (d q : list bytes) : bool :=
  (* d is a suffix of q, labels compared case-insensitively *)
  if Nat.eqb (length d) (length q) then
    forallb (fun p => beq_bytes (lower (fst p)) (lower (snd p))) (combine d q)
  else match q with [] => false | _ :: q' => label_suffix d q' end.

(* boolean spec used on implementation observations: which upstream should a
   query for the labels q reach, given forwarders as (label list option, id) *)
Definition spec_match (dom : option (list bytes)) (q : list bytes) : bool :=
  match dom with None => true | Some d => label_suffix d q end.
Fixpoint spec_get (fs : list (option (list bytes) * Z)) (q : list bytes) : Z :=
  match fs with
  | [] => default_up
  | (d, u) :: r => if spec_match d q then u else spec_get r q
  end.

(* ---- building the list: newResolver's fqdn and Forwarders.Set ---- *)
Definition fqdn (s : bytes) : bytes := if has_suffix [46] s then s else s ++ [46].
(* domain text as written before '=' ; None = no '=' in the value *)
Definition new_fwd (dom : option bytes) (up : Z) : fwd :=
  match dom with None => mkFwd [] up | Some d => mkFwd (fqdn d) up end.
Fixpoint fwd_set (fs : list fwd) (f : fwd) : list fwd :=
  match fs with
  | [] => [f]
  | g :: r => if beq_bytes (f_domain f) (f_domain g) then f :: r else g :: fwd_set r f
  end.

(* split a dotted name into labels (for the spec side of the driver) *)
Fixpoint split_dots (s : bytes) (cur : bytes) : list bytes :=
  match s with
  | [] => match cur with [] => [] | _ => [cur] end
  | c :: r => if c =? 46 then (match cur with [] => split_dots r [] | _ => cur :: split_dots r [] end)
              else split_dots r (cur ++ [c])
  end.
