(* Model/Rmw.v -- check-then-act on guarded state.  A thread that decides on a value it read under a
   lock and writes the location later must still be inside the critical section of that read (or
   have read the location again in the section of the write); otherwise another thread's update in
   between is lost.  `recheck` is the syntactic rule on one path, `cur_reads` the reads still "in
   force" after a prefix.  Definitions only; the machine is the one of Locks.v. *)
From NX Require Export Bytes Locks.
Open Scope Z_scope.

Definition uses (l : Z) (h : list (Z * mode)) : bool := existsb (fun '(l', _) => l =? l') h.
Definition pread := (Z * list (Z * mode))%type.     (* location, locks held when it was read *)
Definition drop_lock (l : Z) (cur : list pread) : list pread := filter (fun '(_, hr) => negb (uses l hr)) cur.

(* the reads in force after the events of p: made under locks none of which has been released since *)
Fixpoint cur_reads_go (p : path) (h : list (Z * mode)) (cur : list pread) : list pread :=
  match p with
  | [] => cur
  | Acq l m :: r => cur_reads_go r ((l, m) :: h) cur
  | Rel l :: r => cur_reads_go r (remove_lock l h) (drop_lock l cur)
  | Rd x :: r => cur_reads_go r h ((x, h) :: cur)
  | _ :: r => cur_reads_go r h cur
  end.
Definition cur_reads (p : path) : list pread := cur_reads_go p [] [].

Definition zmem (x : Z) (l : list Z) : bool := existsb (Z.eqb x) l.
Definition in_force (x : Z) (cur : list pread) : bool := existsb (fun '(y, _) => x =? y) cur.

(* every plain write of a location the path has read before is made while a read of it is in force *)
Fixpoint recheck_go (p : path) (h : list (Z * mode)) (cur : list pread) (seen : list Z) : bool :=
  match p with
  | [] => true
  | Acq l m :: r => recheck_go r ((l, m) :: h) cur seen
  | Rel l :: r => recheck_go r (remove_lock l h) (drop_lock l cur) seen
  | Rd x :: r => recheck_go r h ((x, h) :: cur) (x :: seen)
  | Wr x :: r => (negb (zmem x seen) || in_force x cur) && recheck_go r h cur seen
  | _ :: r => recheck_go r h cur seen
  end.
Definition recheck (p : path) : bool := recheck_go p [] [] [].
Definition frames_ok (fs : list path) : bool := forallb recheck fs.

(* the plain reads of a prefix *)
Fixpoint reads_of (p : path) : list Z :=
  match p with [] => [] | Rd x :: r => x :: reads_of r | _ :: r => reads_of r end.
