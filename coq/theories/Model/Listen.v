(* Model/Listen.v -- proxy/proxy.go ListenAndServe (after the F3 repair: a
   `closed` flag under the registration mutex, late binders close themselves,
   errors are sent before cancel()).  One thread per listener (UDP and TCP of
   every address) plus main; the environment decides bind outcomes and when the
   service is stopped from outside.  Definitions only. *)
From NX Require Export Bytes.
Open Scope Z_scope.

Inductive lerr := EBind | ECanceled | EClose.
Inductive sock := SNone | SOpen | SClosed.
Inductive lpc := LStart | LBound | LServing | LHaveErr (e : lerr) | LSent | LDone.
Record lth := mkTh { l_pc : lpc; l_sock : sock; l_reg : bool }.  (* l_reg: its Close is in closeAll *)
Inductive mpc := MWait | MSendCtx | MClose | MCollect (k : nat) | MReturned.
Inductive bind_outcome := BindOk | BindFail | BindCanceled.

Record gstate := mkG {
  ths : list lth;
  cancelled : bool;            (* ctx.Done() *)
  closed_flag : bool;          (* `closed`, under closeAllMu *)
  chan : list lerr;            (* errs channel (buffered: sends never block) *)
  mainpc : mpc;
  result : option lerr;        (* err accumulated by the collecting loop *)
  (* ghosts *)
  hist : list lerr;            (* everything ever sent on errs, in order *)
  ext : bool;                  (* the context was cancelled from outside *)
  bind_failed : bool }.        (* some listener failed to bind (not because of cancellation) *)

Definition ginit (n : nat) : gstate :=
  mkG (repeat (mkTh LStart SNone false) n) false false [] MWait None [] false false.

Inductive glabel :=
| Bind (i : nat) (o : bind_outcome)
| Register (i : nat)
| ServeReturn (i : nat)
| Send (i : nat)
| Cancel (i : nat)
| MainStep
| ExtCancel.

Fixpoint upd {A} (i : nat) (x : A) (l : list A) : list A :=
  match l, i with
  | [], _ => []
  | _ :: t, O => x :: t
  | h :: t, S i' => h :: upd i' x t
  end.

Definition set_th (s : gstate) (i : nat) (t : lth) : gstate :=
  mkG (upd i t (ths s)) (cancelled s) (closed_flag s) (chan s) (mainpc s) (result s)
      (hist s) (ext s) (bind_failed s).

(* the collecting loop: keep the first error that is not context.Canceled *)
Definition select_err (acc : option lerr) (e : lerr) : option lerr :=
  match acc with
  | None => Some e
  | Some ECanceled => Some e
  | Some x => Some x
  end.

Definition close_th (t : lth) : lth :=
  if l_reg t then mkTh (l_pc t) (match l_sock t with SOpen => SClosed | x => x end) true else t.
Definition close_registered (l : list lth) : list lth := map close_th l.

Definition gstep (s : gstate) (lb : glabel) : option gstate :=
  match lb with
  | Bind i o =>
    match nth_error (ths s) i with
    | Some (mkTh LStart _ _) =>
      match o with
      | BindOk => Some (set_th s i (mkTh LBound SOpen false))
      | BindFail =>
        let s1 := set_th s i (mkTh (LHaveErr EBind) SNone false) in
        Some (mkG (ths s1) (cancelled s1) (closed_flag s1) (chan s1) (mainpc s1) (result s1)
                  (hist s1) (ext s1) true)
      | BindCanceled => if cancelled s then Some (set_th s i (mkTh (LHaveErr ECanceled) SNone false)) else None
      end
    | _ => None
    end
  | Register i =>
    match nth_error (ths s) i with
    | Some (mkTh LBound sk _) =>
      if closed_flag s then Some (set_th s i (mkTh (LHaveErr ECanceled) SClosed false))
      else Some (set_th s i (mkTh LServing sk true))
    | _ => None
    end
  | ServeReturn i =>
    match nth_error (ths s) i with
    | Some (mkTh LServing SClosed rg) => Some (set_th s i (mkTh (LHaveErr EClose) SClosed rg))
    | _ => None
    end
  | Send i =>
    match nth_error (ths s) i with
    | Some (mkTh (LHaveErr e) sk rg) =>
      let s1 := set_th s i (mkTh LSent sk rg) in
      Some (mkG (ths s1) (cancelled s1) (closed_flag s1) (chan s1 ++ [e]) (mainpc s1) (result s1)
                (hist s1 ++ [e]) (ext s1) (bind_failed s1))
    | _ => None
    end
  | Cancel i =>
    match nth_error (ths s) i with
    | Some (mkTh LSent sk rg) =>
      let s1 := set_th s i (mkTh LDone sk rg) in
      Some (mkG (ths s1) true (closed_flag s1) (chan s1) (mainpc s1) (result s1)
                (hist s1) (ext s1) (bind_failed s1))
    | _ => None
    end
  | MainStep =>
    match mainpc s with
    | MWait => if cancelled s
               then Some (mkG (ths s) (cancelled s) (closed_flag s) (chan s) MSendCtx (result s) (hist s) (ext s) (bind_failed s))
               else None
    | MSendCtx => Some (mkG (ths s) (cancelled s) (closed_flag s) (chan s ++ [ECanceled]) MClose (result s)
                            (hist s ++ [ECanceled]) (ext s) (bind_failed s))
    | MClose => Some (mkG (close_registered (ths s)) (cancelled s) true (chan s) (MCollect 0) (result s)
                          (hist s) (ext s) (bind_failed s))
    | MCollect k =>
      match chan s with
      | [] => None
      | e :: rest =>
        let k' := S k in
        Some (mkG (ths s) (cancelled s) (closed_flag s) rest
                  (if Nat.eqb k' (S (length (ths s))) then MReturned else MCollect k')
                  (select_err (result s) e) (hist s) (ext s) (bind_failed s))
      end
    | MReturned => None
    end
  | ExtCancel =>
    if cancelled s then None
    else Some (mkG (ths s) true (closed_flag s) (chan s) (mainpc s) (result s) (hist s) true (bind_failed s))
  end.

Fixpoint grun (s : gstate) (ls : list glabel) : option gstate :=
  match ls with
  | [] => Some s
  | l :: r => match gstep s l with Some s' => grun s' r | None => None end
  end.

Definition greach (n : nat) (s : gstate) : Prop := exists ls, grun (ginit n) ls = Some s.

(* the labels that could possibly be enabled in a state with n listener threads *)
Definition all_labels (n : nat) : list glabel :=
  MainStep :: ExtCancel ::
  flat_map (fun i => [Bind i BindOk; Bind i BindFail; Bind i BindCanceled; Register i; ServeReturn i; Send i; Cancel i]) (seq 0 n).
Definition enabled (s : gstate) : list glabel :=
  filter (fun l => match gstep s l with Some _ => true | None => false end) (all_labels (length (ths s))).

(* C16 boolean spec on one observed run of ListenAndServe: it returned (within the
   watchdog), every address could be bound again at once, the error is not nil,
   and it is the bind error when a bind failed and nobody stopped the service.
   errclass: 0 nil, 1 context.Canceled, 2 bind error, 3 other *)
Definition c16_ok (bind_fail ext_cancel returned rebind : bool) (errclass : Z) : bool :=
  returned && rebind && negb (errclass =? 0) && implb (bind_fail && negb ext_cancel) (errclass =? 2).
