(* Model/ProfText.v -- config/profile.go at the level of text: newConfig (the value of a
   -profile argument or of a `profile` line of the stored file -> condition and profile id)
   and profile.String (what SaveConfig writes).  Definitions only.
   net.ParseCIDR / IPNet.String, net.ParseMAC / HardwareAddr.String and net.InterfaceByName are
   environment: [parse_cidr] and [parse_mac] give the printed form of what the text parses to
   (None: it does not parse), [is_iface] says whether an interface of that name exists. *)
From NX Require Export Bytes FwdText.
Open Scope Z_scope.

Inductive pcond := PNone | PCidr (c : bytes) | PMac (m : bytes) | PIface (n : bytes).
Definition prule := (pcond * bytes)%type.

Section ProfText.
  Variable parse_cidr : bytes -> option bytes.
  Variable parse_mac : bytes -> option bytes.
  Variable is_iface : bytes -> bool.

  Definition prof_text_parse (v : bytes) : option prule :=
    match cut_eq v with
    | None => Some (PNone, v)
    | Some (c, i) =>
      let cond := trim_space c in
      let id := trim_space i in
      match parse_cidr cond with
      | Some x => Some (PCidr x, id)
      | None =>
        match parse_mac cond with
        | Some m => Some (PMac m, id)
        | None => if is_iface cond then Some (PIface cond, id) else None
        end
      end
    end.
End ProfText.

Definition prof_text_show (r : prule) : bytes :=
  match fst r with
  | PNone => snd r
  | PCidr x => x ++ 61 :: snd r
  | PMac m => m ++ 61 :: snd r
  | PIface n => n ++ 61 :: snd r
  end.
