(* Model/ProxyResolve.v -- proxy/proxy.go Proxy.Resolve, proxy/util.go
   hostsResolve / ptrIP / isPrivateReverse (after the F13 repair: the reverse
   name is lower-cased first).  Definitions only. *)
From NX Require Export Bytes Wire Query Discovery Forwarder.
Open Scope Z_scope.

(* ---- strconv.ParseUint(s, base, 8) ---- *)
Definition digit_val (base : Z) (c : Z) : option Z :=
  if (48 <=? c) && (c <=? 57) then Some (c - 48)
  else if base =? 16 then
    if (97 <=? c) && (c <=? 102) then Some (c - 87)
    else if (65 <=? c) && (c <=? 70) then Some (c - 55) else None
  else None.
Fixpoint parse_uint8_go (base : Z) (s : bytes) (acc : Z) : option Z :=
  match s with
  | [] => Some acc
  | c :: r =>
    match digit_val base c with
    | None => None
    | Some d => let acc' := acc * base + d in
                if acc' >? 255 then None else parse_uint8_go base r acc'
    end
  end.
Definition parse_uint8 (base : Z) (s : bytes) : option Z :=
  match s with [] => None | _ => parse_uint8_go base s 0 end.

(* split at the last '.', as the loop in ptrIP does *)
Fixpoint rsplit_go (rs : bytes) (lab : bytes) : bytes * option bytes :=
  (* rs = reversed string; returns (label after the last dot, Some prefix-before-dot) *)
  match rs with
  | [] => (lab, None)
  | c :: r => if c =? 46 then (lab, Some (rev r)) else rsplit_go r (c :: lab)
  end.
Definition rsplit (s : bytes) : bytes * option bytes := rsplit_go (rev s) [].

(* ptrIP's loop: i counts up to l; ip is the byte array being filled *)
Fixpoint ptr_loop (n : nat) (i : Z) (base : Z) (ptr : bytes) (ip : bytes) : option bytes :=
  match n with
  | O => Some ip
  | S n' =>
    match ptr with
    | [] => Some ip
    | _ =>
      let '(lab, pre) := rsplit ptr in
      match pre, lab with
      | Some _, [] => None                       (* idx == len(ptr)-1: trailing dot *)
      | _, _ =>
        match parse_uint8 base lab with
        | None => None
        | Some v =>
          let ii := if base =? 16 then i / 2 else i in
          (* ip6: the first nibble of a byte is its high half (after the repair F26: a name cut after an odd
             number of nibbles denotes the right prefix) *)
          let b := if base =? 16
                   then (if Z.odd i then Z.lor v (nth (Z.to_nat ii) ip 0) else (v * 16) mod 256) else v in
          ptr_loop n' (i + 1) base (match pre with Some p => p | None => [] end)
                   (set_nth (Z.to_nat ii) b ip)
        end
      end
    end
  end.

Definition s_arpa : bytes := [46;97;114;112;97;46].             (* .arpa. *)
Definition s_inaddr : bytes := [46;105;110;45;97;100;100;114].  (* .in-addr *)
Definition s_ip6 : bytes := [46;105;112;54].                    (* .ip6 *)
Definition drop_last (k : nat) (s : bytes) : bytes := firstn (length s - k) s.

Definition ptr_ip (name : bytes) : option bytes :=
  let ptr := lower name in
  if negb (has_suffix s_arpa ptr) then None else
  let p1 := drop_last 6 ptr in
  if has_suffix s_inaddr p1 then ptr_loop 4 0 10 (drop_last 8 p1) (repeat 0 4)
  else if has_suffix s_ip6 p1 then ptr_loop 32 0 16 (drop_last 4 p1) (repeat 0 16)
  else None.

(* net.IP.To4 on 16-byte addresses *)
Definition to4 (ip : bytes) : option bytes :=
  match ip with
  | [a;b;c;d] => Some ip
  | [0;0;0;0;0;0;0;0;0;0;255;255;a;b;c;d] => Some [a;b;c;d]
  | _ => None
  end.

Definition is_private_ip (ip : bytes) : bool :=
  match to4 ip with
  | Some [a;b;_;_] =>
      (a =? 127) || ((a =? 169) && (b =? 254)) ||
      (a =? 10) || ((a =? 172) && (Z.land b 240 =? 16)) || ((a =? 192) && (b =? 168))
  | Some _ => false
  | None =>
    match ip with
    | a :: b :: _ =>
      beq_bytes ip [0;0;0;0;0;0;0;0;0;0;0;0;0;0;0;1] ||
      ((a =? 254) && (Z.land b 192 =? 128)) || (a =? 253)
    | _ => false
    end
  end.
Definition is_private_reverse (name : bytes) : bool :=
  match ptr_ip name with Some ip => is_private_ip ip | None => false end.

(* ---- independent specification of a reverse name (RFC 1035 / 3596) ---- *)
(* labels from the right: in-addr.arpa: decimal octets, most significant last;
   ip6.arpa: hex nibbles.  Missing leading labels count as 0. *)
Definition private_spec (ip : bytes) : bool :=
  match ip with
  | [a;b;c;d] => (a =? 10) || ((a =? 172) && (16 <=? b) && (b <=? 31)) || ((a =? 192) && (b =? 168))
                 || (a =? 127) || ((a =? 169) && (b =? 254))
  | _ => match to4 ip with
         | Some [a;b;c;d] => (a =? 10) || ((a =? 172) && (16 <=? b) && (b <=? 31)) || ((a =? 192) && (b =? 168))
                 || (a =? 127) || ((a =? 169) && (b =? 254))
         | _ => match ip with
                | a :: b :: _ => beq_bytes ip [0;0;0;0;0;0;0;0;0;0;0;0;0;0;0;1]
                                 || ((a =? 254) && (128 <=? b) && (b <=? 191)) || (a =? 253)
                | _ => false
                end
         end
  end.

(* ---- hostsResolve ---- *)
Definition tA := 1. Definition tAAAA := 28. Definition tPTR := 12.
Definition has_dot (s : bytes) : bool := existsb (fun c => c =? 46) s.

Record host_src := mkSrc {
  src_host : bytes -> list bytes;       (* LookupHost *)
  src_addr : bytes -> list bytes }.     (* LookupAddr *)

Section HostsResolve.
  Variable ip_string : option bytes -> bytes.   (* net.IP.String (environment; nil prints "<nil>") *)
  Variable ip_bytes : bytes -> option bytes.    (* net.ParseIP(s) normalised with To4; None when it fails *)

  (* answer records as (type, rdata); None = "not found"/error: the caller falls through *)
  Definition hosts_resolve (r : host_src) (q : query) : option (list (Z * bytes)) :=
    let t := q_type q in
    let '(found, rrs) :=
      if t =? tA then let l := src_host r (q_name q) in (negb (beq_nat (length l) 0), filter has_dot l)
      else if t =? tAAAA then let l := src_host r (q_name q) in (negb (beq_nat (length l) 0), filter (fun s => negb (has_dot s)) l)
      else if t =? tPTR then let l := src_addr r (ip_string (ptr_ip (q_name q))) in
                             (negb (beq_nat (length l) 0), filter (has_suffix [46]) l)
      else (negb (beq_nat (length (src_host r (q_name q))) 0), []) in
    if negb found then None else
    (* p.Start / p.Question on q.Payload *)
    match p_start (q_payload q) with
    | Ok p0 =>
      match p_question (q_payload q) p0 with
      | (_, Ok (qn, _, _)) =>
        (* each record is packed under the question's name; an unpackable name makes
           every record fail.  err keeps the status of the LAST record only. *)
        let name_ok := is_ok (pack_name qn) in
        let step (acc : list (Z * bytes) * bool) (rr : bytes) : (list (Z * bytes) * bool) * bool :=
          (* returns ((answers, last_ok), abort) *)
          if t =? tA then
            match ip_bytes rr with
            | Some ([_;_;_;_] as b) => if name_ok then ((fst acc ++ [(tA, b)], true), false) else ((fst acc, false), false)
            | _ => (acc, false)
            end
          else if t =? tAAAA then
            match ip_bytes rr with
            | Some b => if Nat.eqb (length b) 16 then
                          (if name_ok then ((fst acc ++ [(tAAAA, b)], true), false) else ((fst acc, false), false))
                        else (acc, false)
            | None => (acc, false)
            end
          else if t =? tPTR then
            if len rr >? 255 then (acc, true)     (* NewName fails: return *)
            else match pack_name rr with
                 | Ok w => if name_ok then ((fst acc ++ [(tPTR, w)], true), false) else ((fst acc, false), false)
                 | _ => ((fst acc, false), false)
                 end
          else (acc, false) in
        let fix go (rrs : list bytes) (acc : list (Z * bytes) * bool) : option (list (Z * bytes)) :=
          match rrs with
          | [] => if snd acc then Some (fst acc) else None
          | rr :: rest => let '(acc', abort) := step acc rr in if abort then None else go rest acc'
          end in
        go rrs ([], true)
      | _ => None
      end
    | _ => None
    end.

  (* ---- Proxy.Resolve ---- *)
  Record pcfg := mkCfg { bogus_priv : bool; local : option host_src; disc : option host_src }.

  Inductive up_result := URes (msg : bytes) (err : bool).   (* n = len msg *)

  Inductive presult :=
  | PLocal (ans : list (Z * bytes))     (* answered from the hosts file *)
  | PDisc (ans : list (Z * bytes))      (* answered from discovery *)
  | PNX                                 (* NXDOMAIN made by the proxy *)
  | PUp (msg : bytes) (err : bool).     (* whatever the upstream returned *)

  Definition is_nxdomain (msg : bytes) : bool :=
    match msg with _ :: _ :: _ :: d :: _ => Z.land d 15 =? 3 | _ => false end.

  (* returns the result and the number of upstream calls *)
  Definition proxy_resolve (c : pcfg) (q : query) (up : up_result) : presult * Z :=
    match (match local c with Some r => hosts_resolve r q | None => None end) with
    | Some ans => (PLocal ans, 0)
    | None =>
      let priv := (q_type q =? tPTR) && is_private_reverse (q_name q) in
      let ask := negb (bogus_priv c) || negb priv in
      let '(URes msg err) := if ask then up else URes [] false in
      let calls := if ask then 1 else 0 in
      let fallback :=
        if q_rd q && (beq_nat (length msg) 0 || is_nxdomain msg) then
          match disc c with Some r => hosts_resolve r q | None => None end
        else None in
      match fallback with
      | Some ans => (PDisc ans, calls)
      | None => if bogus_priv c && priv then (PNX, calls) else (PUp msg err, calls)
      end
    end.
End HostsResolve.

(* ---- independent reading of a reverse name (RFC 1035 3.5 / RFC 3596 2.5) ----
   labels from the TLD down: arpa, in-addr, then up to 4 decimal octets (most
   significant first), or arpa, ip6, then up to 32 single hex nibbles; missing
   labels are 0.  Anything else is not a reverse name (no requirement). *)
Definition s_arpa_l : bytes := [97;114;112;97].
Definition s_inaddr_l : bytes := [105;110;45;97;100;100;114].
Definition s_ip6_l : bytes := [105;112;54].

Fixpoint spec_octets (ls : list bytes) : option bytes :=
  match ls with
  | [] => Some []
  | l :: r => match parse_uint8 10 l, spec_octets r with
              | Some v, Some t => if Nat.leb (length l) 3 then Some (v :: t) else None
              | _, _ => None
              end
  end.
Fixpoint spec_nibbles (ls : list bytes) : option (list Z) :=
  match ls with
  | [] => Some []
  | [c] :: r => match digit_val 16 c, spec_nibbles r with Some v, Some t => Some (v :: t) | _, _ => None end
  | _ :: _ => None
  end.
Fixpoint pair_nibbles (ns : list Z) : bytes :=
  match ns with
  | a :: b :: r => (a * 16 + b) :: pair_nibbles r
  | [a] => [a * 16]
  | [] => []
  end.
Definition pad_to (k : nat) (l : bytes) : bytes := l ++ repeat 0 (k - length l).

Definition spec_reverse (name : bytes) : option bytes :=
  match rev (split_dots (lower name) []) with
  | a :: b :: rest =>
    if beq_bytes a s_arpa_l && beq_bytes b s_inaddr_l then
      if Nat.leb (length rest) 4 then
        match spec_octets rest with Some o => Some (pad_to 4 o) | None => None end
      else None
    else if beq_bytes a s_arpa_l && beq_bytes b s_ip6_l then
      if Nat.leb (length rest) 32 then
        match spec_nibbles rest with Some n => Some (pad_to 16 (pair_nibbles n)) | None => None end
      else None
    else None
  | _ => None
  end.

(* C12 boolean spec on one observed exchange: when the name/address is listed in
   the hosts table in use, or bogus-priv is on and the name is the reverse name
   of a private/loopback/link-local address, no upstream call was made *)
Definition c12_ok (has_local bogus : bool) (t : hosts_tbl) (addr_listed : bool) (q : query) (calls : Z) : bool :=
  let listed := has_local &&
     (if q_type q =? tPTR then addr_listed
      else negb (beq_nat (length (hosts_lookup_host t (q_name q))) 0)) in
  let priv := bogus && (q_type q =? tPTR) &&
     match spec_reverse (q_name q) with Some ip => private_spec ip | None => false end in
  implb (listed || priv) (calls =? 0).
