(* Base/Bytes.v -- bytes as Z, big-endian packing, checked list access.
   Definitions only (executable); lemmas live in Proofs/BytesFacts.v. *)
From Coq Require Export List ZArith Bool Lia.
Export ListNotations.
Open Scope Z_scope.

Definition byte := Z.
Definition bytes := list Z.

Definition byte_ok (b : Z) : bool := (0 <=? b) && (b <? 256).
Definition bytes_ok (l : bytes) : bool := forallb byte_ok l.

Definition len {A} (l : list A) : Z := Z.of_nat (length l).

(* big endian *)
Definition u16 (a b : Z) : Z := a * 256 + b.
Definition u32 (a b c d : Z) : Z := ((a * 256 + b) * 256 + c) * 256 + d.
Definition pack16 (n : Z) : bytes := [ (n / 256) mod 256 ; n mod 256 ].
Definition pack32 (n : Z) : bytes :=
  [ (n / 16777216) mod 256 ; (n / 65536) mod 256 ; (n / 256) mod 256 ; n mod 256 ].

(* Go slicing helpers on Z offsets (offsets are always checked by callers;
   a negative offset behaves like 0 in these total versions and callers that
   model Go slice expressions guard them explicitly). *)
Definition dropz {A} (n : Z) (l : list A) : list A := skipn (Z.to_nat n) l.
Definition takez {A} (n : Z) (l : list A) : list A := firstn (Z.to_nat n) l.

(* bitwise helpers used by the DNS header *)
Definition bit_set (b mask : Z) : Z := Z.lor b mask.
Definition has_bit (b mask : Z) : bool := negb (Z.land b mask =? 0).

(* result type shared by every model of Go code that can fail:
   Err carries a small error enum (as Z code), Panic = Go run-time panic,
   OutOfFuel = the model's loop bound was exhausted (never a normal value). *)
Inductive res (A : Type) : Type :=
| Ok (a : A)
| Err (e : Z)
| Panic
| OutOfFuel.
Arguments Ok {A} a.
Arguments Err {A} e.
Arguments Panic {A}.
Arguments OutOfFuel {A}.

Definition bind {A B} (r : res A) (f : A -> res B) : res B :=
  match r with
  | Ok a => f a
  | Err e => Err e
  | Panic => Panic
  | OutOfFuel => OutOfFuel
  end.
Notation "'do' x <- r ; k" := (bind r (fun x => k))
  (at level 200, x name, r at level 100, k at level 200, right associativity).
Notation "'do' ' p <- r ; k" := (bind r (fun x => match x with p => k end))
  (at level 200, p pattern, r at level 100, k at level 200, right associativity).

Definition is_ok {A} (r : res A) : bool := match r with Ok _ => true | _ => false end.

(* replace the element at index i (nat); no-op when out of range *)
Fixpoint set_nth {A} (i : nat) (x : A) (l : list A) : list A :=
  match l, i with
  | [], _ => []
  | _ :: t, O => x :: t
  | h :: t, S i' => h :: set_nth i' x t
  end.

(* ASCII lower-casing of one byte / a string, as Go's strings.ToLower does for
   ASCII input (non-ASCII bytes are left alone here; the engines only feed
   ASCII where ToLower is used, see DESIGN section 3). *)
Definition lower_byte (c : Z) : Z := if (65 <=? c) && (c <=? 90) then c + 32 else c.
Definition lower (s : bytes) : bytes := map lower_byte s.

Fixpoint beq_bytes (a b : bytes) : bool :=
  match a, b with
  | [], [] => true
  | x :: a', y :: b' => (x =? y) && beq_bytes a' b'
  | _, _ => false
  end.

(* suffix / prefix tests on strings *)
Fixpoint has_prefix (p s : bytes) : bool :=
  match p, s with
  | [], _ => true
  | x :: p', y :: s' => (x =? y) && has_prefix p' s'
  | _ :: _, [] => false
  end.
Definition has_suffix (suf s : bytes) : bool :=
  let n := length s in let k := length suf in
  (Nat.leb k n) && beq_bytes (skipn (n - k) s) suf.
