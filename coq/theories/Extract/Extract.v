(* Extraction of the executable model for the correspondence driver.
   ExtrOcamlBasic only (bool, option, list, prod, unit, sumbool mapped to
   OCaml's); Z, positive, nat stay as extracted inductives; no Extract Constant. *)
From Coq Require Import ExtrOcamlBasic.
From NX Require Import Bytes Reply Wire Query Forwarder Profile.
Extraction Language OCaml.
Extraction "model.ml"
  udp_adjust udp_reply tcp_frame tc_bit c05_udp_ok c05_tcp_ok
  parse handle serve upstream_payload servfail find_opts c13_ok c01_ok
  new_fwd fwd_set fwd_resolve spec_get split_dots fqdn
  pset pget pget_spec mkProfile mkClient mkCidr masked.
