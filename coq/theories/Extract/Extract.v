(* Extraction of the executable model for the correspondence driver.
   ExtrOcamlBasic only (bool, option, list, prod, unit, sumbool mapped to
   OCaml's); Z, positive, nat stay as extracted inductives; no Extract Constant. *)
From Coq Require Import ExtrOcamlBasic.
From NX Require Import Bytes Reply Wire Query Forwarder Profile Discovery ProxyResolve Mdns CacheTTL Resolver Manager Listen Handler ResolvConf Config ClientInfo Router Refresh FwdText Svc ProfText.
Extraction Language OCaml.
Extraction "model.ml"
  udp_adjust udp_reply tcp_frame tc_bit c05_udp_ok c05_tcp_ok
  parse handle serve upstream_payload servfail find_opts c13_ok c01_ok
  new_fwd fwd_set fwd_resolve spec_get split_dots fqdn
  pset pget pget_spec mkProfile mkClient mkCidr masked
  refresh mkRS mkStat mkSnapF
  read_hosts hosts_lookup_host hosts_lookup_addr read_dnsmasq read_dhcpd lease_lookup_host lease_lookup_addr lease_lookup_mac
  append_uniq insert_sorted read_client_list str_lt
  update_ttl adjusted_response ttl_ok min_serves_ok
  rstep rstate0 lastmod apply_stamps doh_resolve dns_resolve stored_of key_of_doh key_of_dns c06_ok serves_now
  mstep m0 get_obj spec_best find_best no_unreach c16_ok c04_ok c04_ok_multi
  activate_ops deactivate_ops apply_ops crash_activate crash_deactivate nameservers kept_lines
  apply_items save load parse_cmd
  fwd_text_parse fwd_text_show printed_cond frule_same ascii_text
  svc_run svc0 svc_wf
  prof_text_parse prof_text_show cut_eq trim_space
  short_id lan_client_info device_headers valid_header_value xxhash64 mac_string
  new configure setup restore view c20_setup_ok c20_not_pointing c20_restored mkEnv mkSnap mkCfg
  mdns0 announce views_agree mdns_lookup_host mdns_lookup_addr ptr_ip is_private_reverse spec_reverse private_spec proxy_resolve c12_ok to4.
