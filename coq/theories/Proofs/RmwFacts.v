(* Proofs/RmwFacts.v -- no lost update.  (A) While a read of x made by thread i under locks it still
   holds is "in force", no other thread of a table that passes the lock-set check can be about to
   write x -- in every reachable state of the machine of Locks.v, for any number of threads and any
   schedule.  (B) On a path that passes `recheck`, every plain write of a location the path has read
   before is made while such a read is in force.  Together: the value a check-then-act decision was
   based on is still the current one when the write happens. *)
From NX Require Import Bytes Locks Rmw LockFacts.
From Coq Require Import ZifyBool.
Open Scope Z_scope.

(* ---------- (B) what recheck says ---------- *)
Lemma recheck_go_split : forall pre h cur seen x post,
  recheck_go (pre ++ Wr x :: post) h cur seen = true ->
  (zmem x seen = true \/ In x (reads_of pre)) ->
  in_force x (cur_reads_go pre h cur) = true.
Proof.
  induction pre as [|e pre IH]; intros h cur seen x post H Hs; cbn [app recheck_go cur_reads_go reads_of] in *.
  - apply andb_prop in H as [H _]. destruct Hs as [Hs|[]]. rewrite Hs in H. cbn [negb orb] in H. exact H.
  - destruct e as [l m|l|y|y|y|y]; cbn [reads_of] in Hs.
    + eapply IH; eassumption.
    + eapply IH; eassumption.
    + eapply IH; [exact H|]. destruct Hs as [Hs|[->|Hs]]; [left|left|right; exact Hs].
      * unfold zmem in *. cbn [existsb]. rewrite Hs. apply orb_true_r.
      * unfold zmem. cbn [existsb]. rewrite Z.eqb_refl. reflexivity.
    + apply andb_prop in H as [_ H]. eapply IH; eassumption.
    + eapply IH; eassumption.
    + eapply IH; eassumption.
Qed.

Theorem recheck_write_in_force p pre x post :
  recheck p = true -> p = pre ++ Wr x :: post -> In x (reads_of pre) -> in_force x (cur_reads pre) = true.
Proof. intros H -> Hr. unfold recheck in H. unfold cur_reads. eapply recheck_go_split; [exact H|right; exact Hr]. Qed.

(* ---------- invariants of cur_reads ---------- *)
Lemma wb_prefix p : forall q h, well_bracketed (p ++ q) h = true -> well_bracketed p h = true.
Proof.
  induction p as [|e p IH]; intros q h H; [reflexivity|]. cbn [app well_bracketed] in *.
  destruct e; try (eapply IH; exact H); apply andb_true_iff in H as [H1 H]; rewrite H1; eapply IH; exact H.
Qed.

Lemma uses_false_neq l hr l' m' : uses l hr = false -> In (l', m') hr -> l' <> l.
Proof.
  unfold uses. intros H Hin ->. assert (existsb (fun '(l'0, _) => l =? l'0) hr = true); [|congruence].
  apply existsb_exists. exists (l, m'). split; [exact Hin|apply Z.eqb_refl].
Qed.

Section CurReads.
  Variable P : path.
  Hypothesis HwbP : well_bracketed P [] = true.

  Definition good (hnow : list (Z * mode)) (e : pread) : Prop :=
    In (fst e, KRead, snd e) (accesses P []) /\ incl (snd e) hnow.

  Lemma crg_inv : forall done pre0 rest cur,
    P = pre0 ++ done ++ rest ->
    (forall e, In e cur -> good (held pre0 []) e) ->
    forall e, In e (cur_reads_go done (held pre0 []) cur) -> good (held (pre0 ++ done) []) e.
  Proof.
    induction done as [|ev done IH]; intros pre0 rest cur HP Hc e He; cbn [cur_reads_go] in He.
    - rewrite app_nil_r. apply Hc. exact He.
    - assert (HP' : P = (pre0 ++ [ev]) ++ done ++ rest) by (rewrite HP, <- app_assoc; reflexivity).
      assert (Hnd : NoDup (keys (held pre0 []))).
      { apply wb_nodup; [|constructor]. rewrite HP in HwbP. eapply wb_prefix. exact HwbP. }
      replace (pre0 ++ ev :: done) with ((pre0 ++ [ev]) ++ done) by (rewrite <- app_assoc; reflexivity).
      assert (Hh : held (pre0 ++ [ev]) [] = held [ev] (held pre0 [])) by apply held_app.
      destruct ev as [l m|l|y|y|y|y]; cbn [held] in Hh.
      + apply (IH (pre0 ++ [Acq l m]) rest cur HP'); [|rewrite Hh; exact He].
        intros e' He'. destruct (Hc e' He') as [A B]. split; [exact A|]. rewrite Hh. intros a Ha. right. apply B. exact Ha.
      + apply (IH (pre0 ++ [Rel l]) rest (drop_lock l cur) HP'); [|rewrite Hh; exact He].
        intros [x hr] He'. unfold drop_lock in He'. apply filter_In in He' as [He' Hu]. apply negb_true_iff in Hu.
        destruct (Hc _ He') as [A B]. split; [exact A|]. rewrite Hh. cbn [snd] in *. intros [l' m'] Ha.
        apply (proj2 (proj2 (proj2 (keys_remove l (held pre0 []) Hnd)) l' m' (uses_false_neq _ _ _ _ Hu Ha))). apply B. exact Ha.
      + apply (IH (pre0 ++ [Rd y]) rest ((y, held pre0 []) :: cur) HP'); [|rewrite Hh; exact He].
        intros e' [<-|He']; [|rewrite Hh; apply Hc; exact He'].
        split; cbn [fst snd]; [|rewrite Hh; apply incl_refl].
        rewrite HP. apply accesses_mid; [reflexivity|exact I].
      + apply (IH (pre0 ++ [Wr y]) rest cur HP'); [|rewrite Hh; exact He]. intros e' He'. rewrite Hh. apply Hc. exact He'.
      + apply (IH (pre0 ++ [ARd y]) rest cur HP'); [|rewrite Hh; exact He]. intros e' He'. rewrite Hh. apply Hc. exact He'.
      + apply (IH (pre0 ++ [AWr y]) rest cur HP'); [|rewrite Hh; exact He]. intros e' He'. rewrite Hh. apply Hc. exact He'.
  Qed.

  Lemma cur_reads_good done rest e : P = done ++ rest -> In e (cur_reads done) -> good (held done []) e.
  Proof.
    intros HP He. apply (crg_inv done [] rest [] HP); [intros e' []|exact He].
  Qed.
End CurReads.

(* ---------- (A) exclusion ---------- *)
Section Excl.
  Variable tbl : list path.
  Hypothesis Hwb : forall p, In p tbl -> well_bracketed p [] = true.
  Hypothesis Hdisc : discipline tbl = true.

  Theorem rmw_exclusive ps sched ts i ti x hr :
    (forall p, In p ps -> In p tbl) -> trun (start ps) sched = Some ts ->
    nth_error ts i = Some ti -> In (x, hr) (cur_reads (rev (done_rev ti))) ->
    forall j tj, j <> i -> nth_error ts j = Some tj -> next_access tj <> Some (x, KWrite).
  Proof.
    intros Hps Hr Hi Hcur j tj Hji Hj Nj.
    pose proof (trun_inv tbl Hwb sched _ _ (start_inv tbl ps Hps) Hr) as [Hp Hx].
    pose proof (Hp _ _ Hi) as Hpi. pose proof (Hp _ _ Hj) as Hpj.
    destruct (cur_reads_good (tpath ti) (Hwb _ Hpi) (rev (done_rev ti)) (todo ti) (x, hr) eq_refl Hcur) as [Ai Bi].
    cbn [fst snd] in Ai, Bi.
    assert (Aj : In (x, KWrite, thread_held tj) (accesses (tpath tj) [])).
    { unfold tpath, thread_held. unfold next_access in Nj. destruct (todo tj) as [|e r]; [discriminate|].
      apply accesses_mid; destruct e; try discriminate; inversion Nj; subst; try reflexivity; exact I. }
    unfold discipline in Hdisc. rewrite forallb_forall in Hdisc.
    assert (Hall : forall t, In (tpath t) tbl -> forall a, In a (accesses (tpath t) []) -> In a (flat_map (fun p => accesses p []) tbl)).
    { intros t Ht a Ha. apply in_flat_map. exists (tpath t). split; assumption. }
    specialize (Hdisc _ (Hall ti Hpi _ Ai)). rewrite forallb_forall in Hdisc.
    specialize (Hdisc _ (Hall tj Hpj _ Aj)). unfold pair_ok in Hdisc.
    rewrite Z.eqb_refl in Hdisc. cbn [conflicting is_write is_atomic andb orb negb] in Hdisc.
    unfold excl in Hdisc. apply existsb_exists in Hdisc as ([l1 m1] & H1 & Hd).
    apply existsb_exists in Hd as ([l2 m2] & H2 & Hd). apply andb_true_iff in Hd as [El Hm]. apply Z.eqb_eq in El. subst l2.
    pose proof (thread_nodup tbl Hwb ti Hpi) as Ndi. pose proof (thread_nodup tbl Hwb tj Hpj) as Ndj.
    assert (H1' : In (l1, m1) (thread_held ti)) by (apply Bi; exact H1).
    pose proof (lookup_in _ _ _ Ndi H1') as L1. pose proof (lookup_in _ _ _ Ndj H2) as L2.
    assert (Hij : i <> j) by congruence.
    destruct m1.
    - destruct m2; [discriminate|]. pose proof (Hx j i tj ti l1 Hji Hj Hi L2). congruence.
    - pose proof (Hx i j ti tj l1 Hij Hi Hj L1). congruence.
  Qed.
End Excl.

(* non-vacuity: the double-checked update (read under the read lock, re-read under the write lock,
   write) passes; dropping the re-read does not *)
Example recheck_examples :
  recheck [Acq 1 MR; Rd 7; Rel 1; Acq 1 MW; Rd 7; Wr 7; Rel 1] = true /\
  recheck [Acq 1 MR; Rd 7; Rel 1; Acq 1 MW; Wr 7; Rel 1] = false /\
  recheck [Acq 1 MW; Wr 7; Rel 1] = true /\
  cur_reads [Acq 1 MR; Rd 7; Rel 1; Acq 1 MW; Rd 7] = [(7, [(1, MW)])].
Proof. vm_compute. repeat split. Qed.

(* (A) for a table accepted by the boolean check *)
Theorem rmw_exclusive_ok tbl : table_ok tbl = true ->
  forall ps sched ts i ti x hr,
  (forall p, In p ps -> In p tbl) -> trun (start ps) sched = Some ts ->
  nth_error ts i = Some ti -> In (x, hr) (cur_reads (rev (done_rev ti))) ->
  forall j tj, j <> i -> nth_error ts j = Some tj -> next_access tj <> Some (x, KWrite).
Proof.
  intros H. unfold table_ok in H. apply andb_prop in H as [Hw Hd].
  apply rmw_exclusive.
  - intros p Hp. rewrite forallb_forall in Hw. apply Hw. exact Hp.
  - apply discipline_fast_sound. exact Hd.
Qed.
