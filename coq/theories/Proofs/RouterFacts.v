(* Proofs/RouterFacts.v -- C20: what the running dnsmasq has loaded after
   Configure + Setup and after Restore, for every firmware, every setting and every
   pre-existing router state. *)
From NX Require Import Bytes Discovery ResolvConf Router.
From Coq Require Import ZifyBool String.
Open Scope Z_scope.

(* ---- the firmwares whose integration is one drop-in file ---- *)
Definition dropin_fw (f : fw) : bool :=
  match f with Edgeos | Ubios | Firewalla => true | _ => false end.

Definition nodnsmasq (f : fw) (e : env) : bool :=
  match f with Generic => true | Synology => negb (dhcp_on e) | _ => false end.

Ltac env_cases e := destruct e as [cf inf uc us nvs don fon ld rs].

(* Configure + Setup on edgeos / ubios / firewalla / synology / generic: whatever was there
   before, the running dnsmasq forwards to the proxy's listen address (or has its DNS
   off when the proxy takes :53), with add-mac iff client reporting *)
Lemma setup_ok_simple f c e r1 e1 ls r2 e2 :
  match f with Edgeos | Ubios | Firewalla | Synology | Generic => True | _ => False end ->
  configure (new f e) c e = (r1, e1, ls, true) -> setup r1 e1 = (r2, e2, true) ->
  c20_setup_ok f c ls (nodnsmasq f e) (view f (loaded e2)) = true.
Proof.
  intros Hf Hc Hs. env_cases e. destruct c as [rep ca].
  destruct f; try contradiction; unfold configure, new in Hc; cbn [r_fw with_cfg with_report report cache] in Hc.
  - (* edgeos *)
    destruct ca; cbn in Hc; inversion Hc; subst; clear Hc; cbn in Hs; inversion Hs; subst; clear Hs;
      destruct rep; vm_compute; reflexivity.
  - (* synology *)
    cbn [dhcp_on] in Hc. destruct don; cbn [negb] in Hc.
    + destruct ca; cbn in Hc; inversion Hc; subst; clear Hc; cbn in Hs; inversion Hs; subst; clear Hs;
        destruct rep; vm_compute; reflexivity.
    + inversion Hc; subst; clear Hc. cbn in Hs. inversion Hs; subst. reflexivity.
  - (* ubios *)
    cbn [filter_on] in Hc. destruct fon; [inversion Hc|]. inversion Hc; subst; clear Hc.
    cbn in Hs. inversion Hs; subst; clear Hs. destruct rep; vm_compute; reflexivity.
  - (* firewalla *)
    inversion Hc; subst; clear Hc. cbn in Hs. inversion Hs; subst; clear Hs. destruct rep; vm_compute; reflexivity.
  - (* generic *)
    inversion Hc; subst. reflexivity.
Qed.

(* what dnsmasq would load if it were restarted on e as it is *)
Definition current (e : env) : snapshot := mkSnap (conf e) (uci_c e) (nv e).

(* Restore on the same firmwares: the drop-in is gone from what dnsmasq runs with, and
   with no drop-in there before, the view is the one from before the start *)
Lemma restore_simple f c e r1 e1 ls ok1 r2 e2 ok2 e3 :
  match f with Edgeos | Ubios | Firewalla | Synology | Generic => True | _ => False end ->
  nodnsmasq f e = false ->
  configure (new f e) c e = (r1, e1, ls, ok1) -> setup r1 e1 = (r2, e2, ok2) -> restore r2 e2 = (e3, true) ->
  c20_not_pointing (view f (loaded e3)) = true /\
  (conf e = None -> c20_restored (view f (loaded e3)) (view f (current e)) = true).
Proof.
  intros Hf Hn Hc Hs Hr. env_cases e. destruct c as [rep ca].
  destruct f; try contradiction; try discriminate Hn; unfold configure, new in Hc; cbn [r_fw with_cfg with_report report cache] in Hc.
  - destruct ca; cbn in Hc; inversion Hc; subst; clear Hc; cbn in Hs; inversion Hs; subst; clear Hs;
      cbn in Hr; inversion Hr; subst; clear Hr; (split; [reflexivity | cbn; intros ->; reflexivity]).
  - cbn in Hn. destruct don; [|discriminate]. cbn [dhcp_on negb] in Hc.
    destruct ca; cbn in Hc; inversion Hc; subst; clear Hc; cbn in Hs; inversion Hs; subst; clear Hs;
      cbn in Hr; inversion Hr; subst; clear Hr; (split; [reflexivity | cbn; intros ->; reflexivity]).
  - cbn [filter_on] in Hc. destruct fon.
    + inversion Hc; subst; clear Hc. cbn in Hs. inversion Hs; subst; clear Hs.
      cbn in Hr. inversion Hr; subst; clear Hr. split; [reflexivity | cbn; intros ->; reflexivity].
    + inversion Hc; subst; clear Hc. cbn in Hs. inversion Hs; subst; clear Hs.
      cbn in Hr. inversion Hr; subst; clear Hr. split; [reflexivity | cbn; intros ->; reflexivity].
  - inversion Hc; subst; clear Hc. cbn in Hs. inversion Hs; subst; clear Hs.
    cbn in Hr. inversion Hr; subst; clear Hr. split; [reflexivity | cbn; intros ->; reflexivity].
Qed.

(* ================= nvram store ================= *)
From NX Require Import ConfigFacts DiscoveryFacts.

Lemma beq_neq a b : a <> b -> beq_bytes a b = false.
Proof. intros H. destruct (beq_bytes a b) eqn:E; [apply beq_bytes_eq in E; contradiction|reflexivity]. Qed.

Lemma nget_ndel_same k s : nget k (ndel k s) = None.
Proof.
  induction s as [|[k' v] r IH]; cbn [ndel nget]; [reflexivity|].
  destruct (beq_bytes k k') eqn:E; [exact IH|]. cbn [nget]. rewrite E. exact IH.
Qed.
Lemma nget_ndel_other k k' s : k <> k' -> nget k (ndel k' s) = nget k s.
Proof.
  intros H. induction s as [|[k'' v] r IH]; cbn [ndel nget]; [reflexivity|].
  destruct (beq_bytes k' k'') eqn:E.
  - apply beq_bytes_eq in E. subst k''. rewrite (beq_neq _ _ H). exact IH.
  - cbn [nget]. rewrite IH. reflexivity.
Qed.
Lemma nget_nset_same k v s : nget k (nset k v s) = Some v.
Proof. unfold nset. cbn [nget]. rewrite beq_bytes_refl. reflexivity. Qed.
Lemma nget_nset_other k k' v s : k <> k' -> nget k (nset k' v s) = nget k s.
Proof. intros H. unfold nset. cbn [nget]. rewrite (beq_neq _ _ H). apply nget_ndel_other. exact H. Qed.

(* a variable name: no '=' in it *)
Definition no_eq (n : bytes) : bool := forallb (fun c => negb (c =? 61)) n.
Lemma split_eq_name n v acc : no_eq n = true -> split_eq (n ++ 61 :: v) acc = (acc ++ n, Some v).
Proof.
  revert acc. induction n as [|c n IH]; intros acc H; cbn [app split_eq].
  - rewrite Z.eqb_refl, app_nil_r. reflexivity.
  - cbn [no_eq forallb] in H. apply andb_prop in H as [Hc Hn]. destruct (c =? 61); [discriminate|].
    rewrite (IH _ Hn), <- app_assoc. reflexivity.
Qed.

Lemma nvram_set1_entry s n v : no_eq n = true ->
  nvram_set1 s (n ++ [61] ++ v) = match v with [] => ndel n s | _ => nset n v s end.
Proof. intros H. unfold nvram_set1. cbn [app]. rewrite (split_eq_name _ _ _ H). cbn [app]. destruct v; reflexivity. Qed.

(* SetNVRAM on name=value entries for distinct names *)
Lemma nvram_set_get (val : bytes -> bytes) names : forall s k,
  NoDup names -> (forall n, In n names -> no_eq n = true) ->
  nget k (nvram_set s (map (fun n => n ++ [61] ++ val n) names)) =
  if in_lines k names then (match val k with [] => None | v => Some v end) else nget k s.
Proof.
  unfold nvram_set. induction names as [|n names IH]; intros s k Hnd Hne; cbn [map fold_left in_lines existsb]; [reflexivity|].
  inversion Hnd as [|? ? Hni Hnd']; subst.
  rewrite IH; [|exact Hnd'|intros m Hm; apply Hne; right; exact Hm].
  rewrite nvram_set1_entry by (apply Hne; left; reflexivity).
  fold (in_lines k names).
  destruct (beq_bytes k n) eqn:E.
  - apply beq_bytes_eq in E. subst k. cbn [orb].
    destruct (in_lines n names) eqn:Ein.
    + exfalso. apply Hni. unfold in_lines in Ein. apply existsb_exists in Ein as (x & Hx & Hb).
      apply beq_bytes_eq in Hb. subst x. exact Hx.
    + destruct (val n); [apply nget_ndel_same|apply nget_nset_same].
  - cbn [orb]. destruct (in_lines k names); [reflexivity|].
    assert (k <> n) by (intros ->; rewrite beq_bytes_refl in E; discriminate).
    destruct (val n); [apply nget_ndel_other|apply nget_nset_other]; assumption.
Qed.

Lemma nv_names_nodup : NoDup nv_names.
Proof.
  unfold nv_names. repeat constructor; cbn [In]; intros H;
    repeat (destruct H as [H|H]; [vm_compute in H; discriminate H|]); exact H.
Qed.
Lemma nv_names_noeq n : In n nv_names -> no_eq n = true.
Proof. unfold nv_names. cbn [In]. intros H. repeat (destruct H as [<-|H]; [vm_compute; reflexivity|]). contradiction. Qed.

(* ================= strings.TrimSpace is idempotent ================= *)
Section Trim.
  Variable cut : Z -> bool.
  Lemma trim_left_shape s : trim_left_set cut s = [] \/ exists c r, trim_left_set cut s = c :: r /\ cut c = false.
  Proof.
    induction s as [|c r IH]; cbn [trim_left_set]; [left; reflexivity|].
    destruct (cut c) eqn:E; [exact IH|]. right. exists c, r. split; [reflexivity|exact E].
  Qed.
  Lemma trim_left_fix c r : cut c = false -> trim_left_set cut (c :: r) = c :: r.
  Proof. intros H. cbn [trim_left_set]. rewrite H. reflexivity. Qed.
  Lemma trim_left_idem s : trim_left_set cut (trim_left_set cut s) = trim_left_set cut s.
  Proof.
    destruct (trim_left_shape s) as [H|(c & r & H & Hc)]; rewrite H; [reflexivity|]. apply trim_left_fix. exact Hc.
  Qed.
  Lemma trim_left_snoc l c : cut c = false -> exists l', trim_left_set cut (l ++ [c]) = l' ++ [c].
  Proof.
    intros Hc. induction l as [|x l IH]; cbn [app trim_left_set].
    - rewrite Hc. exists []. reflexivity.
    - destruct (cut x); [exact IH|]. exists (x :: l). reflexivity.
  Qed.
  Lemma trim_right_head c r : cut c = false -> exists r', trim_right_set cut (c :: r) = c :: r'.
  Proof.
    intros Hc. unfold trim_right_set. cbn [rev]. destruct (trim_left_snoc (rev r) c Hc) as (l' & H).
    rewrite H, rev_app_distr. cbn [rev app]. exists (rev l'). reflexivity.
  Qed.
  Lemma trim_right_idem x : trim_right_set cut (trim_right_set cut x) = trim_right_set cut x.
  Proof. unfold trim_right_set. rewrite rev_involutive, trim_left_idem. reflexivity. Qed.
  Lemma trim_set_idem s : trim_set cut (trim_set cut s) = trim_set cut s.
  Proof.
    unfold trim_set.
    assert (H : trim_left_set cut (trim_right_set cut (trim_left_set cut s)) = trim_right_set cut (trim_left_set cut s)).
    { destruct (trim_left_shape s) as [H|(c & r & H & Hc)]; rewrite H; [reflexivity|].
      destruct (trim_right_head c r Hc) as (r' & Hr). rewrite Hr. apply trim_left_fix. exact Hc. }
    rewrite H. apply trim_right_idem.
  Qed.
End Trim.
Lemma trim_space_idem s : trim_space (trim_space s) = trim_space s.
Proof. apply trim_set_idem. Qed.

(* ================= ddwrt ================= *)
Definition dd_written (c : cfg) : list bytes :=
  map (fun n => n ++ [61] ++ dd_new (unlines (dropin_lines (cache c) true (report c))) n) nv_names.

Lemma dd_cycle e c r1 e1 ls ok1 r2 e2 ok2 :
  configure (new Ddwrt e) c e = (r1, e1, ls, ok1) -> setup r1 e1 = (r2, e2, ok2) ->
  ok1 = true /\ ok2 = true /\ ls = (if cache c then L53 else LLoop) /\
  r_fw r2 = Ddwrt /\ r_saved r2 = dd_saved (nv e) /\
  e2 = restart (set_nv e (nvram_set (nv e) (dd_written c))).
Proof.
  intros Hc Hs. destruct c as [rep ca]. unfold configure, new in Hc. cbn [r_fw cache] in Hc.
  destruct ca.
  - cbn in Hc. inversion Hc; subst; clear Hc. cbn in Hs. inversion Hs; subst; clear Hs.
    repeat split; reflexivity.
  - cbn in Hc. inversion Hc; subst; clear Hc. cbn in Hs. inversion Hs; subst; clear Hs.
    repeat split; reflexivity.
Qed.

Lemma in_names_options : in_lines k_options nv_names = true.
Proof. vm_compute. reflexivity. Qed.

Lemma dd_written_options s c :
  nget k_options (nvram_set s (dd_written c)) = Some (unlines (dropin_lines (cache c) true (report c))).
Proof.
  unfold dd_written. rewrite (nvram_set_get _ _ _ _ nv_names_nodup nv_names_noeq), in_names_options.
  unfold dd_new. replace (beq_bytes k_options (s2b "dns_dnsmasq"%string)) with false by (vm_compute; reflexivity).
  rewrite beq_bytes_refl. destruct c as [[] []]; vm_compute; reflexivity.
Qed.

Lemma dd_setup_ok c e r1 e1 ls r2 e2 :
  configure (new Ddwrt e) c e = (r1, e1, ls, true) -> setup r1 e1 = (r2, e2, true) ->
  c20_setup_ok Ddwrt c ls false (view Ddwrt (loaded e2)) = true.
Proof.
  intros Hc Hs. destruct (dd_cycle _ _ _ _ _ _ _ _ _ Hc Hs) as (_ & _ & Hls & _ & _ & He2). subst ls e2.
  unfold view, managed_lines_of. cbn [loaded restart l_nv set_nv nv].
  rewrite dd_written_options. destruct c as [[] []]; vm_compute; reflexivity.
Qed.

Definition np_lines (ls : list bytes) : bool :=
  negb (in_lines t_target (server_targets ls)) && negb (in_lines t_port0 ls).
Lemma not_pointing_lines f s : c20_not_pointing (view f s) = np_lines (managed_lines_of f s).
Proof. reflexivity. Qed.

Lemma beq_lines_refl l : beq_lines l l = true.
Proof. induction l as [|x l IH]; cbn [beq_lines]; [reflexivity|]. rewrite beq_bytes_refl. exact IH. Qed.
Lemma beq_view_refl v : beq_view v v = true.
Proof.
  unfold beq_view. rewrite !Bool.eqb_reflx, beq_bytes_refl, !beq_lines_refl. reflexivity.
Qed.

Lemma dd_restored_var s0 s n : In n nv_names ->
  nget n (nvram_set s (dd_saved s0)) = match dd_val s0 n with [] => None | v => Some v end.
Proof.
  intros Hn. unfold dd_saved. rewrite (nvram_set_get _ _ _ _ nv_names_nodup nv_names_noeq).
  replace (in_lines n nv_names) with true; [reflexivity|].
  symmetry. apply existsb_exists. exists n. split; [exact Hn|apply beq_bytes_refl].
Qed.
Lemma options_in_names : In k_options nv_names.
Proof. unfold nv_names. cbn [In]. right. left. reflexivity. Qed.

(* the dnsmasq options DD-WRT's owner had, as dnsmasq reads them *)
Definition dd_lines (s : nvstore) : list bytes :=
  match nget k_options s with Some v => split_lines (trim_space v) | None => [] end.

Lemma dd_lines_after_restore s0 s :
  dd_lines (nvram_set s (dd_saved s0)) =
  match nget k_options s0 with
  | Some v => if has_prefix t_header (trim_space v) then [] else split_lines (trim_space v)
  | None => []
  end.
Proof.
  unfold dd_lines. rewrite (dd_restored_var _ _ _ options_in_names). unfold dd_val.
  destruct (nget k_options s0) as [v|]; [|reflexivity].
  rewrite beq_bytes_refl. cbn [andb]. destruct (has_prefix t_header (trim_space v)); [reflexivity|].
  destruct (trim_space v) eqn:E; [reflexivity|]. rewrite <- E, trim_space_idem. reflexivity.
Qed.

Local Opaque nvram_set dd_saved dd_written.

(* Restore on DD-WRT, from any state (clean or left by an unclean stop): unless the owner's
   own options forward to that address, nothing points at the proxy any more *)
Lemma dd_restore_not_pointing c e r1 e1 ls ok1 r2 e2 ok2 e3 ok3 :
  configure (new Ddwrt e) c e = (r1, e1, ls, ok1) -> setup r1 e1 = (r2, e2, ok2) -> restore r2 e2 = (e3, ok3) ->
  (has_prefix t_header (trim_space (match nget k_options (nv e) with Some v => v | None => [] end)) = true \/
   c20_not_pointing (view Ddwrt (current e)) = true) ->
  ok3 = true /\ c20_not_pointing (view Ddwrt (loaded e3)) = true.
Proof.
  intros Hc Hs Hr H. destruct (dd_cycle _ _ _ _ _ _ _ _ _ Hc Hs) as (_ & _ & _ & Hfw & Hsv & He2).
  unfold restore in Hr. rewrite Hfw in Hr. unfold dd_restore in Hr. rewrite Hsv in Hr. injection Hr as He3 Hok. subst e3 ok3 e2.
  split; [reflexivity|]. rewrite not_pointing_lines. unfold managed_lines_of. cbn [loaded restart l_nv set_nv nv].
  fold (dd_lines (nvram_set (nvram_set (nv e) (dd_written c)) (dd_saved (nv e)))).
  rewrite dd_lines_after_restore. rewrite not_pointing_lines in H. unfold managed_lines_of, current in H. cbn [l_nv] in H.
  destruct (nget k_options (nv e)) as [v|]; [|reflexivity].
  destruct (has_prefix t_header (trim_space v)); [reflexivity|]. destruct H as [H|H]; [discriminate|exact H].
Qed.

(* a start/stop cycle on DD-WRT puts every variable back (surrounding white space aside) *)
Lemma dd_restore_restores c e r1 e1 ls ok1 r2 e2 ok2 e3 ok3 :
  configure (new Ddwrt e) c e = (r1, e1, ls, ok1) -> setup r1 e1 = (r2, e2, ok2) -> restore r2 e2 = (e3, ok3) ->
  has_prefix t_header (trim_space (match nget k_options (nv e) with Some v => v | None => [] end)) = false ->
  c20_restored (view Ddwrt (loaded e3)) (view Ddwrt (current e)) = true.
Proof.
  intros Hc Hs Hr H. destruct (dd_cycle _ _ _ _ _ _ _ _ _ Hc Hs) as (_ & _ & _ & Hfw & Hsv & He2).
  unfold restore in Hr. rewrite Hfw in Hr. unfold dd_restore in Hr. rewrite Hsv in Hr. injection Hr as He3 Hok. subst e3 ok3 e2.
  unfold c20_restored.
  replace (view Ddwrt (loaded (restart (set_nv (restart (set_nv e (nvram_set (nv e) (dd_written c))))
             (nvram_set (nv (restart (set_nv e (nvram_set (nv e) (dd_written c))))) (dd_saved (nv e)))))))
    with (view Ddwrt (current e)); [apply beq_view_refl|].
  unfold view, current. cbn [loaded restart l_nv set_nv nv l_uci l_conf uci_c uci_s conf info].
  set (fin := nvram_set (nvram_set (nv e) (dd_written c)) (dd_saved (nv e))).
  assert (Hl : managed_lines_of Ddwrt (mkSnap (conf e) (uci_c e) (nv e)) =
               managed_lines_of Ddwrt (mkSnap (conf e) (uci_c e) fin)).
  { unfold managed_lines_of. cbn [l_nv]. fold (dd_lines fin). unfold fin. rewrite dd_lines_after_restore.
    destruct (nget k_options (nv e)) as [v|]; [|reflexivity]. rewrite H. reflexivity. }
  rewrite <- Hl. f_equal.
  unfold user_part. cbn [l_nv]. apply map_ext_in. intros n Hn. unfold fin. rewrite (dd_restored_var _ _ _ Hn).
  unfold dd_val. destruct (nget n (nv e)) as [v|] eqn:En; [|reflexivity].
  destruct (beq_bytes n k_options) eqn:Eo.
  - apply beq_bytes_eq in Eo. subst n. rewrite En in H. rewrite H. cbn [andb].
    destruct (trim_space v) eqn:E; [reflexivity|]. rewrite <- E, trim_space_idem. reflexivity.
  - cbn [andb]. destruct (trim_space v) eqn:E; [reflexivity|]. rewrite <- E, trim_space_idem. reflexivity.
Qed.

(* after an unclean stop (the state Setup left behind) a whole new start/stop cycle still
   leaves nothing pointing at the proxy *)
Lemma dd_unclean_then_cycle c e r1 e1 ls ok1 r2 e2 ok2 c' r1' e1' ls' ok1' r2' e2' ok2' e3 ok3 :
  configure (new Ddwrt e) c e = (r1, e1, ls, ok1) -> setup r1 e1 = (r2, e2, ok2) ->
  configure (new Ddwrt e2) c' e2 = (r1', e1', ls', ok1') -> setup r1' e1' = (r2', e2', ok2') ->
  restore r2' e2' = (e3, ok3) ->
  ok3 = true /\ c20_not_pointing (view Ddwrt (loaded e3)) = true.
Proof.
  intros Hc Hs Hc' Hs' Hr. destruct (dd_cycle _ _ _ _ _ _ _ _ _ Hc Hs) as (_ & _ & _ & _ & _ & He2).
  apply (dd_restore_not_pointing _ _ _ _ _ _ _ _ _ _ _ Hc' Hs' Hr). left.
  subst e2. cbn [nv restart set_nv]. rewrite dd_written_options. destruct c as [[] []]; vm_compute; reflexivity.
Qed.

(* ================= lines ================= *)
Definition no10 (l : bytes) : Prop := ~ In 10 l.
Definition cleanb (l : bytes) : bool := forallb (fun c => negb (c =? 10)) l && beq_bytes (drop_cr l) l.
Definition clean (l : bytes) : Prop := no10 l /\ drop_cr l = l.
Lemma cleanb_clean l : cleanb l = true -> clean l.
Proof.
  unfold cleanb, clean, no10. intros H. apply andb_prop in H as [H1 H2]. split; [|apply beq_bytes_eq; exact H2].
  intros Hin. rewrite forallb_forall in H1. specialize (H1 _ Hin). discriminate.
Qed.
Lemma forallb_clean ls : forallb cleanb ls = true -> Forall clean ls.
Proof. intros H. apply Forall_forall. intros l Hl. apply cleanb_clean. rewrite forallb_forall in H. apply H. exact Hl. Qed.

Lemma frev_rev {A} (l : list A) : frev l = rev l.
Proof. unfold frev. symmetry. apply rev_alt. Qed.

Lemma slg_line l X cur : no10 l -> split_lines_go (l ++ 10 :: X) cur = (rev cur ++ l) :: split_lines_go X [].
Proof.
  revert cur. induction l as [|c l IH]; intros cur H; cbn [app split_lines_go].
  - rewrite app_nil_r, frev_rev. reflexivity.
  - destruct (c =? 10) eqn:E; [exfalso; apply H; left; lia|].
    rewrite IH; [|intros Hin; apply H; right; exact Hin]. cbn [rev]. rewrite <- app_assoc. reflexivity.
Qed.
Lemma slg_unlines ls X : Forall no10 ls -> split_lines_go (unlines ls ++ X) [] = ls ++ split_lines_go X [].
Proof.
  induction 1 as [|l ls Hl _ IH]; [reflexivity|].
  unfold unlines in *. cbn [map List.concat]. rewrite <- !app_assoc. cbn [app].
  rewrite (slg_line _ _ _ Hl), IH. reflexivity.
Qed.
Lemma split_unlines ls X : Forall clean ls -> split_lines (unlines ls ++ X) = ls ++ split_lines X.
Proof.
  intros H. unfold split_lines. rewrite slg_unlines.
  - rewrite map_app. f_equal. induction H as [|l ls [_ Hl] _ IH]; [reflexivity|]. cbn [map]. rewrite Hl, IH. reflexivity.
  - eapply Forall_impl; [|exact H]. intros l [Hl _]. exact Hl.
Qed.
Lemma split_unlines0 ls : Forall clean ls -> split_lines (unlines ls) = ls.
Proof. intros H. rewrite <- (app_nil_r (unlines ls)), split_unlines by exact H. cbn. apply app_nil_r. Qed.

Lemma slg_no10 s : forall cur, no10 cur -> Forall no10 (split_lines_go s cur).
Proof.
  induction s as [|c r IH]; intros cur Hc; cbn [split_lines_go].
  - destruct cur; constructor; [intros Hin; rewrite frev_rev in Hin; apply in_rev in Hin; exact (Hc Hin)|constructor].
  - destruct (c =? 10) eqn:E.
    + constructor; [intros Hin; rewrite frev_rev in Hin; apply in_rev in Hin; exact (Hc Hin)|]. apply IH. intros [].
    + apply IH. intros [Hin|Hin]; [lia|exact (Hc Hin)].
Qed.
Lemma drop_cr_sub l x : In x (drop_cr l) -> In x l.
Proof.
  unfold drop_cr. rewrite frev_rev. destruct (rev l) as [|c r] eqn:E; [intros H; exact H|]. rewrite frev_rev.
  destruct (c =? 13) eqn:Ec.
  - assert (c = 13) by lia. subst c. replace (match 13 with 13 => rev r | _ => l end) with (rev r) by reflexivity.
    intros H. rewrite <- (rev_involutive l), E. cbn [rev]. apply in_or_app. left. exact H.
  - assert (c <> 13) by lia.
    replace (match c with 13 => rev r | _ => l end) with l; [intros Hx; exact Hx|].
    destruct c as [|p|p]; try reflexivity.
    do 4 (destruct p as [p|p|]; try reflexivity). contradiction.
Qed.
Lemma split_lines_no10 s : Forall no10 (split_lines s).
Proof.
  unfold split_lines. apply Forall_forall. intros l Hl. apply in_map_iff in Hl as (l0 & <- & Hl0).
  pose proof (slg_no10 s [] (fun H => H)) as H. rewrite Forall_forall in H. specialize (H _ Hl0).
  intros Hin. apply H. apply drop_cr_sub. exact Hin.
Qed.

Lemma trim_left_nl_unlines ls : Forall no10 ls -> trim_left_nl (unlines ls) = unlines (drop_empty ls).
Proof.
  induction 1 as [|l ls Hl _ IH]; [reflexivity|]. destruct l as [|c l].
  - cbn [drop_empty]. unfold unlines in *. cbn [map List.concat app]. unfold trim_left_nl in *. cbn [trim_left_set].
    rewrite Z.eqb_refl. exact IH.
  - cbn [drop_empty]. unfold unlines. cbn [map List.concat app]. unfold trim_left_nl. cbn [trim_left_set].
    destruct (c =? 10) eqn:E; [exfalso; apply Hl; left; lia|reflexivity].
Qed.

(* ================= merlin ================= *)
Definition nomark (ls : list bytes) : Prop := in_lines t_marker ls = false.

Lemma in_lines_app x a b : in_lines x (a ++ b) = in_lines x a || in_lines x b.
Proof. unfold in_lines. apply existsb_app. Qed.

Lemma alm_app l1 : forall l2 acc, after_last_marker (l1 ++ l2) acc = after_last_marker l2 (after_last_marker l1 acc).
Proof.
  induction l1 as [|l r IH]; intros l2 acc; cbn [app after_last_marker]; [reflexivity|].
  destruct (beq_bytes l t_marker); apply IH.
Qed.
Lemma alm_nomark ls : forall acc, nomark ls -> after_last_marker ls acc = acc ++ ls.
Proof.
  unfold nomark. induction ls as [|l r IH]; intros acc H; cbn [after_last_marker]; [symmetry; apply app_nil_r|].
  cbn [in_lines existsb] in H. apply Bool.orb_false_iff in H as [H1 H2].
  rewrite beq_bytes_sym in H1. rewrite H1. rewrite IH by exact H2. rewrite <- app_assoc. reflexivity.
Qed.
Lemma alm_is_nomark ls : forall acc, nomark acc -> nomark (after_last_marker ls acc).
Proof.
  unfold nomark. induction ls as [|l r IH]; intros acc H; cbn [after_last_marker]; [exact H|].
  destruct (beq_bytes l t_marker) eqn:E; [apply IH; reflexivity|].
  apply IH. rewrite in_lines_app, H. unfold in_lines. cbn [existsb orb]. rewrite beq_bytes_sym, E. reflexivity.
Qed.
Lemma alm_forall (P : bytes -> Prop) ls : forall acc, Forall P ls -> Forall P acc -> Forall P (after_last_marker ls acc).
Proof.
  induction ls as [|l r IH]; intros acc Hl Ha; cbn [after_last_marker]; [exact Ha|].
  inversion Hl; subst. destruct (beq_bytes l t_marker); apply IH; try assumption; [constructor|].
  apply Forall_app. split; [exact Ha|constructor; [assumption|constructor]].
Qed.
Lemma alm_length ls : forall acc, (List.length (after_last_marker ls acc) <= List.length acc + List.length ls)%nat.
Proof.
  induction ls as [|l r IH]; intros acc; cbn [after_last_marker List.length]; [lia|].
  destruct (beq_bytes l t_marker).
  - specialize (IH []). cbn [List.length] in IH. lia.
  - specialize (IH (acc ++ [l])). rewrite app_length in IH. cbn [List.length] in IH. lia.
Qed.

Lemma drop_empty_idem ls : drop_empty (drop_empty ls) = drop_empty ls.
Proof. induction ls as [|[|c l] r IH]; cbn [drop_empty]; [reflexivity|exact IH|reflexivity]. Qed.
Lemma drop_empty_forall (P : bytes -> Prop) ls : Forall P ls -> Forall P (drop_empty ls).
Proof. induction 1 as [|l r Hl Hr IH]; [constructor|]. destruct l; cbn [drop_empty]; [exact IH|constructor; assumption]. Qed.
Lemma drop_empty_nomark ls : nomark ls -> nomark (drop_empty ls).
Proof.
  unfold nomark. induction ls as [|[|c l] r IH]; cbn [drop_empty]; intros H; [exact H| |exact H].
  apply IH. cbn [in_lines existsb] in H. apply Bool.orb_false_iff in H as [_ H]. exact H.
Qed.
Lemma unlines_nil ls : unlines ls = [] -> ls = [].
Proof. destruct ls as [|l r]; [reflexivity|]. unfold unlines. cbn [map List.concat]. destruct l; discriminate. Qed.

(* the owner's part of the postconf script: what is after the last NextDNS marker *)
Definition owner_lines (cf : option bytes) : list bytes :=
  match cf with Some c => drop_empty (after_last_marker (split_lines c) []) | None => [] end.
(* no line still ends with a CR after the line reader removed one (no "\r\r\n") *)
Definition cr_clean (cf : option bytes) : Prop :=
  match cf with Some c => Forall (fun l => drop_cr l = l) (split_lines c) | None => True end.

Lemma read_postconf_owner cf : read_postconf cf = unlines (owner_lines cf).
Proof.
  destruct cf as [c|]; [|reflexivity]. unfold read_postconf, owner_lines. apply trim_left_nl_unlines.
  apply alm_forall; [apply split_lines_no10|constructor].
Qed.
Lemma owner_clean cf : cr_clean cf -> Forall clean (owner_lines cf).
Proof.
  destruct cf as [c|]; [|constructor]. cbn [cr_clean owner_lines]. intros H.
  apply drop_empty_forall. apply alm_forall; [|constructor].
  pose proof (split_lines_no10 c) as Hn. rewrite Forall_forall in *. intros l Hl. split; [apply Hn|apply H]; exact Hl.
Qed.
Lemma owner_nomark cf : nomark (owner_lines cf).
Proof. destruct cf as [c|]; [|reflexivity]. apply drop_empty_nomark, alm_is_nomark. reflexivity. Qed.
Lemma owner_noempty cf : drop_empty (owner_lines cf) = owner_lines cf.
Proof. destruct cf as [c|]; [|reflexivity]. apply drop_empty_idem. Qed.

Lemma head_clean ca rep : Forall clean (merlin_head_lines ca rep).
Proof. apply forallb_clean. destruct ca, rep; vm_compute; reflexivity. Qed.
Lemma head_alm ca rep : after_last_marker (merlin_head_lines ca rep) [] = [].
Proof. destruct ca, rep; vm_compute; reflexivity. Qed.
Lemma head_has_marker ca rep : in_lines t_marker (merlin_head_lines ca rep) = true.
Proof. destruct ca, rep; vm_compute; reflexivity. Qed.

(* the file Setup writes, read back line by line *)
Lemma merlin_written_lines ca rep U : Forall clean U ->
  split_lines (unlines (merlin_head_lines ca rep) ++ unlines U) = merlin_head_lines ca rep ++ U.
Proof. intros HU. rewrite split_unlines by apply head_clean. rewrite split_unlines0 by exact HU. reflexivity. Qed.

Lemma merlin_written_view ca rep U cu cn : Forall clean U -> nomark U -> drop_empty U = U ->
  view Merlin (mkSnap (Some (unlines (merlin_head_lines ca rep) ++ unlines U)) cu cn) =
  mkV false t_53 false [t_target] true rep U false.
Proof.
  intros HU Hm Hd. unfold view, managed_lines_of, user_part. cbn [l_conf].
  rewrite (merlin_written_lines _ _ _ HU). rewrite in_lines_app, head_has_marker. cbn [orb].
  rewrite alm_app, head_alm, (alm_nomark _ _ Hm). cbn [app]. rewrite Hd.
  unfold head_part. rewrite alm_app, head_alm, (alm_nomark _ _ Hm). cbn [app].
  rewrite app_length, Nat.add_sub. rewrite firstn_app, Nat.sub_diag, firstn_all. cbn [firstn]. rewrite app_nil_r.
  destruct ca, rep; vm_compute; reflexivity.
Qed.

Lemma merlin_cycle e c r1 e1 ls ok1 r2 e2 ok2 :
  configure (new Merlin e) c e = (r1, e1, ls, ok1) -> setup r1 e1 = (r2, e2, ok2) ->
  ok1 = true /\ ok2 = true /\ ls = LLoop /\ r_fw r2 = Merlin /\ r_postconf r2 = unlines (owner_lines (conf e)) /\
  e2 = restart (set_conf e (Some (unlines (merlin_head_lines (cache c) (report c)) ++ unlines (owner_lines (conf e))))).
Proof.
  intros Hc Hs. unfold configure, new in Hc. cbn [r_fw] in Hc. injection Hc as <- <- <- <-.
  unfold setup, with_cfg in Hs. cbn [r_fw] in Hs. unfold setup_dnsmasq in Hs.
  cbn [r_fw r_cache r_report r_postconf] in Hs. rewrite read_postconf_owner in Hs.
  injection Hs as <- <- <-. cbn [r_fw r_postconf]. repeat split; reflexivity.
Qed.

Lemma merlin_setup_ok c e r1 e1 ls r2 e2 :
  cr_clean (conf e) ->
  configure (new Merlin e) c e = (r1, e1, ls, true) -> setup r1 e1 = (r2, e2, true) ->
  c20_setup_ok Merlin c ls false (view Merlin (loaded e2)) = true /\
  v_user (view Merlin (loaded e2)) = owner_lines (conf e).
Proof.
  intros Hcr Hc Hs. destruct (merlin_cycle _ _ _ _ _ _ _ _ _ Hc Hs) as (_ & _ & -> & _ & _ & ->).
  cbn [loaded restart set_conf conf uci_c nv].
  rewrite merlin_written_view by (first [apply owner_clean; exact Hcr | apply owner_nomark | apply owner_noempty]).
  split; [|reflexivity]. destruct c as [[] ca]; vm_compute; reflexivity.
Qed.

(* the state Setup leaves (what a later start finds after an unclean stop) is again one the
   statements apply to, with the same owner's part *)
Lemma merlin_after_setup c e r1 e1 ls ok1 r2 e2 ok2 :
  cr_clean (conf e) ->
  configure (new Merlin e) c e = (r1, e1, ls, ok1) -> setup r1 e1 = (r2, e2, ok2) ->
  cr_clean (conf e2) /\ owner_lines (conf e2) = owner_lines (conf e).
Proof.
  intros Hcr Hc Hs. destruct (merlin_cycle _ _ _ _ _ _ _ _ _ Hc Hs) as (_ & _ & _ & _ & _ & ->).
  cbn [conf restart set_conf cr_clean owner_lines].
  pose proof (owner_clean _ Hcr) as HU. rewrite (merlin_written_lines _ _ _ HU). split.
  - apply Forall_app. split; [|eapply Forall_impl; [|exact HU]; intros l [_ H]; exact H].
    eapply Forall_impl; [|apply head_clean]. intros l [_ H]. exact H.
  - rewrite alm_app, head_alm, (alm_nomark _ _ (owner_nomark _)). cbn [app]. apply owner_noempty.
Qed.

Lemma merlin_restore c e r1 e1 ls ok1 r2 e2 ok2 e3 ok3 :
  cr_clean (conf e) ->
  configure (new Merlin e) c e = (r1, e1, ls, ok1) -> setup r1 e1 = (r2, e2, ok2) -> restore r2 e2 = (e3, ok3) ->
  ok3 = true /\ view Merlin (loaded e3) = mkV false t_53 false [] false false (owner_lines (conf e)) false.
Proof.
  intros Hcr Hc Hs Hr. destruct (merlin_cycle _ _ _ _ _ _ _ _ _ Hc Hs) as (_ & _ & _ & Hfw & Hpc & ->).
  unfold restore in Hr. rewrite Hfw, Hpc in Hr. injection Hr as <- <-. split; [reflexivity|].
  cbn [loaded restart set_conf conf uci_c nv].
  pose proof (owner_clean _ Hcr) as HU. pose proof (owner_nomark (conf e)) as Hm. pose proof (owner_noempty (conf e)) as Hd.
  set (U := owner_lines (conf e)) in *.
  destruct (beq_bytes (unlines U) []) eqn:E.
  - apply beq_bytes_eq in E. apply unlines_nil in E. rewrite E. reflexivity.
  - unfold view, managed_lines_of, user_part. cbn [l_conf]. rewrite (split_unlines0 _ HU).
    unfold nomark in Hm. rewrite Hm, (alm_nomark _ _ Hm). cbn [app]. rewrite Hd. reflexivity.
Qed.

Lemma merlin_restore_restores c e r1 e1 ls ok1 r2 e2 ok2 e3 ok3 :
  cr_clean (conf e) -> match conf e with Some b => nomark (split_lines b) | None => True end ->
  configure (new Merlin e) c e = (r1, e1, ls, ok1) -> setup r1 e1 = (r2, e2, ok2) -> restore r2 e2 = (e3, ok3) ->
  c20_not_pointing (view Merlin (loaded e3)) = true /\
  c20_restored (view Merlin (loaded e3)) (view Merlin (current e)) = true.
Proof.
  intros Hcr Hp Hc Hs Hr. destruct (merlin_restore _ _ _ _ _ _ _ _ _ _ _ Hcr Hc Hs Hr) as (_ & Hv). rewrite Hv.
  split; [reflexivity|]. unfold c20_restored.
  replace (view Merlin (current e)) with (mkV false t_53 false [] false false (owner_lines (conf e)) false); [apply beq_view_refl|].
  unfold view, current, managed_lines_of, user_part, owner_lines. cbn [l_conf l_uci].
  destruct (conf e) as [b|]; [|reflexivity]. unfold nomark in Hp. rewrite Hp. reflexivity.
Qed.

(* ================= uci store ================= *)
Lemma sget_sdel_same k s : sget k (sdel k s) = None.
Proof.
  induction s as [|[k' v] r IH]; cbn [sdel sget]; [reflexivity|].
  destruct (beq_bytes k k') eqn:E; [exact IH|]. cbn [sget]. rewrite E. exact IH.
Qed.
Lemma sget_sdel_other k k' s : beq_bytes k k' = false -> sget k (sdel k' s) = sget k s.
Proof.
  intros H. induction s as [|[k'' v] r IH]; cbn [sdel sget]; [reflexivity|].
  destruct (beq_bytes k' k'') eqn:E.
  - apply beq_bytes_eq in E. subst k''. rewrite H. exact IH.
  - cbn [sget]. rewrite IH. reflexivity.
Qed.
Lemma sget_sset_same k v s : sget k (sset k v s) = Some v.
Proof. unfold sset. cbn [sget]. rewrite beq_bytes_refl. reflexivity. Qed.
Lemma sget_sset_other k k' v s : beq_bytes k k' = false -> sget k (sset k' v s) = sget k s.
Proof. intros H. unfold sset. cbn [sget]. rewrite H. apply sget_sdel_other. exact H. Qed.

(* the dnsmasq side of a committed uci configuration *)
Lemma view_openwrt_lines cf u n :
  let ls := match cf with Some c => split_lines c | None => [] end in
  view Openwrt (mkSnap cf u n) =
  mkV (in_lines t_port0 ls)
      (match sget k_port u with Some (x :: r) => trim_space (join_sp (x :: r)) | _ => t_53 end)
      (match sget k_port u with Some (_ :: _) => true | _ => false end)
      (server_targets ls) (in_lines t_noresolv ls) (in_lines t_addmac ls)
      [trim_space (joined (sget k_server u)); trim_space (joined (sget k_dhcpopt u))]
      (negb (forallb known_line ls)).
Proof. reflexivity. Qed.

Lemma dropin_split ca p0 rep : split_lines (unlines (dropin_lines ca p0 rep)) = dropin_lines ca p0 rep.
Proof. destruct ca, p0, rep; vm_compute; reflexivity. Qed.

Lemma uci_get_none_joined e k : uci_get e k = None -> joined (sget k (uci_s e)) = [].
Proof. unfold uci_get. destruct (sget k (uci_s e)) as [[|v vs]|]; [reflexivity|discriminate|reflexivity]. Qed.

(* ================= openwrt ================= *)
Lemma neq_server_dhcpopt : beq_bytes k_server k_dhcpopt = false. Proof. vm_compute. reflexivity. Qed.
Lemma neq_port_dhcpopt : beq_bytes k_port k_dhcpopt = false. Proof. vm_compute. reflexivity. Qed.
Lemma neq_port_server : beq_bytes k_port k_server = false. Proof. vm_compute. reflexivity. Qed.
Lemma neq_server_port : beq_bytes k_server k_port = false. Proof. vm_compute. reflexivity. Qed.
Lemma neq_dhcpopt_server : beq_bytes k_dhcpopt k_server = false. Proof. vm_compute. reflexivity. Qed.
Lemma neq_dhcpopt_port : beq_bytes k_dhcpopt k_port = false. Proof. vm_compute. reflexivity. Qed.

Ltac ow_proj :=
  cbn [loaded restart set_conf uci_commit uci_add_list uci_del_list uci_delete set_uci_s conf info uci_c uci_s nv
       dhcp_on filter_on restarts l_conf l_uci l_nv r_fw r_cache r_report r_port0 r_savedfw r_addedopt
       set_port0 set_savedfw set_addedopt with_cfg report cache fst snd] in *.

Lemma ow_phase1_sync r e r1 e1 :
  uci_s e = uci_c e -> ow_phase1 r e = (r1, e1) -> uci_s e1 = uci_c e1 /\ conf e1 = conf e.
Proof.
  intros Hsync H. unfold ow_phase1 in H.
  destruct (r_cache r); [destruct (uci_get e k_port) as [p|]; [destruct (beq_bytes p t_53)|]
                        |destruct (uci_get e k_server)];
    injection H as <- <-; ow_proj; split; try reflexivity; exact Hsync.
Qed.

Lemma ow_phase1_nocache r e r1 e1 :
  r_cache r = false -> ow_phase1 r e = (r1, e1) ->
  joined (sget k_server (uci_s e1)) = [] /\ r_port0 r1 = r_port0 r /\ r_cache r1 = false /\ r_report r1 = r_report r /\
  r_fw r1 = r_fw r.
Proof.
  intros Hca H. unfold ow_phase1 in H. rewrite Hca in H.
  destruct (uci_get e k_server) eqn:Eg; injection H as <- <-; ow_proj; repeat split; try assumption; try reflexivity.
  - rewrite sget_sdel_same. reflexivity.
  - apply uci_get_none_joined. exact Eg.
Qed.

Lemma ow_phase1_cache r e r1 e1 :
  r_cache r = true -> r_port0 r = false -> ow_phase1 r e = (r1, e1) ->
  r_cache r1 = true /\ r_report r1 = r_report r /\ r_fw r1 = r_fw r /\
  ((r_port0 r1 = true /\ (sget k_port (uci_s e1) = None \/ sget k_port (uci_s e1) = Some [])) \/
   (r_port0 r1 = false /\ exists x xs, sget k_port (uci_s e1) = Some (x :: xs) /\
                                        beq_bytes (trim_space (join_sp (x :: xs))) t_53 = false)).
Proof.
  intros Hca Hp0 H. unfold ow_phase1 in H. rewrite Hca in H. unfold uci_get in H.
  destruct (sget k_port (uci_s e)) as [[|x xs]|] eqn:Eg.
  - injection H as <- <-. ow_proj. repeat split; try assumption. left. split; [reflexivity|right; exact Eg].
  - destruct (beq_bytes (trim_space (join_sp (x :: xs))) t_53) eqn:Eb; injection H as <- <-; ow_proj;
      repeat split; try assumption.
    + left. split; [reflexivity|left; apply sget_sdel_same].
    + right. split; [exact Hp0|]. exists x, xs. split; [exact Eg|exact Eb].
  - injection H as <- <-. ow_proj. repeat split; try assumption. left. split; [reflexivity|left; exact Eg].
Qed.

Lemma ow_phase2_loaded r e r' e' :
  uci_s e = uci_c e -> ow_phase2 r e = (r', e', true) ->
  l_conf (loaded e') = conf e /\
  (forall k, beq_bytes k k_dhcpopt = false -> sget k (l_uci (loaded e')) = sget k (uci_s e)) /\
  r_port0 r' = r_port0 r /\ r_cache r' = r_cache r /\ r_report r' = r_report r /\ r_savedfw r' = r_savedfw r /\ r_fw r' = r_fw r.
Proof.
  intros Hsync H. unfold ow_phase2 in H. destruct (uci_get e k_ipaddr) as [ip|]; [|discriminate].
  destruct (match uci_get e k_dhcpopt with Some o => contains o (s2b "6," ++ ip) | None => false end);
    injection H as <- <-; ow_proj; repeat split; try reflexivity.
  - intros k _. rewrite Hsync. reflexivity.
  - intros k Hk. apply sget_sset_other. exact Hk.
Qed.

Lemma ow_setup_ok c e r1 e1 ls r2 e2 :
  uci_s e = uci_c e ->
  configure (new Openwrt e) c e = (r1, e1, ls, true) -> setup r1 e1 = (r2, e2, true) ->
  c20_setup_ok Openwrt c ls false (view Openwrt (loaded e2)) = true.
Proof.
  intros Hsync Hc Hs. destruct c as [rep ca]. unfold configure, new in Hc. cbn [r_fw cache] in Hc. destruct ca.
  - (* cache: the proxy takes :53; setupDNSMasq runs inside Configure, Setup does nothing *)
    unfold setup_dnsmasq in Hc. cbn [r_fw with_cfg] in Hc. unfold ow_setup in Hc.
    destruct (ow_phase1 _ e) as [ra ea] eqn:E1. destruct (ow_phase2 ra _) as [[rb eb] okb] eqn:E2.
    injection Hc as <- <- <- ->.
    destruct (ow_phase1_sync _ _ _ _ Hsync E1) as [Hs1 Hcf1].
    assert (Hx := E1). apply ow_phase1_cache in Hx; [|reflexivity|reflexivity].
    destruct Hx as (Hca & Hrep & Hfw & Hport). cbn [r_report with_cfg report] in Hrep. cbn [r_fw with_cfg] in Hfw.
    assert (Hs2 : uci_s (set_conf ea (Some (unlines (dropin_lines (r_cache ra) (r_port0 ra) (r_report ra))))) =
                  uci_c (set_conf ea (Some (unlines (dropin_lines (r_cache ra) (r_port0 ra) (r_report ra)))))) by exact Hs1.
    destruct (ow_phase2_loaded _ _ _ _ Hs2 E2) as (Hlc & Hlu & Hp0 & Hca' & _ & _ & Hfw').
    assert (e2 = eb /\ True) as [-> _].
    { unfold setup in Hs. rewrite Hfw', Hfw in Hs. cbn [r_fw] in Hs. rewrite Hca', Hca in Hs. injection Hs as _ <-. split; trivial. }
    destruct (loaded eb) as [lc lu ln] eqn:El. cbn [l_conf l_uci] in *. rewrite view_openwrt_lines.
    ow_proj. subst lc. rewrite Hca, Hrep, dropin_split. rewrite (Hlu k_port neq_port_dhcpopt). ow_proj.
    destruct Hport as [[Hp [Hg|Hg]]|[Hp (x & xs & Hg & Hb)]]; rewrite Hp, Hg; try (destruct rep; vm_compute; reflexivity).
    unfold c20_setup_ok, dns_on_53, broken. cbn [v_port0 v_port v_portset]. rewrite Hb.
    destruct rep; vm_compute; reflexivity.
  - (* no cache: Configure only picks the listen address; Setup runs setupDNSMasq *)
    injection Hc as <- <- <- . unfold setup in Hs. cbn [r_fw with_cfg r_cache] in Hs. unfold setup_dnsmasq in Hs.
    cbn [r_fw] in Hs. unfold ow_setup in Hs.
    destruct (ow_phase1 _ e) as [ra ea] eqn:E1.
    destruct (ow_phase1_sync _ _ _ _ Hsync E1) as [Hs1 Hcf1].
    assert (Hx := E1). apply ow_phase1_nocache in Hx; [|reflexivity].
    destruct Hx as (Hsv & Hp0 & Hca & Hrep & Hfw). cbn [r_report r_port0 with_cfg report] in Hrep, Hp0.
    assert (Hs2 : uci_s (set_conf ea (Some (unlines (dropin_lines (r_cache ra) (r_port0 ra) (r_report ra))))) =
                  uci_c (set_conf ea (Some (unlines (dropin_lines (r_cache ra) (r_port0 ra) (r_report ra)))))) by exact Hs1.
    destruct (ow_phase2_loaded _ _ _ _ Hs2 Hs) as (Hlc & Hlu & _).
    destruct (loaded e2) as [lc lu ln] eqn:El. cbn [l_conf l_uci] in *. rewrite view_openwrt_lines.
    ow_proj. subst lc. rewrite Hca, Hrep, Hp0, dropin_split. rewrite (Hlu k_server neq_server_dhcpopt). ow_proj.
    rewrite Hsv. destruct rep; vm_compute; reflexivity.
Qed.

Lemma ow_phase1_fw r e r1 e1 : ow_phase1 r e = (r1, e1) -> r_fw r1 = r_fw r.
Proof.
  intros H. unfold ow_phase1 in H.
  destruct (r_cache r); [destruct (uci_get e k_port) as [p|]; [destruct (beq_bytes p t_53)|]
                        |destruct (uci_get e k_server)]; injection H as <- <-; reflexivity.
Qed.
Lemma ow_phase2_fw r e r' e' ok : ow_phase2 r e = (r', e', ok) -> r_fw r' = r_fw r.
Proof.
  intros H. unfold ow_phase2 in H. destruct (uci_get e k_ipaddr) as [ip|]; [|injection H as <- <- <-; reflexivity].
  destruct (match uci_get e k_dhcpopt with Some o => contains o (s2b "6," ++ ip) | None => false end);
    injection H as <- <- <-; reflexivity.
Qed.
Lemma ow_cycle_fw c e r1 e1 ls ok1 r2 e2 ok2 :
  configure (new Openwrt e) c e = (r1, e1, ls, ok1) -> setup r1 e1 = (r2, e2, ok2) -> r_fw r2 = Openwrt.
Proof.
  intros Hc Hs. destruct c as [rep ca]. unfold configure, new in Hc. cbn [r_fw cache] in Hc. destruct ca.
  - unfold setup_dnsmasq in Hc. cbn [r_fw with_cfg] in Hc. unfold ow_setup in Hc.
    destruct (ow_phase1 _ e) as [ra ea] eqn:E1. destruct (ow_phase2 ra _) as [[rb eb] okb] eqn:E2.
    injection Hc as <- <- <- <-. apply ow_phase1_fw in E1. apply ow_phase2_fw in E2. cbn [r_fw with_cfg] in E1.
    unfold setup in Hs. rewrite E2, E1 in Hs.
    destruct (r_cache rb); [injection Hs as <- _ _; congruence|].
    unfold setup_dnsmasq in Hs. rewrite E2, E1 in Hs. unfold ow_setup in Hs.
    destruct (ow_phase1 rb eb) as [rc ec] eqn:E3. apply ow_phase1_fw in E3. apply ow_phase2_fw in Hs. congruence.
  - injection Hc as <- <- <- <-. unfold setup in Hs. cbn [r_fw with_cfg r_cache] in Hs. unfold setup_dnsmasq in Hs.
    cbn [r_fw] in Hs. unfold ow_setup in Hs. destruct (ow_phase1 _ e) as [ra ea] eqn:E1.
    apply ow_phase1_fw in E1. apply ow_phase2_fw in Hs. cbn [r_fw with_cfg] in E1. congruence.
Qed.

Lemma conf_uci_del_list e k v : conf (uci_del_list e k v) = conf e.
Proof. unfold uci_del_list. destruct (sget k (uci_s e)) as [l|]; [|reflexivity]. destruct (filter _ l); reflexivity. Qed.
Lemma conf_fold_add_list fs : forall e, conf (fold_left (fun e f => uci_add_list e k_server f) fs e) = conf e.
Proof. induction fs as [|f fs IH]; intros e; cbn [fold_left]; [reflexivity|]. rewrite IH. reflexivity. Qed.

(* Restore on OpenWrt from any state: the drop-in is not in what dnsmasq runs with *)
Lemma ow_restore_not_pointing c e r1 e1 ls ok1 r2 e2 ok2 e3 :
  configure (new Openwrt e) c e = (r1, e1, ls, ok1) -> setup r1 e1 = (r2, e2, ok2) -> restore r2 e2 = (e3, true) ->
  c20_not_pointing (view Openwrt (loaded e3)) = true.
Proof.
  intros Hc Hs Hr. pose proof (ow_cycle_fw _ _ _ _ _ _ _ _ _ Hc Hs) as Hfw.
  unfold restore in Hr. rewrite Hfw in Hr. unfold ow_restore in Hr.
  assert (Hl : l_conf (loaded e3) = None).
  { set (ea := if beq_bytes (r_savedfw r2) [] then e2 else _) in Hr.
    destruct (r_addedopt r2).
    - destruct (uci_get (set_conf ea None) k_ipaddr); [|discriminate]. injection Hr as <-.
      cbn [loaded restart l_conf uci_commit conf]. apply conf_uci_del_list.
    - injection Hr as <-. reflexivity. }
  destruct (loaded e3) as [lc lu ln]. cbn [l_conf] in Hl. subst lc. reflexivity.
Qed.

(* ---------- a whole start/stop cycle on OpenWrt puts the owner's uci settings back ---------- *)
Lemma neq_ipaddr_dhcpopt : beq_bytes k_ipaddr k_dhcpopt = false. Proof. vm_compute. reflexivity. Qed.
Lemma neq_ipaddr_server : beq_bytes k_ipaddr k_server = false. Proof. vm_compute. reflexivity. Qed.
Lemma neq_ipaddr_port : beq_bytes k_ipaddr k_port = false. Proof. vm_compute. reflexivity. Qed.

(* strings.Join(strings.Split(s, " "), " ") == s *)
Lemma split_sp_go_nonnil s cur : split_sp_go s cur <> [].
Proof. revert cur. induction s as [|c r IH]; intros cur; cbn [split_sp_go]; [discriminate|]. destruct (c =? 32); [discriminate|apply IH]. Qed.
Lemma join_split_go s : forall cur, join_sp (split_sp_go s cur) = cur ++ s.
Proof.
  induction s as [|c r IH]; intros cur; cbn [split_sp_go].
  - cbn [join_sp]. symmetry. apply app_nil_r.
  - destruct (c =? 32) eqn:E.
    + assert (c = 32) by lia. subst c. specialize (IH []). cbn [app] in IH.
      destruct (split_sp_go r []) as [|y ys] eqn:Es; [exfalso; exact (split_sp_go_nonnil _ _ Es)|].
      cbn [join_sp]. cbn [join_sp] in IH. rewrite IH. reflexivity.
    + rewrite IH, <- app_assoc. reflexivity.
Qed.
Lemma join_split s : join_sp (split_sp s) = s.
Proof. unfold split_sp. apply join_split_go. Qed.

Definition olist (o : option (list bytes)) : list bytes := match o with Some l => l | None => [] end.

Lemma fold_add_list_server fs : forall e,
  let e' := fold_left (fun e f => uci_add_list e k_server f) fs e in
  uci_c e' = uci_c e /\ nv e' = nv e /\ loaded e' = loaded e /\
  (forall k, beq_bytes k k_server = false -> sget k (uci_s e') = sget k (uci_s e)) /\
  (fs <> [] -> sget k_server (uci_s e') = Some (olist (sget k_server (uci_s e)) ++ fs)).
Proof.
  induction fs as [|f fs IH]; intros e; cbn [fold_left].
  - repeat split; try reflexivity. intros H. contradiction.
  - specialize (IH (uci_add_list e k_server f)). cbn zeta in IH. destruct IH as (H1 & H2 & H3 & H4 & H5).
    repeat split; try assumption.
    + intros k Hk. rewrite (H4 k Hk). unfold uci_add_list. cbn [uci_s set_uci_s]. apply sget_sset_other. exact Hk.
    + intros _. destruct fs as [|g gs].
      * cbn [fold_left]. unfold uci_add_list. cbn [uci_s set_uci_s]. rewrite sget_sset_same.
        destruct (sget k_server (uci_s e)); reflexivity.
      * rewrite H5 by discriminate. unfold uci_add_list at 1. cbn [uci_s set_uci_s]. rewrite sget_sset_same.
        destruct (sget k_server (uci_s e)); cbn [olist]; [rewrite <- app_assoc|]; reflexivity.
Qed.

Lemma has_prefix_refl_app x y : has_prefix x (x ++ y) = true.
Proof. induction x as [|c x IH]; cbn [has_prefix app]; [destruct y; reflexivity|]. rewrite Z.eqb_refl. exact IH. Qed.
Lemma contains_app_r a s x : contains s x = true -> contains (a ++ s) x = true.
Proof.
  intros H. induction a as [|c a IH]; [exact H|]. cbn [app contains]. rewrite IH. apply Bool.orb_true_r.
Qed.
Lemma contains_prefix x y : contains (x ++ y) x = true.
Proof. destruct (x ++ y) eqn:E; cbn [contains]; rewrite <- E, has_prefix_refl_app; reflexivity. Qed.
Lemma in_join_contains x l : In x l -> contains (join_sp l) x = true.
Proof.
  induction l as [|y r IH]; [intros []|]. intros [->|H].
  - destruct r as [|z r']; cbn [join_sp].
    + rewrite <- (app_nil_r x) at 1. apply contains_prefix.
    + apply contains_prefix.
  - destruct r as [|z r']; [destruct H|]. cbn [join_sp]. apply contains_app_r. apply (contains_app_r [32]). apply IH. exact H.
Qed.

Lemma filter_neq_snoc x l : ~ In x l -> filter (fun y => negb (beq_bytes y x)) (l ++ [x]) = l.
Proof.
  intros H. rewrite filter_app. cbn [filter]. rewrite beq_bytes_refl. cbn [negb]. rewrite app_nil_r.
  induction l as [|y r IH]; [reflexivity|]. cbn [filter].
  destruct (beq_bytes y x) eqn:E; [apply beq_bytes_eq in E; subst y; exfalso; apply H; left; reflexivity|].
  cbn [negb]. f_equal. apply IH. intros Hin. apply H. right. exact Hin.
Qed.

Definition fport (o : option (list bytes)) : bytes :=
  match o with Some (x :: r) => trim_space (join_sp (x :: r)) | _ => t_53 end.
Definition fjoin (o : option (list bytes)) : bytes := trim_space (joined o).

Lemma ow_phase1_effect r e r1 e1 :
  uci_s e = uci_c e -> ow_phase1 r e = (r1, e1) ->
  uci_s e1 = uci_c e1 /\ conf e1 = conf e /\ r_addedopt r1 = r_addedopt r /\ r_cache r1 = r_cache r /\
  sget k_dhcpopt (uci_s e1) = sget k_dhcpopt (uci_s e) /\ sget k_ipaddr (uci_s e1) = sget k_ipaddr (uci_s e) /\
  (r_cache r = true -> sget k_server (uci_s e1) = sget k_server (uci_s e) /\ r_savedfw r1 = r_savedfw r /\
                       fport (sget k_port (uci_s e1)) = fport (sget k_port (uci_s e))) /\
  (r_cache r = false -> sget k_port (uci_s e1) = sget k_port (uci_s e) /\
     ((r_savedfw r1 = [] /\ fjoin (sget k_server (uci_s e1)) = fjoin (sget k_server (uci_s e))) \/
      (r_savedfw r1 <> [] /\ sget k_server (uci_s e1) = None /\
       trim_space (r_savedfw r1) = fjoin (sget k_server (uci_s e))))).
Proof.
  intros Hsync H. unfold ow_phase1 in H. destruct (r_cache r) eqn:Eca.
  - unfold uci_get in H. destruct (sget k_port (uci_s e)) as [[|x xs]|] eqn:Eg.
    + injection H as <- <-. ow_proj. repeat split; try assumption; try reflexivity; try discriminate. rewrite Eg. reflexivity.
    + destruct (beq_bytes (trim_space (join_sp (x :: xs))) t_53) eqn:Eb; injection H as <- <-; ow_proj.
      * repeat split; try reflexivity; try discriminate; try assumption;
          try (apply sget_sdel_other; first [exact neq_dhcpopt_port|exact neq_ipaddr_port|exact neq_server_port]).
        rewrite sget_sdel_same. unfold fport. apply beq_bytes_eq in Eb. symmetry. exact Eb.
      * repeat split; try assumption; try reflexivity; try discriminate. rewrite Eg. reflexivity.
    + injection H as <- <-. ow_proj. repeat split; try assumption; try reflexivity; try discriminate. rewrite Eg. reflexivity.
  - unfold uci_get in H. destruct (sget k_server (uci_s e)) as [[|x xs]|] eqn:Eg.
    + injection H as <- <-. ow_proj. repeat split; try assumption; try reflexivity; try discriminate.
      left. split; [reflexivity|]. rewrite Eg. reflexivity.
    + injection H as <- <-. ow_proj.
      repeat split; try reflexivity; try discriminate; try assumption;
        try (apply sget_sdel_other; first [exact neq_dhcpopt_server|exact neq_ipaddr_server|exact neq_port_server]).
      change (fjoin (Some (x :: xs))) with (trim_space (join_sp (x :: xs))).
      destruct (trim_space (join_sp (x :: xs))) as [|b bs] eqn:Et.
      * left. split; [exact Et|]. rewrite sget_sdel_same. reflexivity.
      * right. split; [change (trim_space (join_sp (x :: xs)) <> []); rewrite Et; discriminate|].
        split; [apply sget_sdel_same|].
        change (trim_space (trim_space (join_sp (x :: xs))) = b :: bs). rewrite trim_space_idem. exact Et.
    + injection H as <- <-. ow_proj. repeat split; try assumption; try reflexivity; try discriminate.
      left. split; [reflexivity|]. rewrite Eg. reflexivity.
Qed.
