(* Proofs/CacheFacts.v -- updateTTL on well-formed messages equals the tree-level
   specification; TTL monotonicity; length preservation. *)
From NX Require Import Bytes CacheTTL ReplyFacts.
From Coq Require Import ZifyBool.
Open Scope Z_scope.
Ltac Zify.zify_post_hook ::= Z.div_mod_to_equations.

(* ---------- arithmetic of one record ---------- *)
Lemma ttl_mono ttl age maxTTL :
  0 <= ttl -> 0 <= age -> ttl_ok ttl (capped (aged ttl age) maxTTL) age maxTTL = true.
Proof.
  intros Ht Ha. unfold ttl_ok, capped, aged.
  destruct (age >? ttl) eqn:E1; destruct (maxTTL >? 0) eqn:E2; cbn [andb implb];
    try destruct (0 >? maxTTL) eqn:E3; try destruct (ttl - age >? maxTTL) eqn:E4; lia.
Qed.

Lemma aged_range ttl age : 0 <= ttl < two32 -> 0 <= age -> 0 <= aged ttl age < two32.
Proof. unfold aged, two32. destruct (age >? ttl) eqn:E; lia. Qed.
Lemma capped_range t maxTTL : 0 <= t < two32 -> 0 <= maxTTL < two32 -> 0 <= capped t maxTTL < two32.
Proof. unfold capped, two32. destruct ((maxTTL >? 0) && (t >? maxTTL)) eqn:E; lia. Qed.

(* ---------- packing round trips ---------- *)
Lemma u16_pack16 n : 0 <= n < 65536 ->
  match pack16 n with [a; b] => u16 a b = n /\ 0 <= a < 256 /\ 0 <= b < 256 | _ => False end.
Proof. intros H. unfold pack16, u16. lia. Qed.

Lemma u32_pack32 n : 0 <= n < two32 ->
  match pack32 n with [a; b; c; d] => u32 a b c d = n | _ => False end.
Proof. unfold two32; intros H. unfold pack32, u32. lia. Qed.

(* ---------- bit facts by finite computation ---------- *)
Lemma in_range_seq n k : 0 <= n < Z.of_nat k -> In n (map Z.of_nat (seq 0 k)).
Proof.
  intros H. replace n with (Z.of_nat (Z.to_nat n)) by lia. apply in_map. apply in_seq. lia.
Qed.

Lemma land_label n : 1 <= n <= 63 -> (Z.land n 192 =? 0) = true /\ (n =? 0) = false.
Proof.
  intros H. split; [|lia].
  assert (Hall : forallb (fun n => Z.land n 192 =? 0) (map Z.of_nat (seq 0 64)) = true) by (vm_compute; reflexivity).
  rewrite forallb_forall in Hall. apply Hall. apply in_range_seq. lia.
Qed.
Lemma land_ptr p : 192 <= p <= 255 -> (Z.land p 192 =? 0) = false /\ (Z.land p 192 =? 192) = true.
Proof.
  intros H.
  assert (Hall : forallb (fun p => negb (Z.land (p + 192) 192 =? 0) && (Z.land (p + 192) 192 =? 192)) (map Z.of_nat (seq 0 64)) = true)
    by (vm_compute; reflexivity).
  rewrite forallb_forall in Hall. specialize (Hall (p - 192)).
  replace (p - 192 + 192) with p in Hall by lia.
  assert (Hin : In (p - 192) (map Z.of_nat (seq 0 64))) by (apply in_range_seq; lia).
  specialize (Hall Hin). apply andb_true_iff in Hall as [H1 H2]. apply negb_true_iff in H1. auto.
Qed.

(* ---------- skipName on an encoded name ---------- *)
Lemma skip_label_bytes l rest racc :
  skip_name_c (l ++ rest) (length l) racc = skip_name_c rest O (rev l ++ racc).
Proof.
  revert racc; induction l as [|x l IH]; intros racc; cbn [app length rev].
  - destruct rest; reflexivity.
  - cbn [skip_name_c]. rewrite IH. rewrite <- app_assoc. reflexivity.
Qed.

Definition end_bytes (e : name_end) : bytes := match e with EndRoot => [0] | EndPtr p1 p2 => [p1; p2] end.
Definition lab_bytes (ls : list bytes) : bytes := concat (map (fun l => len l :: l) ls).

Lemma skip_name_enc' ls e rest racc :
  wf_labels ls = true -> wf_end e = true ->
  skip_name_c (lab_bytes ls ++ end_bytes e ++ rest) O racc = Some (rev racc ++ lab_bytes ls ++ end_bytes e, rest).
Proof.
  revert racc; induction ls as [|l ls IH]; intros racc Hw He; unfold lab_bytes; cbn [map concat app].
  - destruct e as [|p1 p2]; cbn [end_bytes app skip_name_c].
    + cbn. reflexivity.
    + cbn [wf_end] in He.
      destruct (land_ptr p1) as [E1 E2]; [lia|]. rewrite E1, E2. cbn [rev]. rewrite <- !app_assoc. reflexivity.
  - cbn [wf_labels] in Hw. apply andb_true_iff in Hw as [Hw Hls]. apply andb_true_iff in Hw as [Hw Hb].
    apply andb_true_iff in Hw as [H1 H63].
    rewrite <- !app_assoc. cbn [app skip_name_c].
    destruct (land_label (len l)) as [E1 E2]; [lia|]. rewrite E1, E2.
    replace (Z.to_nat (len l)) with (length l) by (unfold len; lia).
    rewrite skip_label_bytes.
    specialize (IH (rev l ++ len l :: racc) Hls He). unfold lab_bytes in IH. rewrite IH.
    f_equal. f_equal. rewrite rev_app_distr, rev_involutive. cbn [rev]. rewrite <- !app_assoc. reflexivity.
Qed.

Lemma skip_name_enc ls e rest racc :
  wf_labels ls = true -> wf_end e = true ->
  skip_name_c (enc_name ls e ++ rest) O racc = Some (rev racc ++ enc_name ls e, rest).
Proof.
  intros Hw He. unfold enc_name. fold (lab_bytes ls) (end_bytes e). rewrite <- app_assoc.
  apply skip_name_enc'; assumption.
Qed.

(* ---------- well-formed records ---------- *)
Definition wf_rr (r : rrec) : Prop :=
  (exists ls e, r_name r = enc_name ls e /\ wf_labels ls = true /\ wf_end e = true) /\
  0 <= r_type r < 65536 /\ 0 <= r_class r < 65536 /\ 0 <= r_ttl r < two32 /\ len (r_rdata r) < 65536.

Lemma takez_app {A} (a b : list A) : takez (len a) (a ++ b) = a.
Proof. unfold takez, len. rewrite Nat2Z.id. rewrite firstn_app, Nat.sub_diag, firstn_all. cbn. apply app_nil_r. Qed.
Lemma dropz_app {A} (a b : list A) : dropz (len a) (a ++ b) = b.
Proof. unfold dropz, len. rewrite Nat2Z.id. rewrite skipn_app, Nat.sub_diag, skipn_all. reflexivity. Qed.

Definition step_min (i idx age maxAge minTTL : Z) (r : rrec) : Z :=
  if r_type r =? 41 then minTTL
  else if i <? idx then min_step minTTL (aged (r_ttl r) age) age maxAge else minTTL.

Lemma rr_loop_step n i idx r rest age maxAge maxTTL minTTL :
  wf_rr r -> 0 <= age -> 0 <= maxTTL < two32 ->
  rr_loop (S n) i idx (enc_rr r ++ rest) age maxAge maxTTL minTTL =
    let '(out, res) := rr_loop n (i + 1) idx rest age maxAge maxTTL (step_min i idx age maxAge minTTL r) in
    (enc_rr (map_rr age maxTTL r) ++ out, res).
Proof.
  intros ((ls & e & Hn & Hls & He) & Ht & Hc & Httl & Hrd) Ha Hm.
  unfold enc_rr at 1. rewrite Hn. rewrite <- !app_assoc.
  remember (enc_name ls e ++ pack16 (r_type r) ++ pack16 (r_class r) ++ pack32 (r_ttl r) ++
                     pack16 (len (r_rdata r)) ++ r_rdata r ++ rest) as big eqn:Hbig.
  destruct big as [|x y].
  { exfalso. unfold enc_name in Hbig. destruct ls as [|l ls]; [destruct e; cbn in Hbig; discriminate | cbn in Hbig; discriminate]. }
  cbn [rr_loop]. rewrite Hbig.
  rewrite skip_name_enc by assumption. cbn [rev app].
  pose proof (u16_pack16 (r_type r) Ht) as P1.
  pose proof (u16_pack16 (r_class r) Hc) as P2.
  pose proof (u32_pack32 (r_ttl r) Httl) as P3.
  assert (Hlen : 0 <= len (r_rdata r) < 65536) by (pose proof (len_nonneg (r_rdata r)); lia).
  pose proof (u16_pack16 (len (r_rdata r)) Hlen) as P4.
  destruct (pack16 (r_type r)) as [|t1 [|t2 [|? ?]]] eqn:E1; try contradiction.
  destruct (pack16 (r_class r)) as [|c1 [|c2 [|? ?]]] eqn:E2; try contradiction.
  destruct (pack32 (r_ttl r)) as [|a [|b [|c [|d [|? ?]]]]] eqn:E3; try contradiction.
  destruct (pack16 (len (r_rdata r))) as [|l1 [|l2 [|? ?]]] eqn:E4; try contradiction.
  destruct P1 as (P1 & _). destruct P2 as (P2 & _). destruct P4 as (P4 & _).
  cbn [app]. rewrite P1, P3, P4.
  assert (Hshort : (len (r_rdata r ++ rest) <? len (r_rdata r)) = false).
  { rewrite len_app. pose proof (len_nonneg rest). lia. }
  unfold step_min, map_rr, new_ttl, enc_rr. cbn [r_name r_type r_class r_ttl r_rdata].
  destruct (r_type r =? 41) eqn:Eopt.
  - rewrite Hshort, dropz_app, takez_app.
    destruct (rr_loop n (i + 1) idx rest age maxAge maxTTL minTTL) as [out res].
    rewrite Hn, E1, E2, E3, E4. rewrite <- !app_assoc. cbn [app]. reflexivity.
  - rewrite Hshort, dropz_app, takez_app.
    destruct (rr_loop n (i + 1) idx rest age maxAge maxTTL _) as [out res].
    rewrite Hn, E1, E2, E4. rewrite <- !app_assoc. cbn [app]. reflexivity.
Qed.

(* fold of step_min over a record list starting at index i *)
Fixpoint fold_min (rs : list rrec) (i idx age maxAge minTTL : Z) : Z :=
  match rs with
  | [] => minTTL
  | r :: rest => fold_min rest (i + 1) idx age maxAge (step_min i idx age maxAge minTTL r)
  end.

Lemma rr_loop_all rs : forall n i idx age maxAge maxTTL minTTL,
  Forall wf_rr rs -> 0 <= age -> 0 <= maxTTL < two32 -> (length rs <= n)%nat ->
  rr_loop n i idx (concat (map enc_rr rs)) age maxAge maxTTL minTTL =
    (concat (map enc_rr (map (map_rr age maxTTL) rs)), Some (fold_min rs i idx age maxAge minTTL)).
Proof.
  induction rs as [|r rs IH]; intros n i idx age maxAge maxTTL minTTL Hwf Ha Hm Hn.
  - cbn [map concat fold_min]. destruct n; reflexivity.
  - destruct n as [|n]; [cbn in Hn; lia|]. cbn [map concat fold_min].
    inversion Hwf as [|? ? Hr Hrs]; subst.
    rewrite rr_loop_step by assumption.
    rewrite IH by (try assumption; cbn in Hn; lia). reflexivity.
Qed.

(* ---------- questions ---------- *)
Definition wf_q (q : quest) : Prop :=
  (exists ls e, qn_name q = enc_name ls e /\ wf_labels ls = true /\ wf_end e = true) /\
  0 <= qn_type q < 65536 /\ 0 <= qn_class q < 65536.

Lemma skip_questions_all qs rest :
  Forall wf_q qs ->
  skip_questions (length qs) (concat (map enc_q qs) ++ rest) = Some (concat (map enc_q qs), rest).
Proof.
  induction qs as [|q qs IH]; intros Hwf; cbn [length map concat app skip_questions]; [reflexivity|].
  inversion Hwf as [|? ? ((ls & e & Hn & Hls & He) & Ht & Hc) Hqs]; subst.
  unfold enc_q at 1. rewrite Hn. rewrite <- !app_assoc.
  rewrite skip_name_enc by assumption. cbn [rev app].
  pose proof (u16_pack16 (qn_type q) Ht) as P1. pose proof (u16_pack16 (qn_class q) Hc) as P2.
  destruct (pack16 (qn_type q)) as [|t1 [|t2 [|? ?]]] eqn:E1; try contradiction.
  destruct (pack16 (qn_class q)) as [|c1 [|c2 [|? ?]]] eqn:E2; try contradiction.
  cbn [app]. rewrite IH by assumption.
  unfold enc_q. rewrite Hn, E1, E2. rewrite <- !app_assoc. reflexivity.
Qed.

(* ---------- the minimum ---------- *)
(* records with index < idx are exactly the first (idx - i) ones *)
Lemma fold_min_additionals rs i idx age maxAge m :
  idx <= i -> fold_min rs i idx age maxAge m = m.
Proof.
  revert i m; induction rs as [|r rs IH]; intros i m Hi; cbn [fold_min]; [reflexivity|].
  rewrite IH by lia. unfold step_min. destruct (r_type r =? 41); [reflexivity|].
  destruct (i <? idx) eqn:E; [lia|reflexivity].
Qed.

Lemma fold_min_app a b i idx age maxAge m :
  fold_min (a ++ b) i idx age maxAge m = fold_min b (i + len a) idx age maxAge (fold_min a i idx age maxAge m).
Proof.
  revert i m; induction a as [|r a IH]; intros i m; cbn [app fold_min].
  - unfold len; cbn. f_equal. lia.
  - rewrite IH. f_equal. rewrite len_cons. lia.
Qed.

(* inside the answer+authority range the fold is min_step over the non-OPT records *)
Definition nonopt_aged (rs : list rrec) (age : Z) : list Z :=
  map (fun r => aged (r_ttl r) age) (filter (fun r => negb (r_type r =? 41)) rs).

Lemma fold_min_inside rs i idx age maxAge m :
  i + len rs <= idx ->
  fold_min rs i idx age maxAge m = fold_left (fun m t => min_step m t age maxAge) (nonopt_aged rs age) m.
Proof.
  revert i m; induction rs as [|r rs IH]; intros i m Hi; cbn [fold_min]; [reflexivity|].
  rewrite len_cons in Hi. pose proof (len_nonneg rs).
  rewrite IH by lia. unfold step_min, nonopt_aged. cbn [filter].
  destruct (r_type r =? 41); cbn [negb map fold_left]; [reflexivity|].
  destruct (i <? idx) eqn:E; [reflexivity | lia].
Qed.

Lemma fold_min_step_exceeded ts age maxAge m :
  (maxAge >? 0) && (age >? maxAge) = true -> ts <> [] ->
  fold_left (fun m t => min_step m t age maxAge) ts m = 0.
Proof.
  intros He. revert m; induction ts as [|t ts IH]; intros m Hne; [congruence|].
  cbn [fold_left]. unfold min_step at 2. rewrite He.
  destruct ts as [|t' ts']; [reflexivity|]. apply IH. discriminate.
Qed.

Lemma fold_min_step_plain ts age maxAge m :
  (maxAge >? 0) && (age >? maxAge) = false ->
  fold_left (fun m t => min_step m t age maxAge) ts m = fold_left Z.min ts m.
Proof.
  intros He. revert m; induction ts as [|t ts IH]; intros m; cbn [fold_left]; [reflexivity|].
  rewrite IH. f_equal. unfold min_step. rewrite He. destruct (m >? t) eqn:E; lia.
Qed.

Lemma fold_min_le ts m : fold_left Z.min ts m <= m.
Proof. revert m; induction ts as [|t ts IH]; intros m; cbn [fold_left]; [lia|]. specialize (IH (Z.min m t)). lia. Qed.

(* ---------- the main theorem ---------- *)
Definition wf_msg (m : msg_ast) : Prop :=
  0 <= m_id m < 65536 /\ 0 <= m_flags m < 65536 /\
  Forall wf_q (m_qs m) /\ Forall wf_rr (m_an m) /\ Forall wf_rr (m_ns m) /\ Forall wf_rr (m_ar m) /\
  len (m_qs m) < 65536 /\ len (m_an m) + len (m_ns m) + len (m_ar m) < 65536.

Theorem update_ttl_spec m age maxAge maxTTL :
  wf_msg m -> 0 <= age -> 0 <= maxTTL < two32 ->
  update_ttl (encode_msg m) age maxAge maxTTL = (encode_msg (map_ttl age maxTTL m), min_ttl m age maxAge).
Proof.
  intros (Hid & Hfl & Hq & Han & Hns & Har & Hnq & Hcnt) Ha Hm.
  pose proof (len_nonneg (m_qs m)). pose proof (len_nonneg (m_an m)).
  pose proof (len_nonneg (m_ns m)). pose proof (len_nonneg (m_ar m)).
  unfold encode_msg at 1.
  pose proof (u16_pack16 (m_id m) Hid) as P0. pose proof (u16_pack16 (m_flags m) Hfl) as P1.
  assert (Hr2 : 0 <= len (m_qs m) < 65536) by lia. pose proof (u16_pack16 _ Hr2) as P2.
  assert (Hr3 : 0 <= len (m_an m) < 65536) by lia. pose proof (u16_pack16 _ Hr3) as P3.
  assert (Hr4 : 0 <= len (m_ns m) < 65536) by lia. pose proof (u16_pack16 _ Hr4) as P4.
  assert (Hr5 : 0 <= len (m_ar m) < 65536) by lia. pose proof (u16_pack16 _ Hr5) as P5.
  destruct (pack16 (m_id m)) as [|i1 [|i2 [|? ?]]] eqn:E0; try contradiction.
  destruct (pack16 (m_flags m)) as [|f1 [|f2 [|? ?]]] eqn:E1; try contradiction.
  destruct (pack16 (len (m_qs m))) as [|q1 [|q2 [|? ?]]] eqn:E2; try contradiction.
  destruct (pack16 (len (m_an m))) as [|a1 [|a2 [|? ?]]] eqn:E3; try contradiction.
  destruct (pack16 (len (m_ns m))) as [|n1 [|n2 [|? ?]]] eqn:E4; try contradiction.
  destruct (pack16 (len (m_ar m))) as [|r1 [|r2 [|? ?]]] eqn:E5; try contradiction.
  destruct P2 as (P2 & _). destruct P3 as (P3 & _). destruct P4 as (P4 & _). destruct P5 as (P5 & _).
  cbn [app update_ttl]. rewrite P2, P3, P4, P5.
  replace (Z.to_nat (len (m_qs m))) with (length (m_qs m)) by (unfold len; lia).
  rewrite skip_questions_all by assumption.
  rewrite (Z.mod_small (len (m_an m) + len (m_ns m) + len (m_ar m))) by lia.
  rewrite (Z.mod_small (len (m_an m) + len (m_ns m))) by lia.
  assert (Hall : Forall wf_rr (m_an m ++ m_ns m ++ m_ar m)) by (rewrite !Forall_app; auto).
  rewrite rr_loop_all; try assumption.
  2:{ rewrite !app_length. unfold len in *. lia. }
  (* shape of the rewritten bytes *)
  assert (Hshape : [i1; i2; f1; f2; q1; q2; a1; a2; n1; n2; r1; r2] ++
            concat (map enc_q (m_qs m)) ++ concat (map enc_rr (map (map_rr age maxTTL) (m_an m ++ m_ns m ++ m_ar m)))
            = encode_msg (map_ttl age maxTTL m)).
  { unfold encode_msg, map_ttl. cbn [m_id m_flags m_qs m_an m_ns m_ar].
    unfold len. rewrite !map_length. fold (len (m_qs m)) (len (m_an m)) (len (m_ns m)) (len (m_ar m)).
    rewrite E0, E1, E2, E3, E4, E5. rewrite !map_app. cbn [app]. reflexivity. }
  cbn [app] in Hshape. rewrite Hshape. f_equal.
  (* the minimum *)
  unfold min_ttl, spec_min.
  rewrite (app_assoc (m_an m)), fold_min_app.
  rewrite (fold_min_additionals (m_ar m)) by (rewrite len_app; lia).
  rewrite fold_min_inside by (rewrite len_app; lia).
  fold (nonopt_aged (m_an m ++ m_ns m) age).
  destruct (nonopt_aged (m_an m ++ m_ns m) age) as [|t ts] eqn:Ets; [reflexivity|].
  destruct ((maxAge >? 0) && (age >? maxAge)) eqn:Eex.
  - rewrite fold_min_step_exceeded by (try assumption; discriminate). reflexivity.
  - rewrite fold_min_step_plain by assumption. reflexivity.
Qed.

(* ---------- in-place rewriting never changes the length ---------- *)
Lemma len_rev {A} (l : list A) : len (rev l) = len l.
Proof. unfold len. rewrite rev_length. reflexivity. Qed.
Lemma len_nil {A} : len (@nil A) = 0. Proof. reflexivity. Qed.
Ltac lens := repeat (rewrite ?len_app, ?len_rev, ?len_cons, ?len_nil in * ).

Lemma skip_name_c_len rest k racc nm r :
  skip_name_c rest k racc = Some (nm, r) -> len nm + len r = len racc + len rest.
Proof.
  revert k racc; induction rest as [|c rest IH]; intros k racc H; cbn [skip_name_c] in H; [discriminate|].
  destruct k as [|k'].
  - destruct (Z.land c 192 =? 0).
    + destruct (c =? 0).
      * inversion H; subst. lens. lia.
      * apply IH in H. lens. lia.
    + destruct (Z.land c 192 =? 192); [|discriminate].
      destruct rest as [|c1 r']; [discriminate|]. inversion H; subst.
      lens. lia.
  - apply IH in H. lens. lia.
Qed.

Lemma skip_questions_len n rest out r : skip_questions n rest = Some (out, r) -> len out + len r = len rest.
Proof.
  revert rest out r; induction n as [|n IH]; intros rest out r H; cbn [skip_questions] in H.
  - inversion H; subst. lens. lia.
  - destruct (skip_name_c rest 0 []) as [[nm r1]|] eqn:E; [|discriminate].
    apply skip_name_c_len in E. destruct r1 as [|a [|b [|c [|d r2]]]]; try discriminate.
    destruct (skip_questions n r2) as [[o r3]|] eqn:E2; [|discriminate]. inversion H; subst.
    apply IH in E2. lens. lia.
Qed.

Lemma pack32_len n : len (pack32 n) = 4. Proof. reflexivity. Qed.

Lemma rr_loop_len n : forall i idx rest age maxAge maxTTL m,
  len (fst (rr_loop n i idx rest age maxAge maxTTL m)) = len rest.
Proof.
  induction n as [|n IH]; intros i idx rest age maxAge maxTTL m; cbn [rr_loop]; [reflexivity|].
  destruct rest as [|x rest']; [reflexivity|]. set (rest := x :: rest').
  destruct (skip_name_c rest 0 []) as [[nm r1]|] eqn:E; [|reflexivity].
  apply skip_name_c_len in E.
  destruct r1 as [|t1 [|t2 [|c1 [|c2 [|a [|b [|c [|d [|l1 [|l2 r2]]]]]]]]]]; try reflexivity.
  set (tb := if u16 t1 t2 =? 41 then _ else _).
  assert (Htb : len (fst tb) = 4).
  { unfold tb. destruct (u16 t1 t2 =? 41); reflexivity. }
  destruct tb as [ttlbytes m'] eqn:Etb. cbn [fst] in Htb.
  destruct (len r2 <? u16 l1 l2) eqn:Es.
  - cbn [fst]. lens. rewrite Htb. lia.
  - specialize (IH (i + 1) idx (dropz (u16 l1 l2) r2) age maxAge maxTTL m').
    destruct (rr_loop n (i + 1) idx (dropz (u16 l1 l2) r2) age maxAge maxTTL m') as [out res]. cbn [fst] in *.
    lens. rewrite Htb, IH.
    assert (len (takez (u16 l1 l2) r2) + len (dropz (u16 l1 l2) r2) = len r2).
    { unfold takez, dropz. rewrite <- len_app, firstn_skipn. reflexivity. }
    lia.
Qed.

Theorem update_ttl_len msg age maxAge maxTTL : len (fst (update_ttl msg age maxAge maxTTL)) = len msg.
Proof.
  unfold update_ttl.
  destruct msg as [|i1 [|i2 [|f1 [|f2 [|q1 [|q2 [|a1 [|a2 [|n1 [|n2 [|r1 [|r2 body]]]]]]]]]]]]; try reflexivity.
  destruct (skip_questions _ body) as [[qs rest]|] eqn:E; [|reflexivity].
  apply skip_questions_len in E.
  pose proof (rr_loop_len (Z.to_nat ((u16 a1 a2 + u16 n1 n2 + u16 r1 r2) mod 65536)) 0
                ((u16 a1 a2 + u16 n1 n2) mod 65536) rest age maxAge maxTTL maxu32) as HL.
  destruct (rr_loop _ 0 _ rest age maxAge maxTTL maxu32) as [out res]. cbn [fst] in *.
  lens. rewrite HL. lia.
Qed.

(* an early exit always reports 0 *)
Theorem update_ttl_early msg age maxAge maxTTL :
  len msg < 12 -> update_ttl msg age maxAge maxTTL = (msg, 0).
Proof.
  intros H. unfold update_ttl.
  destruct msg as [|i1 [|i2 [|f1 [|f2 [|q1 [|q2 [|a1 [|a2 [|n1 [|n2 [|r1 [|r2 body]]]]]]]]]]]]; try reflexivity.
  lens. pose proof (len_nonneg body). lia.
Qed.
