(* Proofs/FrameStream.v -- what a TCP client does with the byte stream of a connection: read a
   two-byte length, then that many bytes, again and again.  For every sequence of replies (each
   at most 65535 bytes, as writeTCP's callers guarantee) the stream made of their frames decodes
   back to exactly those replies, in order, with nothing left over -- provided every frame is
   written whole and nothing is written in between.  This is the statement behind mode tcpstall:
   a frame cut short (a write that timed out half way, seeded change C05g) followed by the next
   frame breaks it, and [cut_frame_refuted] shows the client then reads something that is no
   reply at all. *)
From NX Require Import Bytes Reply ReplyFacts.
From Coq Require Import Lia ZifyBool.
Open Scope Z_scope.

(* the client's reader, on fuel (one unit per frame): the messages read and the bytes left over *)
Fixpoint read_frames (fuel : nat) (s : bytes) : list bytes * bytes :=
  match fuel with
  | O => ([], s)
  | S f =>
    match s with
    | a :: b :: rest =>
      let l := Z.to_nat (u16 a b) in
      if Nat.leb l (length rest)
      then let (ms, left) := read_frames f (skipn l rest) in (firstn l rest :: ms, left)
      else ([], s)
    | _ => ([], s)
    end
  end.

Definition stream (ms : list bytes) : bytes := List.concat (map tcp_frame ms).

Lemma firstn_app_exact {A} (a b : list A) : firstn (length a) (a ++ b) = a.
Proof. induction a as [|x a IH]; cbn; [reflexivity | rewrite IH; reflexivity]. Qed.
Lemma skipn_app_exact {A} (a b : list A) : skipn (length a) (a ++ b) = b.
Proof. induction a as [|x a IH]; cbn; [reflexivity | exact IH]. Qed.

Theorem frames_decode : forall ms tail,
  Forall (fun m => 1 <= len m <= 65535) ms ->
  read_frames (length ms) (stream ms ++ tail) = (ms, tail).
Proof.
  induction ms as [|m r IH]; intros tail H; [reflexivity|].
  inversion H as [|? ? Hm Hr]; subst. cbn [length read_frames stream map List.concat].
  destruct (tcp_frame_spec m Hm) as [Hf _].
  rewrite Hf. cbn [app].
  assert (Hl : Z.to_nat (u16 (len m / 256) (len m mod 256)) = length m).
  { unfold u16. pose proof (Z.div_mod (len m) 256 ltac:(lia)) as Hd. unfold len in *. lia. }
  rewrite Hl. rewrite <- app_assoc.
  replace (Nat.leb (length m) (length (m ++ List.concat (map tcp_frame r) ++ tail))) with true
    by (symmetry; apply Nat.leb_le; rewrite app_length; lia).
  rewrite firstn_app_exact, skipn_app_exact. fold (stream r). rewrite (IH tail Hr). reflexivity.
Qed.

(* with nothing after the last frame the client is left with nothing *)
Corollary frames_decode_all : forall ms,
  Forall (fun m => 1 <= len m <= 65535) ms -> read_frames (length ms) (stream ms) = (ms, []).
Proof. intros ms H. rewrite <- (app_nil_r (stream ms)). apply frames_decode. exact H. Qed.

(* a frame cut short by a write that gave up half way, followed by the next reply's frame: the client reads
   a "message" made of the rest of the first and the head of the second -- no reply to anything *)
Example cut_frame_refuted :
  let m1 := [1;2;3;4;5;6] in let m2 := [7;8;9] in
  let s := firstn 5 (tcp_frame m1) ++ tcp_frame m2 in           (* 3 of the 6 bytes of m1 were written *)
  fst (read_frames 2 s) = [[1;2;3;0;3;7]] /\ snd (read_frames 2 s) = [8;9] /\
  read_frames 2 (stream [m1; m2]) = ([m1; m2], []).
Proof. vm_compute. repeat split. Qed.
