(* Proofs/SortedFacts.v -- discovery/util.go appendUniq (binary search + insert, after the F5
   repair) is sorted insertion without duplicates on sorted sets: the value lists of the lease
   tables stay strictly sorted, hence list every value once. *)
From NX Require Import Bytes Discovery ConfigFacts DiscoveryFacts LeaseFacts.
From Coq Require Import ZifyBool.
Open Scope Z_scope.

(* ---- Go's string order on byte lists ---- *)
Lemma str_lt_irrefl a : str_lt a a = false.
Proof. induction a as [|x a IH]; cbn [str_lt]; [reflexivity|]. rewrite Z.ltb_irrefl. exact IH. Qed.

Lemma str_lt_trans a : forall b c, str_lt a b = true -> str_lt b c = true -> str_lt a c = true.
Proof.
  induction a as [|x a IH]; intros [|y b] [|z c]; cbn [str_lt]; try congruence.
  destruct (x <? y) eqn:Exy.
  - destruct (y <? z) eqn:Eyz; [intros _ _; replace (x <? z) with true by lia; reflexivity|].
    destruct (z <? y) eqn:Ezy; [discriminate|]. intros _ _. replace (x <? z) with true by lia. reflexivity.
  - destruct (y <? x) eqn:Eyx; [discriminate|]. assert (x = y) by lia. subst y.
    destruct (x <? z); [reflexivity|]. destruct (z <? x); [discriminate|]. apply IH.
Qed.

Lemma str_lt_total a : forall b, str_lt a b = false -> beq_bytes a b = false -> str_lt b a = true.
Proof.
  induction a as [|x a IH]; intros [|y b]; cbn [str_lt beq_bytes]; try congruence.
  destruct (x <? y) eqn:Exy; [discriminate|]. destruct (y <? x) eqn:Eyx; [reflexivity|].
  assert (x = y) by lia. subst y. rewrite Z.eqb_refl. cbn [andb]. apply IH.
Qed.

Lemma str_lt_asym a b : str_lt a b = true -> str_lt b a = false.
Proof.
  intros H. destruct (str_lt b a) eqn:E; [|reflexivity].
  pose proof (str_lt_trans _ _ _ H E) as Hc. rewrite str_lt_irrefl in Hc. discriminate.
Qed.
Lemma str_lt_neq a b : str_lt a b = true -> beq_bytes a b = false.
Proof.
  intros H. destruct (beq_bytes a b) eqn:E; [|reflexivity]. apply beq_bytes_eq in E. subst b.
  rewrite str_lt_irrefl in H. discriminate.
Qed.

(* ---- strictly sorted lists ---- *)
Fixpoint ssorted (l : list bytes) : bool :=
  match l with
  | a :: (b :: _) as r => str_lt a b && ssorted r
  | _ => true
  end.

Lemma ssorted_tail a l : ssorted (a :: l) = true -> ssorted l = true.
Proof. destruct l as [|b r]; [reflexivity|]. cbn [ssorted]. intros H. apply andb_prop in H as [_ H]. exact H. Qed.

Lemma ssorted_head_lt a l : ssorted (a :: l) = true -> forall y, In y l -> str_lt a y = true.
Proof.
  revert a. induction l as [|b r IH]; intros a H y [].
  - subst y. cbn [ssorted] in H. apply andb_prop in H as [H _]. exact H.
  - cbn [ssorted] in H. apply andb_prop in H as [Hab Hr]. apply (str_lt_trans _ b); [exact Hab|]. apply IH; assumption.
Qed.

Lemma ssorted_nodup l : ssorted l = true -> NoDup l.
Proof.
  induction l as [|a l IH]; intros H; constructor.
  - intros Hin. pose proof (ssorted_head_lt _ _ H a Hin) as Hc. rewrite str_lt_irrefl in Hc. discriminate.
  - apply IH. apply (ssorted_tail _ _ H).
Qed.

(* ---- the number of leading elements below x ---- *)
Fixpoint plen (s : list bytes) (x : bytes) : nat :=
  match s with [] => O | e :: r => if str_lt e x then S (plen r x) else O end.

Lemma plen_le s x : (plen s x <= length s)%nat.
Proof. induction s as [|e r IH]; cbn [plen length]; [lia|]. destruct (str_lt e x); lia. Qed.

Lemma plen_below s x : forall h, (h < plen s x)%nat -> str_lt (nth h s []) x = true.
Proof.
  induction s as [|e r IH]; intros h Hh; cbn [plen] in Hh; [lia|].
  destruct (str_lt e x) eqn:E; [|lia]. destruct h as [|h]; [exact E|]. cbn [nth]. apply IH. lia.
Qed.

Lemma plen_above s x : ssorted s = true -> forall h, (plen s x <= h < length s)%nat -> str_lt (nth h s []) x = false.
Proof.
  induction s as [|e r IH]; intros Hs h Hh; cbn [length] in Hh; [lia|]. cbn [plen] in Hh.
  destruct (str_lt e x) eqn:E.
  - destruct h as [|h]; [lia|]. cbn [nth]. apply IH; [apply (ssorted_tail _ _ Hs)|lia].
  - destruct h as [|h]; [exact E|]. cbn [nth].
    assert (Hin : In (nth h r []) r) by (apply nth_In; lia).
    pose proof (ssorted_head_lt _ _ Hs _ Hin) as Hlt.
    destruct (str_lt (nth h r []) x) eqn:E2; [|reflexivity].
    rewrite (str_lt_trans _ _ _ Hlt E2) in E. discriminate.
Qed.

(* ---- sort.SearchStrings finds it ---- *)
Lemma bsearch_plen s x : ssorted s = true -> forall fuel lo hi,
  (lo <= plen s x <= hi)%nat -> (hi <= length s)%nat -> (hi - lo < fuel)%nat ->
  bsearch fuel s x lo hi = plen s x.
Proof.
  intros Hs. induction fuel as [|f IH]; intros lo hi Hp Hh Hf; [lia|]. cbn [bsearch].
  destruct (Nat.ltb lo hi) eqn:E.
  - apply Nat.ltb_lt in E.
    assert (Hmid : (lo <= Nat.div (lo + hi) 2 < hi)%nat).
    { split; [apply Nat.div_le_lower_bound; lia|apply Nat.div_lt_upper_bound; lia]. }
    set (h := Nat.div (lo + hi) 2) in *.
    destruct (str_lt (nth h s []) x) eqn:Eh.
    + apply IH; try lia. split; [|lia].
      destruct (Nat.le_gt_cases (plen s x) h) as [Hle|Hgt]; [|lia].
      rewrite (plen_above s x Hs h) in Eh by lia. discriminate.
    + apply IH; try lia. split; [lia|].
      destruct (Nat.le_gt_cases (plen s x) h) as [Hle|Hgt]; [exact Hle|].
      rewrite (plen_below s x h Hgt) in Eh. discriminate.
  - apply Nat.ltb_ge in E. lia.
Qed.

Lemma search_strings_plen s x : ssorted s = true -> search_strings s x = plen s x.
Proof.
  intros Hs. unfold search_strings. apply (bsearch_plen s x Hs); [|lia|lia].
  split; [lia|apply plen_le].
Qed.

(* ---- sorted insertion, written with the split point ---- *)
Lemma insert_sorted_plen x s :
  insert_sorted x s =
  (if Nat.ltb (plen s x) (length s) && beq_bytes (nth (plen s x) s []) x then s
   else firstn (plen s x) s ++ x :: skipn (plen s x) s).
Proof.
  induction s as [|y r IH]; [reflexivity|]. cbn [insert_sorted plen].
  destruct (str_lt x y) eqn:Exy.
  - rewrite (str_lt_asym _ _ Exy). cbn [Nat.ltb Nat.leb length nth firstn skipn app andb].
    rewrite beq_bytes_sym, (str_lt_neq _ _ Exy). reflexivity.
  - destruct (beq_bytes x y) eqn:Eb.
    + apply beq_bytes_eq in Eb. subst y. rewrite str_lt_irrefl. cbn [length nth]. rewrite beq_bytes_refl. reflexivity.
    + rewrite (str_lt_total _ _ Exy Eb). cbn [length nth firstn skipn app].
      rewrite IH. change (Nat.ltb (S (plen r x)) (S (length r))) with (Nat.ltb (plen r x) (length r)).
      destruct (Nat.ltb (plen r x) (length r) && beq_bytes (nth (plen r x) r []) x); reflexivity.
Qed.

Theorem append_uniq_is_insert_sorted s x : ssorted s = true -> append_uniq s x = insert_sorted x s.
Proof. intros Hs. unfold append_uniq. rewrite (search_strings_plen s x Hs), insert_sorted_plen. reflexivity. Qed.

(* ---- sorted insertion keeps the list strictly sorted ---- *)
Lemma insert_sorted_head x y r :
  exists h t, insert_sorted x (y :: r) = h :: t /\ (h = x \/ h = y).
Proof.
  cbn [insert_sorted]. destruct (str_lt x y); [exists x, (y :: r); split; [reflexivity|left; reflexivity]|].
  destruct (beq_bytes x y); [exists y, r|exists y, (insert_sorted x r)]; split; try reflexivity; right; reflexivity.
Qed.

Lemma insert_sorted_ssorted x s : ssorted s = true -> ssorted (insert_sorted x s) = true.
Proof.
  induction s as [|y r IH]; intros Hs; [reflexivity|]. cbn [insert_sorted].
  destruct (str_lt x y) eqn:Exy; [cbn [ssorted]; rewrite Exy; exact Hs|].
  destruct (beq_bytes x y) eqn:Eb; [exact Hs|].
  pose proof (str_lt_total _ _ Exy Eb) as Hyx. specialize (IH (ssorted_tail _ _ Hs)).
  destruct r as [|z r'].
  - cbn [insert_sorted ssorted]. rewrite Hyx. reflexivity.
  - destruct (insert_sorted_head x z r') as (h & t & Heq & Hh). rewrite Heq in *.
    change (ssorted (y :: h :: t)) with (str_lt y h && ssorted (h :: t)).
    rewrite IH, Bool.andb_true_r. destruct Hh as [->| ->]; [exact Hyx|].
    cbn [ssorted] in Hs. apply andb_prop in Hs as [Hs _]. exact Hs.
Qed.

Theorem append_uniq_ssorted s x : ssorted s = true -> ssorted (append_uniq s x) = true.
Proof. intros Hs. rewrite (append_uniq_is_insert_sorted s x Hs). apply insert_sorted_ssorted. exact Hs. Qed.

(* ---- every value list of a lease table is strictly sorted: each value is listed once ---- *)
Definition amap_sorted (m : amap) : Prop := forall k, ssorted (aget m k) = true.
Lemma amap_sorted_upd m k x : amap_sorted m -> amap_sorted (aupd m k (fun v => append_uniq v x)).
Proof.
  intros H k'. rewrite aget_aupd. destruct (beq_bytes k' k); [apply append_uniq_ssorted|]; apply H.
Qed.
Definition lease_sorted (t : lease_tbl) : Prop :=
  amap_sorted (lt_macs t) /\ amap_sorted (lt_addrs t) /\ amap_sorted (lt_names t).

Lemma lease_add_sorted t e : lease_sorted t -> lease_sorted (lease_add_e t e).
Proof.
  intros (Hm & Ha & Hn). unfold lease_add_e, lease_add, lease_sorted.
  destruct (le_wip e), (le_wmac e); cbn [lt_macs lt_addrs lt_names];
    repeat split; try assumption; repeat apply amap_sorted_upd; assumption.
Qed.
Theorem lease_fold_sorted es : forall t, lease_sorted t -> lease_sorted (fold_left lease_add_e es t).
Proof. induction es as [|e es IH]; intros t H; [exact H|]. apply IH, lease_add_sorted, H. Qed.

Lemma empty_lease_sorted : lease_sorted (mkLease [] [] []).
Proof. repeat split; intros k; reflexivity. Qed.

Theorem lease_lookups_nodup es a :
  let t := fold_left lease_add_e es (mkLease [] [] []) in
  NoDup (lease_lookup_addr t a) /\ NoDup (lease_lookup_mac t a) /\ NoDup (lease_lookup_host t a).
Proof.
  cbn zeta. destruct (lease_fold_sorted es _ empty_lease_sorted) as (Hm & Ha & Hn).
  repeat split; apply ssorted_nodup; [apply Ha|apply Hm|apply Hn].
Qed.
