(* Proofs/LastModFacts.v -- the per-profile "configuration last modified" register of DOH
   (resolver/doh.go updateLastMod) is a max-register: whatever order a set of announced stamps is
   applied in, the value afterwards is the largest of them (and of the value before).  A final
   value other than that maximum is one that NO sequential order of the same responses produces --
   the comparison the concurrent last-modified engine makes on the implementation. *)
From NX Require Import Bytes Resolver ConfigFacts.
From Coq Require Import ZifyBool Permutation.
Open Scope Z_scope.

Lemma lastmod_set_same l url t : lastmod (set_lastmod l url t) url = t.
Proof.
  induction l as [|[u t'] r IH]; cbn [set_lastmod lastmod].
  - rewrite beq_bytes_refl. reflexivity.
  - destruct (beq_bytes url u) eqn:E; cbn [lastmod]; rewrite E; [reflexivity|exact IH].
Qed.
Lemma lastmod_set_other l url url' t : beq_bytes url' url = false -> lastmod (set_lastmod l url t) url' = lastmod l url'.
Proof.
  intros Hne. induction l as [|[u t'] r IH]; cbn [set_lastmod lastmod].
  - rewrite Hne. reflexivity.
  - destruct (beq_bytes url u) eqn:E; cbn [lastmod].
    + apply beq_bytes_eq in E. subst u. rewrite Hne. reflexivity.
    + destruct (beq_bytes url' u); [reflexivity|exact IH].
Qed.

(* one update: the register takes the larger value; other profiles are untouched *)
Lemma update_lastmod_same l url t : lastmod (update_lastmod l url (Some t)) url = Z.max (lastmod l url) t.
Proof.
  cbn [update_lastmod]. destruct (t >? lastmod l url) eqn:E; [rewrite lastmod_set_same|]; lia.
Qed.
Lemma update_lastmod_other l url url' h : beq_bytes url' url = false -> lastmod (update_lastmod l url h) url' = lastmod l url'.
Proof.
  intros Hne. destruct h as [t|]; cbn [update_lastmod]; [|reflexivity].
  destruct (t >? lastmod l url); [apply lastmod_set_other; exact Hne|reflexivity].
Qed.

Lemma apply_stamps_value ts : forall l url, lastmod (apply_stamps l url ts) url = max_stamp (lastmod l url) ts.
Proof.
  induction ts as [|t r IH]; intros l url; [reflexivity|].
  unfold apply_stamps, max_stamp in *. cbn [fold_left]. rewrite IH, update_lastmod_same. reflexivity.
Qed.

Lemma max_stamp_perm ts ts' : Permutation ts ts' -> forall v, max_stamp v ts = max_stamp v ts'.
Proof.
  unfold max_stamp. induction 1 as [|x l l' _ IH|x y l|l l' l'' _ IH1 _ IH2]; intros v; cbn [fold_left].
  - reflexivity.
  - apply IH.
  - f_equal. lia.
  - rewrite IH1. apply IH2.
Qed.

(* every sequential order of the same announcements leaves the same value: their maximum *)
Theorem lastmod_order_independent l url ts ts' : Permutation ts ts' ->
  lastmod (apply_stamps l url ts') url = max_stamp (lastmod l url) ts.
Proof. intros H. rewrite apply_stamps_value. symmetry. apply max_stamp_perm. exact H. Qed.

(* and it never goes backwards, whatever is announced *)
Lemma max_stamp_ge ts : forall v, v <= max_stamp v ts.
Proof. unfold max_stamp. induction ts as [|t r IH]; intros v; cbn [fold_left]; [lia|]. specialize (IH (Z.max v t)). lia. Qed.
Theorem lastmod_monotone l url ts : lastmod l url <= lastmod (apply_stamps l url ts) url.
Proof. rewrite apply_stamps_value. apply max_stamp_ge. Qed.
Lemma max_stamp_in ts : forall v t, In t ts -> t <= max_stamp v ts.
Proof.
  unfold max_stamp. induction ts as [|a r IH]; intros v t Hin; [destruct Hin|]. cbn [fold_left].
  destruct Hin as [<-|Hin]; [|apply IH; exact Hin]. pose proof (max_stamp_ge r (Z.max v a)) as H. unfold max_stamp in H. lia.
Qed.
Theorem lastmod_covers l url ts t : In t ts -> t <= lastmod (apply_stamps l url ts) url.
Proof. intros H. rewrite apply_stamps_value. apply max_stamp_in. exact H. Qed.

Example lastmod_three : lastmod (apply_stamps [] [1] [5; 9; 7]) [1] = 9 /\ lastmod (apply_stamps [] [1] [9; 7; 5]) [1] = 9.
Proof. split; reflexivity. Qed.
