(* Proofs/RefreshAway.v -- the file a table was read from disappears for a while (moved aside by
   an editor or an upgrade) and comes back as it was: through every lookup made meanwhile and
   afterwards the table remains the one parsed from that file.  A lookup that finds no file
   neither empties the table nor forgets the stamps; both halves are needed -- emptying the table
   while keeping the stamps (the seeded change C12g) leaves it empty for good once the file is
   back, since the file then counts as unchanged. *)
From NX Require Import Bytes Refresh RefreshFacts.
From Coq Require Import ZifyBool.
Open Scope Z_scope.

Section Away.
  Variable T : Type.
  Variable parse : bytes -> T.
  Notation rstate := (rstate T).
  Notation refresh := (refresh T parse).
  Notation run := (run T parse).
  Notation in_sync := (in_sync T parse).

  Lemma refresh_none_keeps s now f : in_sync s f -> in_sync (refresh s now None) f.
  Proof.
    intros [Ht Hr]. unfold Refresh.refresh. destruct (now <? r_expires s); [split; assumption|].
    split; cbn [r_tbl r_info]; assumption.
  Qed.

  Theorem away_and_back : forall evs f s,
    (forall e, In e evs -> snd e = None \/ snd e = Some f) -> in_sync s f -> in_sync (run s evs) f.
  Proof.
    induction evs as [|e r IH]; intros f s Hf Hs; [exact Hs|]. unfold Refresh.run in *. cbn [fold_left].
    apply IH; [intros e' He'; apply Hf; right; exact He'|].
    destruct (Hf e (or_introl eq_refl)) as [-> | ->]; [apply refresh_none_keeps | apply (refresh_keeps_sync T parse)]; exact Hs.
  Qed.

  (* the variant that empties the table when no file is found, keeping the stamps *)
  Definition refresh_clearing (empty : T) (s : rstate) (now : Z) (file : option fsnap) : rstate :=
    if now <? r_expires s then s
    else match file with
         | None => mkRS empty (r_info s) (now + refresh_interval)
         | Some f => refresh s now (Some f)
         end.
End Away.

(* refuted for the clearing variant: file read, gone at the next check, back unchanged -- the table is
   the empty one although the file lists a name (tables are byte strings here, parse = identity) *)
Example clearing_refuted :
  let f := mkSnapF (mkStat 7 3) [1;2;3] in
  let s0 := mkRS (@nil Z) None 0 in
  let step s e := refresh_clearing bytes (fun b => b) [] s (fst e) (snd e) in
  r_tbl (fold_left step [(0, Some f); (refresh_interval, None); (2 * refresh_interval, Some f)] s0) = [] /\
  r_tbl (run bytes (fun b => b) s0 [(0, Some f); (refresh_interval, None); (2 * refresh_interval, Some f)]) = [1;2;3].
Proof. vm_compute. split; reflexivity. Qed.
