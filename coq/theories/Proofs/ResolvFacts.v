(* Proofs/ResolvFacts.v -- activation/deactivation of the system resolver file:
   crash safety for every prefix of mutations of every operation in every
   sequence, reversibility, and what the managed file contains. *)
From NX Require Import Bytes Discovery ResolvConf.
From Coq Require Import ZifyBool.
Open Scope Z_scope.

(* ---------- appends only touch the temporary file ---------- *)
Lemma apply_appends f ls :
  resolv (apply_ops f (map (Append PTmp) ls)) = resolv f /\ bak (apply_ops f (map (Append PTmp) ls)) = bak f.
Proof.
  revert f; induction ls as [|l ls IH]; intros f; cbn [map apply_ops fold_left]; [auto|].
  fold (apply_ops (apply_op f (Append PTmp l)) (map (Append PTmp) ls)).
  destruct (IH (apply_op f (Append PTmp l))) as [H1 H2]. rewrite H1, H2.
  cbn [apply_op get]. destruct (tmp f) as [[c|c]|]; cbn; auto.
Qed.

Lemma apply_ops_app f a b : apply_ops f (a ++ b) = apply_ops (apply_ops f a) b.
Proof. unfold apply_ops. apply fold_left_app. Qed.

Lemma firstn_map_appends k ls : exists ls', firstn k (map (Append PTmp) ls) = map (Append PTmp) ls'.
Proof. exists (firstn k ls). apply firstn_map. Qed.

Lemma appends_tmp f ls c : tmp f = Some (File c) ->
  apply_ops f (map (Append PTmp) ls) = mkFs (resolv f) (bak f) (Some (File (c ++ concat (map (fun l => l ++ [10]) ls)))).
Proof.
  revert f c; induction ls as [|l ls IH]; intros f c Ht; cbn [map apply_ops fold_left concat].
  - rewrite app_nil_r. destruct f; cbn in *; subst; reflexivity.
  - fold (apply_ops (apply_op f (Append PTmp l)) (map (Append PTmp) ls)).
    rewrite (IH _ (c ++ l ++ [10])).
    + cbn [apply_op get]. rewrite Ht. cbn [set resolv bak]. rewrite <- !app_assoc. reflexivity.
    + cbn [apply_op get]. rewrite Ht. reflexivity.
Qed.


(* any prefix of the ops of an activation, from a safe state, is safe *)
Theorem activate_prefix_safe orig f dns k : safe orig f -> safe orig (crash_activate f dns k).
Proof.
  intros Hs. unfold crash_activate, activate_ops.
  destruct (resolv f) as [n|] eqn:Er; [|rewrite firstn_nil; exact Hs].
  set (writes := map (Append PTmp) (managed_lines (content n) dns)).
  (* the op list is  [Remove; Create] ++ writes ++ maybe-backup ++ [Rename tmp resolv] *)
  assert (Hpre : forall j ls', safe orig (apply_ops f (firstn j [Remove PTmp; Create PTmp] ++ map (Append PTmp) ls'))).
  { intros j ls'. rewrite apply_ops_app.
    destruct (apply_appends (apply_ops f (firstn j [Remove PTmp; Create PTmp])) ls') as [H1 H2].
    unfold safe. rewrite H1, H2.
    destruct j as [|[|j]]; cbn [firstn apply_ops fold_left apply_op set resolv bak]; try rewrite firstn_nil; cbn; exact Hs. }
  destruct (Nat.le_gt_cases k 2) as [Hk|Hk].
  - (* inside Remove/Create *)
    rewrite firstn_app. replace (k - length [Remove PTmp; Create PTmp])%nat with 0%nat by (cbn; lia).
    rewrite firstn_O, app_nil_r. specialize (Hpre k []). cbn [map] in Hpre. rewrite app_nil_r in Hpre. exact Hpre.
  - rewrite firstn_app. rewrite (firstn_all2 [Remove PTmp; Create PTmp]) by (cbn; lia).
    cbn [length]. set (k1 := (k - 2)%nat).
    destruct (Nat.le_gt_cases k1 (length writes)) as [Hw|Hw].
    + (* inside the writes *)
      rewrite firstn_app. replace (k1 - length writes)%nat with 0%nat by lia. rewrite firstn_O, app_nil_r.
      destruct (firstn_map_appends k1 (managed_lines (content n) dns)) as [ls' Hls]. fold writes in Hls. rewrite Hls.
      specialize (Hpre 2%nat ls'). cbn [firstn] in Hpre. exact Hpre.
    + rewrite firstn_app. rewrite (firstn_all2 writes) by lia.
      set (k2 := (k1 - length writes)%nat).
      rewrite !apply_ops_app.
      set (f1 := apply_ops (apply_ops f [Remove PTmp; Create PTmp]) writes).
      assert (Hf1e : f1 = mkFs (resolv f) (bak f) (Some (File ([] ++ concat (map (fun l => l ++ [10]) (managed_lines (content n) dns)))))).
      { unfold f1, writes. rewrite (appends_tmp _ _ []) by reflexivity. reflexivity. }
      assert (Hr1 : resolv f1 = resolv f) by (rewrite Hf1e; reflexivity).
      assert (Hb1 : bak f1 = bak f) by (rewrite Hf1e; reflexivity).
      assert (Ht1 : exists t, tmp f1 = Some t) by (rewrite Hf1e; cbn; eauto).
      destruct Ht1 as [t Ht1]. clearbody f1.
      unfold safe in Hs.
      destruct (bak f) as [b|] eqn:Eb.
      * (* already activated: only Rename tmp resolv remains *)
        cbn [app]. destruct k2 as [|k2]; cbn [firstn apply_ops fold_left].
        -- unfold safe. rewrite Hr1, Hb1. exact Hs.
        -- rewrite firstn_nil. cbn [fold_left apply_op get]. rewrite Ht1. unfold safe. cbn [set resolv bak].
           rewrite Hb1. destruct Hs as [[_ Hn]|Hb]; [discriminate | right; exact Hb].
      * (* first activation: Rename resolv bak; Rename tmp resolv *)
        cbn [app]. destruct Hs as [[Hro _]|Hb]; [|discriminate].
        rewrite Er in Hro. inversion Hro; subst n.
        destruct k2 as [|[|k2]]; cbn [firstn apply_ops fold_left].
        -- unfold safe. rewrite Hr1, Hb1, Er. left; auto.
        -- cbn [apply_op get]. rewrite Hr1, Er. unfold safe. cbn [set resolv bak]. right; reflexivity.
        -- rewrite firstn_nil. cbn [fold_left apply_op get]. rewrite Hr1, Er. cbn [set get tmp resolv bak]. rewrite Ht1.
           unfold safe. cbn [set resolv bak]. right; reflexivity.
Qed.

Theorem deactivate_prefix_safe orig f k : safe orig f -> safe orig (crash_deactivate f k).
Proof.
  intros Hs. unfold crash_deactivate, deactivate_ops.
  destruct (bak f) as [b|] eqn:Eb; [|rewrite firstn_nil; exact Hs].
  destruct k as [|k]; cbn [firstn apply_ops fold_left]; [exact Hs|]. rewrite firstn_nil. cbn [fold_left apply_op get].
  rewrite Eb. unfold safe. cbn [set resolv bak]. destruct Hs as [[_ Hn]|Hb]; [congruence|].
  rewrite Eb in Hb. inversion Hb; subst. left; auto.
Qed.

(* a deactivation from any safe state puts the original back at resolv.conf *)
Theorem deactivate_restores orig f : safe orig f -> resolv (deactivate f) = Some orig /\ bak (deactivate f) = None.
Proof.
  intros Hs. unfold deactivate, deactivate_ops. destruct (bak f) as [b|] eqn:Eb.
  - cbn [apply_ops fold_left apply_op get]. rewrite Eb. cbn [set resolv bak].
    destruct Hs as [[_ Hn]|Hb]; [congruence|]. rewrite Eb in Hb. inversion Hb; subst. auto.
  - cbn. destruct Hs as [[Hr _]|Hb]; [auto | congruence].
Qed.

(* every state reached by any sequence of complete or interrupted activations and
   deactivations from an unactivated system is safe *)
Inductive event := EvActivate (dns : bytes) (k : nat) | EvDeactivate (k : nat).
(* k >= number of ops means the operation completed *)
Definition do_event (f : fs) (e : event) : fs :=
  match e with EvActivate dns k => crash_activate f dns k | EvDeactivate k => crash_deactivate f k end.

Theorem any_history_safe orig es f : safe orig f -> safe orig (fold_left do_event es f).
Proof.
  revert f; induction es as [|e es IH]; intros f Hs; cbn [fold_left]; [exact Hs|].
  apply IH. destruct e; [apply activate_prefix_safe | apply deactivate_prefix_safe]; exact Hs.
Qed.

(* ---------- complete operations ---------- *)
Lemma appends_build ls : forall c,
  apply_ops (mkFs None None (Some (File c))) (map (Append PTmp) ls) =
  mkFs None None (Some (File (c ++ concat (map (fun l => l ++ [10]) ls)))).
Proof.
  induction ls as [|l ls IH]; intros c; cbn [map apply_ops fold_left concat]; [rewrite app_nil_r; reflexivity|].
  fold (apply_ops (apply_op (mkFs None None (Some (File c))) (Append PTmp l)) (map (Append PTmp) ls)).
  cbn [apply_op get tmp set resolv bak]. rewrite IH. rewrite <- !app_assoc. reflexivity.
Qed.

(* first activation: the managed file replaces resolv.conf, the original node
   (file or symlink) becomes the backup *)
Theorem activate_first n dns t0 :
  activate (mkFs (Some n) None t0) dns = mkFs (Some (File (managed (content n) dns))) (Some n) None.
Proof.
  unfold activate, activate_ops; cbn [resolv bak]. rewrite !apply_ops_app.
  cbn [apply_ops fold_left apply_op set get resolv bak tmp].
  fold (apply_ops (mkFs (Some n) None (Some (File []))) (map (Append PTmp) (managed_lines (content n) dns))).
  rewrite (appends_tmp _ _ []) by reflexivity. cbn [resolv bak app].
  cbn [fold_left apply_op get set resolv bak tmp]. reflexivity.
Qed.

(* repeated activation keeps the backup *)
Theorem activate_again m n dns t0 :
  activate (mkFs (Some m) (Some n) t0) dns = mkFs (Some (File (managed (content m) dns))) (Some n) None.
Proof.
  unfold activate, activate_ops; cbn [resolv bak]. rewrite !apply_ops_app.
  cbn [apply_ops fold_left apply_op set get resolv bak tmp].
  fold (apply_ops (mkFs (Some m) (Some n) (Some (File []))) (map (Append PTmp) (managed_lines (content m) dns))).
  rewrite (appends_tmp _ _ []) by reflexivity. cbn [resolv bak app].
  cbn [fold_left apply_op get set resolv bak tmp]. reflexivity.
Qed.

(* deactivation after any number n >= 1 of activations (with any addresses)
   restores the original node byte for byte, symlink included *)
Theorem restore_after_activations n0 dnss dns :
  deactivate (fold_left activate dnss (activate (mkFs (Some n0) None None) dns)) = mkFs (Some n0) None None.
Proof.
  rewrite activate_first.
  assert (H : forall m, exists m', fold_left activate dnss (mkFs (Some m) (Some n0) None) = mkFs (Some m') (Some n0) None).
  { induction dnss as [|d ds IH]; intros m; cbn [fold_left]; [eauto|]. rewrite activate_again. apply IH. }
  destruct (H (File (managed (content n0) dns))) as [m' Hm]. rewrite Hm. reflexivity.
Qed.

(* ---------- what the managed file says ---------- *)
Lemma kept_no_nameserver c : Forall (fun l => is_nameserver l = false /\ is_comment l = false /\ l <> []) (kept_lines c).
Proof.
  unfold kept_lines. apply Forall_forall. intros l Hl. apply filter_In in Hl as [_ Hf].
  apply andb_true_iff in Hf as [Hf Hn]. apply andb_true_iff in Hf as [He Hc].
  apply negb_true_iff in Hn, Hc, He. repeat split; try assumption.
  intros ->. cbn in He. discriminate.
Qed.

(* the managed file consists of the header (comments and an empty line), the
   non-comment non-nameserver lines of the current file in order, and one
   nameserver line naming the proxy *)
Theorem managed_shape c dns :
  managed_lines c dns = header_lines ++ kept_lines c ++ [nameserver_line dns] /\
  Forall (fun l => is_nameserver l = false) (header_lines ++ kept_lines c).
Proof.
  split; [reflexivity|]. apply Forall_app. split.
  - repeat constructor.
  - eapply Forall_impl; [|apply kept_no_nameserver]. intros l (H & _). exact H.
Qed.
