(* Proofs/ForwarderLabels.v -- C10 in the words of the property: the string test of
   Resolver.Match (equal, or ends with "." + domain, case-insensitively) is the label test
   "the domain's labels are a suffix of the query's labels", for names whose labels are
   non-empty and contain no dot. *)
From NX Require Import Bytes Forwarder ConfigFacts.
From Coq Require Import ZifyBool.
Open Scope Z_scope.

Definition wf_label (l : bytes) : Prop := l <> [] /\ ~ In 46 l.
Definition ns (ls : list bytes) : bytes := concat (map (fun l => l ++ [46]) ls).

Lemma name_string_ns ls : ls <> [] -> name_string ls = ns ls.
Proof. destruct ls; [congruence|reflexivity]. Qed.

(* ---- lower-casing goes through the labels ---- *)
Lemma lower_app a b : lower (a ++ b) = lower a ++ lower b.
Proof. unfold lower. apply map_app. Qed.
Lemma lower_ns ls : lower (ns ls) = ns (map lower ls).
Proof.
  induction ls as [|l r IH]; [reflexivity|]. unfold ns in *. cbn [map concat].
  rewrite lower_app, lower_app, IH. reflexivity.
Qed.
Lemma lower_byte_46 c : lower_byte c = 46 -> c = 46.
Proof. unfold lower_byte. destruct ((65 <=? c) && (c <=? 90)) eqn:E; lia. Qed.
Lemma wf_lower l : wf_label l -> wf_label (lower l).
Proof.
  intros [H1 H2]. split.
  - destruct l; [congruence|discriminate].
  - intros Hin. apply H2. unfold lower in Hin. apply in_map_iff in Hin as (c & Hc & Hin).
    apply lower_byte_46 in Hc. subst c. exact Hin.
Qed.

(* ---- where a dotted string can be cut ---- *)
Lemma cut_at_label l : forall R X Y, ~ In 46 l -> l ++ 46 :: R = X ++ 46 :: Y ->
  (X = l /\ R = Y) \/ exists X', X = l ++ 46 :: X' /\ R = X' ++ 46 :: Y.
Proof.
  induction l as [|c l IH]; intros R X Y Hl H; cbn [app] in H.
  - destruct X as [|x X]; cbn [app] in H.
    + injection H as ->. left. split; reflexivity.
    + injection H as <- ->. right. exists X. split; reflexivity.
  - destruct X as [|x X]; cbn [app] in H.
    + injection H as -> _. exfalso. apply Hl. left. reflexivity.
    + injection H as <- H. destruct (IH R X Y) as [[-> ->]|(X' & -> & ->)]; [intros Hin; apply Hl; right; exact Hin|exact H| |].
      * left. split; reflexivity.
      * right. exists X'. split; reflexivity.
Qed.

Lemma ns_cut q : forall X Y, Forall wf_label q -> ns q = X ++ 46 :: Y ->
  exists a b, q = a ++ b /\ a <> [] /\ ns a = X ++ [46] /\ ns b = Y.
Proof.
  induction q as [|l q IH]; intros X Y Hq H.
  - destruct X; discriminate.
  - inversion Hq as [|? ? [Hl1 Hl2] Hq']; subst. unfold ns in H. cbn [map concat] in H. rewrite <- app_assoc in H. cbn [app] in H.
    destruct (cut_at_label l _ X Y Hl2 H) as [[-> HR]|(X' & -> & HR)].
    + exists [l], q. repeat split; [discriminate|unfold ns; cbn; rewrite app_nil_r; reflexivity|exact HR].
    + destruct (IH X' Y Hq' HR) as (a & b & -> & Ha & Hna & Hnb).
      exists (l :: a), b. repeat split; [discriminate| |exact Hnb].
      unfold ns in *. cbn [map concat]. rewrite Hna, <- !app_assoc. reflexivity.
Qed.

Lemma ns_inj a : forall b, Forall wf_label a -> Forall wf_label b -> ns a = ns b -> a = b.
Proof.
  induction a as [|l a IH]; intros [|m b] Ha Hb H.
  - reflexivity.
  - unfold ns in H. cbn [map concat] in H. destruct m; discriminate.
  - unfold ns in H. cbn [map concat] in H. destruct l; discriminate.
  - inversion Ha as [|? ? [_ Hl] Ha']; inversion Hb as [|? ? [_ Hm] Hb']; subst.
    unfold ns in H. cbn [map concat] in H. rewrite <- !app_assoc in H. cbn [app] in H.
    destruct (cut_at_label l _ m _ Hl H) as [[-> HR]|(X' & -> & _)].
    + f_equal. apply IH; assumption.
    + exfalso. apply Hm. apply in_or_app. right. left. reflexivity.
Qed.

(* ---- the label test, on lower-cased labels ---- *)
Lemma label_suffix_iff d : forall q,
  label_suffix d q = true <-> exists a q2, q = a ++ q2 /\ map lower q2 = map lower d.
Proof.
  assert (Heq : forall d q, length d = length q ->
            (forallb (fun p => beq_bytes (lower (fst p)) (lower (snd p))) (combine d q) = true <-> map lower q = map lower d)).
  { induction d0 as [|x d0 IHd]; intros [|y q0] Hl; cbn [length] in Hl; try discriminate; cbn [combine forallb map fst snd].
    - tauto.
    - rewrite Bool.andb_true_iff, IHd by lia. rewrite beq_bytes_eq. split; [intros [-> ->]; reflexivity|intros H; injection H as -> ->; split; reflexivity]. }
  induction q as [|y q IH]; cbn [label_suffix].
  - destruct (Nat.eqb (length d) (length (@nil bytes))) eqn:E.
    + apply Nat.eqb_eq in E. rewrite Heq by exact E. split.
      * intros H. exists [], []. split; [reflexivity|exact H].
      * intros (a & q2 & Hq & H). destruct a, q2; try discriminate. exact H.
    + apply Nat.eqb_neq in E. split; [discriminate|]. intros (a & q2 & Hq & H). destruct a, q2; try discriminate.
      destruct d; [cbn in E; congruence|discriminate].
  - destruct (Nat.eqb (length d) (length (y :: q))) eqn:E.
    + apply Nat.eqb_eq in E. rewrite Heq by exact E. split.
      * intros H. exists [], (y :: q). split; [reflexivity|exact H].
      * intros (a & q2 & Hq & H). assert (length q2 = length d) by (rewrite <- (map_length lower q2), H, map_length; reflexivity).
        assert (a = []). { destruct a; [reflexivity|]. apply (f_equal (@length bytes)) in Hq. rewrite app_length in Hq. cbn [length] in Hq, E. lia. }
        subst a. cbn [app] in Hq. subst q2. exact H.
    + apply Nat.eqb_neq in E. rewrite IH. split.
      * intros (a & q2 & -> & H). exists (y :: a), q2. split; [reflexivity|exact H].
      * intros (a & q2 & Hq & H). destruct a as [|z a]; cbn [app] in Hq.
        -- subst q2. exfalso. apply E. rewrite <- (map_length lower d), <- H, map_length. reflexivity.
        -- injection Hq as _ ->. exists a, q2. split; [reflexivity|exact H].
Qed.

Lemma ns_app a b : ns (a ++ b) = ns a ++ ns b.
Proof. unfold ns. rewrite map_app, concat_app. reflexivity. Qed.
Lemma ns_nonempty a : a <> [] -> Forall wf_label a -> exists pre, ns a = pre ++ [46].
Proof.
  induction a as [|l a IH]; [congruence|]. intros _ Ha. inversion Ha; subst. destruct a as [|m a'].
  - exists l. unfold ns. cbn. rewrite app_nil_r. reflexivity.
  - destruct IH as (pre & Hp); [discriminate|assumption|]. exists (l ++ 46 :: pre).
    unfold ns in *. cbn [map concat] in *. rewrite Hp, <- !app_assoc. reflexivity.
Qed.

Theorem fwd_match_labels dl ql u :
  dl <> [] -> Forall wf_label dl -> Forall wf_label ql ->
  fwd_match (mkFwd (name_string dl) u) (name_string ql) = label_suffix dl ql.
Proof.
  intros Hd Hwd Hwq.
  assert (Hne : name_string dl <> []) by (rewrite (name_string_ns dl Hd); destruct dl as [|[|c l] r]; [congruence| |]; discriminate).
  assert (Hwd' : Forall wf_label (map lower dl)) by (apply Forall_forall; intros x Hx; apply in_map_iff in Hx as (y & <- & Hy); apply wf_lower; rewrite Forall_forall in Hwd; auto).
  assert (Hwq' : Forall wf_label (map lower ql)) by (apply Forall_forall; intros x Hx; apply in_map_iff in Hx as (y & <- & Hy); apply wf_lower; rewrite Forall_forall in Hwq; auto).
  destruct (label_suffix dl ql) eqn:Els.
  - apply label_suffix_iff in Els as (a & q2 & -> & Hq2).
    destruct a as [|x a].
    + cbn [app]. apply fwd_match_equal; [exact Hne|].
      assert (q2 <> []) by (destruct q2; [destruct dl; [congruence|discriminate]|discriminate]).
      rewrite !name_string_ns by assumption. rewrite !lower_ns, Hq2. reflexivity.
    + assert (Hqa : Forall wf_label (map lower (x :: a))).
      { rewrite map_app in Hwq'. apply Forall_app in Hwq' as [H _]. exact H. }
      destruct (ns_nonempty (map lower (x :: a))) as (pre & Hpre); [discriminate|exact Hqa|].
      apply (fwd_match_child _ _ pre); [exact Hne|].
      rewrite !name_string_ns by (try assumption; discriminate).
      rewrite !lower_ns, map_app, ns_app, Hq2, Hpre, <- app_assoc. reflexivity.
  - destruct (fwd_match (mkFwd (name_string dl) u) (name_string ql)) eqn:Em; [|reflexivity].
    exfalso. apply fwd_match_only in Em; [|exact Hne].
    rewrite (name_string_ns dl Hd) in Em.
    assert (Hls : label_suffix dl ql = true); [|congruence].
    apply label_suffix_iff.
    destruct ql as [|y ql'].
    + cbn [name_string] in Em. rewrite lower_ns in Em. destruct Em as [Em|(pre & Em)].
      * destruct dl as [|[|c l] r]; [congruence| |]; cbn in Em.
        -- inversion Hwd as [|? ? [Hx _] _]; congruence.
        -- injection Em as _ Em. destruct l; discriminate.
      * destruct pre as [|p pre]; cbn in Em; [injection Em as Em; destruct dl as [|[|c l] r]; [congruence|inversion Hwd as [|? ? [Hx _] _]; congruence|discriminate]|].
        injection Em as _ Em. destruct pre; discriminate.
    + rewrite (name_string_ns (y :: ql')) in Em by discriminate. rewrite !lower_ns in Em. destruct Em as [Em|(pre & Em)].
      * apply ns_inj in Em; [|assumption|assumption]. exists [], (y :: ql'). split; [reflexivity|exact Em].
      * destruct (ns_cut _ _ _ Hwq' Em) as (a & b & Hab & Ha & Hna & Hnb).
        assert (Hb : b = map lower dl).
        { apply ns_inj; [|exact Hwd'|exact Hnb]. rewrite Hab in Hwq'. apply Forall_app in Hwq' as [_ H]. exact H. }
        subst b.
        (* split the original labels at the same point *)
        exists (firstn (length a) (y :: ql')), (skipn (length a) (y :: ql')). split; [symmetry; apply firstn_skipn|].
        rewrite <- skipn_map, Hab. rewrite skipn_app, skipn_all, Nat.sub_diag. reflexivity.
Qed.
