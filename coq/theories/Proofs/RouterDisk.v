(* Proofs/RouterDisk.v -- after a successful Restore the configuration left on disk is exactly
   what the running dnsmasq has loaded: every successful path of Restore ends with the restart,
   nothing is written after it.  With the C20_restore_* theorems (stated on what dnsmasq has
   loaded) this gives the clause the check evaluates on the implementation since round g: what a
   dnsmasq restarted later -- by the owner, by the system -- would read does not point at the
   proxy either. *)
From NX Require Import Bytes Router RouterFacts.
Open Scope Z_scope.

Lemma restart_current x : loaded (restart x) = current (restart x).
Proof. reflexivity. Qed.

Theorem restore_loaded_is_disk : forall r e e3,
  r_fw r <> Generic -> (r_fw r = Synology -> r_disabled r = false) ->
  restore r e = (e3, true) -> loaded e3 = current e3.
Proof.
  intros r e e3 Hg Hs. unfold restore. destruct (r_fw r) eqn:F; try congruence.
  - (* openwrt *) unfold ow_restore.
    destruct (r_addedopt r).
    + destruct (uci_get _ k_ipaddr); intros [= <-]; apply restart_current.
    + intros [= <-]; apply restart_current.
  - (* ddwrt *) unfold dd_restore. intros [= <-]; apply restart_current.
  - (* merlin *) intros [= <-]; apply restart_current.
  - (* edgeos *) destruct (conf e); [intros [= <-]; apply restart_current | discriminate].
  - (* synology *) rewrite (Hs eq_refl). intros [= <-]; apply restart_current.
  - (* ubios *) destruct (conf e); [intros [= <-]; apply restart_current | discriminate].
  - (* firewalla *) destruct (conf e); [intros [= <-]; apply restart_current | discriminate].
Qed.

Corollary restore_disk_view : forall r e e3,
  r_fw r <> Generic -> (r_fw r = Synology -> r_disabled r = false) ->
  restore r e = (e3, true) -> view (r_fw r) (current e3) = view (r_fw r) (loaded e3).
Proof. intros r e e3 Hg Hs H. rewrite (restore_loaded_is_disk r e e3 Hg Hs H). reflexivity. Qed.
