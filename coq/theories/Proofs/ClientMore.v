(* Proofs/ClientMore.v -- what the device headers can reveal about a MAC address: the whole
   record sent upstream is a function of the hash-derived id and the first three MAC bytes, and
   neither MAC-derived header value is long enough to hold the textual MAC. *)
From NX Require Import Bytes ClientInfo ClientFacts.
From Coq Require Import ZifyBool.
Open Scope Z_scope.

(* two MACs with the same vendor prefix and the same id give the very same client info: beyond
   the id nothing of the last three bytes reaches the upstream *)
Theorem client_info_mac_dependence profile ipt ipr m m' na nm :
  firstn 3 m = firstn 3 m' -> (3 <= length m)%nat -> (3 <= length m')%nat ->
  short_id profile m = short_id profile m' ->
  lan_client_info profile ipt ipr (Some m) na nm = lan_client_info profile ipt ipr (Some m') na nm.
Proof.
  intros Hp H1 H2 Hid. unfold lan_client_info. rewrite Hid.
  rewrite (model_vendor_only m m' Hp H1 H2).
  assert (L1 : (8 <=? len (mac_string m)) = true) by (rewrite mac_string_len; unfold len; lia).
  assert (L2 : (8 <=? len (mac_string m')) = true) by (rewrite mac_string_len; unfold len; lia).
  rewrite L1, L2. reflexivity.
Qed.

(* the textual form of a full (six-byte or longer) MAC has at least 17 characters; the id has 5
   and the model at most 12: no MAC-derived header value can contain it *)
Theorem mac_headers_too_short profile ipt ipr m na nm k v :
  (6 <= length m)%nat ->
  In (k, v) (device_headers (Some (lan_client_info profile ipt ipr (Some m) na nm))) ->
  k = 0 \/ k = 2 -> len v < len (mac_string m).
Proof.
  intros Hm Hin Hk. rewrite mac_string_len. unfold len at 2.
  assert (Hv : len v <= 12).
  { unfold device_headers in Hin.
    pose proof (model_is_short profile ipt ipr m na nm) as Hmod.
    set (ci := lan_client_info profile ipt ipr (Some m) na nm) in *.
    assert (Hidl : length (ci_id ci) = 5%nat) by (unfold ci, lan_client_info; cbn [ci_id]; apply short_id_length).
    repeat (apply in_app_or in Hin; destruct Hin as [Hin|Hin]).
    - destruct (ci_id ci) eqn:E; [destruct Hin|]. destruct Hin as [Hin|[]]. injection Hin as _ <-. unfold len. lia.
    - destruct (ci_ip ci); [destruct Hin|]. destruct Hin as [Hin|[]]. injection Hin as <- _. lia.
    - destruct (ci_model ci) eqn:E; [destruct Hin|]. destruct Hin as [Hin|[]]. injection Hin as _ <-. rewrite <- E. exact Hmod.
    - destruct (ci_name ci); [destruct Hin|]. destruct (valid_header_value _); [|destruct Hin].
      destruct Hin as [Hin|[]]. injection Hin as <- _. lia. }
  lia.
Qed.

(* the id is a function of profile and device bytes only -- stated as the congruence it is *)
Theorem id_depends_on_profile_and_device profile ipt ipt' ipr ipr' m na na' nm nm' :
  ci_id (lan_client_info profile ipt ipr (Some m) na nm) = ci_id (lan_client_info profile ipt' ipr' (Some m) na' nm').
Proof. reflexivity. Qed.
Theorem id_depends_on_profile_and_ip profile ipt ipt' ipr na na' nm nm' :
  ci_id (lan_client_info profile ipt ipr None na nm) = ci_id (lan_client_info profile ipt' ipr None na' nm').
Proof. reflexivity. Qed.
