(* Proofs/ProfTextFacts.v -- what profile.String writes, newConfig reads back to the same rule,
   for every rule newConfig can produce -- given that the printed forms of package net are stable
   (a printed prefix / hardware address parses to itself, contains no '=' and no surrounding white
   space, and a printed hardware address is not a prefix).  These four facts about package net are
   the whole environment assumption; the cutting, trimming and the order of the three attempts
   (prefix, hardware address, interface) are proved. *)
From NX Require Import Bytes FwdText ProfText ConfigFacts FwdTextFacts.
Open Scope Z_scope.

Section RoundTrip.
  Variable parse_cidr : bytes -> option bytes.
  Variable parse_mac : bytes -> option bytes.
  Variable is_iface : bytes -> bool.

  Definition clean (x : bytes) : Prop := no_eq x /\ trim_space x = x.

  Hypothesis cidr_stable : forall t x, parse_cidr t = Some x -> parse_cidr x = Some x /\ clean x.
  Hypothesis mac_stable : forall t m, parse_mac t = Some m -> parse_mac m = Some m /\ clean m /\ parse_cidr m = None.

  Definition prule_good (r : prule) : Prop := exists v, prof_text_parse parse_cidr parse_mac is_iface v = Some r.

  Theorem prof_text_roundtrip : forall r, prule_good r ->
    prof_text_parse parse_cidr parse_mac is_iface (prof_text_show r) = Some r.
  Proof.
    intros [c id] [v Hv]. unfold prof_text_parse in Hv.
    destruct (cut_eq v) as [[c0 i0]|] eqn:Ec.
    - destruct (cut_eq_no_eq _ _ _ Ec) as [Hn _].
      destruct (parse_cidr (trim_space c0)) as [x|] eqn:E1.
      + injection Hv as <- <-. destruct (cidr_stable _ _ E1) as [Hx [Hnx Htx]].
        unfold prof_text_show, prof_text_parse. cbn [fst snd]. rewrite cut_eq_app by exact Hnx.
        rewrite Htx, Hx, trim_space_idem. reflexivity.
      + destruct (parse_mac (trim_space c0)) as [m|] eqn:E2.
        * injection Hv as <- <-. destruct (mac_stable _ _ E2) as [Hm [[Hnm Htm] Hc]].
          unfold prof_text_show, prof_text_parse. cbn [fst snd]. rewrite cut_eq_app by exact Hnm.
          rewrite Htm, Hc, Hm, trim_space_idem. reflexivity.
        * destruct (is_iface (trim_space c0)) eqn:E3; [|discriminate]. injection Hv as <- <-.
          unfold prof_text_show, prof_text_parse. cbn [fst snd].
          rewrite cut_eq_app by (apply no_eq_trim_space, Hn).
          rewrite !trim_space_idem, E1, E2, E3. reflexivity.
    - injection Hv as <- <-. unfold prof_text_show, prof_text_parse. cbn [fst snd]. rewrite Ec. reflexivity.
  Qed.
End RoundTrip.

(* non-vacuity, with a toy environment: "10/8" is the only prefix, "aa" the only hardware address, "lo" the only interface *)
Example prof_text_example :
  let pc t := if beq_bytes t [49;48;47;56] then Some [49;48;47;56] else None in
  let pm t := if beq_bytes t [97;97] then Some [97;97] else None in
  let pi t := beq_bytes t [108;111] in
  prof_text_parse pc pm pi [32;49;48;47;56;32;61;32;120;61;121] = Some (PCidr [49;48;47;56], [120;61;121]) /\
  prof_text_parse pc pm pi [108;111;61;122] = Some (PIface [108;111], [122]) /\
  prof_text_parse pc pm pi [122] = Some (PNone, [122]) /\
  prof_text_parse pc pm pi [122;122;61;49] = None.
Proof. vm_compute. repeat split. Qed.
