(* Proofs/ResolverFacts.v -- the shared response cache over arbitrary histories:
   every entry was stored from an upstream answer to a query with exactly that
   key; cache hits never cross keys; the serve / re-ask decision. *)
From NX Require Import Bytes CacheTTL Resolver ConfigFacts.
From Coq Require Import ZifyBool.
Open Scope Z_scope.

Lemma key_eqb_eq a b : key_eqb a b = true <-> a = b.
Proof.
  unfold key_eqb. split.
  - intros H. apply andb_true_iff in H as [H Hn]. apply andb_true_iff in H as [H Ht].
    apply andb_true_iff in H as [Hc Hcl].
    apply beq_bytes_eq in Hc, Hn. apply Z.eqb_eq in Hcl, Ht.
    destruct a, b; cbn in *; subst; reflexivity.
  - intros ->. rewrite !beq_bytes_refl, !Z.eqb_refl. reflexivity.
Qed.

(* entries of the cache, as (key, message) *)
Definition entries (c : cache) : list (rkey * bytes) := map (fun p => (fst p, v_msg (snd p))) c.

Lemma cget_in c k v : cget c k = Some v -> In (k, v_msg v) (entries c).
Proof.
  induction c as [|[k' v'] r IH]; cbn [cget entries map]; [discriminate|].
  destruct (key_eqb k k') eqn:E.
  - intros H; inversion H; subst. apply key_eqb_eq in E. subst. left; reflexivity.
  - intros H. right. apply IH; exact H.
Qed.

Lemma cadd_entries c k v p : In p (entries (cadd c k v)) -> p = (k, v_msg v) \/ In p (entries c).
Proof.
  induction c as [|[k' v'] r IH]; cbn [cadd entries map In].
  - intros [H|[]]; left; symmetry; exact H.
  - destruct (key_eqb k k') eqn:E; cbn [entries map In fst snd].
    + apply key_eqb_eq in E. subst k'. intros [H|H]; [left; symmetry; exact H | right; right; exact H].
    + intros [H|H]; [right; left; exact H|]. destruct (IH H) as [H1|H1]; [left; exact H1 | right; right; exact H1].
Qed.

Lemma cdel_entries c k p : In p (entries (cdel c k)) -> In p (entries c).
Proof.
  induction c as [|[k' v'] r IH]; cbn [cdel entries map In]; [tauto|].
  destruct (key_eqb k k'); cbn [entries map In fst snd]; [intros H; right; exact H|].
  intros [H|H]; [left; exact H | right; apply IH; exact H].
Qed.

(* what a resolve call can do to the cache: nothing, or store the upstream's
   message under the query's own key *)
Lemma doh_state cfg st now q url up st' r :
  doh_resolve cfg st now q url up = (st', r) ->
  st_cache st' = st_cache st \/
  exists b lm stamp, up = DBody b lm /\ st_cache st' = cadd (st_cache st) (key_of_doh q url) (mkVal stamp b).
Proof.
  unfold doh_resolve, key_of_doh, url_norm.
  set (k := mkKey _ _ _ _).
  assert (Hup : forall stale fc,
    (match up with
     | DRtErr => (st, mkRes stale fc true)
     | DStatus _ => (st, mkRes stale fc true)
     | DBodyErr => (st, mkRes [] false true)
     | DBody b lm =>
       if len b >=? 65535 then (st, mkRes (cap_ttl cfg (set_tc_ (takez 65535 b))) false false)
       else
         let stamp := if negb (rq_type q =? tPTRq) && cache_on cfg then now else 0 in
         let st'0 := if (len b >? 0) && cache_on cfg
                    then mkRst (cadd (st_cache st) k (mkVal stamp b)) (update_lastmod (st_lastmod st) (match url with [] => zero_url | _ => url end) lm)
                    else st in
         (st'0, mkRes (cap_ttl cfg b) false false)
     end) = (st', r) ->
    st_cache st' = st_cache st \/
    exists b lm stamp, up = DBody b lm /\ st_cache st' = cadd (st_cache st) k (mkVal stamp b)).
  { intros stale fc. destruct up as [| s | | b lm]; try (intros E; inversion E; subst; left; reflexivity).
    destruct (len b >=? 65535); [intros E; inversion E; subst; left; reflexivity|].
    destruct ((len b >? 0) && cache_on cfg); intros E; inversion E; subst; [|left; reflexivity].
    right. eexists _, _, _. split; reflexivity. }
  destruct (negb (rq_type q =? tPTRq) && cache_on cfg) eqn:Ec.
  - unfold probe. destruct (cget (st_cache st) k) as [v|].
    + destruct (adjusted_response _ _ _ _ _) as [buf m].
      destruct ((m >? 0) && _); [intros E; inversion E; subst; left; reflexivity|]. apply Hup.
    + apply Hup.
  - apply Hup.
Qed.

Lemma dns_state cfg st now q d ds st' r :
  dns_resolve cfg st now q d ds = (st', r) ->
  st_cache st' = st_cache st \/
  exists b stamp, d = true /\ first_match (rq_id q) ds = Some b /\
                  st_cache st' = cadd (st_cache st) (key_of_dns q) (mkVal stamp b).
Proof.
  unfold dns_resolve, key_of_dns.
  set (k := mkKey _ _ _ _).
  assert (Hup : forall stale fc,
    (if negb d then (st, mkRes stale fc true)
     else match first_match (rq_id q) ds with
          | None => (st, mkRes [] fc true)
          | Some b =>
            let stamp := if negb (rq_type q =? tPTRq) && cache_on cfg then now else 0 in
            let st'0 := if cache_on cfg then mkRst (cadd (st_cache st) k (mkVal stamp b)) (st_lastmod st) else st in
            (st'0, mkRes (if max_ttl cfg >? 0 then fst (update_ttl b 0 0 (max_ttl cfg)) else b) false false)
          end) = (st', r) ->
    st_cache st' = st_cache st \/
    exists b stamp, d = true /\ first_match (rq_id q) ds = Some b /\ st_cache st' = cadd (st_cache st) k (mkVal stamp b)).
  { intros stale fc. destruct d; cbn [negb]; [|intros E; inversion E; subst; left; reflexivity].
    destruct (first_match (rq_id q) ds) as [b|]; [|intros E; inversion E; subst; left; reflexivity].
    destruct (cache_on cfg); intros E; inversion E; subst; [|left; reflexivity].
    right. eexists _, _. repeat split; reflexivity. }
  destruct (negb (rq_type q =? tPTRq) && cache_on cfg) eqn:Ec.
  - unfold probe. destruct (cget (st_cache st) k) as [v|].
    + destruct (adjusted_response _ _ _ _ _) as [buf m].
      destruct (m >? 0); [intros E; inversion E; subst; left; reflexivity|]. apply Hup.
    + apply Hup.
  - apply Hup.
Qed.

(* one step: anything in the cache afterwards was there before or is what this
   very operation stored *)
Lemma rstep_entries cfg h o h' out p :
  rstep cfg h o = (h', out) ->
  In p (entries (st_cache (h_st h'))) ->
  In p (entries (st_cache (h_st h))) \/ In p (stored_of cfg o).
Proof.
  destruct o as [q url up|q d ds|dt|k]; cbn [rstep].
  - destruct (doh_resolve cfg (h_st h) (h_now h) q url up) as [st' r] eqn:E.
    intros E'; inversion E'; subst. cbn [h_st].
    destruct (doh_state _ _ _ _ _ _ _ _ E) as [H|(b & lm & stamp & Hup & H)]; rewrite H; [auto|].
    intros Hin. apply cadd_entries in Hin as [Hp|Hp]; [right|left; exact Hp].
    subst up. cbn [stored_of v_msg]. left. rewrite Hp. reflexivity.
  - destruct (dns_resolve cfg (h_st h) (h_now h) q d ds) as [st' r] eqn:E.
    intros E'; inversion E'; subst. cbn [h_st].
    destruct (dns_state _ _ _ _ _ _ _ _ E) as [H|(b & stamp & Hd & Hf & H)]; rewrite H; [auto|].
    intros Hin. apply cadd_entries in Hin as [Hp|Hp]; [right|left; exact Hp].
    subst d. cbn [stored_of]. rewrite Hf. left. rewrite Hp. reflexivity.
  - intros E; inversion E; subst. cbn. auto.
  - intros E; inversion E; subst. cbn [h_st st_cache]. intros H. left. eapply cdel_entries; exact H.
Qed.

(* invariant over all histories (any mix of DoH and DNS53 queries, clock advances
   and evictions): every cache entry was stored by an operation of the history
   under exactly its key *)
Theorem cache_origin cfg ops h h' outs :
  rrun cfg h ops = (h', outs) ->
  forall p, In p (entries (st_cache (h_st h'))) ->
    In p (entries (st_cache (h_st h))) \/ In p (stored_log cfg ops).
Proof.
  revert h h' outs; induction ops as [|o ops IH]; intros h h' outs E p Hp; cbn [rrun] in E.
  - inversion E; subst. left; exact Hp.
  - destruct (rstep cfg h o) as [h1 out] eqn:E1. destruct (rrun cfg h1 ops) as [h2 outs2] eqn:E2.
    inversion E; subst. destruct (IH _ _ _ E2 p Hp) as [H|H].
    + destruct (rstep_entries _ _ _ _ _ _ E1 H) as [H1|H1]; [left; exact H1|].
      right. unfold stored_log. cbn [flat_map]. apply in_or_app. left; exact H1.
    + right. unfold stored_log. cbn [flat_map]. apply in_or_app. right; exact H.
Qed.

(* a reply flagged FromCache without error is the adjusted copy of an entry filed
   under the query's own key *)
Lemma doh_from_cache cfg st now q url up st' r :
  doh_resolve cfg st now q url up = (st', r) -> rs_from_cache r = true -> rs_err r = false ->
  exists v, cget (st_cache st) (key_of_doh q url) = Some v /\
            rs_buf r = fst (adjusted_response (v_msg v) (rq_id q) ((now - v_time v) / second) (max_age cfg) (max_ttl cfg)) /\
            st' = st.
Proof.
  unfold doh_resolve, key_of_doh, url_norm.
  set (k := mkKey _ _ _ _).
  assert (Hup : forall stale fc,
    (match up with
     | DRtErr => (st, mkRes stale fc true)
     | DStatus _ => (st, mkRes stale fc true)
     | DBodyErr => (st, mkRes [] false true)
     | DBody b lm =>
       if len b >=? 65535 then (st, mkRes (cap_ttl cfg (set_tc_ (takez 65535 b))) false false)
       else
         let stamp := if negb (rq_type q =? tPTRq) && cache_on cfg then now else 0 in
         let st'0 := if (len b >? 0) && cache_on cfg
                    then mkRst (cadd (st_cache st) k (mkVal stamp b)) (update_lastmod (st_lastmod st) (match url with [] => zero_url | _ => url end) lm)
                    else st in
         (st'0, mkRes (cap_ttl cfg b) false false)
     end) = (st', r) -> rs_from_cache r = true -> rs_err r = false -> False).
  { intros stale fc. destruct up as [| s | | b lm];
      try (intros E Hf He; inversion E; subst r; cbn [rs_from_cache rs_err] in *; discriminate).
    destruct (len b >=? 65535); [intros E Hf He; inversion E; subst r; cbn [rs_from_cache rs_err] in *; discriminate|].
    destruct ((len b >? 0) && cache_on cfg); intros E Hf He; inversion E; subst r; cbn [rs_from_cache rs_err] in *; discriminate. }
  destruct (negb (rq_type q =? tPTRq) && cache_on cfg) eqn:Ec.
  - unfold probe. destruct (cget (st_cache st) k) as [v|] eqn:Eg.
    + destruct (adjusted_response _ _ _ _ _) as [buf m] eqn:Ea.
      destruct ((m >? 0) && _).
      * intros E Hf He; inversion E; subst. exists v. cbn [rs_buf]. rewrite Ea. cbn [fst]. auto.
      * intros E Hf He. exfalso. eapply Hup; eassumption.
    + intros E Hf He. exfalso. eapply Hup; eassumption.
  - intros E Hf He. exfalso. eapply Hup; eassumption.
Qed.

Lemma dns_from_cache cfg st now q d ds st' r :
  dns_resolve cfg st now q d ds = (st', r) -> rs_from_cache r = true -> rs_err r = false ->
  exists v, cget (st_cache st) (key_of_dns q) = Some v /\
            rs_buf r = fst (adjusted_response (v_msg v) (rq_id q) ((now - v_time v) / second) (max_age cfg) (max_ttl cfg)) /\
            st' = st.
Proof.
  unfold dns_resolve, key_of_dns.
  set (k := mkKey _ _ _ _).
  assert (Hup : forall stale fc,
    (if negb d then (st, mkRes stale fc true)
     else match first_match (rq_id q) ds with
          | None => (st, mkRes [] fc true)
          | Some b =>
            let stamp := if negb (rq_type q =? tPTRq) && cache_on cfg then now else 0 in
            let st'0 := if cache_on cfg then mkRst (cadd (st_cache st) k (mkVal stamp b)) (st_lastmod st) else st in
            (st'0, mkRes (if max_ttl cfg >? 0 then fst (update_ttl b 0 0 (max_ttl cfg)) else b) false false)
          end) = (st', r) -> rs_from_cache r = true -> rs_err r = false -> False).
  { intros stale fc. destruct d; cbn [negb];
      [|intros E Hf He; inversion E; subst r; cbn [rs_from_cache rs_err] in *; discriminate].
    destruct (first_match (rq_id q) ds) as [b|];
      [|intros E Hf He; inversion E; subst r; cbn [rs_from_cache rs_err] in *; discriminate].
    destruct (cache_on cfg); intros E Hf He; inversion E; subst r; cbn [rs_from_cache rs_err] in *; discriminate. }
  destruct (negb (rq_type q =? tPTRq) && cache_on cfg) eqn:Ec.
  - unfold probe. destruct (cget (st_cache st) k) as [v|] eqn:Eg.
    + destruct (adjusted_response _ _ _ _ _) as [buf m] eqn:Ea.
      destruct (m >? 0).
      * intros E Hf He; inversion E; subst. exists v. cbn [rs_buf]. rewrite Ea. cbn [fst]. auto.
      * intros E Hf He. exfalso. eapply Hup; eassumption.
    + intros E Hf He. exfalso. eapply Hup; eassumption.
  - intros E Hf He. exfalso. eapply Hup; eassumption.
Qed.

(* DoH contexts are never the DNS53 context "" *)
Lemma url_norm_nonempty u : url_norm u <> [].
Proof. unfold url_norm, zero_url. destruct u; discriminate. Qed.

Theorem transports_never_share q q' url : key_of_doh q url <> key_of_dns q'.
Proof.
  unfold key_of_doh, key_of_dns. intros H. apply (f_equal k_ctx) in H. cbn [k_ctx] in H.
  exact (url_norm_nonempty url H).
Qed.

(* PTR queries are never served from the cache *)
Theorem ptr_never_cached_doh cfg st now q url up :
  rq_type q = tPTRq -> rs_from_cache (snd (doh_resolve cfg st now q url up)) = false.
Proof.
  intros Hp. unfold doh_resolve. rewrite Hp. cbn [Z.eqb tPTRq Pos.eqb negb andb].
  destruct up as [| s | | b lm]; try reflexivity.
  destruct (len b >=? 65535); [reflexivity|]. destruct ((len b >? 0) && cache_on cfg); reflexivity.
Qed.
Theorem ptr_never_cached_dns cfg st now q d ds :
  rq_type q = tPTRq -> rs_from_cache (snd (dns_resolve cfg st now q d ds)) = false.
Proof.
  intros Hp. unfold dns_resolve. rewrite Hp. cbn [Z.eqb tPTRq Pos.eqb negb andb].
  destruct d; cbn [negb]; [|reflexivity].
  destruct (first_match (rq_id q) ds); [|reflexivity]. destruct (cache_on cfg); reflexivity.
Qed.

(* the serve decision of DoH, in one place *)
Definition doh_serves (cfg : rcfg) (st : rstate) (now : Z) (q : rq) (url : bytes) : bool :=
  negb (rq_type q =? tPTRq) && cache_on cfg &&
  match cget (st_cache st) (key_of_doh q url) with
  | None => false
  | Some v =>
    (snd (adjusted_response (v_msg v) (rq_id q) ((now - v_time v) / second) (max_age cfg) (max_ttl cfg)) >? 0)
    && (lastmod (st_lastmod st) (url_norm url) <? v_time v)
  end.

(* when it serves, the upstream is not consulted (the result does not depend on
   it), nothing is stored, and the reply is the adjusted entry *)
Theorem doh_serve_true cfg st now q url up :
  doh_serves cfg st now q url = true ->
  exists v, cget (st_cache st) (key_of_doh q url) = Some v /\
    doh_resolve cfg st now q url up =
      (st, mkRes (fst (adjusted_response (v_msg v) (rq_id q) ((now - v_time v) / second) (max_age cfg) (max_ttl cfg))) true false).
Proof.
  unfold doh_serves, doh_resolve, key_of_doh, url_norm. intros H.
  apply andb_true_iff in H as [Hc H]. rewrite Hc. unfold probe.
  destruct (cget _ _) as [v|]; [|discriminate]. exists v. split; [reflexivity|].
  destruct (adjusted_response _ _ _ _ _) as [buf m]. cbn [fst snd] in *. rewrite H. reflexivity.
Qed.

(* when it does not, the answer is whatever the upstream exchange gives:
   a complete body is relayed (and stored), anything else is an error *)
Theorem doh_serve_false cfg st now q url up :
  doh_serves cfg st now q url = false ->
  match up with
  | DBody b lm => 0 < len b < 65535 ->
      snd (doh_resolve cfg st now q url up) = mkRes (cap_ttl cfg b) false false
  | _ => rs_err (snd (doh_resolve cfg st now q url up)) = true
  end.
Proof.
  unfold doh_serves, doh_resolve, key_of_doh, url_norm. intros H.
  set (k := mkKey _ _ _ _) in *.
  destruct (negb (rq_type q =? tPTRq) && cache_on cfg) eqn:Ec; cbn [andb] in H.
  - unfold probe. destruct (cget (st_cache st) k) as [v|].
    + destruct (adjusted_response _ _ _ _ _) as [buf m]. cbn [snd] in H. rewrite H.
      destruct up as [| s | | b lm]; try reflexivity. intros Hb.
      destruct (len b >=? 65535) eqn:E1; [lia|]. destruct ((len b >? 0) && cache_on cfg); reflexivity.
    + destruct up as [| s | | b lm]; try reflexivity. intros Hb.
      destruct (len b >=? 65535) eqn:E1; [lia|]. destruct ((len b >? 0) && cache_on cfg); reflexivity.
  - destruct up as [| s | | b lm]; try reflexivity. intros Hb.
    destruct (len b >=? 65535) eqn:E1; [lia|]. destruct ((len b >? 0) && cache_on cfg); reflexivity.
Qed.
