(* Proofs/LockFacts.v -- soundness of the lock-set discipline: if every pair of
   conflicting accesses in the table shares a lock held by at least one side in
   write mode, no schedule of any number of threads running paths of the table
   reaches a data race. *)
From NX Require Import Bytes Locks.
From Coq Require Import ZifyBool.
Open Scope Z_scope.

Lemma held_app p q h : held (p ++ q) h = held q (held p h).
Proof. revert h; induction p as [|e p IH]; intros h; cbn [app held]; [reflexivity|]. destruct e; apply IH. Qed.

Definition keys (h : list (Z * mode)) : list Z := map fst h.
Definition lookup (h : list (Z * mode)) (l : Z) : option mode :=
  match find (fun '(l', _) => l =? l') h with Some (_, m) => Some m | None => None end.

Lemma lookup_in h l m : NoDup (keys h) -> In (l, m) h -> lookup h l = Some m.
Proof.
  unfold lookup. induction h as [|[l' m'] r IH]; intros Hnd Hin; [contradiction|].
  cbn [find]. destruct (Z.eqb_spec l l') as [->|Hne].
  - destruct Hin as [Heq|Hin]; [inversion Heq; reflexivity|].
    exfalso. cbn in Hnd. inversion Hnd as [|? ? Hni _]; subst. apply Hni. apply (in_map fst) in Hin. exact Hin.
  - destruct Hin as [Heq|Hin]; [inversion Heq; congruence|]. apply IH; [cbn in Hnd; inversion Hnd; assumption | exact Hin].
Qed.

Lemma lookup_none h l : lookup h l = None <-> ~ In l (keys h).
Proof.
  unfold lookup. induction h as [|[l' m'] r IH]; cbn [find keys map In fst]; [tauto|].
  destruct (Z.eqb_spec l l') as [->|Hne]; [split; [discriminate | intros H; exfalso; apply H; left; reflexivity]|].
  rewrite IH. split; [intros H [E|H']; [congruence | exact (H H')] | intros H H'; apply H; right; exact H'].
Qed.

Lemma lookup_some_in h l m : lookup h l = Some m -> In (l, m) h.
Proof.
  unfold lookup. induction h as [|[l' m'] r IH]; cbn [find]; [discriminate|].
  destruct (Z.eqb_spec l l') as [->|Hne]; [intros H; inversion H; left; reflexivity | intros H; right; apply IH; exact H].
Qed.

Lemma keys_remove l h : NoDup (keys h) -> NoDup (keys (remove_lock l h)) /\ ~ In l (keys (remove_lock l h)) /\
  (forall l' m, l' <> l -> (In (l', m) (remove_lock l h) <-> In (l', m) h)).
Proof.
  induction h as [|[l0 m0] r IH]; intros Hnd; cbn [remove_lock keys map].
  - split; [constructor|]. split; [intros []|]. intros l' m _. tauto.
  - cbn in Hnd. inversion Hnd as [|? ? Hni Hr]; subst.
    destruct (Z.eqb_spec l l0) as [->|Hne].
    + split; [exact Hr|]. split; [exact Hni|]. intros l' m Hl'. split.
      * intros Hin; right; exact Hin.
      * intros [E|Hin]; [inversion E; congruence | exact Hin].
    + destruct (IH Hr) as (N & NI & EQ). cbn [keys map fst]. split; [|split].
      * constructor; [|exact N]. intros Hin. apply Hni. unfold keys in *. apply in_map_iff in Hin as ([a b] & Ea & Hin). cbn in Ea; subst a.
        destruct (Z.eq_dec l0 l) as [->|Hd]; [congruence|]. apply (EQ l0 b Hd) in Hin. apply (in_map fst) in Hin. exact Hin.
      * intros [E|Hin]; [congruence | exact (NI Hin)].
      * intros l' m Hl'. split.
        -- intros [E|Hin]; [left; exact E | right; apply (EQ l' m Hl'); exact Hin].
        -- intros [E|Hin]; [left; exact E | right; apply (EQ l' m Hl'); exact Hin].
Qed.

(* well-bracketed suffix after a prefix *)
Lemma wb_app p q h : well_bracketed (p ++ q) h = true -> well_bracketed q (held p h) = true.
Proof.
  revert h; induction p as [|e p IH]; intros h H; cbn [app well_bracketed held] in *; [exact H|].
  destruct e; try (apply IH; exact H); apply andb_true_iff in H as [_ H]; apply IH; exact H.
Qed.
Lemma wb_nodup p h : well_bracketed p h = true -> NoDup (keys h) -> NoDup (keys (held p h)).
Proof.
  revert h; induction p as [|e p IH]; intros h H Hnd; cbn [well_bracketed held] in *; [exact Hnd|].
  destruct e as [l m|l| | | |]; try (apply IH; assumption).
  - apply andb_true_iff in H as [Hn H]. apply IH; [exact H|]. cbn [keys map fst]. constructor; [|exact Hnd].
    apply negb_true_iff in Hn. intros Hin. unfold keys in Hin. apply in_map_iff in Hin as ([a b] & Ea & Hin). cbn in Ea; subst a.
    assert (existsb (fun '(l', _) => l =? l') h = true) by (apply existsb_exists; exists (l, b); split; [exact Hin | apply Z.eqb_refl]). congruence.
  - apply andb_true_iff in H as [_ H]. apply IH; [exact H|]. apply keys_remove; exact Hnd.
Qed.

(* an access in the middle of a path is listed with the locks held before it *)
Lemma accesses_mid pre e rest h x k :
  (match e with Rd y => (y, KRead) | Wr y => (y, KWrite) | ARd y => (y, KARead) | AWr y => (y, KAWrite) | _ => (x, k) end) = (x, k) ->
  (match e with Acq _ _ | Rel _ => False | _ => True end) ->
  In (x, k, held pre h) (accesses (pre ++ e :: rest) h).
Proof.
  revert h; induction pre as [|a pre IH]; intros h He Hacc; cbn [app accesses held].
  - destruct e; try contradiction; inversion He; subst; left; reflexivity.
  - destruct a; try (right; apply IH; assumption); apply IH; assumption.
Qed.

(* ---------- machine invariant ---------- *)
Definition tpath (t : thread) : path := rev (done_rev t) ++ todo t.

Definition tinv (tbl : list path) (ts : list thread) : Prop :=
  (forall i t, nth_error ts i = Some t -> In (tpath t) tbl) /\
  (forall i j ti tj l, i <> j -> nth_error ts i = Some ti -> nth_error ts j = Some tj ->
     lookup (thread_held ti) l = Some MW -> lookup (thread_held tj) l = None) .

Lemma nth_error_updt_same {A} i (x : A) l y : nth_error l i = Some y -> nth_error (updt i x l) i = Some x.
Proof. revert i; induction l as [|h t IH]; intros [|i] H; cbn in *; try discriminate; [reflexivity | apply IH; exact H]. Qed.
Lemma nth_error_updt_other {A} i j (x : A) l : i <> j -> nth_error (updt i x l) j = nth_error l j.
Proof. revert i j; induction l as [|h t IH]; intros [|i] [|j] H; cbn; try reflexivity; try congruence. apply IH; congruence. Qed.

Lemma holds_lookup t l : holds t l = lookup (thread_held t) l.
Proof. reflexivity. Qed.

Lemma thread_held_step d e r : thread_held (mkT (e :: d) r) = held [e] (thread_held (mkT d r)).
Proof. unfold thread_held; cbn [done_rev rev]. rewrite held_app. reflexivity. Qed.

Section Sound.
  Variable tbl : list path.
  Hypothesis Hwb : forall p, In p tbl -> well_bracketed p [] = true.

  Lemma thread_nodup t : In (tpath t) tbl -> NoDup (keys (thread_held t)).
  Proof.
    intros Hin. unfold thread_held. specialize (Hwb _ Hin). unfold tpath in Hwb.
    assert (Hp : well_bracketed (rev (done_rev t)) [] = true).
    { clear -Hwb. revert Hwb. generalize (@nil (Z * mode)). generalize (rev (done_rev t)). intros p.
      induction p as [|e p IH]; intros h H; cbn [app well_bracketed] in *; [reflexivity|].
      destruct e; try (apply IH; exact H); apply andb_true_iff in H as [H1 H]; rewrite H1; apply IH; exact H. }
    apply wb_nodup; [exact Hp | constructor].
  Qed.

  Lemma tstep_inv ts i ts' : tinv tbl ts -> tstep ts i = Some ts' -> tinv tbl ts'.
  Proof.
    intros [Hp Hx] Hs. unfold tstep in Hs. destruct (can_step ts i) eqn:Ec; [|discriminate].
    destruct (nth_error ts i) as [[d [|e r]]|] eqn:Hn; try discriminate. inversion Hs; subst ts'; clear Hs.
    set (t := mkT d (e :: r)) in *. set (t' := mkT (e :: d) r).
    assert (Hpath : tpath t' = tpath t) by (unfold tpath, t', t; cbn [done_rev todo rev]; rewrite <- app_assoc; reflexivity).
    assert (Hin : In (tpath t) tbl) by (eapply Hp; exact Hn).
    assert (Hnd : NoDup (keys (thread_held t))) by (apply thread_nodup; exact Hin).
    assert (Hwbs : well_bracketed (e :: r) (thread_held t) = true).
    { unfold thread_held. apply wb_app. apply Hwb. exact Hin. }
    split.
    - intros k tk Hk. destruct (Nat.eq_dec i k) as [->|Hne].
      + rewrite (nth_error_updt_same _ _ _ _ Hn) in Hk. inversion Hk; subst. rewrite Hpath. exact Hin.
      + rewrite nth_error_updt_other in Hk by exact Hne. eapply Hp; exact Hk.
    - (* mutual exclusion *)
      assert (Hheld' : thread_held t' = held [e] (thread_held t)) by apply thread_held_step.
      intros a b ta tb l Hab Ha Hb Hw.
      destruct (Nat.eq_dec i a) as [Eia|Nia]; destruct (Nat.eq_dec i b) as [Eib|Nib]; try (subst; congruence).
      + (* the stepping thread is the write holder *)
        subst a. rewrite (nth_error_updt_same _ _ _ _ Hn) in Ha. inversion Ha; subst ta.
        rewrite nth_error_updt_other in Hb by exact Nib.
        rewrite Hheld' in Hw. destruct e as [l0 m0|l0| | | |]; cbn [held] in Hw;
          try exact (Hx i b t tb l Hab Hn Hb Hw).
        * (* Acq *)
          unfold lookup in Hw. cbn [find] in Hw. destruct (Z.eqb_spec l l0) as [->|Hne].
          -- inversion Hw; subst m0. cbn [can_step] in Ec. unfold can_step in Ec. rewrite Hn in Ec. cbn [todo t] in Ec.
             rewrite forallb_forall in Ec. specialize (Ec tb (nth_error_In _ _ Hb)). rewrite holds_lookup in Ec.
             destruct (lookup (thread_held tb) l0); [discriminate | reflexivity].
          -- exact (Hx i b t tb l Hab Hn Hb Hw).
        * (* Rel *)
          destruct (Z.eq_dec l l0) as [->|Hne].
          -- exfalso. destruct (keys_remove l0 (thread_held t) Hnd) as (_ & NI & _). apply lookup_some_in in Hw.
             apply NI. apply (in_map fst) in Hw. exact Hw.
          -- apply (Hx i b t tb l Hab Hn Hb). apply lookup_in; [exact Hnd|].
             apply lookup_some_in in Hw. apply (proj1 (proj2 (proj2 (keys_remove l0 (thread_held t) Hnd)) l MW Hne)). exact Hw.
      + (* the stepping thread is the other one *)
        subst b. rewrite (nth_error_updt_same _ _ _ _ Hn) in Hb. inversion Hb; subst tb.
        rewrite nth_error_updt_other in Ha by exact Nia.
        pose proof (Hx a i ta t l Hab Ha Hn Hw) as Hnone.
        rewrite Hheld'. destruct e as [l0 m0|l0| | | |]; cbn [held]; try exact Hnone.
        * unfold lookup. cbn [find]. destruct (Z.eqb_spec l l0) as [->|Hne]; [|exact Hnone].
          exfalso. unfold can_step in Ec. rewrite Hn in Ec. cbn [todo t] in Ec.
          destruct m0; rewrite forallb_forall in Ec; specialize (Ec ta (nth_error_In _ _ Ha)); rewrite holds_lookup, Hw in Ec; discriminate.
        * apply lookup_none. apply lookup_none in Hnone. intros Hin'. apply Hnone.
          unfold keys in *. apply in_map_iff in Hin' as ([x y] & Ex & Hin'). cbn in Ex; subst x.
          destruct (Z.eq_dec l l0) as [->|Hne].
          -- exfalso. destruct (keys_remove l0 (thread_held t) Hnd) as (_ & NI & _). apply NI. apply (in_map fst) in Hin'. exact Hin'.
          -- apply (proj1 (proj2 (proj2 (keys_remove l0 (thread_held t) Hnd)) l y Hne)) in Hin'. apply (in_map fst) in Hin'. exact Hin'.
      + rewrite nth_error_updt_other in Ha by exact Nia. rewrite nth_error_updt_other in Hb by exact Nib.
        exact (Hx a b ta tb l Hab Ha Hb Hw).
  Qed.

  Lemma trun_inv sched : forall ts ts', tinv tbl ts -> trun ts sched = Some ts' -> tinv tbl ts'.
  Proof.
    induction sched as [|i r IH]; intros ts ts' Hi Hr; cbn [trun] in Hr; [inversion Hr; subst; exact Hi|].
    destruct (tstep ts i) as [ts1|] eqn:E; [|discriminate]. eapply IH; [eapply tstep_inv; eassumption | exact Hr].
  Qed.

  Definition start (ps : list path) : list thread := map (fun p => mkT [] p) ps.

  Lemma start_inv ps : (forall p, In p ps -> In p tbl) -> tinv tbl (start ps).
  Proof.
    intros Hps. split.
    - intros i t Hn. apply nth_error_In in Hn. unfold start in Hn. apply in_map_iff in Hn as (p & <- & Hp). apply Hps. exact Hp.
    - intros i j ti tj l _ Hi _ Hw. apply nth_error_In in Hi. unfold start in Hi. apply in_map_iff in Hi as (p & <- & _).
      cbn in Hw. discriminate.
  Qed.

  Hypothesis Hdisc : discipline tbl = true.

  (* the theorem: any number of threads, each running any path of the table, any schedule *)
  Theorem lockset_sound ps sched ts :
    (forall p, In p ps -> In p tbl) -> trun (start ps) sched = Some ts -> ~ race ts.
  Proof.
    intros Hps Hr. pose proof (trun_inv sched _ _ (start_inv ps Hps) Hr) as [Hp Hx].
    intros (i & j & ti & tj & x & k1 & k2 & Hij & Hi & Hj & Ni & Nj & Hc).
    assert (Ai : In (x, k1, thread_held ti) (accesses (tpath ti) [])).
    { unfold tpath, thread_held. unfold next_access in Ni. destruct (todo ti) as [|e r]; [discriminate|].
      apply accesses_mid; destruct e; try discriminate; inversion Ni; subst; try reflexivity; exact I. }
    assert (Aj : In (x, k2, thread_held tj) (accesses (tpath tj) [])).
    { unfold tpath, thread_held. unfold next_access in Nj. destruct (todo tj) as [|e r]; [discriminate|].
      apply accesses_mid; destruct e; try discriminate; inversion Nj; subst; try reflexivity; exact I. }
    unfold discipline in Hdisc. rewrite forallb_forall in Hdisc.
    assert (Hall : forall t, In (tpath t) tbl -> forall a, In a (accesses (tpath t) []) -> In a (flat_map (fun p => accesses p []) tbl)).
    { intros t Ht a Ha. apply in_flat_map. exists (tpath t). split; assumption. }
    specialize (Hdisc _ (Hall ti (Hp _ _ Hi) _ Ai)). rewrite forallb_forall in Hdisc.
    specialize (Hdisc _ (Hall tj (Hp _ _ Hj) _ Aj)). unfold pair_ok in Hdisc.
    rewrite Z.eqb_refl, Hc in Hdisc. cbn [andb negb orb] in Hdisc.
    unfold excl in Hdisc. apply existsb_exists in Hdisc as ([l1 m1] & H1 & Hd).
    apply existsb_exists in Hd as ([l2 m2] & H2 & Hd). apply andb_true_iff in Hd as [El Hm]. apply Z.eqb_eq in El. subst l2.
    pose proof (thread_nodup ti (Hp _ _ Hi)) as Ndi. pose proof (thread_nodup tj (Hp _ _ Hj)) as Ndj.
    pose proof (lookup_in _ _ _ Ndi H1) as L1. pose proof (lookup_in _ _ _ Ndj H2) as L2.
    destruct m1.
    - destruct m2; [discriminate|]. assert (Hji : j <> i) by congruence.
      pose proof (Hx j i tj ti l1 Hji Hj Hi L2). congruence.
    - pose proof (Hx i j ti tj l1 Hij Hi Hj L1). congruence.
  Qed.
End Sound.

(* ---- the de-duplicated check implies the full one ---- *)
Lemma mode_eqb_eq a b : mode_eqb a b = true -> a = b.
Proof. destruct a, b; simpl; congruence. Qed.
Lemma akind_eqb_eq a b : akind_eqb a b = true -> a = b.
Proof. destruct a, b; simpl; congruence. Qed.
Lemma held_eqb_eq a : forall b, held_eqb a b = true -> a = b.
Proof.
  induction a as [|[l1 m1] r1 IH]; intros [|[l2 m2] r2]; simpl; try congruence.
  intros H. apply andb_prop in H as [H H3]. apply andb_prop in H as [H1 H2].
  apply Z.eqb_eq in H1. apply mode_eqb_eq in H2. rewrite (IH _ H3). congruence.
Qed.
Lemma acc_eqb_eq a b : acc_eqb a b = true -> a = b.
Proof.
  destruct a as [[x1 k1] h1], b as [[x2 k2] h2]; simpl. intros H.
  apply andb_prop in H as [H H3]. apply andb_prop in H as [H1 H2].
  apply Z.eqb_eq in H1. apply akind_eqb_eq in H2. apply held_eqb_eq in H3. congruence.
Qed.
Lemma dedup_acc_in l : forall acc a, (In a l \/ In a acc) -> In a (dedup_acc l acc).
Proof.
  induction l as [|b r IH]; simpl; intros acc a H.
  - destruct H as [[]|H]; exact H.
  - destruct (existsb (acc_eqb b) acc) eqn:E.
    + apply IH. destruct H as [[<-|H]|H]; [|left; exact H|right; exact H].
      right. apply existsb_exists in E as (c & Hc & Hbc). apply acc_eqb_eq in Hbc. subst c. exact Hc.
    + apply IH. destruct H as [[<-|H]|H]; [right; left; reflexivity|left; exact H|right; right; exact H].
Qed.
Lemma discipline_fast_sound tbl : discipline_fast tbl = true -> discipline tbl = true.
Proof.
  unfold discipline_fast, discipline. intros H. rewrite forallb_forall in H.
  apply forallb_forall. intros a1 H1. apply forallb_forall. intros a2 H2.
  specialize (H a1 (dedup_acc_in _ [] a1 (or_introl H1))). rewrite forallb_forall in H.
  exact (H a2 (dedup_acc_in _ [] a2 (or_introl H2))).
Qed.

(* the statement the generated table is checked against *)
Theorem table_ok_sound tbl :
  table_ok tbl = true ->
  forall ps sched ts, (forall p, In p ps -> In p tbl) -> trun (start ps) sched = Some ts -> ~ race ts.
Proof.
  unfold table_ok. intros H. apply andb_prop in H as [Hwb Hd]. intros ps sched ts.
  apply lockset_sound; [|apply discipline_fast_sound; exact Hd].
  rewrite forallb_forall in Hwb. exact Hwb.
Qed.
