From NX Require Import Bytes Reply.
From Coq Require Import ZifyBool.
Open Scope Z_scope.

Lemma len_nonneg {A} (l : list A) : 0 <= len l.
Proof. unfold len; lia. Qed.

Lemma len_cons {A} (x : A) l : len (x :: l) = len l + 1.
Proof. unfold len; cbn [length]; lia. Qed.

Lemma len_app {A} (a b : list A) : len (a ++ b) = len a + len b.
Proof. unfold len; rewrite app_length; lia. Qed.

Lemma len_takez {A} n (l : list A) : 0 <= n <= len l -> len (takez n l) = n.
Proof. unfold len, takez; intros H; rewrite firstn_length; lia. Qed.

Lemma len_set_tc msg : len (set_tc msg) = len msg.
Proof. destruct msg as [|a [|b [|c r]]]; reflexivity. Qed.

Lemma udp_adjust_len m r :
  0 <= m <= 65535 -> 1 <= r <= 65535 -> fst (udp_adjust m r) <= limit m.
Proof.
  unfold udp_adjust, udp_adjust0, limit, maxUDPSize, maxDNS0Size, maxUDPPayload; intros Hm Hr.
  destruct (r >? 512) eqn:E1, (r >? m) eqn:E2, (r >? 4094) eqn:E3, (m >? 512) eqn:E4;
    cbn [andb orb]; try rewrite E2;
    repeat match goal with |- context [if ?x >? 65507 then _ else _] => destruct (x >? 65507) eqn:? end;
    cbn [fst snd]; lia.
Qed.

Lemma udp_adjust_tc m r :
  0 <= m <= 65535 -> 1 <= r <= 65535 ->
  fst (udp_adjust m r) < r -> snd (udp_adjust m r) = true.
Proof.
  unfold udp_adjust, udp_adjust0, limit, maxUDPSize, maxDNS0Size, maxUDPPayload; intros Hm Hr.
  destruct (r >? 512) eqn:E1, (r >? m) eqn:E2, (r >? 4094) eqn:E3, (m >? 512) eqn:E4;
    cbn [andb orb]; try rewrite E2;
    repeat match goal with |- context [if ?x >? 65507 then _ else _] => destruct (x >? 65507) eqn:? end;
    cbn [fst snd]; lia.
Qed.

Lemma udp_adjust_full m r :
  0 <= m <= 65535 -> 1 <= r <= 65535 ->
  r <= limit m -> fst (udp_adjust m r) = r.
Proof.
  unfold udp_adjust, udp_adjust0, limit, maxUDPSize, maxDNS0Size, maxUDPPayload; intros Hm Hr.
  destruct (r >? 512) eqn:E1, (r >? m) eqn:E2, (r >? 4094) eqn:E3, (m >? 512) eqn:E4;
    cbn [andb orb]; try rewrite E2;
    repeat match goal with |- context [if ?x >? 65507 then _ else _] => destruct (x >? 65507) eqn:? end;
    cbn [fst snd]; lia.
Qed.

Lemma udp_adjust_range m r :
  0 <= m <= 65535 -> 1 <= r <= 65535 ->
  1 <= fst (udp_adjust m r) <= r.
Proof.
  unfold udp_adjust, udp_adjust0, limit, maxUDPSize, maxDNS0Size, maxUDPPayload; intros Hm Hr.
  destruct (r >? 512) eqn:E1, (r >? m) eqn:E2, (r >? 4094) eqn:E3, (m >? 512) eqn:E4;
    cbn [andb orb]; try rewrite E2;
    repeat match goal with |- context [if ?x >? 65507 then _ else _] => destruct (x >? 65507) eqn:? end;
    cbn [fst snd]; lia.
Qed.

(* the datagram actually written *)
Lemma udp_reply_len m msg :
  0 <= m <= 65535 -> 1 <= len msg <= 65535 ->
  len (udp_reply m msg) = fst (udp_adjust m (len msg)).
Proof.
  intros Hm Hr. unfold udp_reply.
  pose proof (udp_adjust_range m (len msg) Hm Hr) as Hrange.
  destruct (udp_adjust m (len msg)) as [n tc] eqn:E; cbn [fst] in *.
  destruct tc; apply len_takez; rewrite ?len_set_tc; lia.
Qed.

Lemma takez_all {A} n (l : list A) : len l <= n -> takez n l = l.
Proof. unfold len, takez; intros; apply firstn_all2; lia. Qed.

Lemma udp_reply_untouched m msg :
  0 <= m <= 65535 -> 1 <= len msg <= 65535 ->
  snd (udp_adjust m (len msg)) = false -> udp_reply m msg = msg.
Proof.
  intros Hm Hr Htc. unfold udp_reply.
  pose proof (udp_adjust_tc m (len msg) Hm Hr) as Htc'.
  pose proof (udp_adjust_range m (len msg) Hm Hr) as Hrange.
  destruct (udp_adjust m (len msg)) as [n tc] eqn:E; cbn [fst snd] in *.
  subst tc. apply takez_all.
  destruct (Z_lt_dec n (len msg)) as [Hlt|Hge]; [specialize (Htc' Hlt); discriminate | lia].
Qed.

Lemma tc_bit_set_tc msg : 3 <= len msg -> tc_bit (set_tc msg) = true.
Proof.
  destruct msg as [|a [|b [|c r]]]; unfold len; cbn [length]; try lia.
  intros _. cbn [set_tc tc_bit].
  destruct (Z.land (Z.lor c 2) 2 =? 0) eqn:E; [|reflexivity].
  apply Z.eqb_eq in E.
  assert (Z.testbit (Z.land (Z.lor c 2) 2) 1 = true) as Hb.
  { rewrite Z.land_spec, Z.lor_spec. change (Z.testbit 2 1) with true.
    rewrite orb_true_r. reflexivity. }
  rewrite E in Hb. rewrite Z.bits_0 in Hb. discriminate.
Qed.

Lemma tc_bit_takez n msg : 3 <= n -> tc_bit (takez n msg) = tc_bit msg.
Proof.
  intros Hn. unfold takez.
  destruct (Z.to_nat n) as [|[|[|k]]] eqn:E; try lia.
  destruct msg as [|a [|b [|c r]]]; reflexivity.
Qed.

Lemma udp_reply_tc m msg :
  0 <= m <= 65535 -> 3 <= len msg <= 65535 ->
  len (udp_reply m msg) < len msg -> tc_bit (udp_reply m msg) = true.
Proof.
  intros Hm Hr Hlt.
  assert (Hr' : 1 <= len msg <= 65535) by lia.
  rewrite (udp_reply_len m msg Hm Hr') in Hlt.
  pose proof (udp_adjust_tc m (len msg) Hm Hr' Hlt) as Htc.
  pose proof (udp_adjust_range m (len msg) Hm Hr') as Hrange.
  unfold udp_reply.
  destruct (udp_adjust m (len msg)) as [n tc] eqn:E; cbn [fst snd] in *. subst tc.
  assert (3 <= n).
  { unfold udp_adjust, udp_adjust0, maxUDPSize, maxDNS0Size, maxUDPPayload in E.
    destruct (len msg >? 512) eqn:E1, (len msg >? m) eqn:E2, (len msg >? 4094) eqn:E3, (m >? 512) eqn:E4;
      cbn [andb orb] in E; try rewrite E2 in E;
      repeat match type of E with context [if ?x >? 65507 then _ else _] => destruct (x >? 65507) eqn:? end;
      inversion E; lia. }
  rewrite tc_bit_takez by assumption. apply tc_bit_set_tc. lia.
Qed.

(* Relaying only ever cuts a suffix and ORs the TC bit: every byte other than
   byte 2 is the upstream's. *)
Lemma nth_takez {A} n i (l : list A) d : (i < Z.to_nat n)%nat -> nth i (takez n l) d = nth i l d.
Proof.
  unfold takez. revert i l. induction (Z.to_nat n) as [|k IH]; intros i l Hi; [lia|].
  destruct l as [|x l]; [destruct i; reflexivity|].
  destruct i as [|i]; [reflexivity|]. cbn [firstn nth]. apply IH. lia.
Qed.

Lemma nth_set_tc i msg d : i <> 2%nat -> nth i (set_tc msg) d = nth i msg d.
Proof.
  intros Hi. destruct msg as [|a [|b [|c r]]]; try reflexivity.
  destruct i as [|[|[|i]]]; try reflexivity. congruence.
Qed.

Lemma udp_reply_prefix m msg i d :
  0 <= m <= 65535 -> 1 <= len msg <= 65535 ->
  (i < Z.to_nat (len (udp_reply m msg)))%nat -> i <> 2%nat ->
  nth i (udp_reply m msg) d = nth i msg d.
Proof.
  intros Hm Hr Hi Hi2. rewrite (udp_reply_len m msg Hm Hr) in Hi.
  unfold udp_reply. destruct (udp_adjust m (len msg)) as [n tc]; cbn [fst] in Hi.
  rewrite nth_takez by assumption. destruct tc; [apply nth_set_tc; assumption | reflexivity].
Qed.

(* TCP *)
Lemma tcp_frame_spec msg :
  1 <= len msg <= 65535 ->
  tcp_frame msg = [len msg / 256; len msg mod 256] ++ msg
  /\ decode_prefix (tcp_frame msg) = len msg
  /\ len (tcp_frame msg) = len msg + 2.
Proof.
  intros H. unfold tcp_frame, pack16, decode_prefix, u16.
  rewrite (Z.mod_small (len msg) 65536) by lia.
  rewrite (Z.mod_small (len msg / 256) 256)
    by (split; [apply Z.div_pos; lia | apply Z.div_lt_upper_bound; lia]).
  repeat split.
  - cbn [app]. pose proof (Z.div_mod (len msg) 256). lia.
  - rewrite len_app. unfold len at 1. cbn [length]. lia.
Qed.

(* boolean spec = Prop spec *)
Lemma c05_udp_ok_model m msg :
  0 <= m <= 65535 -> 3 <= len msg <= 65535 ->
  c05_udp_ok m (len msg) (len (udp_reply m msg)) (tc_bit (udp_reply m msg)) (tc_bit msg) = true.
Proof.
  intros Hm Hr. assert (Hr' : 1 <= len msg <= 65535) by lia.
  unfold c05_udp_ok.
  pose proof (udp_reply_tc m msg Hm Hr) as Htc.
  rewrite (udp_reply_len m msg Hm Hr') in *.
  pose proof (udp_adjust_len m (len msg) Hm Hr').
  pose proof (udp_adjust_full m (len msg) Hm Hr').
  pose proof (udp_adjust_range m (len msg) Hm Hr') as Hrange.
  assert (tc_bit msg = true -> tc_bit (udp_reply m msg) = true) as Hkeep.
  { intros Htc0. unfold udp_reply.
    destruct (udp_adjust m (len msg)) as [n tc] eqn:E; cbn [fst snd] in *.
    assert (3 <= n).
    { unfold udp_adjust, udp_adjust0, maxUDPSize, maxDNS0Size, maxUDPPayload in E.
      destruct (len msg >? 512) eqn:E1, (len msg >? m) eqn:E2, (len msg >? 4094) eqn:E3, (m >? 512) eqn:E4;
        cbn [andb orb] in E; try rewrite E2 in E;
        repeat match type of E with context [if ?x >? 65507 then _ else _] => destruct (x >? 65507) eqn:? end;
        inversion E; lia. }
    rewrite tc_bit_takez by assumption.
    destruct tc; [apply tc_bit_set_tc; lia | exact Htc0]. }
  destruct (fst (udp_adjust m (len msg)) <? len msg) eqn:E1.
  - rewrite Htc by lia.
    destruct (tc_bit msg); cbn [implb andb]; lia.
  - destruct (tc_bit msg) eqn:E2; [rewrite Hkeep by reflexivity|]; cbn [implb andb];
      destruct (tc_bit (udp_reply m msg)); cbn [implb andb]; lia.
Qed.
