(* Proofs/CursorFacts.v -- the parser's cursor (offset, remaining bytes) always denotes a
   position of the message it was started on: remaining = msg from offset.  This ties the
   data offsets the OPT reader records to positions in the payload that query.parse rewrites. *)
From NX Require Import Bytes Wire ReplyFacts WireFacts.
From Coq Require Import ZifyBool.
Open Scope Z_scope.

Definition cur_ok (msg : bytes) (c : cur) : Prop := 0 <= fst c /\ snd c = dropz (fst c) msg.

Lemma skipn_cons_nat k : forall (l : bytes) x r d, skipn k l = x :: r ->
  skipn (S k) l = r /\ nth k l d = x /\ (k < length l)%nat.
Proof.
  induction k as [|k IH]; intros l x r d H.
  - cbn [skipn] in H. subst l. cbn. repeat split; lia.
  - destruct l as [|y l]; [discriminate|]. cbn [skipn] in H. destruct (IH l x r d H) as (A & B & C).
    cbn [nth length]. split; [exact A|]. split; [exact B|lia].
Qed.
Lemma dropz_cons n (l : bytes) x r d : 0 <= n -> dropz n l = x :: r ->
  dropz (n + 1) l = r /\ nth (Z.to_nat n) l d = x /\ n < len l.
Proof.
  unfold dropz, len. intros Hn H. replace (Z.to_nat (n + 1)) with (S (Z.to_nat n)) by lia.
  destruct (skipn_cons_nat _ _ _ _ d H) as (A & B & C). repeat split; try assumption. lia.
Qed.

(* ---- primitive reads ---- *)
Lemma get16_pos msg c v c' : cur_ok msg c -> get16 c = Ok (v, c') ->
  cur_ok msg c' /\ fst c' = fst c + 2 /\ fst c + 2 <= len msg /\
  v = u16 (nth (Z.to_nat (fst c)) msg 0) (nth (Z.to_nat (fst c + 1)) msg 0).
Proof.
  destruct c as [off rest]. intros [H0 Hs] H. cbn [fst snd] in *. subst rest. unfold get16 in H. cbn [snd fst] in H.
  destruct (dropz off msg) as [|a [|b r]] eqn:E; try discriminate.
  injection H as <- <-. cbn [fst snd].
  destruct (dropz_cons _ _ _ _ 0 H0 E) as (E1 & Na & La).
  assert (Hp1 : 0 <= off + 1) by lia. destruct (dropz_cons _ _ _ _ 0 Hp1 E1) as (E2 & Nb & Lb).
  repeat split; cbn [fst snd]; try lia.
  - replace (off + 2) with (off + 1 + 1) by lia. symmetry. exact E2.
  - rewrite Na, Nb. reflexivity.
Qed.
Lemma get32_pos msg c v c' : cur_ok msg c -> get32 c = Ok (v, c') -> cur_ok msg c' /\ fst c' = fst c + 4.
Proof.
  destruct c as [off rest]. intros [H0 Hs] H. cbn [fst snd] in *. subst rest. unfold get32 in H. cbn [snd fst] in H.
  destruct (dropz off msg) as [|a [|b [|c0 [|d r]]]] eqn:E; try discriminate.
  injection H as <- <-. cbn [fst snd].
  destruct (dropz_cons _ _ _ _ 0 H0 E) as (E1 & _ & _).
  assert (Hp1 : 0 <= off + 1) by lia. destruct (dropz_cons _ _ _ _ 0 Hp1 E1) as (E2 & _ & _).
  assert (Hp2 : 0 <= off + 1 + 1) by lia. destruct (dropz_cons _ _ _ _ 0 Hp2 E2) as (E3 & _ & _).
  assert (Hp3 : 0 <= off + 1 + 1 + 1) by lia. destruct (dropz_cons _ _ _ _ 0 Hp3 E3) as (E4 & _ & _).
  split; [split; cbn [fst snd]; [lia|]|reflexivity]. replace (off + 4) with (off + 1 + 1 + 1 + 1) by lia. symmetry. exact E4.
Qed.

Lemma drop_exact_skipn k : forall (l r : bytes), drop_exact k l = Some r -> r = skipn k l /\ (k <= length l)%nat.
Proof.
  induction k as [|k IH]; intros l r H; cbn [drop_exact] in H.
  - injection H as <-. split; [reflexivity|lia].
  - destruct l as [|x l]; [discriminate|]. destruct (IH l r H) as [A B]. cbn [skipn length]. split; [exact A|lia].
Qed.
Lemma take_exact_firstn k : forall (l d : bytes), take_exact k l = Some d -> d = firstn k l /\ length d = k /\ (k <= length l)%nat.
Proof.
  induction k as [|k IH]; intros l d H; cbn [take_exact] in H.
  - injection H as <-. repeat split; lia.
  - destruct l as [|x l]; [discriminate|]. destruct (take_exact k l) as [t|] eqn:E; [|discriminate].
    injection H as <-. destruct (IH l t E) as (A & B & C). cbn [firstn length]. rewrite <- A, B. repeat split; lia.
Qed.
Lemma skipn_add {A} a : forall b (l : list A), skipn a (skipn b l) = skipn (b + a) l.
Proof.
  intros b. revert a. induction b as [|b IH]; intros a l; [reflexivity|].
  destruct l as [|x l]; [rewrite !skipn_nil; reflexivity|]. cbn [skipn Nat.add]. apply IH.
Qed.
Lemma advance_pos msg k c c' : 0 <= k -> cur_ok msg c -> advance k c = Some c' ->
  cur_ok msg c' /\ fst c' = fst c + k.
Proof.
  intros Hk [H0 Hs] H. unfold advance in H. destruct (drop_exact (Z.to_nat k) (snd c)) as [r|] eqn:E; [|discriminate].
  injection H as <-. cbn [fst snd]. destruct (drop_exact_skipn _ _ _ E) as [Er _]. rewrite Hs in Er.
  unfold dropz in Er. rewrite skipn_add in Er.
  split; [split; cbn [fst snd]; [lia|]|reflexivity].
  unfold dropz. rewrite Er. f_equal. lia.
Qed.

(* ---- names ---- *)
Lemma skip_name_go_pos msg : forall rest k off c', 0 <= off -> rest = dropz off msg ->
  skip_name_go rest k off = Ok c' -> cur_ok msg c'.
Proof.
  induction rest as [|c r IH]; intros k off c' H0 Hr H; cbn [skip_name_go] in H; [discriminate|].
  symmetry in Hr. destruct (dropz_cons _ _ _ _ 0 H0 Hr) as (E1 & _ & _).
  destruct k as [|k'].
  - destruct (Z.land c 192 =? 0).
    + destruct (c =? 0); [injection H as <-; split; cbn [fst snd]; [lia|symmetry; exact E1]|].
      apply (IH _ (off + 1)) in H; [exact H|lia|symmetry; exact E1].
    + destruct (Z.land c 192 =? 192); [|discriminate]. injection H as <-. split; cbn [fst snd]; [lia|].
      destruct r as [|y r'].
      * unfold dropz in *. symmetry. apply skipn_all2. assert (length (skipn (Z.to_nat (off + 1)) msg) = 0%nat) by (rewrite E1; reflexivity).
        rewrite skipn_length in H. lia.
      * assert (Hp1 : 0 <= off + 1) by lia. destruct (dropz_cons _ _ _ _ 0 Hp1 E1) as (E2 & _ & _). replace (off + 2) with (off + 1 + 1) by lia. symmetry. exact E2.
  - apply (IH _ (off + 1)) in H; [exact H|lia|symmetry; exact E1].
Qed.
Lemma skip_name_pos msg c c' : cur_ok msg c -> skip_name c = Ok c' -> cur_ok msg c'.
Proof. intros [H0 Hs] H. unfold skip_name in H. apply (skip_name_go_pos msg _ _ _ _ H0 Hs H). Qed.

Lemma labels_pos msg : forall rest k off rn,
  0 <= off -> rest = dropz off msg -> okb rest ->
  match labels rest k off rn with
  | LEnd _ c' => cur_ok msg c'
  | LPtr tgt _ c' => cur_ok msg c' /\ 0 <= tgt
  | LErr _ => True
  end.
Proof.
  induction rest as [|c r IH]; intros k off rn H0 Hr Hok; cbn [labels]; [exact I|].
  symmetry in Hr. destruct (dropz_cons _ _ _ _ 0 H0 Hr) as (E1 & _ & _).
  pose proof (okb_tail _ _ Hok) as Hokr. pose proof (okb_head _ _ Hok) as Hc.
  destruct k as [|k'].
  - destruct (Z.land c 192 =? 0).
    + destruct (c =? 0); [split; cbn [fst snd]; [lia|symmetry; exact E1]|].
      apply IH; [lia|symmetry; exact E1|exact Hokr].
    + destruct (Z.land c 192 =? 192); [|exact I]. destruct r as [|c1 r']; [exact I|].
      assert (Hp1 : 0 <= off + 1) by lia. destruct (dropz_cons _ _ _ _ 0 Hp1 E1) as (E2 & _ & _).
      pose proof (okb_head _ _ Hokr) as Hc1.
      split; [split; cbn [fst snd]; [lia|replace (off + 2) with (off + 1 + 1) by lia; symmetry; exact E2]|].
      apply Z.lor_nonneg. split; [apply Z.shiftl_nonneg; apply Z.lxor_nonneg; lia|lia].
  - apply IH; [lia|symmetry; exact E1|exact Hokr].
Qed.

Lemma unpack_name_go_pos msg : forall budget c first rn newc name c2,
  okb msg -> cur_ok msg c -> cur_ok msg newc ->
  unpack_name_go budget msg c first rn newc = Ok (name, c2) -> cur_ok msg c2.
Proof.
  induction budget as [|b IH]; intros c first rn newc name c2 Hm [H0 Hs] Hn H; cbn [unpack_name_go] in H;
    pose proof (labels_pos msg (snd c) O (fst c) rn H0 Hs ltac:(rewrite Hs; apply okb_dropz; exact Hm)) as HL;
    destruct (labels (snd c) O (fst c) rn) as [rn' c'|tgt rn' c'|e]; try discriminate.
  - destruct (len _ >? 255); [discriminate|]. injection H as _ <-. destruct first; assumption.
  - destruct (len _ >? 255); [discriminate|]. injection H as _ <-. destruct first; assumption.
  - destruct HL as [Hc' Ht]. apply (IH _ _ _ _ _ _ Hm) in H; [exact H|split; cbn [fst snd]; [exact Ht|reflexivity]|destruct first; assumption].
Qed.
Lemma unpack_name_pos msg c name c2 : okb msg -> cur_ok msg c -> unpack_name msg c = Ok (name, c2) -> cur_ok msg c2.
Proof. intros Hm Hc H. unfold unpack_name in H. apply (unpack_name_go_pos msg _ _ _ _ _ _ _ Hm Hc Hc H). Qed.
