(* Proofs/StoreFacts.v -- saved configuration reloads to the same store; setting
   one scalar option leaves every other stored option unchanged. *)
From NX Require Import Bytes Config.
From Coq Require Import ZifyBool.
Open Scope Z_scope.

Section StoreFacts.
  Variable elem : Type.
  Variable same : nat -> elem -> elem -> bool.
  Variable show : nat -> elem -> bytes.
  Variable parse : nat -> bytes -> option elem.
  Variable norm : nat -> bytes -> option bytes.

  Notation store := (store elem).
  Notation set_elem := (set_elem elem same).
  Notation apply_items := (apply_items elem same parse norm).
  Notation apply_item := (apply_item elem same parse norm).
  Notation save := (save elem show).
  Notation canonical := (canonical elem same).

  (* environment: printing then parsing an element gives it back -- for the elements
     that can be in a store at all ([good]: what the option's Set can produce); a stored
     scalar is in canonical printed form (its own normal form) *)
  Variable good : nat -> elem -> Prop.
  Hypothesis parse_show : forall j e, good j e -> parse j (show j e) = Some e.

  (* ---------- list options ---------- *)
  Lemma set_elem_append j pre e :
    Forall (fun x => same j e x = false) pre -> set_elem j pre e = pre ++ [e].
  Proof.
    induction pre as [|x r IH]; intros H; cbn [set_elem app]; [reflexivity|].
    inversion H as [|? ? Hx Hr]; subst. rewrite Hx. f_equal. apply IH. exact Hr.
  Qed.

  (* every element of l is different (for the criterion) from all elements before it *)
  Fixpoint fresh_over (j : nat) (pre l : list elem) : Prop :=
    match l with
    | [] => True
    | y :: r => Forall (fun x => same j y x = false) pre /\ fresh_over j (pre ++ [y]) r
    end.

  Lemma fold_set_fresh j l : forall pre, fresh_over j pre l -> fold_left (set_elem j) l pre = pre ++ l.
  Proof.
    induction l as [|y r IH]; intros pre H; cbn [fold_left]; [rewrite app_nil_r; reflexivity|].
    destruct H as [Hy Hr]. rewrite set_elem_append by exact Hy. rewrite IH by exact Hr.
    rewrite <- app_assoc. reflexivity.
  Qed.

  Lemma canonical_fresh j l : forall pre,
    Forall (fun y => Forall (fun x => same j y x = false) pre) l -> canonical j l -> fresh_over j pre l.
  Proof.
    induction l as [|y r IH]; intros pre Hp Hc; cbn [fresh_over]; [exact I|].
    inversion Hp as [|? ? Hy Hr]; subst. destruct Hc as [Hlater Hc]. split; [exact Hy|].
    apply IH; [|exact Hc].
    rewrite Forall_forall in *. intros z Hz. apply Forall_app. split; [apply Hr; exact Hz|].
    constructor; [apply Hlater; exact Hz | constructor].
  Qed.

  Theorem reload_list j l : canonical j l -> fold_left (set_elem j) l [] = l.
  Proof.
    intros Hc. rewrite fold_set_fresh; [reflexivity|]. apply canonical_fresh; [|exact Hc].
    apply Forall_forall. intros y _. constructor.
  Qed.

  (* ---------- positions ---------- *)
  Lemma upd_at_app {A} (pre : list A) f x post :
    upd_at (length pre) f (pre ++ x :: post) = pre ++ f x :: post.
  Proof. induction pre as [|p pre IH]; cbn [length app upd_at]; [reflexivity | rewrite IH; reflexivity]. Qed.

  (* ---------- loading the saved scalars ---------- *)
  Lemma load_scalars vs : forall pre ds L,
    length ds = length vs -> Forall2 (fun i v => norm i v = Some v) (seq (length pre) (length vs)) vs ->
    apply_items (mkStore (pre ++ ds) L) (save_scalars (length pre) vs) = Some (mkStore (pre ++ vs) L).
  Proof.
    induction vs as [|v vs IH]; intros pre ds L Hlen Hn; cbn [save_scalars Config.apply_items].
    - destruct ds; [rewrite !app_nil_r; reflexivity | discriminate].
    - destruct ds as [|d ds]; [discriminate|]. cbn [length seq] in *. inversion Hn as [|? ? ? ? Hv Hrest]; subst.
      cbn [Config.apply_item scalars lists]. rewrite Hv. rewrite upd_at_app.
      replace (pre ++ v :: ds) with ((pre ++ [v]) ++ ds) by (rewrite <- app_assoc; reflexivity).
      replace (S (length pre)) with (length (pre ++ [v])) by (rewrite app_length; cbn; lia).
      rewrite IH.
      + rewrite <- app_assoc. reflexivity.
      + cbn in Hlen. lia.
      + replace (length (pre ++ [v])) with (S (length pre)) by (rewrite app_length; cbn; lia). exact Hrest.
  Qed.

  (* ---------- loading the saved lists ---------- *)
  Lemma load_one_list j l : forall S0 pre cur post,
    lists S0 = pre ++ cur :: post -> length pre = j -> fresh_over j cur l -> Forall (good j) l ->
    apply_items S0 (map (fun e => Elem j (show j e)) l) =
      Some (mkStore (scalars S0) (pre ++ (cur ++ l) :: post)).
  Proof.
    induction l as [|e l IH]; intros S0 pre cur post HL Hj Hf Hg; cbn [map Config.apply_items].
    - rewrite app_nil_r. destruct S0; cbn in *; subst; reflexivity.
    - apply Forall_cons_iff in Hg. destruct Hg as [Hge Hgl].
      cbn [Config.apply_item]. rewrite parse_show by exact Hge. destruct Hf as [He Hr]. subst j.
      rewrite HL. rewrite upd_at_app. rewrite set_elem_append by exact He.
      rewrite (IH _ pre (cur ++ [e]) post); [| reflexivity | reflexivity | exact Hr | exact Hgl].
      cbn [scalars]. rewrite <- app_assoc. reflexivity.
  Qed.

  Lemma load_lists ls : forall pre sc,
    Forall2 (fun j l => canonical j l /\ Forall (good j) l) (seq (length pre) (length ls)) ls ->
    apply_items (mkStore sc (pre ++ map (fun _ => []) ls)) (save_lists elem show (length pre) ls)
      = Some (mkStore sc (pre ++ ls)).
  Proof.
    induction ls as [|l ls IH]; intros pre sc Hc; cbn [save_lists map].
    - reflexivity.
    - cbn [length seq] in Hc. inversion Hc as [|? ? ? ? Hl Hrest]; subst.
      assert (Happ : forall a b s0, apply_items s0 (a ++ b) = match apply_items s0 a with Some s1 => apply_items s1 b | None => None end).
      { induction a as [|x a IHa]; intros b s0; cbn [app Config.apply_items]; [reflexivity|].
        destruct (apply_item s0 x); [apply IHa | reflexivity]. }
      rewrite Happ.
      destruct Hl as [Hl Hg].
      rewrite (load_one_list (length pre) l _ pre [] (map (fun _ => []) ls)); [| reflexivity | reflexivity | | exact Hg].
      + cbn [scalars app].
        replace (pre ++ l :: map (fun _ => []) ls) with ((pre ++ [l]) ++ map (fun _ : list elem => @nil elem) ls)
          by (rewrite <- app_assoc; reflexivity).
        replace (S (length pre)) with (length (pre ++ [l])) by (rewrite app_length; cbn; lia).
        rewrite IH; [rewrite <- app_assoc; reflexivity|].
        replace (length (pre ++ [l])) with (S (length pre)) by (rewrite app_length; cbn; lia). exact Hrest.
      + apply canonical_fresh; [apply Forall_forall; intros y _; constructor | exact Hl].
  Qed.

  (* ---------- C17: save then load gives the same store ---------- *)
  Definition wf_store (s : store) : Prop :=
    Forall2 (fun i v => norm i v = Some v) (seq 0 (length (scalars s))) (scalars s) /\
    Forall2 (fun j l => canonical j l /\ Forall (good j) l) (seq 0 (length (lists s))) (lists s).

  Theorem save_load s defaults :
    wf_store s -> length (scalars defaults) = length (scalars s) ->
    lists defaults = map (fun _ => []) (lists s) ->
    load elem same parse norm defaults (save s) = Some s.
  Proof.
    intros [Hs Hl] Hlen Hd. unfold load, Config.save.
    assert (Happ : forall a b s0, apply_items s0 (a ++ b) = match apply_items s0 a with Some s1 => apply_items s1 b | None => None end).
    { induction a as [|x a IHa]; intros b s0; cbn [app Config.apply_items]; [reflexivity|].
      destruct (apply_item s0 x); [apply IHa | reflexivity]. }
    rewrite Happ. destruct defaults as [ds dl]. cbn [scalars lists] in *. subst dl.
    pose proof (load_scalars (scalars s) [] ds (map (fun _ => []) (lists s)) Hlen Hs) as H1. cbn [app length] in H1.
    rewrite H1.
    pose proof (load_lists (lists s) [] (scalars s) Hl) as H2. cbn [app length] in H2. rewrite H2.
    destruct s; reflexivity.
  Qed.

  (* ---------- C17: config set of one scalar option ---------- *)
  Lemma nth_upd_at_other {A} i j (f : A -> A) l d : i <> j -> nth j (upd_at i f l) d = nth j l d.
  Proof.
    revert i j; induction l as [|x l IH]; intros [|i] [|j] H; cbn; try reflexivity; try congruence.
    apply IH. congruence.
  Qed.

  Theorem set_scalar_others s defaults o v c :
    wf_store s -> length (scalars defaults) = length (scalars s) ->
    lists defaults = map (fun _ => []) (lists s) -> norm o v = Some c -> norm o c = Some c ->
    exists s', parse_cmd elem same parse norm defaults [Scalar o v] (save s) = Some s' /\
      lists s' = lists s /\ forall o', o' <> o -> nth o' (scalars s') [] = nth o' (scalars s) [].
  Proof.
    intros Hwf Hlen Hd Hn Hc. unfold parse_cmd. cbn [Config.apply_items Config.apply_item]. rewrite Hn.
    set (d1 := mkStore (upd_at o (fun _ => c) (scalars defaults)) (lists defaults)).
    assert (Hl1 : load elem same parse norm d1 (save s) = Some s).
    { apply save_load; [exact Hwf | | exact Hd]. unfold d1; cbn [scalars].
      clear -Hlen. revert o. generalize (scalars defaults) (scalars s) Hlen. clear.
      induction l as [|x l IH]; intros l' H [|o]; cbn in *; try exact H. destruct l'; [discriminate|]. cbn. f_equal.
      apply (IH l'); cbn in H; lia. }
    unfold load in Hl1. rewrite Hl1.
    eexists. split; [reflexivity|]. cbn [lists scalars]. split; [reflexivity|].
    intros o' Ho. apply nth_upd_at_other. congruence.
  Qed.
End StoreFacts.
