(* Proofs/MdnsFacts.v -- C18: the two views of the mDNS table (name -> addresses and
   address -> names) agree after any sequence of announcements, evictions included. *)
From NX Require Import Bytes Discovery Mdns ConfigFacts DiscoveryFacts LeaseFacts.
From Coq Require Import ZifyBool.
Open Scope Z_scope.

(* ---- the maps ---- *)
Definition mkeys (m : mmap) : list bytes := map fst m.

Lemma mget_none_notin m k : mget m k = None <-> ~ In k (mkeys m).
Proof.
  induction m as [|[k' e] r IH]; cbn [mget mkeys map fst In]; [tauto|].
  destruct (beq_bytes k k') eqn:E.
  - apply beq_bytes_eq in E. subst k'. split; [discriminate|]. intros H. exfalso. apply H. left. reflexivity.
  - rewrite IH. unfold mkeys. split; [intros H [->|Hin]; [rewrite beq_bytes_refl in E; discriminate|exact (H Hin)]|].
    intros H Hin. apply H. right. exact Hin.
Qed.

Lemma mget_mset m k e k' : mget (mset m k e) k' = if beq_bytes k' k then Some e else mget m k'.
Proof.
  induction m as [|[k0 e0] r IH]; cbn [mset mget].
  - destruct (beq_bytes k' k); reflexivity.
  - destruct (beq_bytes k k0) eqn:E; cbn [mget].
    + apply beq_bytes_eq in E. subst k0. destruct (beq_bytes k' k); reflexivity.
    + destruct (beq_bytes k' k0) eqn:E2; [|exact IH].
      destruct (beq_bytes k' k) eqn:E3; [|reflexivity].
      apply beq_bytes_eq in E2, E3. subst. rewrite beq_bytes_refl in E. discriminate.
Qed.

Lemma mkeys_mset m k e : NoDup (mkeys m) -> NoDup (mkeys (mset m k e)) /\ (forall x, In x (mkeys (mset m k e)) <-> x = k \/ In x (mkeys m)).
Proof.
  induction m as [|[k0 e0] r IH]; cbn [mset mkeys map fst]; intros Hnd.
  - split; [constructor; [intros []|constructor]|]. intros x. cbn [In]. intuition.
  - inversion Hnd as [|? ? Hni Hnd']; subst. destruct (beq_bytes k k0) eqn:E.
    + apply beq_bytes_eq in E. subst k0. cbn [map fst]. split; [exact Hnd|]. intros x. cbn [In]. intuition.
    + cbn [map fst]. destruct (IH Hnd') as [IH1 IH2]. fold (mkeys (mset r k e)). split.
      * constructor; [|exact IH1]. intros Hin. apply IH2 in Hin as [->|Hin]; [rewrite beq_bytes_refl in E; discriminate|exact (Hni Hin)].
      * intros x. cbn [In]. rewrite IH2. fold (mkeys r). intuition.
Qed.

Lemma mget_mdel m k k' : NoDup (mkeys m) -> mget (mdel m k) k' = if beq_bytes k' k then None else mget m k'.
Proof.
  induction m as [|[k0 e0] r IH]; cbn [mdel mget mkeys map fst]; intros Hnd.
  - destruct (beq_bytes k' k); reflexivity.
  - inversion Hnd as [|? ? Hni Hnd']; subst. destruct (beq_bytes k k0) eqn:E.
    + apply beq_bytes_eq in E. subst k0. destruct (beq_bytes k' k) eqn:E2; [|reflexivity].
      apply beq_bytes_eq in E2. subst k'. apply mget_none_notin. exact Hni.
    + cbn [mget]. destruct (beq_bytes k' k0) eqn:E2.
      * destruct (beq_bytes k' k) eqn:E3; [|reflexivity]. apply beq_bytes_eq in E2, E3. subst.
        rewrite beq_bytes_refl in E. discriminate.
      * apply IH. exact Hnd'.
Qed.
Lemma mkeys_mdel m k : NoDup (mkeys m) -> NoDup (mkeys (mdel m k)) /\ (forall x, In x (mkeys (mdel m k)) -> In x (mkeys m)).
Proof.
  induction m as [|[k0 e0] r IH]; cbn [mdel mkeys map fst]; intros Hnd; [split; [constructor|intros x []]|].
  inversion Hnd as [|? ? Hni Hnd']; subst. destruct (beq_bytes k k0).
  - split; [exact Hnd'|]. intros x H. right. exact H.
  - cbn [map fst]. destruct (IH Hnd') as [IH1 IH2]. split.
    + constructor; [|exact IH1]. intros Hin. apply Hni. apply IH2. exact Hin.
    + intros x [->|H]; [left; reflexivity|right; apply IH2; exact H].
Qed.

Lemma mvals_mset m k e k' : mvals (mset m k e) k' = if beq_bytes k' k then me_vals e else mvals m k'.
Proof. unfold mvals. rewrite mget_mset. destruct (beq_bytes k' k); reflexivity. Qed.
Lemma mvals_mdel m k k' : NoDup (mkeys m) -> mvals (mdel m k) k' = if beq_bytes k' k then [] else mvals m k'.
Proof. intros H. unfold mvals. rewrite (mget_mdel _ _ _ H). destruct (beq_bytes k' k); reflexivity. Qed.

Lemma mvals_add_entry m k v t k' :
  mvals (add_entry m k v t) k' = if beq_bytes k' k then append_uniq (mvals m k) v else mvals m k'.
Proof. unfold add_entry. rewrite mvals_mset. reflexivity. Qed.
Lemma mkeys_add_entry m k v t : NoDup (mkeys m) -> NoDup (mkeys (add_entry m k v t)).
Proof. intros H. apply (mkeys_mset m k _ H). Qed.

(* ---- the invariant ---- *)
Record Agree (s : mdns) : Prop := mkAgree {
  ag_nk : NoDup (mkeys (md_names s));
  ag_ak : NoDup (mkeys (md_addrs s));
  (* an address listed under a name key has a spelling of that name listed under it *)
  ag_fwd : forall k a, In a (mvals (md_names s) k) -> exists n, In n (mvals (md_addrs s) a) /\ name_key n = k;
  (* a name listed under an address has that address listed under its key *)
  ag_bwd : forall a n, In n (mvals (md_addrs s) a) -> In a (mvals (md_names s) (name_key n)) }.

Lemma agree0 : Agree mdns0.
Proof. constructor; cbn; try constructor; intros ? ? []. Qed.

Lemma beq_bytes_true_eq a b : beq_bytes a b = true -> a = b.
Proof. apply beq_bytes_eq. Qed.

(* adding one (address, name) pair to both views *)
Lemma agree_add s key addr nm t1 t2 clk :
  Agree s -> name_key nm = key ->
  Agree (mkMdns (add_entry (md_names s) key addr t2) (add_entry (md_addrs s) addr nm t1) clk).
Proof.
  intros [Hnk Hak Hf Hb] Hkey. constructor; cbn [md_names md_addrs].
  - apply mkeys_add_entry. exact Hnk.
  - apply mkeys_add_entry. exact Hak.
  - intros k a. rewrite mvals_add_entry. destruct (beq_bytes k key) eqn:E.
    + apply beq_bytes_eq in E. subst k. rewrite in_append_uniq. intros [->|Hin].
      * exists nm. split; [|exact Hkey]. rewrite mvals_add_entry, beq_bytes_refl. apply in_append_uniq. left. reflexivity.
      * destruct (Hf _ _ Hin) as (n & Hn & Hk). exists n. split; [|exact Hk].
        rewrite mvals_add_entry. destruct (beq_bytes a addr) eqn:E2; [|exact Hn].
        apply beq_bytes_eq in E2. subst a. apply in_append_uniq. right. exact Hn.
    + intros Hin. destruct (Hf _ _ Hin) as (n & Hn & Hk). exists n. split; [|exact Hk].
      rewrite mvals_add_entry. destruct (beq_bytes a addr) eqn:E2; [|exact Hn].
      apply beq_bytes_eq in E2. subst a. apply in_append_uniq. right. exact Hn.
  - intros a n. rewrite mvals_add_entry. destruct (beq_bytes a addr) eqn:E.
    + apply beq_bytes_eq in E. subst a. rewrite in_append_uniq. intros [->|Hin].
      * rewrite Hkey, mvals_add_entry, beq_bytes_refl. apply in_append_uniq. left. reflexivity.
      * pose proof (Hb _ _ Hin) as H. rewrite mvals_add_entry.
        destruct (beq_bytes (name_key n) key) eqn:E2; [|exact H].
        apply beq_bytes_eq in E2. rewrite E2 in H. apply in_append_uniq. right. exact H.
    + intros Hin. pose proof (Hb _ _ Hin) as H. rewrite mvals_add_entry.
      destruct (beq_bytes (name_key n) key) eqn:E2; [|exact H].
      apply beq_bytes_eq in E2. rewrite E2 in H. apply in_append_uniq. right. exact H.
Qed.

(* ---- eviction ---- *)
Definition strip_step (k : bytes) (am : mmap) (a : bytes) : mmap :=
  match mget am a with
  | None => am
  | Some e =>
    let vs := filter (fun v => negb (beq_bytes (name_key v) k)) (me_vals e) in
    match vs with [] => mdel am a | _ => mset am a (mkME (me_stamp e) vs) end
  end.

Lemma strip_step_spec k am a : NoDup (mkeys am) ->
  NoDup (mkeys (strip_step k am a)) /\
  forall a', mvals (strip_step k am a) a' =
             if beq_bytes a' a then filter (fun v => negb (beq_bytes (name_key v) k)) (mvals am a') else mvals am a'.
Proof.
  intros Hnd. unfold strip_step. destruct (mget am a) as [e|] eqn:Eg.
  - destruct (filter (fun v => negb (beq_bytes (name_key v) k)) (me_vals e)) as [|v vs] eqn:Ef.
    + split; [apply (mkeys_mdel am a Hnd)|]. intros a'. rewrite (mvals_mdel _ _ _ Hnd).
      destruct (beq_bytes a' a) eqn:E; [|reflexivity]. apply beq_bytes_eq in E. subst a'.
      unfold mvals. rewrite Eg, Ef. reflexivity.
    + split; [apply (mkeys_mset am a _ Hnd)|]. intros a'. rewrite mvals_mset. cbn [me_vals].
      destruct (beq_bytes a' a) eqn:E; [|reflexivity]. apply beq_bytes_eq in E. subst a'.
      unfold mvals. rewrite Eg, Ef. reflexivity.
  - split; [exact Hnd|]. intros a'. destruct (beq_bytes a' a) eqn:E; [|reflexivity].
    apply beq_bytes_eq in E. subst a'. unfold mvals. rewrite Eg. reflexivity.
Qed.

Lemma filter_idem {A} (f : A -> bool) l : filter f (filter f l) = filter f l.
Proof. induction l as [|x l IH]; [reflexivity|]. cbn [filter]. destruct (f x) eqn:E; cbn [filter]; rewrite ?E, IH; reflexivity. Qed.

Lemma strip_fold_spec k L : forall am, NoDup (mkeys am) ->
  NoDup (mkeys (fold_left (strip_step k) L am)) /\
  forall a', mvals (fold_left (strip_step k) L am) a' =
             if existsb (beq_bytes a') L then filter (fun v => negb (beq_bytes (name_key v) k)) (mvals am a') else mvals am a'.
Proof.
  induction L as [|a L IH]; intros am Hnd; cbn [fold_left existsb]; [split; [exact Hnd|reflexivity]|].
  destruct (strip_step_spec k am a Hnd) as [Hnd1 Hv1]. destruct (IH _ Hnd1) as [Hnd2 Hv2].
  split; [exact Hnd2|]. intros a'. rewrite Hv2, Hv1.
  destruct (beq_bytes a' a), (existsb (beq_bytes a') L); cbn [orb]; rewrite ?filter_idem; reflexivity.
Qed.

Lemma remove_oldest_unfold s :
  remove_oldest s =
  match oldest (md_names s) None with
  | None => s
  | Some (k, _) => mkMdns (mdel (md_names s) k) (fold_left (strip_step k) (mvals (md_names s) k) (md_addrs s)) (md_clock s)
  end.
Proof. reflexivity. Qed.

Lemma agree_remove_oldest s : Agree s -> Agree (remove_oldest s).
Proof.
  intros [Hnk Hak Hf Hb]. rewrite remove_oldest_unfold. destruct (oldest (md_names s) None) as [[k t]|]; [|constructor; assumption].
  destruct (strip_fold_spec k (mvals (md_names s) k) _ Hak) as [Hak' Hv].
  constructor; cbn [md_names md_addrs].
  - apply (mkeys_mdel _ k Hnk).
  - exact Hak'.
  - intros k' a. rewrite (mvals_mdel _ _ _ Hnk). destruct (beq_bytes k' k) eqn:E; [intros []|]. intros Hin.
    destruct (Hf _ _ Hin) as (n & Hn & Hk). exists n. split; [|exact Hk]. rewrite Hv.
    destruct (existsb (beq_bytes a) (mvals (md_names s) k)); [|exact Hn].
    apply filter_In. split; [exact Hn|]. rewrite Hk, E. reflexivity.
  - intros a n. rewrite Hv. destruct (existsb (beq_bytes a) (mvals (md_names s) k)) eqn:Ex.
    + intros Hin. apply filter_In in Hin as [Hin Hne]. rewrite (mvals_mdel _ _ _ Hnk).
      destruct (beq_bytes (name_key n) k); [discriminate|]. apply Hb. exact Hin.
    + intros Hin. pose proof (Hb _ _ Hin) as H. rewrite (mvals_mdel _ _ _ Hnk).
      destruct (beq_bytes (name_key n) k) eqn:E; [|exact H].
      apply beq_bytes_eq in E. rewrite E in H.
      assert (existsb (beq_bytes a) (mvals (md_names s) k) = true).
      { apply existsb_exists. exists a. split; [exact H|apply beq_bytes_refl]. }
      congruence.
Qed.

Lemma agree_evict fuel cap : forall s, Agree s -> Agree (evict fuel cap s).
Proof.
  induction fuel as [|f IH]; intros s H; cbn [evict]; [exact H|].
  destruct (Nat.ltb cap (length (md_names s))); [apply IH, agree_remove_oldest, H|exact H].
Qed.

Lemma abs_name_fix x : x <> [] -> last x 0 = 46 -> abs_name x = x.
Proof. intros Hx Hl. destruct x as [|c r]; [contradiction|]. unfold abs_name. rewrite Hl. reflexivity. Qed.
Lemma abs_name_shape b : abs_name b <> [] /\ last (abs_name b) 0 = 46.
Proof.
  destruct b as [|c r]; [split; [discriminate|reflexivity]|]. unfold abs_name.
  destruct (last (c :: r) 0 =? 46) eqn:E.
  - split; [discriminate|lia].
  - split; [destruct r; discriminate|apply last_last].
Qed.
Lemma abs_name_idem b : abs_name (abs_name b) = abs_name b.
Proof. destruct (abs_name_shape b) as [H1 H2]. apply abs_name_fix; assumption. Qed.

Theorem agree_announce cap s addr name : Agree s -> Agree (announce cap s addr name).
Proof.
  intros H. unfold announce. destruct (negb (is_valid_name name)); [exact H|].
  apply agree_evict. apply agree_add; [exact H|]. unfold name_key. rewrite abs_name_idem. reflexivity.
Qed.

Theorem agree_announces cap ops : forall s, Agree s ->
  Agree (fold_left (fun s p => announce cap s (fst p) (snd p)) ops s).
Proof. induction ops as [|p ops IH]; intros s H; [exact H|]. apply IH, agree_announce, H. Qed.

(* ---- the boolean form evaluated on the implementation's tables ---- *)
Lemma mget_in m k e : NoDup (mkeys m) -> In (k, e) m -> mget m k = Some e.
Proof.
  induction m as [|[k0 e0] r IH]; cbn [mkeys map fst mget]; intros Hnd Hin; [destruct Hin|].
  inversion Hnd as [|? ? Hni Hnd']; subst. destruct Hin as [Heq|Hin].
  - injection Heq as -> ->. rewrite beq_bytes_refl. reflexivity.
  - destruct (beq_bytes k k0) eqn:E; [|apply IH; assumption].
    apply beq_bytes_eq in E. subst k0. exfalso. apply Hni. apply in_map_iff. exists (k, e). split; [reflexivity|exact Hin].
Qed.

Theorem agree_views s : Agree s -> views_agree s = true.
Proof.
  intros [Hnk Hak Hf Hb]. unfold views_agree. apply andb_true_intro. split.
  - apply forallb_forall. intros [k e] Hin. apply forallb_forall. intros a Ha.
    assert (Hm : In a (mvals (md_names s) k)) by (unfold mvals; rewrite (mget_in _ _ _ Hnk Hin); exact Ha).
    destruct (Hf _ _ Hm) as (n & Hn & Hk). apply existsb_exists. exists n. split; [exact Hn|].
    rewrite Hk. apply beq_bytes_refl.
  - apply forallb_forall. intros [a e] Hin. apply forallb_forall. intros n Hn.
    assert (Hm : In n (mvals (md_addrs s) a)) by (unfold mvals; rewrite (mget_in _ _ _ Hak Hin); exact Hn).
    apply existsb_exists. exists a. split; [apply Hb; exact Hm|apply beq_bytes_refl].
Qed.

Theorem views_agree_always cap ops :
  views_agree (fold_left (fun s p => announce cap s (fst p) (snd p)) ops mdns0) = true.
Proof. apply agree_views, agree_announces, agree0. Qed.
