(* Proofs/SlotsFacts.v -- stopping does not wait for a request slot (F25).  With the select (sel = true),
   in every reachable state in which the socket has been closed the read loop can end by steps of its own,
   whatever the handlers do; with the plain channel send there is a reachable state from which it never
   ends unless a handler gives a slot back. *)
From NX Require Import Bytes Slots.
From Coq Require Import ZifyBool.
Open Scope Z_scope.

(* closed implies cancelled in every reachable state (needed below; free slots stay within bounds until the stop) *)
Lemma sruns_closed_cancelled sel k : forall ls s s', (s_closed s = true -> s_cancelled s = true) ->
  sruns sel k s ls = Some s' -> (s_closed s' = true -> s_cancelled s' = true).
Proof.
  induction ls as [|l r IH]; intros s s' Hc H; cbn [sruns] in H; [injection H as <-; exact Hc|].
  destruct (sstep sel k s l) as [s1|] eqn:E; [|discriminate]. apply (IH s1 s'); [|exact H].
  unfold sstep in E. destruct l.
  - destruct (s_loop s); try discriminate. destruct (0 <? s_free s); [|discriminate]. injection E as <-. exact Hc.
  - destruct (s_loop s); try discriminate. destruct (s_closed s) eqn:Ec; [discriminate|]. injection E as <-. cbn [s_closed s_cancelled]. intros Hx. first [discriminate | (rewrite Ec in Hx; discriminate)].
  - destruct (s_free s <? k); [|discriminate]. injection E as <-. exact Hc.
  - injection E as <-. reflexivity.
  - destruct (s_cancelled s); [|discriminate]. injection E as <-. reflexivity.
  - destruct (s_loop s); try discriminate.
    + destruct (sel && s_cancelled s) eqn:Es; [|discriminate]. injection E as <-. cbn. intros _. reflexivity.
    + destruct (s_closed s) eqn:Ec; [|discriminate]. injection E as <-. cbn. intros _. apply Hc. reflexivity.
Qed.

(* THE STATEMENT (repaired code): once the socket is closed the loop ends within two steps of its own -- no
   handler has to give anything back *)
Theorem stop_does_not_wait k ls s :
  sruns true k (sinit0 k) ls = Some s -> s_closed s = true ->
  exists own, (own = [] \/ own = [SNotice] \/ own = [SAcquire; SNotice]) /\
    exists s', sruns true k s own = Some s' /\ s_loop s' = LStopped.
Proof.
  intros H Hcl.
  assert (Hcan : s_cancelled s = true).
  { apply (sruns_closed_cancelled true k ls (sinit0 k) s); [cbn; discriminate|exact H|exact Hcl]. }
  destruct (s_loop s) eqn:El.
  - exists [SNotice]. split; [right; left; reflexivity|]. cbn [sruns sstep]. rewrite El, Hcan. cbn [andb]. eexists. split; reflexivity.
  - exists [SNotice]. split; [right; left; reflexivity|]. cbn [sruns sstep]. rewrite El, Hcl. eexists. split; reflexivity.
  - exists []. split; [left; reflexivity|]. exists s. split; [reflexivity|exact El].
Qed.

(* the code before the repair: the state "every slot taken, socket closed, loop waiting for a slot" is
   reachable with one slot, and from it nothing but a handler giving its slot back lets the loop end *)
Definition stuck_state : sstate := mkSS LAcquiring 0 true true.
Example stuck_reachable : sruns false 1 (sinit0 1) [SAcquire; SDatagram; SCancel; SClose] = Some stuck_state.
Proof. reflexivity. Qed.

Definition no_handler_done (ls : list slabel) : Prop := ~ In SHandlerDone ls.

Theorem stop_waits_for_a_slot_refuted ls s :
  no_handler_done ls -> sruns false 1 stuck_state ls = Some s -> s = stuck_state.
Proof.
  revert s. induction ls as [|l r IH]; intros s Hn H; cbn [sruns] in H; [injection H as <-; reflexivity|].
  assert (Hr : no_handler_done r) by (intros Hin; apply Hn; right; exact Hin).
  destruct l; cbn in H; try discriminate.
  - exfalso. apply Hn. left. reflexivity.
  - apply IH; [exact Hr|exact H].
  - apply IH; [exact Hr|exact H].
Qed.

(* with the select the same state is left at once *)
Example unstuck_with_select : exists s', sruns true 1 stuck_state [SNotice] = Some s' /\ s_loop s' = LStopped.
Proof. eexists. split; reflexivity. Qed.
