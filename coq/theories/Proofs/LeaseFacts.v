(* Proofs/LeaseFacts.v -- C18 for DHCP lease files: the three lookup tables hold exactly
   the associations the lease entries of the file give (none lost, none invented), for
   the dnsmasq and the isc-dhcpd formats. *)
From NX Require Import Bytes Discovery ConfigFacts DiscoveryFacts.
From Coq Require Import ZifyBool.
Open Scope Z_scope.

(* ---- appendUniq keeps what was there and adds the new element ---- *)
Lemma in_firstn_skipn {A} (y : A) n l : In y (firstn n l) \/ In y (skipn n l) <-> In y l.
Proof. rewrite <- in_app_iff, firstn_skipn. reflexivity. Qed.

Lemma in_append_uniq y s x : In y (append_uniq s x) <-> y = x \/ In y s.
Proof.
  unfold append_uniq. set (pos := search_strings s x).
  destruct (Nat.ltb pos (length s) && beq_bytes (nth pos s []) x) eqn:E.
  - apply andb_prop in E as [E1 E2]. apply beq_bytes_eq in E2. apply Nat.ltb_lt in E1.
    split; [intros H; right; exact H|]. intros [->|H]; [|exact H]. rewrite <- E2. apply nth_In. exact E1.
  - rewrite in_app_iff. cbn [In]. rewrite <- (in_firstn_skipn y pos s). intuition congruence.
Qed.

(* ---- one lease entry ---- *)
Record lentry := mkLe { le_name : bytes; le_mac : bytes; le_ip : bytes; le_wip : bool; le_wmac : bool }.
Definition lease_add_e (t : lease_tbl) (e : lentry) : lease_tbl :=
  lease_add t (le_name e) (le_mac e) (le_ip e) (le_wip e) (le_wmac e).
Definition le_key (e : lentry) : bytes := abs_name (lower_ascii (le_name e)).

Lemma lease_add_addrs t e a n :
  In n (aget (lt_addrs (lease_add_e t e)) a) <->
  In n (aget (lt_addrs t) a) \/ (le_wip e = true /\ beq_bytes a (le_ip e) = true /\ n = le_name e).
Proof.
  unfold lease_add_e, lease_add. destruct (le_wip e), (le_wmac e); cbn [lt_addrs];
    try (rewrite aget_aupd; destruct (beq_bytes a (le_ip e)); [rewrite in_append_uniq|]); intuition congruence.
Qed.
Lemma lease_add_macs t e m n :
  In n (aget (lt_macs (lease_add_e t e)) m) <->
  In n (aget (lt_macs t) m) \/ (le_wmac e = true /\ beq_bytes m (le_mac e) = true /\ n = le_name e).
Proof.
  unfold lease_add_e, lease_add. destruct (le_wip e), (le_wmac e); cbn [lt_macs];
    try (rewrite aget_aupd; destruct (beq_bytes m (le_mac e)); [rewrite in_append_uniq|]); intuition congruence.
Qed.
Lemma lease_add_names t e k ip :
  In ip (aget (lt_names (lease_add_e t e)) k) <->
  In ip (aget (lt_names t) k) \/
  (le_wip e = true /\ (beq_bytes k (le_key e) = true \/ beq_bytes k (le_key e ++ local_s) = true) /\ ip = le_ip e).
Proof.
  unfold lease_add_e, lease_add, le_key. destruct (le_wip e), (le_wmac e); cbn [lt_names];
    try (rewrite !aget_aupd;
         destruct (beq_bytes k (abs_name (lower_ascii (le_name e)) ++ local_s)) eqn:E1;
         destruct (beq_bytes k (abs_name (lower_ascii (le_name e)))) eqn:E2;
         rewrite ?in_append_uniq); intuition congruence.
Qed.

(* ---- a whole list of entries ---- *)
Theorem lease_addrs_exact es : forall t a n,
  In n (aget (lt_addrs (fold_left lease_add_e es t)) a) <->
  In n (aget (lt_addrs t) a) \/ exists e, In e es /\ le_wip e = true /\ beq_bytes a (le_ip e) = true /\ n = le_name e.
Proof.
  induction es as [|e es IH]; intros t a n; cbn [fold_left].
  - split; [intros H; left; exact H|]. intros [H|(e & [] & _)]; exact H.
  - rewrite IH, lease_add_addrs. split.
    + intros [[H|H]|(e' & He & H)]; [left; exact H|right; exists e; split; [left; reflexivity|exact H]|].
      right. exists e'. split; [right; exact He|exact H].
    + intros [H|(e' & [<-|He] & H)]; [left; left; exact H|left; right; exact H|].
      right. exists e'. split; [exact He|exact H].
Qed.
Theorem lease_macs_exact es : forall t m n,
  In n (aget (lt_macs (fold_left lease_add_e es t)) m) <->
  In n (aget (lt_macs t) m) \/ exists e, In e es /\ le_wmac e = true /\ beq_bytes m (le_mac e) = true /\ n = le_name e.
Proof.
  induction es as [|e es IH]; intros t m n; cbn [fold_left].
  - split; [intros H; left; exact H|]. intros [H|(e & [] & _)]; exact H.
  - rewrite IH, lease_add_macs. split.
    + intros [[H|H]|(e' & He & H)]; [left; exact H|right; exists e; split; [left; reflexivity|exact H]|].
      right. exists e'. split; [right; exact He|exact H].
    + intros [H|(e' & [<-|He] & H)]; [left; left; exact H|left; right; exact H|].
      right. exists e'. split; [exact He|exact H].
Qed.
Theorem lease_names_exact es : forall t k ip,
  In ip (aget (lt_names (fold_left lease_add_e es t)) k) <->
  In ip (aget (lt_names t) k) \/
  exists e, In e es /\ le_wip e = true /\
            (beq_bytes k (le_key e) = true \/ beq_bytes k (le_key e ++ local_s) = true) /\ ip = le_ip e.
Proof.
  induction es as [|e es IH]; intros t k ip; cbn [fold_left].
  - split; [intros H; left; exact H|]. intros [H|(e & [] & _)]; exact H.
  - rewrite IH, lease_add_names. split.
    + intros [[H|H]|(e' & He & H)]; [left; exact H|right; exists e; split; [left; reflexivity|exact H]|].
      right. exists e'. split; [right; exact He|exact H].
    + intros [H|(e' & [<-|He] & H)]; [left; left; exact H|left; right; exact H|].
      right. exists e'. split; [exact He|exact H].
Qed.

(* ---- dnsmasq.leases: one entry per line "expiry mac ip host clientid" with host <> "*" ---- *)
Definition dm_line (line : bytes) : list lentry :=
  match fields line with
  | _ :: mac :: ip :: host :: _ :: _ =>
    if beq_bytes host [42] then [] else [mkLe (abs_name host) (lower mac) (lower ip) true true]
  | _ => []
  end.
Definition dm_entries (file : bytes) : list lentry := flat_map dm_line (split_lines file).

Lemma dnsmasq_fold lines : forall t,
  fold_left dnsmasq_add_line lines t = fold_left lease_add_e (flat_map dm_line lines) t.
Proof.
  induction lines as [|l ls IH]; intros t; cbn [fold_left flat_map]; [reflexivity|].
  rewrite fold_left_app, IH. f_equal. unfold dnsmasq_add_line, dm_line.
  destruct (fields l) as [|f0 [|mac [|ip [|host [|f4 r]]]]]; try reflexivity.
  destruct (beq_bytes host [42]); reflexivity.
Qed.
Theorem read_dnsmasq_entries file :
  read_dnsmasq file = fold_left lease_add_e (dm_entries file) (mkLease [] [] []).
Proof. unfold read_dnsmasq, dm_entries. apply dnsmasq_fold. Qed.

(* ---- dhcpd.leases: the entries are what the block reader hands over at each "}" ---- *)
Definition dh_step (s : dhcpd_st) (line : bytes) : list lentry :=
  match line with
  | 125 :: _ =>
    match ds_name s with
    | [] => []
    | n => [mkLe (abs_name n) (ds_mac s) (ds_ip s) (negb (beq_bytes (ds_ip s) [])) (negb (beq_bytes (ds_mac s) []))]
    end
  | _ => []
  end.
Fixpoint dh_entries (lines : list bytes) (s : dhcpd_st) : list lentry :=
  match lines with
  | [] => []
  | l :: r => dh_step s l ++ dh_entries r (dhcpd_add_line s l)
  end.

Lemma dhcpd_step_tbl s l :
  ds_tbl (dhcpd_add_line s l) = fold_left lease_add_e (dh_step s l) (ds_tbl s).
Proof.
  unfold dhcpd_add_line, dh_step. destruct l as [|c r]; [cbn; destruct (fields []) as [|k [|v rest]]; reflexivity|].
  destruct (c =? 125) eqn:E.
  - assert (c = 125) by lia. subst c. destruct (ds_name s); reflexivity.
  - assert (Hc : c <> 125) by lia.
    replace (match c with 125 => _ | _ => _ end) with
      (match fields (c :: r) with
       | k :: v :: rest =>
         if beq_bytes k kw_lease then mkDst (ds_tbl s) (ds_name s) (lower v) (ds_mac s)
         else if beq_bytes k kw_hardware then
           match rest with
           | m :: _ => mkDst (ds_tbl s) (ds_name s) (ds_ip s) (lower (trim_right_set (fun c => c =? 59) m))
           | [] => s
           end
         else if beq_bytes k kw_hostname then
           mkDst (ds_tbl s) (trim_set (fun c => (c =? 34) || (c =? 59)) v) (ds_ip s) (ds_mac s)
         else s
       | _ => s
       end).
    2:{ destruct c as [|p|p]; try reflexivity. do 7 (destruct p as [p|p|]; try reflexivity). contradiction. }
    replace (match c with 125 => _ | _ => [] end) with (@nil lentry).
    2:{ destruct c as [|p|p]; try reflexivity. do 7 (destruct p as [p|p|]; try reflexivity). contradiction. }
    cbn [fold_left].
    destruct (fields (c :: r)) as [|k [|v rest]]; try reflexivity.
    destruct (beq_bytes k kw_lease); [reflexivity|].
    destruct (beq_bytes k kw_hardware); [destruct rest; reflexivity|].
    destruct (beq_bytes k kw_hostname); reflexivity.
Qed.

Lemma dhcpd_fold lines : forall s,
  ds_tbl (fold_left dhcpd_add_line lines s) = fold_left lease_add_e (dh_entries lines s) (ds_tbl s).
Proof.
  induction lines as [|l ls IH]; intros s; cbn [fold_left dh_entries]; [reflexivity|].
  rewrite IH, fold_left_app, dhcpd_step_tbl. reflexivity.
Qed.
Theorem read_dhcpd_entries file :
  read_dhcpd file =
  fold_left lease_add_e (dh_entries (split_lines file) (mkDst (mkLease [] [] []) [] [] [])) (mkLease [] [] []).
Proof. unfold read_dhcpd. rewrite dhcpd_fold. reflexivity. Qed.

(* ---- the lookups on a table built from a list of entries (empty start) ---- *)
Section Lookups.
  Variable es : list lentry.
  Let t := fold_left lease_add_e es (mkLease [] [] []).

  Theorem lookup_addr_exact a n :
    In n (lease_lookup_addr t a) <->
    exists e, In e es /\ le_wip e = true /\ beq_bytes (lower a) (le_ip e) = true /\ n = le_name e.
  Proof.
    unfold lease_lookup_addr, t. rewrite lease_addrs_exact. cbn [lt_addrs aget].
    split; [intros [[]|H]; exact H|intros H; right; exact H].
  Qed.
  Theorem lookup_mac_exact m n :
    In n (lease_lookup_mac t m) <->
    exists e, In e es /\ le_wmac e = true /\ beq_bytes (lower m) (le_mac e) = true /\ n = le_name e.
  Proof.
    unfold lease_lookup_mac, t. rewrite lease_macs_exact. cbn [lt_macs aget].
    split; [intros [[]|H]; exact H|intros H; right; exact H].
  Qed.
  (* by name, case-insensitively, with the .local alias *)
  Theorem lookup_host_exact name ip :
    In ip (lease_lookup_host t name) <->
    exists e, In e es /\ le_wip e = true /\
      (beq_bytes (abs_name (lower_ascii (lower name))) (le_key e) = true \/
       beq_bytes (abs_name (lower_ascii (lower name))) (le_key e ++ local_s) = true) /\ ip = le_ip e.
  Proof.
    unfold lease_lookup_host, t. rewrite lease_names_exact. cbn [lt_names aget].
    split; [intros [[]|H]; exact H|intros H; right; exact H].
  Qed.
End Lookups.
