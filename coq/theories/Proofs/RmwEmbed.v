(* Proofs/RmwEmbed.v -- from a method body taken on its own (a frame) to the entry-point path it is part of.
   The path is the frame with foreign blocks inserted: the events of callees, each of which gives back every
   lock it takes.  Claim: what a block finds in force on entry is still in force when it ends, and it leaves the
   held set as it found it -- so a read that is in force at a write of the frame is in force at that write in
   the path too. *)
From NX Require Import Bytes Locks Rmw LockFacts RmwFacts.
From Coq Require Import ZifyBool.
Open Scope Z_scope.

Definition is_access (e : ev) : Prop := match e with Acq _ _ | Rel _ => False | _ => True end.

(* events of a callee that takes and gives back its own locks *)
Inductive block : path -> Prop :=
| b_nil : block []
| b_acc e q : is_access e -> block q -> block (e :: q)
| b_lock l m q1 q2 : block q1 -> block q2 -> block (Acq l m :: q1 ++ Rel l :: q2).

Lemma cur_reads_go_app a : forall b h cur, cur_reads_go (a ++ b) h cur = cur_reads_go b (held a h) (cur_reads_go a h cur).
Proof.
  induction a as [|e a IH]; intros b h cur; [reflexivity|].
  destruct e; cbn [app cur_reads_go held]; apply IH.
Qed.

Lemma wb_app_l a : forall b h, well_bracketed (a ++ b) h = true -> well_bracketed a h = true.
Proof. intros b h. apply wb_prefix. Qed.

Lemma in_keys l m (h : list (Z * mode)) : In (l, m) h -> In l (keys h).
Proof. intros H. unfold keys. apply in_map_iff. exists (l, m). split; [reflexivity|exact H]. Qed.

Lemma not_uses l hr (h : list (Z * mode)) : incl hr h -> ~ In l (keys h) -> uses l hr = false.
Proof.
  intros Hi Hn. unfold uses. destruct (existsb (fun '(l', _) => l =? l') hr) eqn:E; [|reflexivity].
  exfalso. apply existsb_exists in E as ([l' m'] & Hin & El). apply Z.eqb_eq in El. subst l'.
  apply Hn. apply (in_keys l m'). apply Hi. exact Hin.
Qed.

Lemma existsb_keys l (h : list (Z * mode)) : existsb (fun '(l', _) => l =? l') h = false -> ~ In l (keys h).
Proof.
  intros E Hin. unfold keys in Hin. apply in_map_iff in Hin as ([l' m'] & El & Hin). cbn in El. subst l'.
  assert (existsb (fun '(l'0, _) => l =? l'0) h = true); [|congruence].
  apply existsb_exists. exists (l, m'). split; [exact Hin|apply Z.eqb_refl].
Qed.

(* a block keeps the reads that were in force under locks still held, and restores the held set *)
Lemma block_keeps q : block q -> forall h cur e,
  well_bracketed q h = true -> In e cur -> incl (snd e) h ->
  In e (cur_reads_go q h cur) /\ held q h = h.
Proof.
  induction 1 as [|ev q Ha Hb IH|l m q1 q2 H1 IH1 H2 IH2]; intros h cur e Hw Hin Hi.
  - split; [exact Hin|reflexivity].
  - destruct ev; try contradiction; cbn [well_bracketed cur_reads_go held] in *.
    + apply IH; [exact Hw|right; exact Hin|exact Hi].
    + apply IH; assumption.
    + apply IH; assumption.
    + apply IH; assumption.
  - cbn [well_bracketed] in Hw. apply andb_true_iff in Hw as [Hfresh Hw]. apply negb_true_iff in Hfresh.
    pose proof (existsb_keys _ _ Hfresh) as Hnl.
    cbn [cur_reads_go held]. rewrite cur_reads_go_app, held_app.
    assert (Hi' : incl (snd e) ((l, m) :: h)) by (intros a Ha; right; apply Hi; exact Ha).
    destruct (IH1 ((l, m) :: h) cur e (wb_app_l _ _ _ Hw) Hin Hi') as [Hin1 Hh1].
    rewrite Hh1. cbn [cur_reads_go held remove_lock]. rewrite Z.eqb_refl.
    assert (Hw2 : well_bracketed q2 h = true).
    { pose proof (wb_app _ _ _ Hw) as Hs. rewrite Hh1 in Hs. cbn [well_bracketed remove_lock] in Hs. rewrite Z.eqb_refl in Hs.
      apply andb_true_iff in Hs as [_ Hs]. exact Hs. }
    apply IH2; [exact Hw2| |exact Hi].
    unfold drop_lock. apply filter_In. split; [exact Hin1|]. destruct e as [x hr]. cbn [snd] in *.
    rewrite (not_uses l hr h Hi Hnl). reflexivity.
Qed.

(* the path: the frame's events in order, with blocks in between *)
Inductive embeds : path -> path -> Prop :=
| em_end q : block q -> embeds [] q
| em_ev e fr p : embeds fr p -> embeds (e :: fr) (e :: p)
| em_blk q fr p : block q -> embeds fr p -> embeds fr (q ++ p).

Definition covered (h : list (Z * mode)) (cur curp : list pread) : Prop :=
  forall e, In e cur -> In e curp /\ incl (snd e) h.

Lemma wb_step e p h : well_bracketed (e :: p) h = true -> well_bracketed p (held [e] h) = true.
Proof. intros H. apply (wb_app [e] p h H). Qed.

Lemma nodup_step e p h : well_bracketed (e :: p) h = true -> NoDup (keys h) -> NoDup (keys (held [e] h)).
Proof. intros H Hn. apply wb_nodup; [|exact Hn]. apply (wb_prefix [e] p h H). Qed.

(* one event executed by frame and path alike keeps the frame's in-force reads covered *)
Lemma covered_step e h cur curp : NoDup (keys h) -> covered h cur curp ->
  covered (held [e] h) (cur_reads_go [e] h cur) (cur_reads_go [e] h curp).
Proof.
  intros Hn Hc. destruct e as [l m|l|y|y|y|y]; cbn [held cur_reads_go]; try exact Hc.
  - intros e He. destruct (Hc e He) as [A B]. split; [exact A|]. intros a Ha. right. apply B. exact Ha.
  - intros [x hr] He. unfold drop_lock in He. apply filter_In in He as [He Hu]. apply negb_true_iff in Hu.
    destruct (Hc _ He) as [A B]. cbn [snd] in *. split.
    + unfold drop_lock. apply filter_In. split; [exact A|]. rewrite Hu. reflexivity.
    + intros [l' m'] Ha. apply (proj2 (proj2 (proj2 (keys_remove l h Hn)) l' m' (uses_false_neq _ _ _ _ Hu Ha))). apply B. exact Ha.
  - intros e [<-|He]; [split; [left; reflexivity|apply incl_refl]|].
    destruct (Hc e He) as [A B]. split; [right; exact A|exact B].
Qed.

Lemma cur_reads_go_cons e p h cur : cur_reads_go (e :: p) h cur = cur_reads_go p (held [e] h) (cur_reads_go [e] h cur).
Proof. apply (cur_reads_go_app [e] p h cur). Qed.

(* THE STATEMENT: a read in force at a write of the frame is in force at that write in the path *)
Theorem embed_in_force fr p : embeds fr p -> forall h cur curp,
  well_bracketed p h = true -> NoDup (keys h) -> covered h cur curp ->
  forall pre x post, fr = pre ++ Wr x :: post ->
  exists prep postp, p = prep ++ Wr x :: postp /\
    forall e, In e (cur_reads_go pre h cur) -> In e (cur_reads_go prep h curp).
Proof.
  induction 1 as [q Hb|e fr p He IH|q fr p Hb He IH]; intros h cur curp Hw Hn Hc pre x post Hfr.
  - destruct pre; discriminate.
  - destruct pre as [|e' pre'].
    + cbn [app] in Hfr. injection Hfr as -> _. exists [], p. split; [reflexivity|]. intros e0 H0. apply (Hc e0 H0).
    + cbn [app] in Hfr. injection Hfr as <- Hfr.
      destruct (IH (held [e] h) (cur_reads_go [e] h cur) (cur_reads_go [e] h curp) (wb_step _ _ _ Hw) (nodup_step _ _ _ Hw Hn)
                   (covered_step e h cur curp Hn Hc) pre' x post Hfr) as (prep & postp & -> & Hin).
      exists (e :: prep), postp. split; [reflexivity|]. intros e0 H0.
      rewrite cur_reads_go_cons in H0. rewrite cur_reads_go_cons. apply Hin. exact H0.
  - assert (Hwq : well_bracketed q h = true) by (apply (wb_prefix q p h Hw)).
    assert (Hkeep : covered h cur (cur_reads_go q h curp) /\ held q h = h).
    { split.
      - intros e He0. destruct (Hc e He0) as [A B]. split; [|exact B]. apply (block_keeps q Hb h curp e Hwq A B).
      - destruct cur as [|e0 cur'].
        + (* no read in force: the held set is restored all the same *)
          clear -Hb Hwq. revert h Hwq. induction Hb as [|ev q Ha Hb IH|l m q1 q2 H1 IH1 H2 IH2]; intros h Hw; [reflexivity| |].
          * destruct ev; try contradiction; cbn [well_bracketed held] in *; apply IH; exact Hw.
          * cbn [well_bracketed] in Hw. apply andb_true_iff in Hw as [_ Hw]. cbn [held]. rewrite held_app.
            rewrite (IH1 _ (wb_prefix _ _ _ Hw)). cbn [held remove_lock]. rewrite Z.eqb_refl.
            apply IH2. pose proof (wb_app _ _ _ Hw) as Hs. rewrite (IH1 _ (wb_prefix _ _ _ Hw)) in Hs.
            cbn [well_bracketed remove_lock] in Hs. rewrite Z.eqb_refl in Hs. apply andb_true_iff in Hs as [_ Hs]. exact Hs.
        + destruct (Hc e0 (or_introl eq_refl)) as [A B]. apply (block_keeps q Hb h curp e0 Hwq A B). }
    destruct Hkeep as [Hc' Hh].
    assert (Hwp : well_bracketed p h = true) by (pose proof (wb_app q p h Hw) as Hs; rewrite Hh in Hs; exact Hs).
    destruct (IH h cur (cur_reads_go q h curp) Hwp Hn Hc' pre x post Hfr) as (prep & postp & -> & Hin).
    exists (q ++ prep), postp. split; [rewrite app_assoc; reflexivity|]. intros e0 H0.
    rewrite cur_reads_go_app, Hh. apply Hin. exact H0.
Qed.

(* with recheck on the frame: the write of a location read before happens, in the path, while a read of it is in force *)
Corollary frame_rule_transfers fr p : embeds fr p -> recheck fr = true -> well_bracketed p [] = true ->
  forall pre x post, fr = pre ++ Wr x :: post -> In x (reads_of pre) ->
  exists prep postp, p = prep ++ Wr x :: postp /\ in_force x (cur_reads prep) = true.
Proof.
  intros He Hr Hw pre x post Hfr Hx.
  pose proof (recheck_write_in_force fr pre x post Hr Hfr Hx) as Hf.
  destruct (embed_in_force fr p He [] [] [] Hw (NoDup_nil _) (fun e (H : In e []) => match H with end) pre x post Hfr) as (prep & postp & Hp & Hin).
  exists prep, postp. split; [exact Hp|].
  unfold in_force in *. apply existsb_exists in Hf as ([y hr] & Hy & Exy). apply existsb_exists. exists (y, hr). split; [|exact Exy].
  apply Hin. exact Hy.
Qed.

Example embed_demo :
  embeds [Acq 1 MW; Rd 7; Wr 7; Rel 1] [Acq 1 MW; Rd 7; Acq 2 MR; Rd 9; Rel 2; Wr 7; Rel 1].
Proof.
  apply em_ev. apply em_ev. apply (em_blk [Acq 2 MR; Rd 9; Rel 2]).
  - apply (b_lock 2 MR [Rd 9] []); [apply b_acc; [exact I|apply b_nil]|apply b_nil].
  - apply em_ev. apply em_ev. apply em_end. apply b_nil.
Qed.
