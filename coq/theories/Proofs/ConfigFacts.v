(* Proofs/ConfigFacts.v -- forwarder and profile selection. *)
From NX Require Import Bytes Forwarder Profile.
From Coq Require Import ZifyBool.
Open Scope Z_scope.

(* ---------- forwarders ---------- *)
Lemma fwd_get_first fs q u :
  fwd_get fs q = Some u <->
  exists pre f post, fs = pre ++ f :: post /\ f_up f = u /\ fwd_match f q = true /\
                     forallb (fun g => negb (fwd_match g q)) pre = true.
Proof.
  split.
  - revert u; induction fs as [|f r IH]; intros u H; cbn [fwd_get] in H; [discriminate|].
    destruct (fwd_match f q) eqn:E.
    + inversion H; subst. exists [], f, r. repeat split; assumption.
    + destruct (IH u H) as (pre & g & post & -> & Hu & Hm & Hpre).
      exists (f :: pre), g, post. repeat split; try assumption.
      cbn [forallb]. rewrite E. exact Hpre.
  - intros (pre & f & post & -> & Hu & Hm & Hpre).
    induction pre as [|g pre IH]; cbn [app fwd_get].
    + rewrite Hm, Hu. reflexivity.
    + cbn [forallb] in Hpre. apply andb_true_iff in Hpre as [Hg Hpre].
      apply negb_true_iff in Hg. rewrite Hg. apply IH. exact Hpre.
Qed.

Lemma fwd_get_none fs q : fwd_get fs q = None <-> forallb (fun g => negb (fwd_match g q)) fs = true.
Proof.
  induction fs as [|f r IH]; cbn [fwd_get forallb]; [tauto|].
  destruct (fwd_match f q); cbn [negb andb]; [split; discriminate | exact IH].
Qed.

(* the default is a catch-all: exactly one upstream always receives the query *)
Lemma fwd_resolve_one fs q : exists u, fwd_resolve fs q = [u].
Proof.
  unfold fwd_resolve. destruct (fwd_get (with_default fs) q) as [u|] eqn:E; [eauto|].
  apply fwd_get_none in E. unfold with_default in E. rewrite forallb_app in E.
  apply andb_true_iff in E as [_ E]. cbn in E. discriminate.
Qed.

Lemma fwd_get_app_miss pre fs q :
  forallb (fun g => negb (fwd_match g q)) pre = true -> fwd_get (pre ++ fs) q = fwd_get fs q.
Proof.
  induction pre as [|g pre IH]; intros H; cbn [app fwd_get]; [reflexivity|].
  cbn [forallb] in H. apply andb_true_iff in H as [Hg H]. apply negb_true_iff in Hg. rewrite Hg. apply IH; exact H.
Qed.

(* it is the first matching forwarder, else the default *)
Lemma fwd_resolve_spec fs q :
  fwd_resolve fs q =
    match find (fun f => fwd_match f q) fs with
    | Some f => [f_up f]
    | None => [default_up]
    end.
Proof.
  unfold fwd_resolve, with_default.
  induction fs as [|f r IH]; cbn [app fwd_get find]; [reflexivity|].
  destruct (fwd_match f q); [reflexivity | exact IH].
Qed.

(* matching is case-insensitive in both arguments *)
Lemma lower_byte_idem c : lower_byte (lower_byte c) = lower_byte c.
Proof. unfold lower_byte. destruct ((65 <=? c) && (c <=? 90)) eqn:E; [|rewrite E; reflexivity].
  destruct ((65 <=? c + 32) && (c + 32 <=? 90)) eqn:E2; [lia|reflexivity]. Qed.
Lemma lower_idem s : lower (lower s) = lower s.
Proof. unfold lower. rewrite map_map. apply map_ext. apply lower_byte_idem. Qed.

Lemma lower_nil_iff s : lower s = [] <-> s = [].
Proof. destruct s; cbn; split; intros H; try reflexivity; discriminate. Qed.

Lemma fwd_match_case f q q' : lower q = lower q' -> fwd_match f q = fwd_match f q'.
Proof. intros H. unfold fwd_match. destruct (f_domain f); [reflexivity|]. rewrite H. reflexivity. Qed.

Lemma fwd_match_case_dom d d' u u' q : lower d = lower d' ->
  fwd_match (mkFwd d u) q = fwd_match (mkFwd d' u') q.
Proof.
  intros H. unfold fwd_match; cbn [f_domain].
  destruct d as [|a d0], d' as [|a' d0']; try reflexivity; try (cbn in H; discriminate).
  rewrite H. reflexivity.
Qed.

Lemma beq_bytes_refl a : beq_bytes a a = true.
Proof. induction a as [|x a IH]; cbn; [reflexivity|]. rewrite Z.eqb_refl. exact IH. Qed.
Lemma beq_bytes_eq a b : beq_bytes a b = true <-> a = b.
Proof.
  revert b; induction a as [|x a IH]; intros [|y b]; cbn; split; intros H; try reflexivity; try discriminate.
  - apply andb_true_iff in H as [H1 H2]. apply Z.eqb_eq in H1. apply IH in H2. congruence.
  - inversion H; subst. rewrite Z.eqb_refl. apply IH. reflexivity.
Qed.

(* a name equal to the domain, in any letter case, matches *)
Lemma fwd_match_equal d u q : d <> [] -> lower q = lower d -> fwd_match (mkFwd d u) q = true.
Proof.
  intros Hd H. unfold fwd_match; cbn [f_domain]. destruct d as [|a d0]; [congruence|].
  rewrite H. rewrite beq_bytes_refl. reflexivity.
Qed.

(* has_suffix is the string-suffix relation *)
Lemma has_suffix_iff suf s : has_suffix suf s = true <-> exists pre, s = pre ++ suf.
Proof.
  unfold has_suffix. split.
  - intros H. apply andb_true_iff in H as [Hk Hb]. apply Nat.leb_le in Hk. apply beq_bytes_eq in Hb.
    exists (firstn (length s - length suf) s). rewrite <- Hb at 2. symmetry. apply firstn_skipn.
  - intros [pre ->]. apply andb_true_iff. split.
    + apply Nat.leb_le. rewrite app_length. lia.
    + rewrite app_length. replace (length pre + length suf - length suf)%nat with (length pre) by lia.
      rewrite skipn_app, skipn_all, Nat.sub_diag. cbn. apply beq_bytes_refl.
Qed.

(* a child of the domain on a label boundary, in any letter case, matches *)
Lemma fwd_match_child d u pre q : d <> [] -> lower q = pre ++ 46 :: lower d -> fwd_match (mkFwd d u) q = true.
Proof.
  intros Hd H. unfold fwd_match; cbn [f_domain]. destruct d as [|a d0]; [congruence|].
  apply orb_true_iff. right. unfold is_subdomain. apply has_suffix_iff. exists pre. exact H.
Qed.

(* and nothing else matches a conditioned forwarder *)
Lemma fwd_match_only d u q : d <> [] -> fwd_match (mkFwd d u) q = true ->
  lower q = lower d \/ exists pre, lower q = pre ++ 46 :: lower d.
Proof.
  intros Hd H. unfold fwd_match in H; cbn [f_domain] in H. destruct d as [|a d0]; [congruence|].
  apply orb_true_iff in H as [H|H]; [left; apply beq_bytes_eq; exact H|].
  right. unfold is_subdomain in H. apply has_suffix_iff in H. exact H.
Qed.

(* ---------- profiles ---------- *)
Lemma pget_go_spec ps c def :
  pget_go ps c def =
    match find (conditional_match c) ps with
    | Some p => pr_id p
    | None => fold_left (fun acc p => if is_default p && pmatch p c then pr_id p else acc) ps def
    end.
Proof.
  revert def; induction ps as [|p r IH]; intros def; cbn [pget_go find fold_left]; [reflexivity|].
  unfold conditional_match at 1.
  destruct (pmatch p c) eqn:Em, (is_default p) eqn:Ed; cbn [negb andb]; try reflexivity; apply IH.
Qed.

(* an unconditional entry matches every client *)
Lemma default_matches p c : is_default p = true -> pmatch p c = true.
Proof.
  unfold is_default, pmatch. destruct (pr_prefix p); [discriminate|].
  destruct (pr_mac p); [|discriminate]. destruct (pr_dest p); [|discriminate]. reflexivity.
Qed.

Lemma fold_default_eq ps c def :
  fold_left (fun acc p => if is_default p && pmatch p c then pr_id p else acc) ps def =
  fold_left (fun acc p => if is_default p then pr_id p else acc) ps def.
Proof.
  revert def; induction ps as [|p r IH]; intros def; cbn [fold_left]; [reflexivity|].
  destruct (is_default p) eqn:Ed; cbn [andb]; [rewrite (default_matches p c Ed)|]; apply IH.
Qed.

Theorem pget_correct ps c : pget ps c = pget_spec ps c.
Proof.
  unfold pget, pget_spec, last_default. rewrite pget_go_spec.
  destruct (find (conditional_match c) ps); [reflexivity|]. apply fold_default_eq.
Qed.

(* an unconditional entry never shadows a later conditional match *)
Theorem default_no_shadow pre p post c :
  conditional_match c p = true ->
  forallb (fun x => negb (conditional_match c x)) pre = true ->
  pget (pre ++ p :: post) c = pr_id p.
Proof.
  intros Hp Hpre. rewrite pget_correct. unfold pget_spec.
  assert (find (conditional_match c) (pre ++ p :: post) = Some p) as ->; [|reflexivity].
  induction pre as [|x pre IH]; cbn [app find]; [rewrite Hp; reflexivity|].
  cbn [forallb] in Hpre. apply andb_true_iff in Hpre as [Hx Hpre]. apply negb_true_iff in Hx.
  rewrite Hx. apply IH; exact Hpre.
Qed.

(* the URL (and cache context) determines the profile id and is never empty *)
Theorem url_of_inj a b : url_of a = url_of b -> a = b.
Proof. unfold url_of. apply app_inv_head. Qed.
Theorem url_of_nonempty a : url_of a <> [].
Proof. unfold url_of, url_prefix. cbn. discriminate. Qed.
