(* Proofs/RefreshFacts.v -- the lazily refreshed tables catch up with the file: once the file on
   disk stays the same, every lookup made one refresh interval after the last lookup that preceded
   the change (or later) works on the table parsed from that file -- provided the change is visible
   in the file's modification time or size, which is all the code looks at.  The complementary
   example: a change that keeps both is never picked up. *)
From NX Require Import Bytes Refresh.
From Coq Require Import ZifyBool.
Open Scope Z_scope.

Section Facts.
  Variable T : Type.
  Variable parse : bytes -> T.
  Notation rstate := (rstate T).
  Notation refresh := (refresh T parse).
  Notation run := (run T parse).
  Notation in_sync := (in_sync T parse).
  Notation remembered := (remembered T).

  Lemma stat_eqb_refl a : stat_eqb a a = true.
  Proof. unfold stat_eqb. lia. Qed.

  (* the next check is never scheduled later than one interval after the lookup that scheduled it *)
  Lemma refresh_expires_bound s now file : r_expires (refresh s now file) <= Z.max (r_expires s) (now + refresh_interval).
  Proof.
    unfold refresh. destruct (now <? r_expires s); [lia|].
    destruct file as [f|]; [destruct (remembered s (s_stat f))|]; cbn [r_expires]; lia.
  Qed.
  Lemma run_expires_bound evs : forall s tc, (forall e, In e evs -> fst e <= tc) -> r_expires s <= tc + refresh_interval ->
    r_expires (run s evs) <= tc + refresh_interval.
  Proof.
    induction evs as [|e r IH]; intros s tc Ht Hs; [exact Hs|].
    unfold Refresh.run in *. cbn [fold_left]. apply IH; [intros e' He'; apply Ht; right; exact He'|].
    pose proof (refresh_expires_bound s (fst e) (snd e)) as H. specialize (Ht e (or_introl eq_refl)). lia.
  Qed.

  (* "honest" for f: if f's stat is the remembered one, the table is already the one parsed from f *)
  Definition honest (s : rstate) (f : fsnap) : Prop := remembered s (s_stat f) = true -> r_tbl s = parse (s_content f).

  Lemma refresh_honest s now f : honest s f -> honest (refresh s now (Some f)) f.
  Proof.
    intros H. unfold refresh. destruct (now <? r_expires s); [exact H|].
    destruct (remembered s (s_stat f)) eqn:E; [exact H|]. intros _. reflexivity.
  Qed.
  Lemma refresh_syncs s now f : honest s f -> r_expires s <= now -> in_sync (refresh s now (Some f)) f.
  Proof.
    intros H Hn. unfold refresh. replace (now <? r_expires s) with false by lia.
    destruct (remembered s (s_stat f)) eqn:E; unfold Refresh.in_sync, Refresh.remembered; cbn [r_tbl r_info].
    - split; [apply H; exact E|exact E].
    - split; [reflexivity|apply stat_eqb_refl].
  Qed.
  Lemma refresh_keeps_sync s now f : in_sync s f -> in_sync (refresh s now (Some f)) f.
  Proof.
    intros [Ht Hr]. unfold refresh. destruct (now <? r_expires s); [split; assumption|].
    rewrite Hr. split; assumption.
  Qed.
  Lemma run_keeps_sync evs f : forall s, (forall e, In e evs -> snd e = Some f) -> in_sync s f -> in_sync (run s evs) f.
  Proof.
    induction evs as [|e r IH]; intros s Hf Hs; [exact Hs|]. unfold Refresh.run in *. cbn [fold_left].
    apply IH; [intros e' He'; apply Hf; right; exact He'|]. rewrite (Hf e (or_introl eq_refl)). apply refresh_keeps_sync. exact Hs.
  Qed.

  (* while the file is f: either already in sync, or nothing was re-checked yet *)
  Lemma run_sync_or_waiting evs f : forall s, honest s f -> (forall e, In e evs -> snd e = Some f) ->
    in_sync (run s evs) f \/ (honest (run s evs) f /\ r_expires (run s evs) = r_expires s).
  Proof.
    induction evs as [|e r IH] using rev_ind; intros s Hh Hf; [right; split; [exact Hh|reflexivity]|].
    unfold Refresh.run in *. rewrite fold_left_app. cbn [fold_left].
    assert (Hfr : forall e', In e' r -> snd e' = Some f) by (intros e' He'; apply Hf; apply in_or_app; left; exact He').
    assert (He : snd e = Some f) by (apply Hf; apply in_or_app; right; left; reflexivity).
    rewrite He. destruct (IH s Hh Hfr) as [Hs|[Hh' He']].
    - left. apply refresh_keeps_sync. exact Hs.
    - destruct (fst e <? r_expires (fold_left (fun acc e0 => refresh acc (fst e0) (snd e0)) r s)) eqn:El.
      + right. unfold refresh at 1 3. rewrite El. split; [exact Hh'|exact He'].
      + left. apply refresh_syncs; [exact Hh'|lia].
  Qed.

  (* THE STATEMENT.  s: any state; evs1: the lookups made up to time tc (whatever was on disk then);
     from then on the file on disk is f; e: a lookup made at least one interval after tc.  After e (and
     after every later lookup) the table is the one parsed from f. *)
  Theorem table_catches_up s evs1 tc f pre e post :
    r_expires s <= tc + refresh_interval -> (forall e1, In e1 evs1 -> fst e1 <= tc) ->
    honest (run s evs1) f ->
    (forall e2, In e2 (pre ++ e :: post) -> snd e2 = Some f) ->
    tc + refresh_interval <= fst e ->
    in_sync (run s (evs1 ++ pre ++ [e])) f /\ in_sync (run s (evs1 ++ pre ++ e :: post)) f.
  Proof.
    intros Hs Ht Hh Hf He.
    assert (Hb : r_expires (run s evs1) <= tc + refresh_interval) by (apply run_expires_bound; assumption).
    assert (Hpre : forall e2, In e2 pre -> snd e2 = Some f) by (intros e2 H2; apply Hf; apply in_or_app; left; exact H2).
    assert (Hef : snd e = Some f) by (apply Hf; apply in_or_app; right; left; reflexivity).
    assert (Hpost : forall e2, In e2 post -> snd e2 = Some f) by (intros e2 H2; apply Hf; apply in_or_app; right; right; exact H2).
    assert (H1 : in_sync (run s (evs1 ++ pre ++ [e])) f).
    { unfold Refresh.run. rewrite !fold_left_app. cbn [fold_left]. rewrite Hef.
      destruct (run_sync_or_waiting pre f (run s evs1) Hh Hpre) as [Hsy|[Hh' He']].
      - apply refresh_keeps_sync. exact Hsy.
      - apply refresh_syncs; [exact Hh'|]. unfold Refresh.run in *. lia. }
    split; [exact H1|].
    replace (evs1 ++ pre ++ e :: post) with ((evs1 ++ pre ++ [e]) ++ post) by (rewrite <- !app_assoc; reflexivity).
    unfold Refresh.run in *. rewrite fold_left_app. apply run_keeps_sync; [exact Hpost|exact H1].
  Qed.

  (* a fresh object (nothing remembered, expired) is honest for every file: the first lookup loads it *)
  Lemma fresh_honest t f : honest (mkRS t None 0) f.
  Proof. intros H. discriminate. Qed.

  (* the other side: a change that keeps modification time and size is never seen *)
  Theorem same_stat_never_reloaded s f g evs :
    in_sync s f -> s_stat g = s_stat f -> (forall e, In e evs -> snd e = Some g) -> r_tbl (run s evs) = parse (s_content f).
  Proof.
    intros Hs Hst. revert s Hs. induction evs as [|e r IH]; intros s [Ht Hr] Hg; [exact Ht|].
    unfold Refresh.run in *. cbn [fold_left]. apply IH; [|intros e' He'; apply Hg; right; exact He'].
    rewrite (Hg e (or_introl eq_refl)). unfold refresh. destruct (fst e <? r_expires s); [split; assumption|].
    rewrite Hst, Hr. split; assumption.
  Qed.
End Facts.

(* non-vacuity on byte-length "tables": a file replaced by a longer one is picked up by a lookup six
   seconds later, not by one two seconds later *)
Example catch_up_demo :
  let f1 := mkSnapF (mkStat 100 3) [1;2;3] in
  let f2 := mkSnapF (mkStat 200 5) [1;2;3;4;5] in
  let s1 := run (list Z) (fun b => b) (mkRS [] None 0) [(1000, Some f1)] in
  r_tbl s1 = [1;2;3] /\
  r_tbl (run _ (fun b => b) s1 [(1000 + 2000000000, Some f2)]) = [1;2;3] /\
  r_tbl (run _ (fun b => b) s1 [(1000 + 2000000000, Some f2); (1000 + 6000000000, Some f2)]) = [1;2;3;4;5].
Proof. vm_compute. repeat split. Qed.
